// C61 (kernel): cache manager actions are performed only with the password that cachemgr_passwd requires, and never
// when disabled.
//
// Real code encoded: src/cache_manager.cc CacheManager::ParseUrl, ParseHeaders, CheckPassword, PasswdGet,
// ActionProtection, findAction, registerProfile - composed exactly as CacheManager::start() composes them:
//     cmd = ParseUrl(request->url)  (exception => error reply, nothing performed)
//     ParseHeaders(request, cmd->params)
//     CheckPassword(*cmd) != 0     => 401, nothing performed;   otherwise the action is created and run.
//
// Configuration (Config.passwd_list, built the way parse_cachemgrpasswd() builds it: one node per cachemgr_passwd line in
// squid.conf order): 0..2 lines; each line's password is "disable", "none" or a secret of 1..3 symbolic bytes; each line
// lists one of {info} {shutdown} {all} {info,shutdown} {shutdown,all}.
// Registered actions: info (public), menu (public), shutdown (needs a password).
// Request: /squid-internal-mgr/<action> with action in {info, menu, shutdown, nosuch} or "men" + one symbolic byte;
// credentials: none, or "Basic" credentials user ':' password with a password of 0..3 symbolic bytes (which may contain ':').
// Oracle: the squid.conf documentation of cachemgr_passwd (src/cf.data.pre), see expected().
#include "squid.h"
#include <sstream>
#include <functional>
#include <chrono>
#include <atomic>
#include <iostream>
#include <string>
#include <vector>
#include <list>
#include <map>
#include <unordered_map>
#include <memory>
#include <algorithm>
#include "debug/Stream.h"
#include "SquidString.h"
#include "sbuf/SBuf.h"
#include "base/RefCount.h"
#include "base/TextException.h"
#define private public
#define protected public
#include "CacheManager.h"
#include "HttpRequest.h"
#include "anyp/Uri.h"
#undef private
#undef protected
#include "mgr/ActionPasswordList.h"
#include "mgr/ActionProfile.h"
#include "mgr/Command.h"
#include "SquidConfig.h"
#include "common.h"

#ifdef VF_THOROUGH
#define NPW 3       // longest secret (entry with up to one line)
#define NPW2 2      // longest secret (entry with two lines)
#else
#define NPW 2
#define NPW2 1
#endif

// ---------------------------------------------------------------- environment
// HttpHeader.cc is not linked. The Authorization field and its base64 layer (HttpHeader::getAuthToken; base64 is C36)
// are replaced by this stub, which hands ParseHeaders() the decoded "user:password" credentials chosen by the harness.
static SBuf *credentials;   // nil = no (usable) Authorization: Basic field
SBuf HttpHeader::getAuthToken(Http::HdrType id, const char *scheme) const
{
    vf_assert(id == Http::HdrType::AUTHORIZATION && !strcmp(scheme, "Basic"), "cache manager reads Basic credentials from Authorization");
    return credentials ? *credentials : SBuf();
}
Mgr::ActionPasswordList::~ActionPasswordList() {}    // cache_cf.cc is not linked; lists are never destroyed here

// ---------------------------------------------------------------- configuration
enum Kind { DISABLE, NONE, SECRET };
struct Line { Kind kind; char secret[4]; unsigned nsecret; bool lists[3]; /* info, shutdown, all */ };
static const char *listNames[3] = {"info", "shutdown", "all"};

static Mgr::ActionPasswordList *configure(Line *lines, const unsigned nlines, const unsigned maxSecret)
{
    Mgr::ActionPasswordList *head = nullptr, **tail = &head;
    for (unsigned i = 0; i < nlines; ++i) {
        Line &L = lines[i];
        L.kind = (Kind)vf_choose(3, "kind");
        L.nsecret = 0;
        if (L.kind == SECRET) {
            L.nsecret = 1 + vf_choose(maxSecret, "secretLen");
            for (unsigned k = 0; k < L.nsecret; ++k) { L.secret[k] = (char)vf_nondet_u8("secret"); vf_assume(L.secret[k] != 0); }
        }
        L.secret[L.nsecret] = 0;
        // the words "disable" and "none" are the other two kinds
        const unsigned shape = vf_choose(5, "actions");  // {info} {shutdown} {all} {info,shutdown} {shutdown,all}
        L.lists[0] = shape == 0 || shape == 3;
        L.lists[1] = shape == 1 || shape == 3 || shape == 4;
        L.lists[2] = shape == 2 || shape == 4;
        auto *p = new Mgr::ActionPasswordList;
        p->passwd = xstrdup(L.kind == DISABLE ? "disable" : L.kind == NONE ? "none" : L.secret);
        for (int a = 0; a < 3; ++a) if (L.lists[a]) p->actions.push_back(SBuf(listNames[a]));
        *tail = p; tail = &p->next;
    }
    return head;
}

// ---------------------------------------------------------------- oracle: cachemgr_passwd as documented
//   "cachemgr_passwd password action action ..."; "To disable an action, set the password to "disable". To allow performing
//   an action without a password, set the password to "none". Use the keyword "all" to set the same password for all
//   actions."; actions marked * "will not be performed without a valid password, others can be performed if not listed".
//   Default: "No password. Actions which require password are denied."
// When several lines cover an action the first one counts (parse_cachemgrpasswd() reports the later one as
// "already has a password").
static bool expected(const Line *lines, const unsigned nlines, const char *action, const bool registered, const bool needsPassword,
                     const bool havePassword, const char *given, const unsigned ngiven)
{
    if (!registered)
        return false;                       // unknown actions are never performed
    for (unsigned i = 0; i < nlines; ++i) {
        const Line &L = lines[i];
        bool covers = L.lists[2];
        for (int a = 0; a < 2; ++a) if (L.lists[a] && !strcmp(listNames[a], action)) covers = true;
        if (!covers) continue;
        if (L.kind == DISABLE) return false;
        if (L.kind == NONE) return true;
        if (!havePassword || ngiven != L.nsecret) return false;
        for (unsigned k = 0; k < ngiven; ++k) if (given[k] != L.secret[k]) return false;
        return true;
    }
    return !needsPassword;
}

// ---------------------------------------------------------------- the check
static bool onlyPasswordsWithNul = false; // set by c61_known_password_nul only
static void manager(const unsigned minLines, const unsigned maxLines, const unsigned maxSecret, const bool oddActions)
{
    vf_quiet();
    CacheManager *mgr = new CacheManager;
    static const struct { const char *name; Mgr::Protected prot; } acts[3] = {
        {"info", Mgr::Protected::no}, {"menu", Mgr::Protected::no}, {"shutdown", Mgr::Protected::yes} };
    for (const auto &a : acts)
        mgr->registerProfile(new Mgr::ActionProfile(a.name, "description", nullptr, a.prot, Mgr::Atomic::yes, Mgr::Format::informal));

    Line lines[2];
    const unsigned nlines = minLines + vf_choose(maxLines - minLines + 1, "lines");
    Config.passwd_list = configure(lines, nlines, maxSecret);

    // requested action
    char action[16];
    const unsigned which = vf_choose(oddActions ? 5 : 3, "action");   // without oddActions: the three registered names only
    static const char *names[4] = {"info", "menu", "shutdown", "nosuch"};
    if (which < 4) strcpy(action, names[which]);
    else { strcpy(action, "men?"); action[3] = (char)vf_nondet_u8("actionByte"); vf_assume(action[3] != 0); }
    // what the URL syntax makes of it: '?' and '#' end the action name (an empty query / a fragment)
    char named[16]; strcpy(named, action);
    if (which == 4 && (action[3] == '?' || action[3] == '#')) named[3] = 0;
    bool registered = false, needsPassword = false;
    for (const auto &a : acts) if (!strcmp(a.name, named)) { registered = true; needsPassword = a.prot == Mgr::Protected::yes; }

    // credentials
    char given[8] = {0, 0, 0, 0, 0, 0, 0, 0}; unsigned ngiven = 0;
    const bool havePassword = vf_choose(2, "credentials");
    if (havePassword) {
        ngiven = vf_choose(maxSecret + 2, "givenLen");     // 0..maxSecret+1 bytes
        // KNOWN FINDING C61-password-nul (known_findings.json): CheckPassword() compares with String::operator!=, i.e. strcmp()
        // on the C strings, so decoded Basic credentials whose password continues after a NUL byte ("secret\0anything") are
        // accepted as "secret": the assertion (*) fails. The class (supplied passwords containing a NUL byte) is examined by
        // its own entry, c61_known_password_nul; every other entry excludes exactly this class.
        int hasNul = 0;
        for (unsigned k = 0; k < ngiven; ++k) { given[k] = (char)vf_nondet_u8("given"); hasNul |= (given[k] == 0); }
        vf_assume((hasNul != 0) == onlyPasswordsWithNul);
        credentials = new SBuf("u:");
        credentials->append(given, ngiven);
    } else {
        vf_assume(!onlyPasswordsWithNul);
        credentials = nullptr;
    }

    // the request: zeroed raw HttpRequest (no constructor chain); ParseUrl reads url, ParseHeaders reads method, flags and
    // (through the stub above) the Authorization credentials
    HttpRequest *request = static_cast<HttpRequest *>(xcalloc(1, sizeof(HttpRequest)));
    ::new (static_cast<void *>(&request->method)) HttpRequestMethod(Http::METHOD_GET);
    ::new (static_cast<void *>(&request->url)) AnyP::Uri();
    AnyP::UriScheme::Init();
    request->url.scheme_ = AnyP::UriScheme(AnyP::PROTO_HTTP);
    strcpy(request->url.host_, "proxy.example");
    request->url.port_ = 3128;
    SBuf path(CacheManager::WellKnownUrlPathPrefix());
    path.append(action, strlen(action));
    request->url.path_ = path;

    // ---- CacheManager::start(), up to the point where the action would be created and run
    bool performed = false;
    const char *performedName = nullptr;
    try {
        Mgr::Command::Pointer cmd = mgr->ParseUrl(request->url);
        mgr->ParseHeaders(request, cmd->params);
        if (mgr->CheckPassword(*cmd) == 0) {
            performed = true;
            performedName = cmd->profile->name;
        }
    } catch (const std::exception &) {
        performed = false; // "request URL error": an error page, no action
    }

    const bool expect = expected(lines, nlines, named, registered, needsPassword, havePassword, given, ngiven);
    vf_observe("performed", performed);
    vf_observe("expected", expect);
    vf_assert(performed == expect, "the action is performed iff cachemgr_passwd allows it for the supplied password (*)");
    if (performed)
        vf_assert(!strcmp(performedName, named), "the action performed is the one named in the URL");
    vf_reach(performed ? "performed" : "refused");
    if (nlines && lines[0].kind == DISABLE) vf_reach("disable-line");
    if (nlines && lines[0].kind == SECRET && performed && havePassword) vf_reach("secret-accepted");
    WITNESS_POINT();
}

extern "C" void c61_upto_one_line(void) { manager(0, 1, NPW, true); }
extern "C" void c61_two_lines(void) { manager(2, 2, NPW2, false); }
// KNOWN FINDING (known_findings.json, C61-password-nul): one cachemgr_passwd line with a 1-byte secret, supplied passwords of
// 1..2 bytes containing a NUL byte
extern "C" void c61_known_password_nul(void) { onlyPasswordsWithNul = true; manager(1, 1, 1, false); }
