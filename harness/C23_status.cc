// C23: status-line parsing is correct and segmentation-independent.
// The real Http1::ResponseParser is driven exactly as HttpStateData::processReplyHeader() drives it
// (parse(inBuf); inBuf = remaining(); append the next segment; parse again while needsMoreData()).
//  (a) differential: whole input in one piece vs. every split point (thorough: every pair of split points);
//  (b) the one-shot outcome against an independent status-line recogniser written from RFC 9112 section 4
//      (status-line = HTTP-version SP status-code SP [reason-phrase], then CRLF; status-code = 3DIGIT;
//      reason-phrase = 1*(HTAB / SP / VCHAR / obs-text)) with the status range 100..599 demanded by the property,
//      and - only when relaxed_header_parser is on - Squid's documented tolerances: SP/HTAB/VT/FF/CR as the
//      delimiter, bare LF as the line end (http/one/Parser.cc RelaxedDelimiterCharacters, skipLineTerminator);
//  (c) anything that neither starts with "HTTP/1." / "ICY " nor is a proper prefix of them is an HTTP/0.9 body.
// Symbolic: the bytes marked \x01 in each family's skeleton (all 256 values), relaxed_header_parser.
#include "http1.h"
#include "http/one/ResponseParser.h"

// parsingStage_ is protected: read it through a derived class (no Squid code is copied or changed)
struct PeekParser : public Http1::ResponseParser {
    bool pastFirstLine() const { return parsingStage_ == Http1::HTTP_PARSE_MIME || parsingStage_ == Http1::HTTP_PARSE_DONE; }
};

struct Outcome {
    bool ok, more, lineDone;
    int parseStatus, proto, status;
    unsigned major, minor, consumed;
    SBuf reason, mime;
};

// segments: [0,s1) [s1,s2) [s2,n); empty segments produce no read event
static Outcome drive(const uint8_t *in, const unsigned n, const unsigned s1, const unsigned s2)
{
    PeekParser hp;
    SBuf inBuf;
    unsigned delivered = 0;
    const unsigned cuts[3] = {s1, s2, n};
    Outcome o;
    o.ok = false;
    for (int k = 0; k < 3; ++k) {
        if (cuts[k] == delivered && !(k == 2 && n == 0))
            continue;
        inBuf.append(reinterpret_cast<const char *>(in) + delivered, cuts[k] - delivered);
        delivered = cuts[k];
        o.ok = hp.parse(inBuf);
        inBuf = hp.remaining(); // "sync the buffers after parsing"
        if (!hp.needsMoreData())
            break;
    }
    o.more = hp.needsMoreData();
    o.lineDone = hp.pastFirstLine();
    o.parseStatus = hp.parseStatusCode;
    o.proto = hp.messageProtocol().protocol;
    o.major = hp.messageProtocol().major;
    o.minor = hp.messageProtocol().minor;
    o.status = hp.messageStatus();
    o.reason = hp.reasonPhrase();
    o.mime = hp.mimeHeader();
    o.consumed = delivered - inBuf.length();
    return o;
}

static void same(const Outcome &a, const Outcome &b)
{
    vf_assert(a.more == b.more, "segmented and one-shot parse agree on needs-more-data");
    vf_assert(a.ok == b.ok, "segmented and one-shot parse agree on success");
    // after a rejection the caller discards the reply, so the consumed length is part of the outcome only while
    // the parser wants more data or has accepted the message
    if (a.more || a.ok)
        vf_assert(a.consumed == b.consumed, "segmented and one-shot parse consume the same number of bytes");
    if (!a.more)
        vf_assert(a.parseStatus == b.parseStatus, "same parse status code");
    vf_assert(a.lineDone == b.lineDone, "segmented and one-shot parse agree on whether the status line is complete");
    if (a.ok || a.lineDone) {
        vf_assert(a.proto == b.proto && a.major == b.major && a.minor == b.minor, "same protocol version");
        vf_assert(a.status == b.status, "same status code");
        vf_assert(sbufEq(a.reason, b.reason), "same reason phrase");
    }
    if (a.ok)
        vf_assert(sbufEq(a.mime, b.mime), "same header block");
}

// ---- independent recogniser of the first line
enum { K_EMPTY, K_PREFIX, K_BODY09, K_INCOMPLETE, K_REJECT, K_ACCEPT };
struct Ref { int kind; bool icy; unsigned minor, status, rB, rE; };

static bool startsWith(const uint8_t *in, unsigned n, const char *s, unsigned sl) { if (n < sl) return false; for (unsigned i = 0; i < sl; ++i) if (in[i] != (uint8_t)s[i]) return false; return true; }
static bool isPrefixOf(const uint8_t *in, unsigned n, const char *s, unsigned sl) { if (n >= sl) return false; for (unsigned i = 0; i < n; ++i) if (in[i] != (uint8_t)s[i]) return false; return true; }
static inline bool isDigit(uint8_t c) { return c >= '0' && c <= '9'; }
static inline bool isDelim(uint8_t c, bool relaxed) { return c == ' ' || (relaxed && (c == '\t' || c == 0x0b || c == 0x0c || c == '\r')); }
static inline bool isPhrase(uint8_t c) { return c == '\t' || c == ' ' || (c >= 0x21 && c <= 0x7e) || c >= 0x80; }

static Ref recognise(const uint8_t *in, const unsigned n, const bool relaxed)
{
    Ref r = {};
    if (n == 0) { r.kind = K_EMPTY; return r; }
    unsigned p;
    if (startsWith(in, n, "HTTP/1.", 7)) p = 7;
    else if (startsWith(in, n, "ICY ", 4)) { p = 4; r.icy = true; }
    else if (isPrefixOf(in, n, "HTTP/1.", 7) || isPrefixOf(in, n, "ICY ", 4)) { r.kind = K_PREFIX; return r; }
    else { r.kind = K_BODY09; return r; }
    unsigned e = p;
    while (e < n && in[e] != '\n') ++e;
    if (e == n) { r.kind = K_INCOMPLETE; return r; }   // the line has not ended yet: must not be accepted
    // in[e] is the first LF: every index used below is <= e because LF is neither digit, delimiter nor phrase character
    r.kind = K_REJECT;
    if (!r.icy) {
        if (!isDigit(in[p])) return r;
        r.minor = in[p] - '0';
        if (!isDelim(in[p + 1], relaxed)) return r;
        p += 2;
    }
    if (!isDigit(in[p]) || !isDigit(in[p + 1]) || !isDigit(in[p + 2])) return r;
    r.status = (in[p] - '0') * 100 + (in[p + 1] - '0') * 10 + (in[p + 2] - '0');
    if (!isDelim(in[p + 3], relaxed)) return r;
    p += 4;
    if (r.status < 100 || r.status > 599) return r;
    r.rB = p;
    while (isPhrase(in[p])) ++p;
    r.rE = p;
    if (in[p] == '\r' && p + 1 == e) ;               // CRLF
    else if (relaxed && p == e) ;                      // relaxed: bare LF
    else return r;
    r.kind = K_ACCEPT;
    return r;
}

static void check(const uint8_t *in, const unsigned n, const bool relaxed)
{
    const Ref r = recognise(in, n, relaxed);
    const Outcome whole = drive(in, n, n, n);
    vf_observe("ok", whole.ok); vf_observe("more", whole.more); vf_observe("pstatus", whole.parseStatus);
    vf_observe("consumed", whole.consumed); vf_observe("status", whole.status); vf_observe("reason", sbufHash(whole.reason));
    vf_observe("mime", sbufHash(whole.mime)); vf_observe("ver", whole.major * 10 + whole.minor);

    const bool rejected = !whole.more && !whole.ok && whole.parseStatus == Http::scInvalidHeader;
    const bool lineAccepted = whole.lineDone && !rejected;
    switch (r.kind) {
    case K_EMPTY:
    case K_PREFIX:
        vf_assert(whole.more && !whole.ok && whole.consumed == 0, "a proper prefix of the HTTP/ICY magic only asks for more data");
        vf_reach("prefix");
        break;
    case K_BODY09:
        vf_assert(whole.ok && !whole.more, "anything not starting with an HTTP/ICY prefix is accepted as an HTTP/0.9 response");
        vf_assert(whole.consumed == 0, "an HTTP/0.9 response is all body: nothing is consumed");
        vf_assert(whole.status == Http::scOkay && whole.proto == AnyP::PROTO_HTTP && whole.major == 1 && whole.minor == 1, "an HTTP/0.9 response is gatewayed as HTTP/1.1 200");
        vf_reach("body09");
        break;
    case K_INCOMPLETE:
        vf_assert(!lineAccepted && !whole.ok, "a status line is not accepted before its line terminator arrived");
        vf_reach(whole.more ? "incomplete" : "early-reject");
        break;
    case K_REJECT:
        vf_assert(!lineAccepted && !whole.ok, "a status line is accepted only if it matches the grammar with a three-digit status in 100..599");
        vf_assert(rejected, "a complete malformed status line is rejected");
        vf_reach("reject");
        break;
    case K_ACCEPT: {
        vf_assert(lineAccepted, "a well-formed status line is accepted");
        vf_assert(whole.proto == (r.icy ? AnyP::PROTO_ICY : AnyP::PROTO_HTTP), "protocol is the one named by the magic");
        if (!r.icy)
            vf_assert(whole.major == 1 && whole.minor == r.minor, "extracted version is the grammar's HTTP-version");
        vf_assert((unsigned)whole.status == r.status, "extracted status is the grammar's status-code");
        bool sameReason = whole.reason.length() == r.rE - r.rB;
        for (unsigned i = 0; sameReason && i < whole.reason.length(); ++i)
            if ((uint8_t)whole.reason[i] != in[r.rB + i]) sameReason = false;
        vf_assert(sameReason, "extracted reason is the grammar's reason-phrase");
        vf_reach("accept");
        break;
    }
    }

    for (unsigned s = 1; s < n; ++s) {
        same(drive(in, n, s, s), whole);
#ifdef VF_THOROUGH
        for (unsigned t = s + 1; t < n; ++t)
            same(drive(in, n, s, t), whole);
#endif
    }
    WITNESS_POINT();
}

static int relaxedSetting()
{
#ifdef VF_THOROUGH
    const int r = (int)vf_range(0, 2, "relaxed") - 1; // -1 (warn), 0 (off), 1 (on)
#else
    const int r = (int)vf_range(0, 1, "relaxed");
#endif
    return (int)vf_concretize((uint64_t)(r + 1)) - 1;
}

// One entry = a few skeletons (chosen by a concretised selector); every \x01 is a fully symbolic byte.
static void families(const char *const *lits, const unsigned count)
{
    const int rel = relaxedSetting();
    http1Config(rel, 65536, 65536);
    const char *lit = lits[vf_concretize(vf_range(0, count - 1, "skeleton"))];
    uint8_t in[80];
    const unsigned n = vf_fill(in, lit, strlen(lit), "b");
    check(in, n, rel != 0);
}
#define FAMILIES(fn, ...) extern "C" void fn(void) { static const char *const l[] = {__VA_ARGS__}; families(l, sizeof(l) / sizeof(*l)); }

#ifdef VF_THOROUGH
#define X1 "\x01"
#define XD "\x01"
#else
#define X1
#define XD " "
#endif
FAMILIES(c23_status,
    "HTTP/1.1 \x01\x01\x01" XD "OK\r\n\r\n",                 // the three status bytes (thorough: and the delimiter)
    "HTTP/1.1 0\x01\x01\x01 OK\r\n\r\n")                     // leading zero: three- and four-digit numbers
FAMILIES(c23_delims,
    "HTTP/1.\x01\x01" "200\x01OK\x01\n\r\n",                // minor version digit, both delimiters, byte before LF
    "ICY\x01" "40\x01\x01" "\r\n\r\n",                     // ICY magic end, last status digit, delimiter
    "HTTP/1.\x01\x01 200 OK\r\n\r\n")                      // one- and two-digit minor versions
FAMILIES(c23_reason,
    "HTTP/1.0 404 \x01\x01\x01" X1 "\n\r\n",                // reason bytes and the line end
    "HTTP/1.1 200\x01\x01\x01")                             // what may follow the status
FAMILIES(c23_magic,
    "\x01TTP\x01" "1\x01" "1 200 OK\r\n\r\n",               // damaged magic: HTTP/0.9 body
    "\x01" "C\x01 200 OK\r\n\r\n")
FAMILIES(c23_head,
    "HTTP/1.1 200 OK\x01\nA: b\x01\x01\r\n\x01\n")          // line end and header block (field end, fold, terminator)

// short fully symbolic inputs: prefixes of the magic vs. HTTP/0.9 bodies
#ifdef VF_THOROUGH
#define NFULL 7
#else
#define NFULL 5
#endif
extern "C" void c23_any(void)
{
    const int rel = relaxedSetting();
    http1Config(rel, 65536, 65536);
    const unsigned n = (unsigned)vf_concretize(vf_range(0, NFULL, "len"));
    uint8_t in[NFULL + 1];
    for (unsigned i = 0; i < n; ++i) in[i] = vf_nondet_u8("b");
    check(in, n, rel != 0);
}
