// C56: Ipc::OneToOneUniQueue + QueueReader: FIFO, no lost or duplicated items, no lost wakeups.
// One producer thread pushes K items (retrying when the queue is full, and "sending a notification" exactly when
// push() returns true); one consumer thread follows the protocol of IpcIoFile/CollapsedForwarding: at start and on
// every notification it clears the reader signal and pops until pop() reports empty, then sleeps until the next
// notification. Every interleaving at atomic-instruction granularity is explored (sequential consistency).
// A lost wakeup shows up as: the producer has finished, no notification is pending, items remain unreceived.
#include "squid.h"
#include "ipc/Queue.h"
#include "common.h"
#include <new>

static Ipc::OneToOneUniQueue *q;
static Ipc::QueueReader *reader;
static int K = 2;
// ghost state
static int notifPending, received, producerDone, pushed;

static void producer(void *)
{
    for (int i = 0; i < K; ++i) {
        while (q->full())
            vf_yield(); // queue full: come back later (only this thread pushes, so push() below cannot throw Full)
        const int item = 100 + i;
        if (q->push(item, reader))
            ++notifPending; // Notify(): the message will be handled by the consumer at some later point
        ++pushed;
    }
    producerDone = 1;
}

static void drain()
{
    int v = -1;
    while (q->pop(v, reader)) {
        vf_assert(v == 100 + received, "items are received in push order, without loss or duplication");
        ++received;
    }
}

static void consumer(void *)
{
    // HandleMessagesAtStart()
    reader->clearSignal();
    drain();
    while (received < K) {
        vf_yield(); // asleep until a notification arrives
        if (!notifPending) {
            vf_assert(!producerDone, "lost wakeup: items remain, the producer is done, and no notification is pending");
            continue;
        }
        --notifPending; // HandleNotification()
        reader->clearSignal();
        drain();
    }
}

static void run(const int k, const int capacity)
{
    vf_quiet();
    K = k;
    void *mem = xcalloc(1, sizeof(Ipc::OneToOneUniQueue) + capacity * sizeof(int));
    q = new (mem) Ipc::OneToOneUniQueue(sizeof(int), capacity);
    reader = new Ipc::QueueReader;
    notifPending = received = producerDone = pushed = 0;
    vf_spawn(producer, nullptr);
    vf_spawn(consumer, nullptr);
    vf_join();
    vf_assert(pushed == K && received == K, "every pushed item was received");
    vf_assert(q->empty(), "queue is empty at the end");
    vf_reach("done");
    WITNESS_POINT();
}
extern "C" void c56_k2_cap2(void) { run(2, 2); }
extern "C" void c56_k3_cap2(void) { run(3, 2); }
extern "C" void c56_k3_cap1(void) { run(3, 1); }
extern "C" void c56_k4_cap2(void) { run(4, 2); }
extern "C" void c56_k5_cap4(void) { run(5, 4); }
extern "C" void c56_k6_cap2(void) { run(6, 2); }
extern "C" void c56_k8_cap4(void) { run(8, 4); }
