// C48: SBuf values behave as independent values.
// Real SBuf/MemBlob code; every SBuf s[k] is shadowed by a plain byte array m[k] (the "independent std::string value").
// Operations (opcode, target, source: case-split; arguments: symbolic 32-bit values incl. npos and out-of-range) are
// applied to both; after EVERY operation EVERY SBuf (not just the target) is compared with its reference, so a write
// through shared storage, a missed copy-on-write or a wrong offset shows up as a difference in some value.
// Limit violations must throw TextException and leave every value unchanged.
// Symbolic: content bytes over {a,B} (case-split instead of symbolic in c48_case and concrete in c48_big: see there), op arguments.
// Concrete per path: opcode, which SBuf, lengths (case-split by the solver).
// The spec compiles with -DC48_SHOW_FINDINGS=1, which removes the two exclusions below: both defects (chop()/substr() count wrap,
// rawAppendStart() beyond maxSize) are repaired in /repo (two "fix: SBuf::..." commits), so those arguments are part of the check.
#include "squid.h"
#include "common.h"
#include "base/CharacterSet.h"
#include "base/TextException.h"
#define private public   // only for settle() below
#include "sbuf/SBuf.h"
#undef private
#include "sbuf/Algorithms.h"
#include "sbuf/Stats.h"
#include <cstring>

static const uint32_t NPOS = SBuf::npos;
static const uint64_t MAXSIZE = SBuf::maxSize;

// ---------------------------------------------------------------- reference values: plain bytes, no sharing
template <unsigned CAP> struct StrT {
    uint8_t b[CAP];
    uint32_t n = 0;
    // substring with the clamping SBuf documents for chop()/substr(): pos beyond the end = end, n beyond the end = up to the end
    static StrT sub(const StrT &x, uint32_t pos, uint32_t cnt) {
        StrT r;
        if (pos > x.n) pos = x.n;
        if (cnt > x.n - pos) cnt = x.n - pos;
        for (uint32_t i = 0; i < cnt; ++i) r.b[i] = x.b[pos + i];
        r.n = cnt;
        return r;
    }
    void app(const StrT &y) { const StrT c = y; vf_assume(n + c.n <= CAP); for (uint32_t i = 0; i < c.n; ++i) b[n + i] = c.b[i]; n += c.n; }
    void push(uint8_t c) { vf_assume(n < CAP); b[n++] = c; }
    bool has(uint8_t c) const { for (uint32_t i = 0; i < n; ++i) if (b[i] == c) return true; return false; }
};
static uint8_t lowerOf(uint8_t c) { return c >= 'A' && c <= 'Z' ? c + 32 : c; }
static uint8_t upperOf(uint8_t c) { return c >= 'a' && c <= 'z' ? c - 32 : c; }
static int signOf(int v) { return v < 0 ? -1 : v > 0 ? 1 : 0; }

// std::string::find/rfind semantics
template <class S> static uint32_t refFind(const S &h, const S &nd, uint32_t pos) {
    if (pos > h.n) return NPOS;
    for (uint32_t i = pos; i + nd.n <= h.n; ++i) { bool eq = true; for (uint32_t j = 0; j < nd.n; ++j) if (h.b[i + j] != nd.b[j]) { eq = false; break; } if (eq) return i; }
    return NPOS;
}
template <class S> static uint32_t refRfind(const S &h, const S &nd, uint32_t pos) {
    if (nd.n > h.n) return NPOS;
    uint32_t i = h.n - nd.n; if (pos < i) i = pos;
    for (;; --i) { bool eq = true; for (uint32_t j = 0; j < nd.n; ++j) if (h.b[i + j] != nd.b[j]) { eq = false; break; } if (eq) return i; if (!i) return NPOS; }
}
// sign of std::string(a,0,n).compare(std::string(b,0,n)), optionally on lower-cased bytes
template <class S> static int refCmp(const S &a, const S &b, uint32_t n, bool nocase) {
    const uint32_t la = a.n < n ? a.n : n, lb = b.n < n ? b.n : n;
    for (uint32_t i = 0; i < la && i < lb; ++i) {
        const uint8_t x = nocase ? lowerOf(a.b[i]) : a.b[i], y = nocase ? lowerOf(b.b[i]) : b.b[i];
        if (x != y) return x < y ? -1 : 1;
    }
    return la < lb ? -1 : la > lb ? 1 : 0;
}

// ---------------------------------------------------------------- arguments: symbolic, or taken from a script (sequence families)
static const uint32_t BIG = 0xfffffff0u;  // script marker: a fresh symbolic value in (64, 2^32) -- beyond every length here, includes npos
static const uint32_t *script = nullptr;
static bool caseInsensitiveOps = false;   // c48_case: the case-insensitive variants (their ctype table lookups want concrete bytes)
static bool concreteLetters = false;
static unsigned nLetters = 2;
static unsigned pick(unsigned n, const char *name) { return (unsigned)vf_concretize(vf_range(0, n - 1, name)); }
// a position/count: values 0..lim are case-split, everything above (out-of-range values and npos) stays one symbolic class
static uint32_t anyArg(const char *name, uint32_t lim)
{
    if (script) {
        const uint32_t v = *script++;
        if (v != BIG) return v;
        const uint32_t w = vf_nondet_u32(name); vf_assume(w > 64); return w;
    }
    const uint32_t v = vf_nondet_u32(name);
    return v <= lim ? (uint32_t)vf_concretize(v) : v;
}
static unsigned choose(unsigned n, const char *name) { if (!script) return pick(n, name); const uint32_t v = *script++; vf_assume(v < n); return v; }
static bool flag(const char *name) { if (script) return *script++ != 0; return vf_bool(name); }
static uint8_t letter(const char *name)
{
    const uint8_t c = vf_nondet_u8(name);
    vf_assume(c == 'a' || c == 'B' || (nLetters > 2 && c == 'A'));
    return concreteLetters ? (uint8_t)vf_concretize(c) : c;
}
static uint8_t probeChar(const char *name) { const uint8_t c = vf_nondet_u8(name); vf_assume(c == 'a' || c == 'B' || c == 'b' || c == 'A'); return c; }

enum Op { // mutators
    oAssign, oAssignSub, oAppend, oAppendSub, oAppendRaw, oAppendChar, oAppendCstr, oAssignCstr, oConsume, oChop, oTrim, oSetAt, oClear,
    oReserveSpace, oReserveCapacity, oReserve, oCstr, oRawAppend, N_MUT,
    // queries
    oFindC = N_MUT, oFindS, oRfindC, oRfindS, oFirstOf, oLastOf, oCmp, oCmpCstr, oStarts, oEq, oAt, oCopy, oIter, N_OPS,
    // in c48_case only (with oCmp, oCmpCstr, oStarts)
    oLower = N_OPS, oUpper
};
static bool usesSource(unsigned op)
{
    switch (op) { case oAssign: case oAssignSub: case oAppend: case oAppendSub: case oAppendRaw: case oAssignCstr: case oConsume: case oTrim:
        case oFindS: case oRfindS: case oCmp: case oCmpCstr: case oStarts: case oEq: return true; }
    return false;
}

// Engine hint, identity in the native build: SBuf::consume() computes min(n,length()) without a branch, which leaves len_ as a
// symbolic term although the path condition fixes its value; write the (case-split) concrete value back so that later loops
// and memmove()s run on concrete lengths. Touches only off_/len_ and the blob's size/capacity, never changes a value.
static void settle(const SBuf &x)
{
    SBuf &w = const_cast<SBuf &>(x);
    w.off_ = (uint32_t)vf_concretize(w.off_); w.len_ = (uint32_t)vf_concretize(w.len_);
    if (MemBlob *b = w.store_.getRaw()) { b->size = (uint32_t)vf_concretize(b->size); b->capacity = (uint32_t)vf_concretize(b->capacity); }
}

template <unsigned CAP, unsigned K> struct World {
    typedef StrT<CAP> Str;
    SBuf s[K];
    Str m[K];
    bool sparse = false; // c48_big: compare the first 8, the last 24 and every 61st byte (contents there are concrete and position-dependent)

    void fresh(unsigned k, uint32_t len, const char *name) {  // SBuf(const char*, n) from symbolic letters
        char tmp[CAP]; m[k].n = len;
        for (uint32_t i = 0; i < len; ++i) tmp[i] = (char)(m[k].b[i] = letter(name));
        s[k] = SBuf(tmp, len);
    }
    bool same(const SBuf &x, const Str &r) const {
        if (x.length() != r.n) return false;
        unsigned diff = 0;
        for (uint32_t i = 0; i < r.n; ++i) { if (sparse && i >= 8 && i + 24 < r.n && i % 61) continue; diff |= (uint8_t)x[i] ^ r.b[i]; }
        return diff == 0;
    }
    void verify() {
        for (unsigned k = 0; k < K; ++k) {
            settle(s[k]);
            vf_assert(s[k].length() == m[k].n, "every SBuf has the length of its independent reference value");
            vf_assert(same(s[k], m[k]), "every SBuf has the contents of its independent reference value");
            vf_assert(s[k].isEmpty() == (m[k].n == 0), "isEmpty agrees");
            vf_observe("len", s[k].length());
        }
    }

    // one operation on s[t] (source s[u]); checks its direct result; the caller runs verify()
    void apply(const unsigned op, const unsigned t, const unsigned u)
    {
        bool threw = false, expectThrow = false;
        SBuf &T = s[t]; Str &M = m[t];
        const Str U = m[u]; // the source's value before the operation
        const bool nocase = caseInsensitiveOps;
        switch (op) {
        case oAssign: T = s[u]; M = U; break;
        case oAssignSub: { const uint32_t p = anyArg("pos", U.n + 1), n = anyArg("n", U.n + 1);
#ifndef C48_SHOW_FINDINGS
            // KNOWN-FINDING candidate: SBuf::chop() computes pos+n in 32 bits; for pos<=length, n != npos and pos+n >= 2^32 the sum
            // wraps, n is not clamped and len_ becomes ~4G (e.g. substr(2, 0xfffffffe) of "abc"). Excluded so that the rest is checked.
            vf_assume(n == NPOS || (uint64_t)(p > U.n ? U.n : p) + n <= 0xffffffffull);
#endif
            T = s[u].substr(p, n); M = Str::sub(U, p, n); break; }
        case oAppend: vf_assume(M.n + U.n <= CAP); T.append(s[u]); M.app(U); break;
        case oAppendSub: { const uint32_t p = anyArg("pos", 2), n = anyArg("n", 2);
#ifndef C48_SHOW_FINDINGS
            vf_assume(n == NPOS || (uint64_t)(p > U.n ? U.n : p) + n <= 0xffffffffull); // KNOWN-FINDING candidate: chop() wrap, as above
#endif
            const Str part = Str::sub(U, p, n); vf_assume(M.n + part.n <= CAP);
            T.append(s[u].substr(p, n)); M.app(part); break; }
        case oAppendRaw: { // append(const char *, n) from a pointer into s[u]'s (possibly T's own) storage: caller keeps [p,p+n) inside s[u]
            const uint32_t p = choose(U.n + 1, "rawpos"), n = choose(U.n - p + 1, "rawn");
            vf_assume(M.n + n <= CAP);
            T.append(s[u].rawContent() + p, n); M.app(Str::sub(U, p, n)); break; }
        case oAppendChar: { const uint8_t c = letter("char"); T.append((char)c); M.push(c); break; }
        case oAppendCstr: { Str lit; lit.n = 2; lit.b[0] = 'a'; lit.b[1] = 'B'; vf_assume(M.n + 2 <= CAP); T.append("aB"); M.app(lit); break; }
        case oAssignCstr: { // assign(const char*, n) from own storage (Locker) or the other's
            const uint32_t p = choose(U.n + 1, "rawpos"), n = choose(U.n - p + 1, "rawn");
            T.assign(s[u].rawContent() + p, n); M = Str::sub(U, p, n); break; }
        case oConsume: { const uint32_t n = anyArg("n", M.n + 1);
            const SBuf head = T.consume(n);
            settle(head);
            const Str h = Str::sub(M, 0, n);
            vf_assert(same(head, h), "consume() returns the first min(n,length) bytes");
            M = Str::sub(M, h.n, NPOS);
            if (u != t) { s[u] = head; m[u] = h; } // keep the consumed part alive in the other SBuf (it shares the storage)
            break; }
        case oChop: { const uint32_t p = anyArg("pos", M.n + 1), n = anyArg("n", M.n + 1);
#ifndef C48_SHOW_FINDINGS
            vf_assume(n == NPOS || (uint64_t)(p > M.n ? M.n : p) + n <= 0xffffffffull); // KNOWN-FINDING candidate: chop() wrap, as above
#endif
            T.chop(p, n); M = Str::sub(M, p, n); break; }
        case oTrim: { const bool atB = flag("atBeginning"), atE = flag("atEnd");
            T.trim(s[u], atB, atE);
            uint32_t lo = 0, hi = M.n; const Str cur = M;
            if (atE) while (hi > lo && U.has(cur.b[hi - 1])) --hi;
            if (atB) while (lo < hi && U.has(cur.b[lo])) ++lo;
            M = Str::sub(cur, lo, hi - lo); break; }
        case oLower: T.toLower(); for (uint32_t i = 0; i < M.n; ++i) M.b[i] = lowerOf(M.b[i]); break;
        case oUpper: T.toUpper(); for (uint32_t i = 0; i < M.n; ++i) M.b[i] = upperOf(M.b[i]); break;
        case oSetAt: { const uint32_t p = anyArg("pos", M.n + 1); const uint8_t c = letter("char");
            expectThrow = p >= M.n;
            try { T.setAt(p, (char)c); } catch (const TextException &) { threw = true; }
            if (!expectThrow) M.b[p] = c; break; }
        case oClear: T.clear(); M.n = 0; break;
        case oReserveSpace: { const uint32_t k = anyArg("space", 3);
            expectThrow = (uint64_t)M.n + k > MAXSIZE;
            vf_assume(k <= 3 || expectThrow); // sizes in between would really allocate up to 256 MB: outside the bounds
            try { T.reserveSpace(k); } catch (const TextException &) { threw = true; }
            if (!expectThrow && !threw) vf_assert(T.spaceSize() >= k, "reserveSpace() provides the space");
            break; }
        case oReserveCapacity: { const uint32_t k = anyArg("capacity", M.n + 2);
            expectThrow = k > MAXSIZE;
            vf_assume(k <= M.n + 2 || expectThrow);
            try { T.reserveCapacity(k); } catch (const TextException &) { threw = true; }
            break; }
        case oReserve: { SBufReservationRequirements req;
            req.minSpace = choose(2, "minSpace") * 2; req.idealSpace = choose(2, "idealSpace") * 3; req.allowShared = flag("allowShared");
            const unsigned cap = choose(4, "maxCapacity"); // unlimited, exactly the length, length+1, length+3
            req.maxCapacity = cap == 0 ? SBuf::maxSize : M.n + (cap == 1 ? 0 : cap == 2 ? 1 : 3);
            const uint32_t got = T.reserve(req);
            vf_assert(got == T.spaceSize(), "reserve() returns the available space");
            if ((uint64_t)M.n + req.minSpace <= req.maxCapacity) vf_assert(got >= req.minSpace, "reserve() provides minSpace when maxCapacity allows it");
            break; }
        case oCstr: { const char *z = T.c_str();
            unsigned diff = 0; for (uint32_t i = 0; i < M.n; ++i) { if (sparse && i >= 8 && i + 24 < M.n) continue; diff |= (uint8_t)z[i] ^ M.b[i]; }
            vf_assert(diff == 0 && z[M.n] == 0, "c_str() is the contents followed by NUL"); break; }
        case oRawAppend: { const uint32_t k = anyArg("anticipated", 3);
            expectThrow = (uint64_t)M.n + k > MAXSIZE;
            vf_assume(k <= 3 || expectThrow);
#ifndef C48_SHOW_FINDINGS
            // KNOWN-FINDING candidate: rawAppendStart(k) with k >= 2^32-1-length (k = npos on an empty SBuf) neither throws nor provides
            // the space: "maxSize - minSpace" and "minSpace+length()" wrap in rawSpace(), cow() reads the wrapped size as "no growth".
            vf_assume((uint64_t)M.n + k < 0xffffffffull);
#endif
            char *space = nullptr;
            try { space = T.rawAppendStart(k); } catch (const TextException &) { threw = true; }
            if (!threw && !expectThrow) {
                const uint32_t j = choose(k + 1, "actual"); vf_assume(M.n + j <= CAP);
                for (uint32_t i = 0; i < j; ++i) { const uint8_t c = letter("char"); space[i] = (char)c; M.push(c); }
                T.rawAppendFinish(space, j);
            }
            break; }
        // ---- queries: results equal those of the reference value
        case oFindC: { const uint8_t c = probeChar("char"); const uint32_t p = anyArg("pos", M.n + 1);
            Str nd; nd.n = 1; nd.b[0] = c;
            vf_assert(T.find((char)c, p) == refFind(M, nd, p), "find(char,pos) as std::string"); break; }
        case oFindS: { const uint32_t p = anyArg("pos", M.n + 1);
            vf_assert(T.find(s[u], p) == refFind(M, U, p), "find(SBuf,pos) as std::string"); break; }
        case oRfindC: { const uint8_t c = probeChar("char"); const uint32_t p = anyArg("pos", M.n + 1);
            Str nd; nd.n = 1; nd.b[0] = c;
            vf_assert(T.rfind((char)c, p) == refRfind(M, nd, p), "rfind(char,pos) as std::string"); break; }
        case oRfindS: { const uint32_t p = anyArg("pos", M.n + 1);
            vf_assert(T.rfind(s[u], p) == refRfind(M, U, p), "rfind(SBuf,pos) as std::string"); break; }
        case oFirstOf: { static const CharacterSet setA("setA", "aA"); const uint32_t p = anyArg("pos", M.n + 1); const bool neg = flag("notOf");
            uint32_t want = NPOS;
            for (uint32_t i = p; i < M.n; ++i) if (((M.b[i] | 0x20) == 'a') != neg) { want = i; break; }
            vf_assert((neg ? T.findFirstNotOf(setA, p) : T.findFirstOf(setA, p)) == want, "findFirst[Not]Of as std::string"); break; }
        case oLastOf: { static const CharacterSet setA("setA", "aA"); const uint32_t p = anyArg("pos", M.n + 1); const bool neg = flag("notOf");
            uint32_t want = NPOS;
            if (M.n) for (uint32_t i = p < M.n - 1 ? p : M.n - 1;; --i) { if (((M.b[i] | 0x20) == 'a') != neg) { want = i; break; } if (!i) break; }
            vf_assert((neg ? T.findLastNotOf(setA, p) : T.findLastOf(setA, p)) == want, "findLast[Not]Of as std::string"); break; }
        case oCmp: { const uint32_t n = anyArg("n", (M.n > U.n ? M.n : U.n) + 1);
            const int got = nocase ? T.caseCmp(s[u], n) : T.cmp(s[u], n);
            vf_assert(signOf(got) == refCmp(M, U, n, nocase), "cmp/caseCmp(SBuf,n) has the sign of std::string::compare");
            if (n == NPOS) {
                if (!nocase) vf_assert((T < s[u]) == (refCmp(M, U, NPOS, false) < 0) && (T >= s[u]) == (refCmp(M, U, NPOS, false) >= 0), "operator< / >=");
                vf_assert(SBufEqual(s[u], nocase ? caseInsensitive : caseSensitive)(T) == (refCmp(M, U, NPOS, nocase) == 0), "SBufEqual predicate");
                if (nocase) vf_assert(CaseInsensitiveSBufEqual()(T, s[u]) == (refCmp(M, U, NPOS, true) == 0), "CaseInsensitiveSBufEqual");
            }
            break; }
        case oCmpCstr: { const uint32_t n = anyArg("n", (M.n > U.n ? M.n : U.n) + 1);
            char z[CAP + 1]; for (uint32_t i = 0; i < U.n; ++i) z[i] = (char)U.b[i]; z[U.n] = 0;
            const int got = nocase ? T.caseCmp(z, n) : T.cmp(z, n);
            vf_assert(signOf(got) == refCmp(M, U, n, nocase), "cmp/caseCmp(c-string,n) has the sign of strncmp"); break; }
        case oStarts: { const bool want = U.n <= M.n && refCmp(M, U, U.n, nocase) == 0;
            vf_assert(T.startsWith(s[u], nocase ? caseInsensitive : caseSensitive) == want, "startsWith");
            vf_assert(SBufStartsWith(s[u], nocase ? caseInsensitive : caseSensitive)(T) == want, "SBufStartsWith predicate"); break; }
        case oEq: { const bool want = refCmp(M, U, NPOS, false) == 0;
            vf_assert((T == s[u]) == want && (T != s[u]) == !want, "operator== / !="); break; }
        case oAt: { const uint32_t p = anyArg("pos", M.n + 1); int got = -1;
            expectThrow = p >= M.n;
            try { got = (uint8_t)T.at(p); } catch (const TextException &) { threw = true; }
            if (!expectThrow && !threw) vf_assert(got == M.b[p], "at(pos) returns the byte"); break; }
        case oCopy: { const uint32_t n = anyArg("n", M.n + 1); char out[CAP + 2]; memset(out, '#', sizeof(out));
            vf_assume(n <= CAP); // the destination has n bytes (caller contract)
            const uint32_t got = T.copy(out + 1, n); const uint32_t want = n < M.n ? n : M.n;
            unsigned diff = 0; for (uint32_t i = 0; i < want; ++i) diff |= (uint8_t)out[1 + i] ^ M.b[i];
            vf_assert(got == want && diff == 0 && out[0] == '#' && out[1 + want] == '#', "copy() exports exactly min(n,length) bytes"); break; }
        case oIter: { uint32_t i = 0; unsigned diff = 0;
            for (auto it = T.begin(); it != T.end(); ++it, ++i) diff |= i < M.n ? (uint8_t)*it ^ M.b[i] : 1;
            uint32_t r = 0;
            for (auto it = T.rbegin(); it != T.rend(); ++it, ++r) diff |= r < M.n ? (uint8_t)*it ^ M.b[M.n - 1 - r] : 1;
            vf_assert(i == M.n && r == M.n && diff == 0, "iterators visit the contents"); break; }
        }
        vf_assert(threw == expectThrow, "an operation throws TextException iff it is beyond the size/position limits");
        if (threw) vf_reach("threw");
    }
};

// Every default-constructed SBuf points at one static 2 KB "prototype" blob, and the first SBuf that appends claims its space.
// In a running Squid that happened long ago; do it here too, so that the SBufs under test own their blobs (LockCount()==1:
// the in-place paths of cow() are reachable) unless the test itself shares them.
static void claimPrototype() { static SBuf first; if (first.isEmpty()) first.append('#'); }

static void statsReach(const SBufStats &before)
{
    const SBufStats &now = SBuf::GetStats();
    if (now.cowShift > before.cowShift) vf_reach("cow-shift");
    if (now.cowAllocCopy > before.cowAllocCopy) vf_reach("cow-copy");
    if (now.cowAvoided > before.cowAvoided) vf_reach("cow-avoided");
}

// ---------------------------------------------------------------- sharing shapes two SBufs can be in (built through the API)
enum { shIndependent, shCopy, shHead, shTail, shGrown, N_SHAPES };
template <class W> static void shape(W &w, const unsigned sh, const uint32_t L, const unsigned maxOther)
{
    switch (sh) {
    case shIndependent: w.fresh(0, L, "c0"); w.fresh(1, pick(maxOther + 1, "len1"), "c1"); break;
    case shCopy: w.fresh(0, L, "c0"); w.s[1] = w.s[0]; w.m[1] = w.m[0]; break;                       // exact copy
    case shHead: w.fresh(1, L, "c0"); w.s[0] = w.s[1].substr(0, L ? L - 1 : 0); w.m[0] = W::Str::sub(w.m[1], 0, L ? L - 1 : 0); break; // s0 = head slice of s1
    case shTail: w.fresh(1, L, "c0"); w.s[0] = w.s[1].substr(1); w.m[0] = W::Str::sub(w.m[1], 1, NPOS); break;                          // s0 = tail slice of s1 (off_ > 0)
    case shGrown: w.fresh(0, L, "c0"); w.s[1] = w.s[0]; w.m[1] = w.m[0]; { const uint8_t c = letter("c0"); w.s[0].append((char)c); w.m[0].push(c); } break; // s0 grew in place after s1 copied it
    }
}

#ifdef VF_THOROUGH
#define SINGLE_MAXLEN 5
#define CASE_MAXLEN 3
#define SEQ_STEPS 3
#else
#define SINGLE_MAXLEN 3
#define CASE_MAXLEN 2
#define SEQ_STEPS 2
#endif

// one operation with full arguments on the given sharing shapes
static void single(const unsigned *ops, const unsigned nops, const unsigned *shapes, const unsigned nshapes, const unsigned maxLen)
{
    vf_quiet();
    claimPrototype();
    World<24, 2> w;
    const unsigned sh = shapes[pick(nshapes, "shape")];
    const uint32_t L = pick(maxLen + 1, "len0");
    shape(w, sh, L, 2);
    w.verify();
    const unsigned op = ops ? ops[pick(nops, "op")] : pick(nops, "op"), t = pick(2, "target"), u = usesSource(op) ? pick(2, "source") : t;
    const SBufStats before = SBuf::GetStats();
    w.apply(op, t, u);
    w.verify();
    statsReach(before);
    vf_reach("done");
    WITNESS_POINT();
}
static const unsigned allShapes[] = {shIndependent, shCopy, shTail, shGrown, shHead};
#ifdef VF_THOROUGH
#define NSH(quick, thorough) thorough
#else
#define NSH(quick, thorough) quick
#endif
extern "C" void c48_mutate(void) { single(nullptr, N_MUT, allShapes, NSH(4, 5), SINGLE_MAXLEN); }
extern "C" void c48_query(void)
{
    static const unsigned ops[] = {oFindC, oFindS, oRfindC, oRfindS, oFirstOf, oLastOf, oCmp, oCmpCstr, oStarts, oEq, oAt, oCopy, oIter};
    static const unsigned queryShapes[] = {shIndependent, shTail, shCopy};
    single(ops, 13, queryShapes, NSH(2, 3), SINGLE_MAXLEN);
}
// case changes and case-insensitive comparisons: content letters over {a,A,B} are case-split (concrete per path)
extern "C" void c48_case(void)
{
    static const unsigned ops[] = {oLower, oUpper, oCmp, oCmpCstr, oStarts};
    caseInsensitiveOps = true; concreteLetters = true; nLetters = 3;
    single(ops, 5, allShapes, NSH(3, 5), CASE_MAXLEN);
}

// ---------------------------------------------------------------- sequences of structural operations with scripted arguments
struct SeqOp { unsigned op; bool other; uint32_t args[4]; };
static const SeqOp seqOps[] = {
    {oAssign, true, {}},
    {oAssignSub, true, {1, 1}}, {oAssignSub, true, {1, BIG}}, {oAssignSub, false, {1, 1}}, {oAssignSub, false, {0, 2}},
    {oAppend, true, {}}, {oAppend, false, {}},
    {oAppendChar, false, {}},
    {oAppendRaw, false, {0, 1}}, {oAppendRaw, true, {0, 1}},
    {oAssignCstr, false, {1, 1}},
    {oConsume, true, {1}}, {oConsume, false, {BIG}},
    {oChop, false, {0, 1}}, {oChop, false, {1, BIG}}, {oChop, false, {BIG, 0}},
    {oTrim, true, {1, 1}},
    {oSetAt, false, {0}},
    {oClear, false, {}},
    {oReserveSpace, false, {1}},
    {oReserve, false, {1, 0, 0, 0}},   // minSpace 2, not shareable
    {oCstr, false, {}},
    {oRawAppend, false, {1, 1}},
};
// the operations that can expose a stale sharing state (used for the last step of the thorough tier's 3-step sequences)
static const unsigned revealing[] = {0, 1, 5, 7, 8, 11, 13, 17, 18, 19, 21, 22};
template <class W> static void seqStep(W &w, const unsigned K, const bool revealingOnly = false)
{
    const unsigned code = revealingOnly ? revealing[pick(sizeof(revealing) / sizeof(*revealing), "op")] : pick(sizeof(seqOps) / sizeof(*seqOps), "op");
    const unsigned t = pick(K, "target");
    const SeqOp &so = seqOps[code];
    script = so.args;
    w.apply(so.op, t, so.other ? (t + 1) % K : t);
    script = nullptr;
    w.verify();
}
extern "C" void c48_seq(void)
{
    vf_quiet();
    claimPrototype();
    World<40, 2> w;
    static const unsigned seqShapes[] = {shCopy, shTail, shGrown};
    shape(w, seqShapes[pick(3, "shape")], 3, 1);
    w.verify();
    const SBufStats before = SBuf::GetStats();
    for (unsigned i = 0; i < SEQ_STEPS; ++i) seqStep(w, 2, i == 2);
    statsReach(before);
    vf_reach("done");
    WITNESS_POINT();
}
// three SBufs on one blob: s0 = "xyz", s1 = s0, s2 = s0.substr(1,1); here the blob is the still unclaimed prototype blob
extern "C" void c48_seq3(void)
{
    vf_quiet();
    World<40, 3> w;
    w.fresh(0, 3, "c0"); w.s[1] = w.s[0]; w.m[1] = w.m[0];
    w.s[2] = w.s[0].substr(1, 1); w.m[2] = StrT<40>::sub(w.m[0], 1, 1);
    w.verify();
    const SBufStats before = SBuf::GetStats();
    for (unsigned i = 0; i < 2; ++i) seqStep(w, 3);
    statsReach(before);
    vf_reach("done");
    WITNESS_POINT();
}

// ---------------------------------------------------------------- capacity boundary: blobs are 2 KB / 4 KB / 8 KB (memAllocBuf rounding)
// s0 = 2046..2048 (thorough: 2043..2048) concrete position-dependent bytes; optionally shared / consumed from the front; then two growing operations.
extern "C" void c48_big(void)
{
    vf_quiet();
    claimPrototype();
    static World<8400, 2> w; // static: 17 KB of reference bytes
    w.sparse = true;
#ifdef VF_THOROUGH
    const uint32_t L = 2043 + pick(6, "len0");
#else
    const uint32_t L = 2046 + pick(3, "len0");
#endif
    static char tmp[2048];
    for (uint32_t i = 0; i < L; ++i) tmp[i] = (char)(w.m[0].b[i] = (i % 2 ? 'a' : 'A') + i % 23);
    w.m[0].n = L; w.s[0] = SBuf(tmp, L);
    const unsigned pre = pick(4, "pre");
    static const uint32_t three[] = {3};
    script = three;
    if (pre == 1) { w.s[1] = w.s[0]; w.m[1] = w.m[0]; }   // shared
    else if (pre == 2) w.apply(oConsume, 0, 0);           // sole owner, off_ = 3: idle leading space
    else if (pre == 3) w.apply(oConsume, 0, 1);           // s1 = the consumed head: shared, off_ = 3
    script = nullptr;
    w.verify();
    const SBufStats before = SBuf::GetStats();
    static const SeqOp bigOps[] = {
        {oAppendChar, false, {}}, {oAppend, false, {}}, {oAppend, true, {}}, {oAppendRaw, false, {1, 2}}, {oAppendSub, false, {1, 5}},
        {oAssignCstr, false, {1, 2}}, {oReserveSpace, false, {3}}, {oRawAppend, false, {3, 3}}, {oCstr, false, {}}, {oSetAt, false, {0}},
        {oAppendCstr, false, {}},
    };
    for (unsigned i = 0; i < 2; ++i) {
#ifdef VF_THOROUGH
        const unsigned code = pick(sizeof(bigOps) / sizeof(*bigOps), "op"), t = i ? 0 : pick(2, "target");
#else
        const unsigned code = pick(i ? 4 : sizeof(bigOps) / sizeof(*bigOps), "op"), t = i ? 0 : pick(2, "target"); // second: append char/self/other/own raw pointer
#endif
        script = bigOps[code].args;
        w.apply(bigOps[code].op, t, bigOps[code].other ? 1 - t : t);
        script = nullptr;
        w.verify();
    }
    statsReach(before);
    vf_reach("done");
    WITNESS_POINT();
}
