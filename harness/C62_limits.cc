// C62 (kernel): header size limits are enforced by the HTTP/1 parsers before anything is forwarded.
// Kernel decided here: the real Http1::RequestParser / Http1::ResponseParser, driven exactly like their callers
// (ConnStateData::parseHttpRequest, HttpStateData::processReplyHeader: parse(inBuf); inBuf = remaining(); append;
// parse again while needsMoreData()), never report "parsed OK" for a head that exceeds
// Config.maxRequestHeaderSize / Config.maxReplyHeaderSize, whatever the delivery segmentation, and report the
// documented errors (414/431 for requests, scHeaderTooLarge for replies).
// Gap (not encoded): that the callers answer the error and do not forward / relay (client_side.cc, http.cc).
//
// Symbolic: the limit L (in [LMIN,LMAX]; the head size S is a concretised value with |S-L| <= 2, i.e. every
// size from limit-2 to limit+2), relaxed_header_parser, and in the c62_*_any entries the bytes marked \x01.
// Oracle: arithmetic on sizes only: S = number of bytes from the first byte of the first line to the end of the
// blank line (for HTTP/0.9 requests: to the end of the line). "Exceeds" means S > L.
#include "http1.h"
#include "http/one/RequestParser.h"
#include "http/one/ResponseParser.h"

#ifdef VF_THOROUGH
#define LMIN 40
#define LMAX 64
#else
#define LMIN 40
#define LMAX 47
#endif

struct Outcome { bool ok, more; int status; unsigned consumed; bool waitedAtLimit; };

// segments: [0,s1) [s1,n), or (s1 == 0) one byte per read
// waitedAtLimit: some parse() asked for more data although `limit` or more unparsed bytes were buffered
template <class ParserT>
static Outcome drive(const uint8_t *in, const unsigned n, const unsigned s1, const unsigned limit)
{
    ParserT hp;
    SBuf inBuf;
    unsigned delivered = 0;
    Outcome o;
    o.ok = false;
    o.waitedAtLimit = false;
    while (delivered < n) {
        const unsigned upto = s1 == 0 ? delivered + 1 : (delivered < s1 ? s1 : n);
        inBuf.append(reinterpret_cast<const char *>(in) + delivered, upto - delivered);
        delivered = upto;
        o.ok = hp.parse(inBuf);
        inBuf = hp.remaining(); // "sync the buffers after parsing"
        if (!hp.needsMoreData())
            break;
        if (inBuf.length() >= limit)
            o.waitedAtLimit = true;
    }
    o.more = hp.needsMoreData();
    o.status = hp.parseStatusCode;
    o.consumed = delivered - inBuf.length();
    return o;
}

static unsigned put(uint8_t *out, unsigned n, const char *s) { while (*s) out[n++] = (uint8_t)*s++; return n; }
static unsigned rep(uint8_t *out, unsigned n, char c, unsigned count) { while (count--) out[n++] = (uint8_t)c; return n; }

static int relaxedSetting()
{
#ifdef VF_THOROUGH
    const int r = (int)vf_range(0, 2, "relaxed") - 1; // -1 (warn), 0 (off), 1 (on)
#else
    const int r = (int)vf_range(0, 1, "relaxed");
#endif
    return (int)vf_concretize((uint64_t)(r + 1)) - 1;
}

// Deliveries compared with the one-shot parse: byte by byte, and a single split at every position (thorough) /
// at the positions around the end of the first line and in the last 8 bytes, where the limit is met (quick).
template <class ParserT>
static void deliveries(const uint8_t *in, const unsigned n, const unsigned lineEnd, const Outcome &whole, const unsigned L, const bool request)
{
    for (unsigned s = 0; s < n; ++s) {
#ifndef VF_THOROUGH
        if (!(s == 0 || s + 8 >= n || (s + 2 >= lineEnd && s <= lineEnd + 2)))
            continue;
#endif
        const Outcome o = drive<ParserT>(in, n, s, L);
        // ConnStateData::clientParseRequests(): Must(inBuf.length() < Config.maxRequestHeaderSize) when the parser wants more
        if (request)
            vf_assert(!o.waitedAtLimit, "the request parser never asks for more data with limit bytes already buffered");
        vf_assert(o.ok == whole.ok && o.more == whole.more, "incremental arrival does not change the verdict on a head near the limit");
        if (!o.more)
            vf_assert(o.status == whole.status, "incremental arrival does not change the error status");
        if (o.ok)
            vf_assert(o.consumed == whole.consumed, "incremental arrival does not change the consumed size");
    }
}

// ---- well-formed heads of every size S with |S - L| <= 2
// slack: bytes by which the parser's own estimate of the first line may exceed the real line (ICY: 2)
template <class ParserT>
static void sized(const uint8_t *in, const unsigned S, const unsigned lineEnd, const unsigned L, const bool http09, const bool request, const unsigned slack, const bool wellFormed = true)
{
    const Outcome whole = drive<ParserT>(in, S, S, L);
    vf_observe("ok", whole.ok); vf_observe("more", whole.more); vf_observe("status", whole.status); vf_observe("consumed", whole.consumed);
    if (S > L) {
        // the property
        vf_assert(!whole.ok, "a head exceeding the limit is never parsed OK");
        vf_assert(!whole.more, "a completely received head exceeding the limit is refused, not waited for");
        if (request)
            vf_assert(whole.status == Http::scUriTooLong || whole.status == Http::scRequestHeaderFieldsTooLarge, "over-limit request is refused with 414 or 431");
        else
            vf_assert(whole.status == Http::scHeaderTooLarge, "over-limit reply is refused as header-too-large");
        // the same head without its last byte: at least L bytes have arrived and the end is not in sight
        const Outcome cut = drive<ParserT>(in, S - 1, S - 1, L);
        vf_assert(!cut.ok && !cut.more, "an over-limit head is refused once limit bytes have arrived, without waiting for its end");
        vf_reach("too-large");
    } else if (!wellFormed) {
        // heads with obsolete folding / a whitespace-preceded line: acceptance below the limit is not claimed, only the limit is
        vf_reach(whole.ok ? "ok" : "at-limit");
    } else if (S + slack + (http09 ? 0 : 1) <= L) {
        // sanity (and vacuity guard): a limit is a maximum size; well-formed smaller heads pass
        vf_assert(whole.ok && !whole.more && whole.consumed == S, "a well-formed head below the limit is parsed OK and consumed exactly");
        vf_reach("ok");
    } else {
        // S == L (or within the ICY estimate slack): Squid refuses (its test is >=); either verdict satisfies the property
        vf_assert(!whole.more, "a completely received head gets a verdict");
        vf_reach("at-limit");
    }
    deliveries<ParserT>(in, S, lineEnd, whole, L, request);
    WITNESS_POINT();
}

// the concretised number of filler bytes; the caller builds the head and then keeps the sizes within 2 of L
static unsigned stretch() { return (unsigned)vf_concretize(vf_range(0, LMAX, "stretch")); }
static void nearLimit(const unsigned S, const unsigned L) { vf_assume(S + 2 >= L && S <= L + 2); }

extern "C" void c62_request(void)
{
    const int rel = relaxedSetting();
    const unsigned L = vf_range(LMIN, LMAX, "request_header_max_size");
    http1Config(rel, L, 65536);
    const unsigned kind = (unsigned)vf_concretize(vf_range(0, 4, "kind"));
    const unsigned k = stretch();
    uint8_t in[LMAX + 64];
    unsigned n = 0, lineEnd;
    if (kind == 3) {            // the size comes from bytes the parser strips: an obs-fold with a long whitespace run
        n = put(in, n, "PUT / HTTP/1.1\r\n"); lineEnd = n; n = put(in, n, "H: v\r\n"); n = rep(in, n, ' ', k + 1); n = put(in, n, "w\r\n\r\n");
    } else if (kind == 4) {     // ... or a whitespace-preceded line right after the request line (dropped by the parser)
        n = put(in, n, "PUT / HTTP/1.1\r\n"); lineEnd = n; n = put(in, n, " "); n = rep(in, n, 'j', k); n = put(in, n, "\r\nH: v\r\n\r\n");
    } else if (kind == 0) {            // long request-target, one short field
        n = put(in, n, "GET /"); n = rep(in, n, 'a', k); n = put(in, n, " HTTP/1.1\r\n"); lineEnd = n; n = put(in, n, "H: v\r\n\r\n");
    } else if (kind == 1) {     // short request line, long field
        n = put(in, n, "PUT / HTTP/1.1\r\n"); lineEnd = n; n = put(in, n, "Host: "); n = rep(in, n, 'b', k); n = put(in, n, "\r\n\r\n");
    } else {                    // HTTP/0.9: the request line is the whole head
        n = put(in, n, "GET /"); n = rep(in, n, 'a', k); n = put(in, n, "\r\n"); lineEnd = n;
    }
    nearLimit(n, L);
    sized<Http1::RequestParser>(in, n, lineEnd, L, kind == 2, true, 0, kind < 3);
}

extern "C" void c62_reply(void)
{
    const int rel = relaxedSetting();
    const unsigned L = vf_range(LMIN, LMAX, "reply_header_max_size");
    http1Config(rel, 65536, L);
    const unsigned kind = (unsigned)vf_concretize(vf_range(0, 3, "kind"));
    const unsigned k = stretch();
    uint8_t in[LMAX + 64];
    unsigned n = 0, lineEnd;
    if (kind == 3) {            // the size comes from an obs-fold's whitespace run, which the parser collapses
        n = put(in, n, "HTTP/1.1 200 OK\r\n"); lineEnd = n; n = put(in, n, "H: v\r\n"); n = rep(in, n, ' ', k + 1); n = put(in, n, "w\r\n\r\n");
    } else if (kind == 0) {            // long field
        n = put(in, n, "HTTP/1.1 200 OK\r\n"); lineEnd = n; n = put(in, n, "H: "); n = rep(in, n, 'b', k); n = put(in, n, "\r\n\r\n");
    } else if (kind == 1) {     // long reason phrase, empty header block
        n = put(in, n, "HTTP/1.0 404 "); n = rep(in, n, 'r', k); n = put(in, n, "\r\n"); lineEnd = n; n = put(in, n, "\r\n");
    } else {                    // ICY
        n = put(in, n, "ICY 200 OK\r\n"); lineEnd = n; n = put(in, n, "H: "); n = rep(in, n, 'b', k); n = put(in, n, "\r\n\r\n");
    }
    nearLimit(n, L);
    sized<Http1::ResponseParser>(in, n, lineEnd, L, false, false, kind == 2 ? 2 : 0, kind < 3);
}

// ---- heads with symbolic bytes: whatever they turn the head into, "parsed OK" implies at most L bytes were consumed
// noWsAt: index of a byte that must not be relaxed whitespace (see KNOWN-FINDING candidate below), or -1
template <class ParserT>
static void anyContent(const char *lit, const unsigned L, const bool request, const int noWsAt)
{
    uint8_t in[80];
    const unsigned n = vf_fill(in, lit, strlen(lit), "b");
    if (noWsAt >= 0) {
        const uint8_t c = in[noWsAt];
        vf_assume(!(c == ' ' || c == '\t' || c == 0x0b || c == 0x0c || c == '\r'));
    } else if (noWsAt == -5) {
        const uint8_t c = in[4];
        vf_assume(c == ' ' || c == '\t' || c == 0x0b || c == 0x0c || c == '\r');
    }
    const Outcome whole = drive<ParserT>(in, n, n, L);
    vf_observe("ok", whole.ok); vf_observe("more", whole.more); vf_observe("status", whole.status); vf_observe("consumed", whole.consumed);
    if (whole.ok) {
        vf_assert(whole.consumed <= L, "parsed OK implies the head (everything consumed) does not exceed the limit");
        vf_reach("ok");
    } else
        vf_reach(whole.more ? "more" : "refused");
    for (unsigned s = 0; s < n; ++s) {
        const Outcome o = drive<ParserT>(in, n, s, L);
        if (request)
            vf_assert(!o.waitedAtLimit, "the request parser never asks for more data with limit bytes already buffered");
        if (o.ok)
            vf_assert(o.consumed <= L, "parsed OK after incremental arrival implies the head does not exceed the limit");
    }
    WITNESS_POINT();
}

// the limit ranges over skeleton size - 2 .. skeleton size + 2
#define REQ_DELIMS  "GET\x01/ab HTTP/1.1\x01\nH: vw\r\n\x01\n"              /* delimiter, byte before LF, terminator */
#define REQ_FIELDS  "GET /a\x01" "b HTTP/1.1\r\nH:\x01v\x01w\r\n\r\n"        /* bytes inside target and field */
#define REQ_WS      "GET \x01\x01/ HTTP/1.1\r\nH: vw\r\n\r\n"                /* two bytes after the first delimiter */
#define REPLY_ANY   "HTTP/1.1 200\x01OK\x01\nH: vw\x01\n\x01\n"
extern "C" void c62_request_any(void)
{
    const int rel = relaxedSetting();
    static const char *const lits[3] = {REQ_DELIMS, REQ_FIELDS, REQ_WS};
    const unsigned which = (unsigned)vf_concretize(vf_range(0, 2, "skeleton"));
    const char *lit = lits[which];
    const unsigned n = strlen(lit);
    const unsigned L = vf_range(n - 2, n + 2, "request_header_max_size");
    http1Config(rel, L, 65536);
    int noWsAt = -1;
    // KNOWN-FINDING candidate: with relaxed_header_parser on, whitespace beyond the first delimiter character between
    // request-line fields is consumed but not counted against request_header_max_size: grabMimeBlock() adds
    // firstLineSize() = method + target + 12, i.e. it assumes single-SP delimiters. "GET" SP SP SP "/ HTTP/1.1 CRLF
    // H: vw CRLF CRLF" (28 bytes) is parsed OK with request_header_max_size = 27. (The same holds for tolerated empty
    // lines before the request line, which Parser.h documents as excluded.) Low severity: the excess is bounded by
    // the request-line check (line < limit), so a head stays below twice the limit.
    // Excluded class: relaxed mode and the byte after the first delimiter is again relaxed whitespace.
    // Compile with -DC62_KEEP_RELAXED_WHITESPACE to see it again.
    // The class is examined by its own entry (c62_known_relaxed_ws), whose violation is listed in known_findings.json.
    if (rel && which == 2) noWsAt = 4;
    anyContent<Http1::RequestParser>(lit, L, true, noWsAt);
}
// KNOWN FINDING (known_findings.json, C62-relaxed-whitespace): exactly the class excluded above
extern "C" void c62_known_relaxed_ws(void)
{
    const char *lit = REQ_WS;
    const unsigned n = strlen(lit);
    const unsigned L = vf_range(n - 2, n + 2, "request_header_max_size");
    http1Config(1, L, 65536);
    anyContent<Http1::RequestParser>(lit, L, true, -5); // -5: the byte at index 4 IS relaxed whitespace
}

extern "C" void c62_reply_any(void)
{
    const int rel = relaxedSetting();
    const unsigned n = strlen(REPLY_ANY);
    const unsigned L = vf_range(n - 2, n + 2, "reply_header_max_size");
    http1Config(rel, 65536, L);
    anyContent<Http1::ResponseParser>(REPLY_ANY, L, false, -1);
}
