// C27: integer parsing is exact and overflow-safe.
// Units: Parser::Tokenizer::int64 (real SBuf/CharacterSet code), httpHeaderParseOffset.
#include "squid.h"
#include "parser/Tokenizer.h"
#include "sbuf/SBuf.h"
#include "debug/Stream.h"
#include "HttpHeaderTools.h"
#include "vf.h"
#include <cerrno>

#ifdef VF_THOROUGH
#define NSMALL 4
#define NBOUND 4
#else
#define NSMALL 3
#define NBOUND 3
#endif
#ifdef WITNESS
#define WITNESS_POINT() vf_assert(0, "witness")
#else
#define WITNESS_POINT() ((void)0)
#endif

static void quiet() { for (int i = 0; i < MAX_DEBUG_SECTIONS; ++i) Debug::Levels[i] = -1; }

static int digitValue(unsigned char c)
{
    if (c >= '0' && c <= '9') return c - '0';
    if (c >= 'a' && c <= 'z') return c - 'a' + 10;
    if (c >= 'A' && c <= 'Z') return c - 'A' + 10;
    return 99;
}

// reference: what the digits denote, in 128-bit arithmetic
struct Ref { bool parsable; bool fits; __int128 value; unsigned consumed; };
static Ref reference(const unsigned char *in, unsigned n, int base, bool allowSign, unsigned limit)
{
    Ref r = {false, false, 0, 0};
    if (n == 0 || limit == 0) return r;
    const unsigned m = n < limit ? n : limit;
    unsigned i = 0; bool neg = false;
    if (allowSign) {
        if (in[0] == '-') { neg = true; i = 1; } else if (in[0] == '+') i = 1;
        if (i >= m) return r;
    }
    if ((base == 0 || base == 16) && in[i] == '0' && i + 1 < m && (in[i + 1] == 'x' || in[i + 1] == 'X')) { i += 2; base = 16; }
    if (base == 0) base = in[i] == '0' ? 8 : 10;
    if (i >= m) return r;
    __int128 acc = 0; unsigned nd = 0; bool huge = false;
    for (; i < m; ++i) {
        const int d = digitValue(in[i]);
        if (d >= base) break;
        if (!huge) { acc = acc * base + d; if (acc > ((__int128)1 << 70)) huge = true; }
        ++nd;
    }
    if (!nd) return r;
    r.parsable = true; r.consumed = i;
    r.value = neg ? -acc : acc;
    r.fits = !huge && r.value >= (__int128)INT64_MIN && r.value <= (__int128)INT64_MAX;
    return r;
}

static void checkInt64(const unsigned char *in, unsigned n, int base, bool allowSign, unsigned limit)
{
    SBuf buf(reinterpret_cast<const char *>(in), n);
    Parser::Tokenizer t(buf);
    int64_t v = 0x5a5a5a5a;
    const bool ok = t.int64(v, base, allowSign, limit);
    const Ref r = reference(in, n, base, allowSign, limit);
    vf_observe("ok", ok); vf_observe("value", ok ? (uint64_t)v : 0); vf_observe("consumed", t.parsedSize());
    vf_assert(ok == (r.parsable && r.fits), "int64() succeeds iff there are digits and their value fits int64");
    if (ok) {
        vf_assert((__int128)v == r.value, "int64() returns the exact value of the digits");
        vf_assert(t.parsedSize() == r.consumed, "int64() consumes exactly sign+prefix+digits");
        vf_assert(t.remaining().length() == n - r.consumed, "remaining = input - consumed");
        vf_reach("ok");
    } else {
        vf_assert(t.parsedSize() == 0 && t.remaining().length() == n, "failed int64() leaves the tokenizer untouched");
        vf_reach("fail");
    }
    WITNESS_POINT();
}

extern "C" void c27_int64_small(void)
{
    quiet();
    static const int bases[4] = {0, 8, 10, 16};
    const int base = bases[vf_concretize(vf_range(0, 3, "baseIdx"))];
    const bool allowSign = vf_bool("allowSign");
    const unsigned n = (unsigned)vf_concretize(vf_range(0, NSMALL, "len"));
    const unsigned limit = vf_range(0, NSMALL + 1, "limit");
    unsigned char in[NSMALL + 1];
    for (unsigned i = 0; i < n; ++i) in[i] = vf_nondet_u8("byte");
    checkInt64(in, n, base, allowSign, limit == NSMALL + 1 ? SBuf::npos : limit);
}

extern "C" void c27_int64_boundary(void)
{
    quiet();
    static const int bases[3] = {8, 10, 16};
    static const char *prefix[3] = {"7777777777777777777", "922337203685477580", "7fffffffffffff"};
    static const char *nprefix[3] = {"7777777777777777777", "922337203685477580", "80000000000000"};
    const unsigned bi = (unsigned)vf_concretize(vf_range(0, 2, "baseIdx"));
    const unsigned sign = (unsigned)vf_concretize(vf_range(0, 2, "sign")); // 0 none, 1 '-', 2 '+'
    unsigned char in[40]; unsigned n = 0;
    if (sign == 1) in[n++] = '-'; else if (sign == 2) in[n++] = '+';
    const char *p = sign == 1 ? nprefix[bi] : prefix[bi];
    // for negative octal the magnitude boundary is 1 followed by 21 zeros: use "1000000000000000000" + sym
    if (sign == 1 && bi == 0) p = "1000000000000000000";
    for (; *p; ++p) in[n++] = (unsigned char)*p;
    for (unsigned i = 0; i < NBOUND; ++i) in[n++] = vf_nondet_u8("tail");
    checkInt64(in, n, bases[bi], true, SBuf::npos);
}

// "One digit too many": numbers with exactly one more digit than INT64_MAX has in the base, written as two symbolic
// leading digits, zeros, and a symbolic last digit (+ an optional symbolic terminator). These are the inputs whose
// 64-bit accumulator wraps around to a small value (e.g. hex 17000000000000000, decimal 21000000000000000000), which a
// wrap-around style overflow test ("next < acc") does not notice.
extern "C" void c27_int64_wrap(void)
{
    quiet();
    static const int bases[3] = {8, 10, 16};
    static const unsigned zeros[3] = {19, 17, 14};   // total digits 22 (octal), 20 (decimal), 17 (hex)
    const unsigned bi = (unsigned)vf_concretize(vf_range(0, 2, "baseIdx"));
    const unsigned sign = (unsigned)vf_concretize(vf_range(0, 1, "sign")); // 0 none, 1 '-'
    unsigned char in[40]; unsigned n = 0;
    if (sign == 1) in[n++] = '-';
    in[n++] = vf_nondet_u8("lead"); in[n++] = vf_nondet_u8("lead");
    for (unsigned i = 0; i < zeros[bi]; ++i) in[n++] = '0';
    in[n++] = vf_nondet_u8("tail");
    checkInt64(in, n, bases[bi], true, SBuf::npos);
}

// ---- httpHeaderParseOffset (strtoll based)
static void checkOffset(const char *s)
{
    int64_t v = 0x5a5a5a5a; char *end = nullptr;
    const bool ok = httpHeaderParseOffset(s, &v, &end);
    // reference: strtoll syntax: skip isspace, optional sign, 1*DIGIT
    unsigned i = 0;
    while (s[i] == ' ' || (s[i] >= 9 && s[i] <= 13)) ++i;
    bool neg = false;
    if (s[i] == '-') { neg = true; ++i; } else if (s[i] == '+') ++i;
    __int128 acc = 0; unsigned nd = 0; bool huge = false;
    for (; s[i] >= '0' && s[i] <= '9'; ++i) { if (!huge) { acc = acc * 10 + (s[i] - '0'); if (acc > ((__int128)1 << 70)) huge = true; } ++nd; }
    const __int128 val = neg ? -acc : acc;
    const bool fits = !huge && val >= (__int128)INT64_MIN && val <= (__int128)INT64_MAX;
    vf_observe("ok", ok); vf_observe("value", ok ? (uint64_t)v : 0);
    vf_assert(ok == (nd > 0 && fits), "httpHeaderParseOffset succeeds iff digits exist and fit int64");
    if (ok) {
        vf_assert((__int128)v == val, "httpHeaderParseOffset returns the exact value");
        vf_assert(end == s + i, "httpHeaderParseOffset consumes exactly the number's characters");
        vf_reach("ok");
    } else
        vf_reach("fail");
    WITNESS_POINT();
}

extern "C" void c27_offset(void)
{
    quiet();
    char in[40]; unsigned n = 0;
    const unsigned family = (unsigned)vf_concretize(vf_range(0, 2, "family"));
    if (family == 0) {
        for (unsigned i = 0; i < NSMALL; ++i) in[n++] = (char)vf_nondet_u8("byte");
    } else {
        if (family == 2) in[n++] = '-';
        for (const char *p = "922337203685477580"; *p; ++p) in[n++] = *p;
        for (unsigned i = 0; i < NBOUND - 1; ++i) in[n++] = (char)vf_nondet_u8("tail");
    }
    in[n] = 0;
    errno = 0;
    checkOffset(in);
}
