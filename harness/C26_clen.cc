// C26: Content-Length is accepted only when unambiguous.
// The real HttpHeader::parse() (field loop + Content-Length handling) with the real Http::ContentLengthInterpreter
// is run on header blocks whose Content-Length values are symbolic; the framing outcome is read the way
// HttpRequest::checkEntityFraming()/Http::Message::hdrCacheInit()/HttpStateData do: parse()==0 -> rejected message;
// conflictingContentLength() -> framing error; otherwise content_length = getInt64(Content-Length) (absent: none).
//
// Oracle (refField): every Content-Length value of the block = every field value, split at ',' when it is a list
// (empty list elements are ignored, RFC 9110 5.6.1.2), with surrounding whitespace removed. A value is valid iff it is
// 1*DIGIT and fits int64 (decimal accumulated with a range check before every step).
//   unambiguous := at least one value, all valid, all equal, and (exactly one value or relaxed parsing)
// Asserted:
//   (U) a length is used  => unambiguous, the used length is that decimal, and the one stored field is a 1*DIGIT token of that value
//   (B) >=1 value and not unambiguous => bad framing (parse()==0 or conflictingContentLength()) and no Content-Length is left stored
//   (A) unambiguous and written with digits, ',', SP, HT only (lists: relaxed only) => the length is used  [guards against over-rejection]
//   (K) the same three on the interpreter alone (checkField() sequence; values with untrimmed whitespace)
#include "C25_hdr.h"

#define MAXN 96
#ifdef VF_THOROUGH
#define T(q, t) t
#else
#define T(q, t) q
#endif

struct ClRef {
    unsigned count;        // values seen (empty list elements not counted)
    bool allValid, allEqual, list, cleanBytes;
    bool vtffElement;      // a list element made of whitespace only, with a VT or FF in it (see KNOWN-FINDING candidate below)
    uint64_t value;        // of the first valid value
    bool haveValue;
};
static void refInit(ClRef &r) { r.count = 0; r.allValid = r.allEqual = r.cleanBytes = true; r.list = r.vtffElement = false; r.value = 0; r.haveValue = false; }

// acc = acc * 10 + digit unless that exceeds INT64_MAX (checked before multiplying: no wrap-around anywhere)
static bool refAppendDigit(uint64_t &acc, const uint8_t c)
{
    const uint64_t max = (uint64_t)INT64_MAX, d = (uint64_t)(c - '0');
    if (acc > max / 10) return false;
    if (acc * 10 > max - d) return false;
    acc = acc * 10 + d;
    return true;
}

// one field value (trimmed or not)
static void refField(ClRef &r, const uint8_t *v, const unsigned n)
{
    bool list = false;
    for (unsigned i = 0; i < n; ++i) {
        if (v[i] == ',') list = true;
        if (!(refDigit(v[i]) || v[i] == ',' || v[i] == ' ' || v[i] == '\t')) r.cleanBytes = false;
    }
    if (list) r.list = true;
    const unsigned countBefore = r.count;
    unsigned s = 0;
    for (;;) {
        unsigned e = s;
        while (e < n && v[e] != ',') ++e;
        unsigned a = s, b = e;
        if (list) {
            bool wsOnly = e > s, vtff = false;
            for (unsigned i = s; i < e; ++i) { if (!refWs(v[i])) wsOnly = false; if (v[i] == '\v' || v[i] == '\f') vtff = true; }
            if (wsOnly && vtff) r.vtffElement = true;
        }
        while (a < b && refWs(v[a])) ++a;
        while (a < b && refWs(v[b - 1])) --b;
        if (a < b || !list) {                       // an empty element of a list is ignored; an empty lone value is a (bad) value
            ++r.count;
            bool valid = a < b;
            uint64_t acc = 0;
            for (unsigned i = a; i < b; ++i) {
                if (!refDigit(v[i])) { valid = false; break; }
                if (!refAppendDigit(acc, v[i])) { valid = false; break; }      // does not fit int64
            }
            if (!valid) r.allValid = false;
            else if (!r.haveValue) { r.haveValue = true; r.value = acc; }
            else if (r.value != acc) r.allEqual = false;
        }
        if (e >= n) break;
        s = e + 1;
    }
    // a list made of separators and whitespace only carries no length at all: a malformed Content-Length field, not "no field"
    // (Squid used to drop such a field silently; repaired in /repo by the 'fix: a Content-Length consisting of list separators
    // only was silently dropped' commit)
    if (list && r.count == countBefore) { ++r.count; r.allValid = false; }
}
static bool refUnambiguous(const ClRef &r, const bool relaxed) { return r.count >= 1 && r.allValid && r.allEqual && (r.count == 1 || relaxed); }

static unsigned put(uint8_t *out, unsigned n, const char *tmpl)
{
    for (; *tmpl; ++tmpl) {
        vf_assert(n < MAXN, "harness: block fits");
        if (*tmpl == '\x01') { out[n] = vf_nondet_u8("b"); vf_assume(out[n] != '\n'); }   // line structure is C25's subject
        else if (*tmpl == '\x02') { out[n] = vf_nondet_u8("d"); vf_assume(out[n] >= '0' && out[n] <= '9'); }
        else out[n] = (uint8_t)*tmpl;
        ++n;
    }
    return n;
}

// block = lines "Content-Length:" value CRLF (other lines allowed); the reference reads the values straight from the lines
static void checkBlock(const uint8_t *in, const unsigned n, const http_hdr_owner_type owner, const int relaxedCfg)
{
    const bool relaxed = relaxedCfg != 0;
    ClRef r;
    refInit(r);
    for (unsigned ls = 0; ls < n;) {
        unsigned le = ls;
        while (in[le] != '\n') ++le;                                   // every line of the families ends in CRLF
        static const char cl[] = "content-length:";
        bool isCl = le - ls >= sizeof(cl) - 1;
        for (unsigned i = 0; isCl && i < sizeof(cl) - 1; ++i) if (refLower(in[ls + i]) != (uint8_t)cl[i]) isCl = false;
        if (isCl) refField(r, in + ls + sizeof(cl) - 1, le - 1 - (ls + sizeof(cl) - 1));   // without the CR of CRLF
        ls = le + 1;
    }
    const bool unambiguous = refUnambiguous(r, relaxed);
    // (A list element made only of VT/FF used to end strListGetItem()'s iteration, so later values went unexamined: repaired
    // in /repo by the 'fix: a list element made of VT/FF ended strListGetItem() iteration early' commit. No exclusion.)

    char buf[MAXN + 1];
    for (unsigned i = 0; i < n; ++i) buf[i] = (char)in[i];
    buf[n] = 0;
    HttpHeader h(owner);
    Http::ContentLengthInterpreter clen;
    const int ok = h.parse(buf, n, clen);
    unsigned stored = 0;
    const HttpHeaderEntry *cle = nullptr;
    for (const auto e : h.entries) if (e && e->id == Http::HdrType::CONTENT_LENGTH) { ++stored; cle = e; }
    const bool bad = !ok || h.conflictingContentLength();
    const bool used = !bad && h.has(Http::HdrType::CONTENT_LENGTH);
    const int64_t length = used ? h.getInt64(Http::HdrType::CONTENT_LENGTH) : -1;
    vf_observe("ok", ok); vf_observe("bad", bad); vf_observe("used", used); vf_observe("length", (uint64_t)length);

    if (used) {                                                        // (U)
        vf_assert(unambiguous, "a Content-Length is used only when every value is a valid decimal, all are equal, and duplicates only if relaxed");
        vf_assert(length >= 0 && (uint64_t)length == r.value, "the length used is the decimal written in the field");
        vf_assert(stored == 1, "exactly one Content-Length is stored");
        bool token = cle && cle->value.size() >= 1;
        uint64_t acc = 0;
        for (unsigned i = 0; token && i < cle->value.size(); ++i) {
            const uint8_t c = (uint8_t)cle->value[i];
            if (!refDigit(c) || !refAppendDigit(acc, c)) token = false;
        }
        vf_assert(token && acc == r.value, "the stored Content-Length is a one-token decimal of the used value");
        vf_assert(clen.sawGood && !clen.sawBad && clen.value == length, "the interpreter reports the same length");
        vf_reach(r.count > 1 ? "used-duplicates" : "used");
    } else {
        vf_assert(stored == 0, "an unused Content-Length is not left in the stored fields");
    }
    if (r.count >= 1 && !unambiguous) {                                // (B)
        vf_assert(bad, "invalid, conflicting or (strict) duplicate Content-Length values mean bad framing");
        vf_reach(ok ? "bad-flagged" : "bad-rejected");
    }
    if (unambiguous && r.cleanBytes && (relaxed || !r.list))           // (A)
        vf_assert(used, "a plainly written unambiguous Content-Length is used");
    if (!ok) vf_assert(h.entries.empty(), "a rejected block leaves no stored fields");
    WITNESS_POINT();
}

struct Setting { int relaxed; http_hdr_owner_type owner; };
static Setting setting(const bool bothOwners, const bool withMinusOne)
{
    Setting s;
    s.relaxed = relaxedSetting(withMinusOne);
    hdrConfig(s.relaxed);
    s.owner = bothOwners && vf_concretize(vf_range(0, 1, "reply")) ? hoReply : hoRequest;
    return s;
}
#define FAMILY(fn, lit) static void fn(const Setting &s) { uint8_t in[MAXN]; const unsigned n = put(in, 0, lit); checkBlock(in, n, s.owner, s.relaxed); }
typedef void Family(const Setting &);
static void run(Family *const *fams, const unsigned count, const bool bothOwners, const bool withMinusOne)
{
    const Setting s = setting(bothOwners, withMinusOne);
    fams[vf_concretize(vf_range(0, count - 1, "family"))](s);
}

// one field, value bytes fully symbolic (whitespace, signs, garbage, commas, digits ...)
FAMILY(single, T("Content-Length:\x01\x01\r\n", "Content-Length:\x01\x01\x01\r\n"))
// a digit followed by anything: trailing garbage, lists "7,7" "7, 8" "7,," ...
FAMILY(list, T("Content-Length: 7\x01\x01\r\n", "Content-Length: 7\x01\x01\x01\r\n"))
// a three-element list with anything as its middle and last element
FAMILY(list3, T("Content-Length: 7,\x01,\x01\r\n", "Content-Length: 7,\x01\x01,\x01\r\n"))
// two fields, among other fields
FAMILY(two, T("Content-Length: 1\x01\r\nHost: h\r\nContent-Length: 1\x01\r\n", "Content-Length:\x01\x01\r\nHost: h\r\nContent-Length: 1\x01\r\n"))
// three fields: equal duplicates then anything
FAMILY(three, T("Content-Length: 5\r\nContent-Length: 5\r\ncontent-length: \x01\r\n", "Content-Length: 5\r\nContent-Length:\x01\x01\r\ncontent-length: \x01\r\n"))
// the int64 boundary: 922337203685477580d (d <= 7 fits), INT64_MAX followed by anything (a 20th digit, whitespace, garbage),
// INT64_MAX repeated with a symbolic last digit; thorough: last digit and the byte after it both symbolic (slow: 64-bit
// multiply/divide chains of strtoll over two symbolic characters)
FAMILY(maxdigit, "Content-Length: 922337203685477580\x02\r\n")
FAMILY(maxplus, "Content-Length: 9223372036854775807\x01\r\n")
FAMILY(huge2, "Content-Length: 9223372036854775807\r\nContent-Length: 922337203685477580\x02\r\n")
FAMILY(huge, "Content-Length: 922337203685477580\x02\x01\r\n")
// leading zeros compare by value
FAMILY(zeros, T("Content-Length: 00000000000000000000012\r\nContent-Length: 1\x01\r\n", "Content-Length: 00000000000000000000012\r\nContent-Length: \x01\x02\r\n"))

extern "C" void c26_values(void) { static Family *const f[] = {single, list, list3}; run(f, 3, false, true); }
extern "C" void c26_fields(void) { static Family *const f[] = {two, three}; run(f, 2, true, false); }
extern "C" void c26_big(void) { static Family *const f[] = {maxdigit, maxplus, huge2, zeros, huge}; run(f, T(4, 5), false, false); }   // huge: thorough only

// (K) the interpreter alone: one or two checkField() calls with untrimmed values (leading/trailing whitespace reaches
// findDigits/goodSuffix only this way), NUL-free as String values of a parsed block are
#define NK T(2, 3)
extern "C" void c26_interp(void)
{
    const int relaxedCfg = relaxedSetting(true);
    hdrConfig(relaxedCfg);
    const bool relaxed = relaxedCfg != 0;
    const unsigned fields = (unsigned)vf_concretize(vf_range(1, 2, "fields"));
    Http::ContentLengthInterpreter clen;
    ClRef r;
    refInit(r);
    unsigned kept = 0;
    bool sawHt = false;
    for (unsigned k = 0; k < fields; ++k) {
        uint8_t v[NK + 2];
        unsigned n = 0;
        if (fields == 2) v[n++] = '4';                                  // two fields: '4' b and '4' b
        const unsigned m = fields == 2 ? 1 : (unsigned)vf_concretize(vf_range(0, NK, "len"));
        for (unsigned i = 0; i < m; ++i) { v[n] = vf_nondet_u8("v"); vf_assume(v[n] != 0); if (v[n] == '\t') sawHt = true; ++n; }
        String s;
        s.assign((const char *)v, n);
        refField(r, v, n);
        if (clen.checkField(s)) ++kept;
    }
    const bool unambiguous = refUnambiguous(r, relaxed);
    const bool used = clen.sawGood && !clen.sawBad;
    vf_observe("sawBad", clen.sawBad); vf_observe("sawGood", clen.sawGood); vf_observe("value", used ? (uint64_t)clen.value : 0);
    if (used) {
        vf_assert(unambiguous, "the interpreter offers a length only when every value is a valid decimal, all are equal, and duplicates only if relaxed");
        vf_assert(clen.value >= 0 && (uint64_t)clen.value == r.value, "the interpreter's length is the decimal written in the field");
        vf_assert(kept <= 1, "at most one field is to be kept");
        if (r.count > 1) vf_assert(clen.needsSanitizing, "duplicates are replaced by a single field");
        vf_reach(r.count > 1 ? "used-duplicates" : "used");
    }
    if (r.count >= 1 && !unambiguous) {
        vf_assert(clen.sawBad, "invalid, conflicting or (strict) duplicate values are reported as bad");
        vf_reach("bad");
    }
    // untrimmed values: strict parsing allows only SP after the number, so HT is left out of this direction
    if (unambiguous && r.cleanBytes && !sawHt && (relaxed || !r.list))
        vf_assert(used, "a plainly written unambiguous value sequence yields a length");
    WITNESS_POINT();
}
