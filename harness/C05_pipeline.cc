// C05 (thin kernel): the per-connection queue of in-progress transactions is a FIFO and only its front may leave.
// Real code: Pipeline::add/front/back/popMe/count/empty (src/Pipeline.cc, std::list of Http::StreamPointer) holding real
// Http::Stream objects (src/http/Stream.cc constructor/destructor/getTail) created with a null client connection.
// ConnStateData writes the response of pipeline.front() only and Http::Stream::finished() leaves through popMe(this), so
// "responses in request order, one per request" rests on: front() is always the oldest transaction still in the queue,
// a transaction that is not the front cannot leave, and every transaction leaves exactly once.
//
// A program of NOPS operations is explored: add a new stream / popMe() ANY live stream (index symbolic, front or not) /
// popMe() on an empty queue. Reference model: the array of live streams in arrival order.
// Pipeline.cc is compiled with -Dxassert=c05_xassert: its own assert(which == requests.front()) is evaluated by the real code,
// but a failure throws (defined below) so that the refusal can be observed instead of ending the run.
#include "squid.h"
#include <sstream>
#include <functional>
#include <chrono>
#include <atomic>
#include <iostream>
#include <string>
#include <vector>
#include <list>
#include <map>
#include <unordered_map>
#include <memory>
#include <algorithm>
#include "debug/Stream.h"
#include "SquidString.h"
#include "sbuf/SBuf.h"
#include "base/RefCount.h"
#include "base/TextException.h"
#include "client_side_request.h"
#include "http/Stream.h"
#include "Pipeline.h"
#include "common.h"

#ifdef VF_THOROUGH
#define NOPS 8
#else
#define NOPS 6
#endif
#define MAXS NOPS

struct AssertRefused {};
extern "C" void c05_xassert(const char *, const char *, int) { throw AssertRefused(); }

// ---- environment: the transaction object behind a stream is zeroed raw memory of the real size (ClientHttpRequest is not
// constructed); httpRequestFree() (client_side.cc: "delete http") records which transaction was released
static void *released[MAXS];
static unsigned releases = 0;
void httpRequestFree(void *data)
{
    vf_assert(releases < MAXS, "harness: more releases than transactions");
    released[releases++] = data;
}
static unsigned timesReleased(const void *http)
{
    unsigned k = 0;
    for (unsigned i = 0; i < releases; ++i) if (released[i] == http) ++k;
    return k;
}

static Http::Stream *live[MAXS];   // reference model: streams in the queue, oldest first (plain pointers; the harness's
static Http::StreamPointer hold[MAXS]; // own references are kept here so that non-front streams can be named)
static unsigned nlive = 0, added = 0;

static void checkAgainstModel(const Pipeline &p)
{
    vf_assert(p.count() == nlive, "count() = transactions added and not yet popped");
    vf_assert(p.empty() == (nlive == 0), "empty() iff no transaction is queued");
    vf_assert(p.nrequests == added, "nrequests counts every add()");
    vf_assert(p.front().getRaw() == (nlive ? live[0] : nullptr), "front() is the oldest transaction still queued");
    vf_assert(p.back().getRaw() == (nlive ? live[nlive - 1] : nullptr), "back() is the most recently added transaction");
}

static void run()
{
    vf_quiet();
    Pipeline p;
    checkAgainstModel(p);
    for (unsigned step = 0; step < NOPS; ++step) {
        const unsigned op = (unsigned)vf_concretize(vf_range(0, 1, "op"));
        if (op == 0) { // a new request arrives
            ClientHttpRequest *http = static_cast<ClientHttpRequest *>(xcalloc(1, sizeof(ClientHttpRequest)));
            Http::StreamPointer s = new Http::Stream(Comm::ConnectionPointer(), http);
            p.add(s);
            live[nlive] = s.getRaw(); hold[nlive] = s; ++nlive; ++added;
            vf_reach("add");
        } else if (nlive == 0) { // nothing queued: popMe() of anything is a no-op
            ClientHttpRequest *http = static_cast<ClientHttpRequest *>(xcalloc(1, sizeof(ClientHttpRequest)));
            Http::StreamPointer stranger = new Http::Stream(Comm::ConnectionPointer(), http);
            bool refused = false;
            try { p.popMe(stranger); } catch (const AssertRefused &) { refused = true; }
            vf_assert(!refused, "popMe() on an empty pipeline is a no-op");
            vf_reach("pop-empty");
        } else { // some transaction says it is finished: the front or (wrongly) another one
            const unsigned i = (unsigned)vf_concretize(vf_range(0, nlive - 1, "which"));
            Http::Stream *const victim = live[i];
            void *const victimHttp = victim->http;
            bool refused = false;
            try { p.popMe(hold[i]); } catch (const AssertRefused &) { refused = true; }
            vf_observe("refused", refused);
            vf_assert(refused == (i != 0), "popMe() removes the front and refuses every other transaction");
            if (!refused) {
                for (unsigned k = 0; k + 1 < nlive; ++k) { live[k] = live[k + 1]; hold[k] = hold[k + 1]; }
                --nlive; hold[nlive] = nullptr; // the last reference goes away: the stream is destroyed
                vf_assert(timesReleased(victimHttp) == 1, "a popped transaction is released exactly once");
                vf_reach("pop-front");
            } else {
                vf_assert(timesReleased(victimHttp) == 0, "a refused transaction stays alive");
                vf_reach("pop-refused");
            }
        }
        checkAgainstModel(p);
        for (unsigned k = 0; k < nlive; ++k) vf_assert(timesReleased(live[k]->http) == 0, "queued transactions are alive");
    }
    // drain: the remaining responses leave in arrival order
    while (nlive) {
        Http::Stream *const f = live[0];
        vf_assert(p.front().getRaw() == f, "drain: front() is the oldest");
        p.popMe(hold[0]);
        for (unsigned k = 0; k + 1 < nlive; ++k) { live[k] = live[k + 1]; hold[k] = hold[k + 1]; }
        --nlive; hold[nlive] = nullptr;
        checkAgainstModel(p);
    }
    vf_assert(releases >= added, "every added transaction was released");
    vf_reach("drained");
    WITNESS_POINT();
}
extern "C" void c05_fifo(void) { run(); }
