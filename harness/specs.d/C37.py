_CFG = ["src/SquidConfig.cc", "src/ip/Address.cc", "src/helper/ChildConfig.cc"]
_SK = "skeleton: header 1234 8180 QD=1 AN=1..2 NS=AR=0, question '\\1a\\0 A IN', answer section from offset 19; "
SPEC = dict(
    harness="C37_dns.cc",
    units=TOK + _CFG + ["src/dns/rfc1035.cc", "src/dns/rfc3596.cc", "src/dns/rfc2671.cc"],
    entries=dict(
        quick=[
            dict(name="c37_any", bounds="every datagram of 0..11 fully symbolic octets; datagrams of 12..18 octets with octet 3 (RA/Z/RCODE), QDCOUNT and the whole body fully symbolic, ID=017F, octet 2=81, ANCOUNT in {0,1,2}, NSCOUNT=ARCOUNT=0", reach=["rejected", "rcode", "norecords"], sample_every=3001),
            dict(name="c37_rr", bounds=_SK + "record 'C00C b b 00 b 00 00 b b b b b b b' (TYPE, CLASS low, TTL low half, RDLENGTH and 3 RDATA octets symbolic; TYPE != PTR), every truncation 19..full", reach=["rejected", "records"], sample_every=3001),
            dict(name="c37_name", bounds=_SK + "3 fully symbolic owner-name octets followed by a complete A record, every truncation 19..full", reach=["rejected", "records"], sample_every=997),
            dict(name="c37_ptr", bounds=_SK + "PTR record head 'C00C PTR IN ttl 00' + symbolic RDLENGTH low octet + RDATA that is (i) 4 fully symbolic octets (labels, pointers, pointer loops), truncations 30..full, or (ii) 'b abcd b b' (symbolic label length, then a symbolic pointer: includes the loops that fill the 256-octet name buffer), truncations 36..full", reach=["rejected", "records"], sample_every=3001),
            dict(name="c37_faithful", bounds="reference-encoded reply: id/flags/nscount/arcount/qtype/qclass/class/ttl fully symbolic; question name of 0..2 labels of 1..2 arbitrary octets; 0..1 record of type A/AAAA/PTR/CNAME with fully symbolic address octets; owner and PTR/CNAME target either spelled out (0..2 labels of 1 arbitrary octet), or a pointer to the question name, or label+pointer into the question name", reach=["rcode", "records", "norecords"], sample_every=197),
            dict(name="c37_query", bounds="hostname of 1..4 symbolic octets (non-empty labels, optional trailing dot), qid symbolic, EDNS off; rfc1035BuildAQuery, rfc3596BuildAQuery/AAAAQuery/HostQuery(PTR); and the reverse-lookup builders rfc1035BuildPTRQuery / rfc3596BuildPTRQuery4 for 10.b.0.b, rfc3596BuildPTRQuery6 for 2001:0:0:00b::b with 2 fully symbolic octets", reach=["plain"], sample_every=17),
            dict(name="c37_query_edns", bounds="as c37_query with hostname of 1..3 octets and EDNS on with any advertised size 1..65535 (OPT pseudo-record checked octet by octet); no native differential replay (the real packer calls memcpy(dst, nullptr, 0), which the UBSan build aborts on)", reach=["edns"], max_samples=0),
            dict(name="c37_far_pointer", bounds="reference-encoded reply with 3 records: TXT-typed filler of 96..101 or 224..229 octets, a spelled-out 1-label owner (symbolic octet) with a symbolic A record at offset 127..132 / 255..260, and a PTR record whose owner is a pointer to that name and whose target is label + pointer to it (compression offsets with low octet >= 0x80 and with non-zero high bits)", reach=["records"], sample_every=5),
            dict(name="c37_known_root_pointer", known=True, bounds="KNOWN FINDING C37-root-pointer-trailing-dot only: the c37_faithful reference-encoded reply (1 record) restricted to messages in which the owner or the PTR/CNAME target is a label followed by a compression pointer to a root (empty) question name; strict assertion 'decoded name equals the encoded one'; its violations are listed in known_findings.json and printed as KNOWN-FINDING", reach=[], max_samples=0, sample_every=0),
        ],
        thorough=[
            dict(name="c37_any", bounds="as quick, datagrams up to 20 octets", reach=["rejected", "rcode", "norecords"], sample_every=9973),
            dict(name="c37_rr", bounds="as quick with 4 symbolic RDATA octets", reach=["rejected", "records"], sample_every=3001),
            dict(name="c37_name", bounds="as quick with 5 fully symbolic owner-name octets", reach=["rejected", "records"], sample_every=9973),
            dict(name="c37_ptr", bounds="as quick with (i) 5 fully symbolic RDATA octets, (ii) one more symbolic octet after the pointer", reach=["rejected", "records"], sample_every=9973),
            dict(name="c37_faithful", bounds="as quick, all spelled-out names 0..2 labels of 1..2 octets, 0..1 trailing octet after the answer section", reach=["rcode", "records", "norecords"], sample_every=197),
            dict(name="c37_faithful2", bounds="as quick with 0..2 records, all labels 1 octet", reach=["rcode", "records", "norecords"], sample_every=3001),
            dict(name="c37_query", bounds="as quick, hostname of 1..6 octets", reach=["plain"]),
            dict(name="c37_query_edns", bounds="as quick, hostname of 1..5 octets", reach=["edns"], max_samples=0),
            dict(name="c37_far_pointer", bounds="reference-encoded reply with 3 records: TXT-typed filler of 96..101 or 224..229 octets, a spelled-out 1-label owner (symbolic octet) with a symbolic A record at offset 127..132 / 255..260, and a PTR record whose owner is a pointer to that name and whose target is label + pointer to it (compression offsets with low octet >= 0x80 and with non-zero high bits)", reach=["records"], sample_every=5),
            dict(name="c37_known_root_pointer", known=True, bounds="KNOWN FINDING C37-root-pointer-trailing-dot only: the c37_faithful reference-encoded reply (1 record) restricted to messages in which the owner or the PTR/CNAME target is a label followed by a compression pointer to a root (empty) question name; strict assertion 'decoded name equals the encoded one'; its violations are listed in known_findings.json and printed as KNOWN-FINDING", reach=[], max_samples=0, sample_every=0),
        ]),
    timeout=dict(quick=170, thorough=900),
    stubs=["libc strtok/strncasecmp/snprintf models (C locale)", "xmalloc/xcalloc/xfree = engine heap (allocation never fails)", "debugs() disabled",
           "compat/xstring.cc is #included by the harness with its xstrdup renamed (the engine models xstrdup); xstrncpy is the real one",
           "Config.dns.packet_max set by the harness on the real zero-initialised SquidConfig global",
           "harness pre-splits (exhaustively, no assumption) the octets that act as label lengths / pointer targets / RDLENGTH so that the decoder's offsets are concrete on every path"],
    assumptions=["KNOWN FINDING C37-root-pointer-trailing-dot (a label followed by a compression pointer to a root name decodes with a trailing dot) is examined by c37_known_root_pointer and excluded from the other faithfulness entries",
                 "c37_query_edns is interpreter only (max_samples=0): with EDNS on the real packer executes memcpy(dst, nullptr, 0) in rfc1035RRPack (called from rfc2671RROptPack) - undefined by the letter, harmless in practice - on which the native UBSan replay build aborts; not a decoding error, not counted as a finding of this property"],
    outside="datagrams longer than the bounds; more than 2 answer records; fully symbolic datagrams beyond 18/20 octets (longer ones only as the listed skeleton families); names longer than 3 labels x 2 octets in the faithfulness family; the UDP/TCP receive path and idnsGrokReply's bookkeeping (only its use of the decoded message is mirrored); CNAME rdata is compared as received octets (Squid does not decompress CNAME targets)",
)
