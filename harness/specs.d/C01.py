_JOBS = ["src/base/AsyncJob.cc", "src/base/AsyncCall.cc", "src/base/AsyncCallQueue.cc", "src/base/AsyncCallList.cc", "src/base/CodeContext.cc",
         "src/base/InstanceId.cc", "src/cbdata.cc"]
_HDR = ["src/HttpHeader.cc", "src/HttpHeaderTools.cc", "src/http/RegisteredHeaders.cc", "src/http/ContentLengthInterpreter.cc",
        "src/http/one/Parser.cc", "src/String.cc", "src/StrList.cc", "src/MemBuf.cc", "src/mime_header.cc", "src/SquidConfig.cc",
        "src/ip/Address.cc", "src/helper/ChildConfig.cc", "lib/util.cc", "compat/xstring.cc"]
_REQ = ["src/HttpRequest.cc", "src/http/Message.cc", "src/anyp/Uri.cc", "src/anyp/UriScheme.cc", "src/anyp/ProtocolType.cc", "src/http/RequestMethod.cc",
        "src/http/MethodType.cc", "src/log/access_log.cc", "src/MasterXaction.cc", "src/base/Stopwatch.cc"]
_REP = ["src/HttpReply.cc", "src/HttpBody.cc", "src/HttpHdrCc.cc", "src/HttpHdrContRange.cc", "src/HttpHdrRange.cc", "src/http/StatusLine.cc", "src/http/StatusCode.cc"]
_U = TOK + ["src/BodyPipe.cc"] + _JOBS + _HDR + _REQ + _REP + ["src/http.cc", "src/clients/Client.cc", "src/adaptation/Initiator.cc", "src/CommCalls.cc",
            "src/comm/Connection.cc", "src/base/JobWait.cc", "src/http/one/TeChunkedParser.cc", "src/http/one/Tokenizer.cc", "src/http/Stream.cc"]
_e = lambda n, b, r, **kw: dict(name=n, bounds=b, reach=list(r), **dict(dict(sample_every=197, max_samples=3), **kw))
_KNOWN = [dict(name="c01_known_bodiless_extra_bytes", known=True, reach=[], max_samples=0, sample_every=0, bounds="KNOWN FINDING C01-bodiless-extra-bytes-stored only: Content-Length reply (declared 0..2) with status 204 or 304 or to a HEAD request, 1..2 bytes arriving together with the header block; strict assertions; its violations are listed in known_findings.json and printed as KNOWN-FINDING"),
          dict(name="c01_known_overread_pooled", known=True, reach=[], max_samples=0, sample_every=0, bounds="KNOWN FINDING C01-overread-connection-pooled only: a reply that may have a body with Content-Length: 0 plus 1 more byte, or a complete chunked 1-byte body plus 1 more byte, all arriving together with the header block; strict assertions; its violations are listed in known_findings.json and printed as KNOWN-FINDING")]
_L = ("whole", "bodiless", "premature-eof", "read-error", "in-progress", "pooled")
_EX = ("reply status symbolic 200..599, Connection header %s, request keep-alive and request-completely-sent flags symbolic; 0..all origin bytes arrive together with the header block, then "
       "%d network events from {segment of symbolic length%s, EOF, read error, EAGAIN}. After every event: stored bytes = the origin's body bytes received so far, in order (store writes contiguous); "
       "marked 'stored whole' only if the framing says complete; complete => whole and no failure; EOF before the end => failure reported, never whole; read error => failure; connection "
       "pooled only after a complete message that ended exactly where reading stopped, with keep-alive on both sides and the request completely sent; completion ends the job and closes or pools the connection")
SPEC = dict(
    harness="C01_relay.cc", units=_U, unit_flags={"compat/xstring.cc": ["-Dxstrdup=vf_unused_squid_xstrdup"]},
    scope="kernel",
    scope_note="kernel decided: (A) from the parsed reply header on, HttpStateData::readReply/processReply/processReplyBody/writeReplyBody/decodeAndWriteReplyBody (real TeChunkedParser)/"
               "truncateVirginBody/persistentConnStatus/statusIfComplete/markPrematureReplyBodyEofFailure and Client::addVirginReplyBody/storeReplyBody/serverComplete/completeForwarding, "
               "driven by the real AsyncCallQueue under every bounded schedule of origin write segments, EOF, read errors and EAGAIN, hand StoreEntry::write() exactly the origin's body bytes "
               "in order (decoded for chunked, never beyond a declared Content-Length) and report the reply as stored whole (FwdState::markStoredReplyAsWhole) only when its framing says the body "
               "is complete -- declared length reached, last-chunk received, or EOF of a close-delimited body; a body cut short by EOF is reported through FwdState::fail() and never as whole "
               "(FwdState then truncates the entry, which is what makes the client-side close instead of sending the full length / last-chunk); the server connection is reused only after a "
               "message that ended exactly at its framing. (B) persistentConnStatus()/statusIfComplete() answer 'complete' exactly when EOF, closure, the last-chunk, a bodiless reply or the "
               "declared length has been seen, for every combination of their inputs. (C) Http::Stream::packChunk() output for any sequence of body buffers plus the last-chunk is decoded "
               "by a strict reference decoder and by the real TeChunkedParser to exactly the buffers' bytes, and is incomplete without the last-chunk. "
               "gap: reply header parsing and the header hooks (C23, C25, C26, C11), FwdState::complete()/StoreEntry truncation flags, the store and store_client::copy, clientReplyContext, "
               "Http::Stream::sendBody/sendStartOfMessage and Http1::Server::handleReply (when the last-chunk is requested), comm; ICAP/eCAP adaptation of the reply; body sizes beyond a few bytes "
               "(36 for one chunk), in particular every internal buffer/page boundary",
    entries=dict(
        quick=[
            _e("c01_body_length", "Content-Length framing: origin sends 0..3 symbolic body bytes + 1 more byte and declares that many, one fewer or one more; GET or HEAD; "
               + _EX % ("none / close / keep-alive", 3, " 1..rest"), _L),
            _e("c01_body_chunked", "chunked framing: body of 0..2 symbolic bytes in 1..2 chunks (every cut; reference encoder, no extensions/trailers) + 1 more byte; GET; "
               + _EX % ("none / close", 3, ": 1 or 2 bytes, or up to the end of a chunk's data / a chunk / the last-chunk line / the body"), _L, sample_every=997),
            _e("c01_body_eof", "close-delimited framing (no Content-Length, not chunked): 0..3 symbolic body bytes + 1 more byte; GET; " + _EX % ("none / close", 3, " 1..rest"),
               ("whole", "bodiless", "read-error", "in-progress", "pooled")),
            _e("c01_status", "persistentConnStatus() on a live HttpStateData with every input symbolic: eof, lastChunk, flags.chunked/keepalive/forceClose/request_sent, payloadSeen and payloadTruncated "
               "(any 63-bit values, truncated <= seen), reply version 0.9/1.0/1.1, status 100..599, Content-Length -1 or any 63-bit value (absent when chunked), reply keep_alive, Connection: close "
               "present or not, method GET/HEAD, server connection open or closed", ("persistent", "complete-close", "incomplete")),
            _e("c01_chunk_small", "0..3 body buffers of 1..3 symbolic bytes through packChunk(), with or without the final empty buffer (last-chunk); strict reference decoder and real TeChunkedParser", ("complete", "open"), sample_every=7),
            _e("c01_chunk_hex", "one body buffer of 9, 10, 15, 16 or 31 symbolic bytes (chunk-size 9, A, F, 10, 1F), optionally followed by one of 2 bytes, with or without the last-chunk", ("complete", "open"), sample_every=3),
        ] + _KNOWN,
        thorough=[
            _e("c01_body_length", "as quick with 0..4 body bytes and 4 events", _L, sample_every=1997),
            _e("c01_body_chunked", "as quick with 0..3 body bytes and 4 events", _L, sample_every=9973),
            _e("c01_body_eof", "as quick with 0..4 body bytes and 4 events", ("whole", "bodiless", "read-error", "in-progress", "pooled"), sample_every=997),
            _e("c01_status", "as quick", ("persistent", "complete-close", "incomplete")),
            _e("c01_chunk_small", "as quick with buffers of 1..4 bytes", ("complete", "open"), sample_every=37),
            _e("c01_chunk_hex", "as quick with one buffer of every size 9..36", ("complete", "open"), sample_every=7),
        ] + _KNOWN),
    timeout=dict(quick=400, thorough=2400),
    stubs=["Comm::Read() keeps the callback, the harness dials it; Comm::ReadNow() returns the next segment of the origin's byte stream (at most the size asked for), ENDFILE, COMM_ERROR or "
           "INPROGRESS as the event says; comm_add/remove_close_handler, commSetConnTimeout/commUnsetConnTimeout, fd_bytes are no-ops, _comm_close is counted; fde::Table is 8 zeroed entries; "
           "statCounter/IOStats zero-initialised globals",
           "HttpStateData is created by its real constructor from a FwdState; the state processReplyHeader() leaves is set by the harness: virgin reply = a real HttpReply (status, "
           "Content-Length or Transfer-Encoding: chunked, Connection header put into its HttpHeader, then the real hdrCacheInit()), flags.chunked + new TeChunkedParser as processReplyHeader() "
           "does, flags.headers_parsed, inBuf = the body bytes that arrived with the header, payloadSeen = inBuf.length(); flags.request_sent/keepalive symbolic; the first "
           "processReplyBody() is scheduled as an AsyncCall (adaptOrFinalizeReply() is not performed: no adaptation, header hooks are C11's kernel)",
           "store.cc not linked: StoreEntry::write() appends to the recorder array and asserts contiguous offsets, isAccepting() = true, bytesWanted() = as much as offered, lock/unlock no-ops; "
           "StoreEntry and MemObject are zeroed raw memory",
           "FwdState.cc/pconn.cc not linked: FwdState constructor/destructor defined by the harness (member initialisation only); markStoredReplyAsWhole()/complete()/fail() and "
           "PconnPool::push() (on a zeroed PconnPool) are recorders, unregister()/handleUnregisteredServerEnd() no-ops; ErrorState: harness-defined constructor; MakeNamedErrorDetail() = nil",
           "c01_chunk_*: Http::Stream real (no connection), ClientHttpRequest zeroed raw memory with request set (flags.chunkedReply), no Range",
           "HttpRequest, MasterXaction, Comm::Connection real; MemPools::create() = plain heap; bitcode build only: simple _Prime_rehash_policy (AsyncJob registry); ping_data constructor, "
           "null_string, StatHist no-ops; SquidConfig Config zero-initialised except read_ahead_gap 16 KB, relaxed_header_parser on; xstrdup engine model", "debugs() disabled"],
    assumptions=["known finding C01-bodiless-extra-bytes-stored: origin bytes following the header block of a reply that cannot have a body (204, 304, reply to HEAD) are excluded from the "
                 "normal entries by vf_assume and examined by c01_known_bodiless_extra_bytes",
                 "known finding C01-overread-connection-pooled: reads beyond the end of a response with Content-Length: 0 or chunked framing are excluded from the normal entries by vf_assume "
                 "and examined by c01_known_overread_pooled (for the bytes that arrive with the header block; later reads beyond a chunked body's final CRLF stay excluded)",
                 "one main-loop iteration = one network event followed by AsyncCallQueue::fire()",
                 "chunked bodies: segment ends restricted to 1-2 bytes ahead or chunk-structure boundaries (arbitrary segmentation of the framing itself is C24's subject)"],
    outside="bodies, event counts and chunk counts beyond the bounds; chunk extensions and trailers from the origin (C24); 1xx and HTTP/0.9 replies in the body entries; replies whose header "
            "block failed to parse; everything listed under gap",
)
