_JOBS = ["src/base/AsyncJob.cc", "src/base/AsyncCall.cc", "src/base/AsyncCallQueue.cc", "src/base/AsyncCallList.cc", "src/base/CodeContext.cc",
         "src/base/InstanceId.cc", "src/cbdata.cc"]
_HDR = ["src/HttpHeader.cc", "src/HttpHeaderTools.cc", "src/http/RegisteredHeaders.cc", "src/http/ContentLengthInterpreter.cc",
        "src/http/one/Parser.cc", "src/String.cc", "src/StrList.cc", "src/MemBuf.cc", "src/mime_header.cc", "src/SquidConfig.cc",
        "src/ip/Address.cc", "src/helper/ChildConfig.cc", "lib/util.cc", "compat/xstring.cc"]
_REQ = ["src/HttpRequest.cc", "src/http/Message.cc", "src/anyp/Uri.cc", "src/anyp/UriScheme.cc", "src/anyp/ProtocolType.cc", "src/http/RequestMethod.cc",
        "src/http/MethodType.cc", "src/log/access_log.cc", "src/MasterXaction.cc", "src/base/Stopwatch.cc"]
_REP = ["src/HttpReply.cc", "src/HttpBody.cc", "src/HttpHdrCc.cc", "src/HttpHdrContRange.cc", "src/HttpHdrRange.cc", "src/http/StatusLine.cc", "src/http/StatusCode.cc"]
_U = TOK + ["src/BodyPipe.cc"] + _JOBS + _HDR + _REQ + _REP + ["src/http.cc", "src/clients/Client.cc", "src/adaptation/Initiator.cc", "src/CommCalls.cc",
            "src/comm/Connection.cc", "src/base/JobWait.cc", "src/http/one/TeChunkedParser.cc", "src/http/one/Tokenizer.cc", "src/http/Stream.cc"]
_e = lambda n, b, r, **kw: dict(name=n, bounds=b, reach=list(r), **dict(dict(sample_every=197, max_samples=3), **kw))
_L = ("whole", "bodiless", "premature-eof", "read-error", "in-progress", "pooled")
SPEC = dict(
    harness="C01_relay.cc", units=_U, unit_flags={"compat/xstring.cc": ["-Dxstrdup=vf_unused_squid_xstrdup"]},
    scope="kernel",
    scope_note="kernel decided: ...; gap: ...",
    entries=dict(
        quick=[
            _e("c01_body_length", "x", _L),
            _e("c01_body_chunked", "x", _L),
            _e("c01_body_eof", "x", ("whole", "bodiless", "read-error", "in-progress")),
        ],
        thorough=[
            _e("c01_body_length", "x", _L),
            _e("c01_body_chunked", "x", _L),
            _e("c01_body_eof", "x", ("whole", "bodiless", "read-error", "in-progress")),
        ]),
    timeout=dict(quick=400, thorough=2400),
    stubs=[],
    outside="",
)
