import os as _os
_B = "; b = fully symbolic byte (any value)"
_M = "; method any of the 38 methods parse() does not single out; check_hostnames off"
def _E(n, q, t, r=("accepted", "rejected"), se=23):
    return (dict(name=n, bounds=q + _B, reach=list(r), sample_every=se, jobs=1), dict(name=n, bounds=t + _B, reach=list(r), sample_every=se * 7, jobs=1))
_FAM = [
    _E("c30_e_host", "'http://' b b '.a/' | 'http://A' b b '/x' | 'http://B' b '.a/' with check_hostnames in {off,on}" + _M,
                     "'http://' b b b '.a/' | 'http://A' b b '/x' | 'http://B' b '.a/' with check_hostnames in {off,on}" + _M, ("accepted", "rejected", "bracketed-name")),
    _E("c30_e_port", "'https://h.a:' b b '/' | 'http://h.a:6553' b '/' | 'http://h.a:42949673' b b '/'" + _M,
                     "'https://h.a:' b b '/' | 'http://h.a:655' b b '/' | 'http://h.a:42949673' b b '/'" + _M),
    _E("c30_e_port_end", "'http://h.a:8' b b" + _M, "'http://h.a:8' b b" + _M),
    _E("c30_e_ip", "'http://[fc00::' b ']' b '8/' | 'http://10.0.0.' b b '/'" + _M, "'http://[fc00::' b b ']' b '8/' | 'http://10.0.0.' b b '/'" + _M, ("accepted", "rejected", "bracketed-name")),
    _E("c30_e_userinfo", "'ftp://u' b 'p@h.a' b '/'" + _M, "'ftp://u' b 'p@h.a' b '/'" + _M),
    _E("c30_e_scheme_method", "scheme in {http,https,ftp,coap,coaps,wais,whois,HtTp,foo} '://h' [':8'] b" + _M + " | 'http://h.a' b with method any of the 41 non-CONNECT methods",
                              "scheme in {http,https,ftp,coap,coaps,wais,whois,HtTp,foo} '://h' [':8'] b" + _M + " | 'http://h.a' b with method any of the 41 non-CONNECT methods"),
    _E("c30_e_path", "'http://h.a/' b b" + _M, "'http://h.a/' b b" + _M, ("accepted", "encoded-path")),
    _E("c30_e_any", "'http://' b b" + _M, "'http://' b b b" + _M, ("accepted", "rejected", "bracketed-name", "encoded-path")),
    _E("c30_e_connect", "CONNECT b b '.a:443' | 'h.a:' b b b | 'h.a:6553' b | '[fc00::' b ']' b '443'; check_hostnames off",
                        "CONNECT b b b '.a:443' | 'h.a:' b b b b | 'h.a:655' b b | '[fc00::' b b ']' b '44' b; check_hostnames off"),
    _E("c30_e_connect_any", "CONNECT b b b b; check_hostnames off", "CONNECT b b b b b; check_hostnames off", ("accepted", "rejected")),
]
_KNOWN = [
    dict(name="c30_known_bracketed_names", known=True, jobs=1, reach=[], max_samples=0, sample_every=0, bounds="KNOWN FINDING C30-bracketed-names only: the 'http://[fc00::' b ']' b '8/' family restricted to accepted URIs whose '['-prefixed host is not an IP address; violations are listed in known_findings.json and printed as KNOWN-FINDING"),
    dict(name="c30_known_encoded_path", known=True, jobs=1, reach=[], max_samples=0, sample_every=0, bounds="KNOWN FINDING C30-path-reencoded only: 'http://h.a/' b b restricted to paths with a byte outside pchar and '/', with the literal 'same path' assertion; violations are listed in known_findings.json and printed as KNOWN-FINDING"),
]
SPEC = dict(
    harness="C30_uri.cc",
    units=TOK + ["src/anyp/Uri.cc", "src/anyp/UriScheme.cc", "src/anyp/ProtocolType.cc", "src/ip/Address.cc", "src/SquidConfig.cc", "src/helper/ChildConfig.cc",
                 "src/http/RequestMethod.cc", "src/http/MethodType.cc", "src/String.cc", "lib/rfc1738.cc", "compat/xstring.cc"],
    unit_flags={"compat/xstring.cc": ["-Dxstrdup=vf_unused_xstrdup"]},   # xstrdup comes from the engine/native allocation layer
    entries=dict(quick=[f[0] for f in _FAM] + _KNOWN, thorough=[f[1] for f in _FAM] + _KNOWN),
    timeout=dict(quick=400, thorough=1500),
    stubs=["getaddrinfo/freeaddrinfo/inet_ntop: numeric-only models in harness/C30_netmodel.h (glibc inet_aton/inet_pton/inet_ntop text rules, no %scope, no dotted quad inside IPv6); native replay uses the real libc",
           "SquidConfig Config is the real global, zero-initialised (= squid.conf defaults for uri_whitespace strip, no append_domain), check_hostnames symbolic",
           "compat/xstring.cc is linked for xstrncpy with its xstrdup renamed (xstrdup comes from the allocation layer)", "libc atoi/strtol/strchr/strrchr/strstr/strspn models", "debugs() disabled"],
    outside="URIs other than the listed skeleton families; urn: and the OPTIONS/TRACE '*' form (no authority); append_domain; uri_whitespace other than strip; AnyP::Uri::parsedHost()/AnyP::Host (src/anyp/Host.cc) are not exercised",
    assumptions=["known finding C30-bracketed-names: accepted URIs whose host is a '['-prefixed non-IP name are examined only by c30_known_bracketed_names",
                 "known finding C30-path-reencoded: for paths with a byte outside pchar and '/', the ordinary entries assert stability of the canonical (percent-encoded) path; the literal 'same path' assertion is made by c30_known_encoded_path"],
)
