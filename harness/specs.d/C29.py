_f = lambda n, b, r=("some", "none"), **kw: dict(name=n, bounds=b, reach=list(r), **kw)
SPEC = dict(
    harness="C29_cc.cc",
    units=SBUF + ["src/HttpHdrCc.cc", "src/StrList.cc", "src/String.cc", "src/HttpHeaderTools.cc", "src/HttpHeader.cc", "src/MemBuf.cc", "src/sbuf/Algorithms.cc"],
    noops=["_ZN8StatHist"],   # HttpHeader.cc's global HttpHeaderStats[] constructors (statistics histograms; not part of parsing)
    entries=dict(
        quick=[
            _f("c29_num", "'public, ' NAME b b b, NAME in the 5 numeric directives: 3 fully symbolic non-NUL bytes ('=', argument)"),
            _f("c29_num_31", "'max-age=214748364' b b"),
            _f("c29_num_32", "'no-store, s-maxage=429496729' b b", ("some",)),
            _f("c29_num_63", "'min-fresh=922337203685477580' b b"),
            _f("c29_private", "'private=' b b b b", ("some",)),
            _f("c29_nocache", "'no-cache=' b 'a' b b b"),
            _f("c29_quoted_list", "'no-cache=\"a' b 'b\"' b 'private=\"' b '\"'"),
            _f("c29_list", "'public' b b 'no-store' b 'max-age=1'"),
            _f("c29_dup_num", "'max-age=' b ', max-age=' b ', max-stale' b b", ("some",)),
            _f("c29_dup_list", "'no-cache' b b ', private, no-cache, private=\"x\"'", ("some",)),
            _f("c29_case", "b 'ublic, no-' b 'tore, x' b"),
            _f("c29_other", "'immutable, ' b b b ', y=' b", ("some",)),
            _f("c29_any", "every NUL-free value of 0..3 bytes", ("none",)),
        ],
        thorough=[]),
    timeout=dict(quick=300, thorough=1200),
    stubs=["std::__detail::_Prime_rehash_policy::_M_next_bkt/_M_need_rehash (bucket-count policy of std::unordered_map, libstdc++.so) defined in the harness for the bitcode build", "StatHist::* are no-ops (statistics histograms built by HttpHeader.cc's global constructors)", "libc atoi/strtol/memchr/strspn/strcspn/vsnprintf models (glibc semantics, C locale)", "memAllocBuf rounding as mem/old_api.cc", "debugs() disabled"],
    outside="field values other than the listed families; NUL inside the value",
)
