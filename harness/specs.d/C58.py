import os as _os
SPEC = dict(
    harness="C58_ipcmsg.cc",
    units=SBUF + ["src/ipc/TypedMsgHdr.cc", "src/String.cc"],
    entries=dict(
        quick=[
            dict(name="c58_roundtrip", bounds="type any non-zero int; 0..2 items, each putInt(any int) / putPod(struct{char,int32,uint64}, any values) / putString(0..3 arbitrary bytes) / putFixed(0..3 arbitrary bytes); optional putFd(any int); transport = copy of msg_iov[0] and the control buffer into a prepForReading() message, sent directly or as the copy UdsSender makes", reach=["done", "fd", "badfd"], sample_every=29),
            dict(name="c58_capacity", bounds="putFixed of 4089..4096 bytes (first/last 8 symbolic), then one item: int, POD(16 bytes), string or fixed blob of 0..5 arbitrary bytes", reach=["fits", "full"], sample_every=7),
            dict(name="c58_adversarial", bounds="received DataBuffer: type_ any int, size any 64-bit value (also far beyond maxSize), 1..2 get* calls from getInt/getString/getPod(16 bytes)/getFixed(0,1,3,4092,4096,4097); content symbolic at the first/last 3 bytes of every part; string length fields any int outside (3,4091)", reach=["accepted", "rejected"], sample_every=53),
            dict(name="c58_adversarial_raw", bounds="received DataBuffer: type_ any int, 12 fully symbolic content bytes (rest zero), claimed size 0..16, 1..2 get* calls from getInt/getString/getPod/getFixed(0,1,3)", reach=["accepted", "rejected"], sample_every=17),
        ],
        thorough=[
            dict(name="c58_roundtrip", bounds="as quick with 0..4 items", reach=["done", "fd", "badfd"], sample_every=211),
            dict(name="c58_capacity", bounds="as quick", reach=["fits", "full"], sample_every=7),
            dict(name="c58_adversarial", bounds="as quick with 1..3 get* calls", reach=["accepted", "rejected"], sample_every=503),
            dict(name="c58_adversarial_raw", bounds="as quick with 1..3 get* calls", reach=["accepted", "rejected"], sample_every=101),
        ]),
    timeout=dict(quick=170, thorough=900),
    stubs=["sendmsg()/recvmsg() are modelled by transport(): byte copy of msg_iov[0] (iov_len bytes) and of msg_control (msg_controllen bytes) into a prepForReading() message",
           "memAllocBuf family (harness/common/stubs.cc) behind String", "debugs() disabled"],
    outside="real socket I/O and kernel truncation flags (MSG_TRUNC/MSG_CTRUNC); messages with more parts than the bound; strings whose length lies strictly between the boundary windows; the typed messages built on top (StrandCoord, Mgr::*, Snmp::*)",
)
