HDR = TOK + ["src/HttpHeader.cc", "src/HttpHeaderTools.cc", "src/http/RegisteredHeaders.cc", "src/http/ContentLengthInterpreter.cc",
             "src/http/one/Parser.cc", "src/String.cc", "src/StrList.cc", "src/MemBuf.cc", "src/mime_header.cc", "src/SquidConfig.cc",
             "src/ip/Address.cc", "src/helper/ChildConfig.cc", "lib/util.cc", "compat/xstring.cc"]
# xstrdup is an engine model (engine/models/libc.c); the real compat/xstring.cc is linked for xstrncpy with its xstrdup renamed away
HDR_FLAGS = {"compat/xstring.cc": ["-Dxstrdup=vf_unused_squid_xstrdup"]}
_e = lambda n, b, r: dict(name=n, bounds=b, reach=r, sample_every=61)
_cfg = "; relaxed_header_parser in {0,1}; b = any byte but LF, d = any digit"
_cfgT = "; relaxed_header_parser in {-1,0,1}; b = any byte but LF, d = any digit"
_out = ["used", "used-duplicates", "bad-flagged", "bad-rejected"]
SPEC = dict(
    harness="C26_clen.cc", units=HDR, unit_flags=HDR_FLAGS,
    entries=dict(
        quick=[
            _e("c26_values", "request blocks 'Content-Length:' b b CRLF | 'Content-Length: 7' b b CRLF | 'Content-Length: 7,' b ',' b CRLF" + _cfg, _out),
            _e("c26_fields", "request and reply blocks 'Content-Length: 1' b CRLF 'Host: h' CRLF 'Content-Length: 1' b CRLF | 'Content-Length: 5' CRLF 'Content-Length: 5' CRLF 'content-length: ' b CRLF" + _cfg, _out[1:]),
            _e("c26_big", "request blocks 'Content-Length: 922337203685477580' d CRLF | 'Content-Length: 9223372036854775807' b CRLF | 'Content-Length: 9223372036854775807' CRLF 'Content-Length: 922337203685477580' d CRLF | "
               "'Content-Length: 00000000000000000000012' CRLF 'Content-Length: 1' b CRLF" + _cfg, _out),
            _e("c26_interp", "ContentLengthInterpreter alone: checkField(v), v = 0..2 bytes | checkField('4' b), checkField('4' b); b any byte but NUL; relaxed_header_parser in {0,1}",
               ["used", "used-duplicates", "bad"]),
        ],
        thorough=[
            _e("c26_values", "request blocks 'Content-Length:' b b b CRLF | 'Content-Length: 7' b b b CRLF | 'Content-Length: 7,' b b ',' b CRLF" + _cfgT, _out),
            _e("c26_fields", "request and reply blocks 'Content-Length:' b b CRLF 'Host: h' CRLF 'Content-Length: 1' b CRLF | 'Content-Length: 5' CRLF 'Content-Length:' b b CRLF 'content-length: ' b CRLF" + _cfg, _out[1:]),
            _e("c26_big", "as quick with the last family 'Content-Length: 00000000000000000000012' CRLF 'Content-Length: ' b d CRLF, plus 'Content-Length: 922337203685477580' d b CRLF" + _cfg, _out),
            _e("c26_interp", "ContentLengthInterpreter alone: checkField(v), v = 0..3 bytes | checkField('4' b), checkField('4' b); b any byte but NUL; relaxed_header_parser in {-1,0,1}",
               ["used", "used-duplicates", "bad"]),
        ]),
    timeout=dict(quick=900, thorough=3000),
    stubs=["StatHist::enumInit/count are no-ops (per-header statistics histograms; StatHist.cc not linked)",
           "SquidConfig Config is the real global, zero-initialised, relaxed_header_parser set by the harness",
           "compat/xstring.cc is the real file with its xstrdup renamed away (xstrdup is an engine model)",
           "libc strtoll/strspn/strcspn/isspace/snprintf models (glibc semantics, C locale)", "debugs() disabled"],
    outside="values and field lists longer than the listed families; LF inside the symbolic bytes (line structure is C25); Transfer-Encoding overriding Content-Length and the "
            "1xx/204/trailer rules (prohibitedAndIgnored); how callers act on conflictingContentLength() (HttpRequest::checkEntityFraming, HttpStateData) is read off, not executed",
)
