_D = "datum = every NUL-free byte string of %s bytes (fully symbolic)"
_e = lambda n, b, r, **kw: dict(name=n, bounds=b, reach=list(r), **kw)
_KNOWN = [
    dict(name="c34_known_username_space", known=True, reach=[], max_samples=0, sample_every=0,
         bounds="KNOWN FINDING C34-username-space only: Format::QuoteUrlEncodeUsername on every NUL-free user name of 1..2 bytes that contains a space; its violation is listed in known_findings.json and printed as KNOWN-FINDING"),
    dict(name="c34_known_shell_whitespace", known=True, reach=[], max_samples=0, sample_every=0,
         bounds="KNOWN FINDING C34-shell-quote-whitespace only: strwordquote on every NUL-free datum of 1..2 bytes that contains TAB/VT/FF and no space; its violations are listed in known_findings.json and printed as KNOWN-FINDING"),
]
def _entries(nf, nr):
    return _main(nf, nr) + _KNOWN
def _main(nf, nr):
    return [
        _e("c34_mimeblob", "Format::QuoteMimeBlob: " + _D % ("0..%d" % (nf - 1)) + "; also NULL", ("done",)),
        _e("c34_mimeblob_printable", "Format::QuoteMimeBlob: datum = every string of 0..%d printable ASCII bytes 0x20..0x7e (symbolic)" % nf, ("done",)),
        _e("c34_username", "Format::QuoteUrlEncodeUsername: " + _D % ("0..%d" % (nf - 2)) + " without a space (known finding, see assumptions); also NULL", ("name", "none")),
        _e("c34_quoted_string", "log_quoted_string into a buffer of exactly 2*len+1 bytes: " + _D % ("0..%d" % nf), ("done",)),
        _e("c34_url", "rfc1738_escape (URL quoting) and rfc1738_escape_unescaped (default quoting): " + _D % ("0..%d" % (nf - 2)), ("done",)),
        _e("c34_shell", "strwordquote: " + _D % ("0..%d" % nf) + " except strings with TAB/VT/FF and no space (known finding, see assumptions)", ("quoted", "bare")),
        _e("c34_record_default_quotes", "records of logformats 'x %>h y', 'x \"%>h\" y', 'x \"%\">h\" y' built by Format::parse + Format::assemble; request header block " + _D % ("1..%d (default quoting) / 1..%d (quoted-string)" % (nf - 2, nr)), ("default", "quotes")),
        _e("c34_record_mime", "records of logformats 'x [%>h] y', 'x [%[>h] y'; " + _D % ("1..%d" % (nr - 1)), ("mime",)),
        _e("c34_record_url_shell", "records of logformats 'x %#>h y', 'x %/>h y', 'x \"%#>h\" y'; " + _D % ("1..%d (URL) / 1..%d (shell)" % (nf - 2, nr)) + " (shell: same exclusion as c34_shell)", ("url", "shell")),
    ]
SPEC = dict(
    harness="C34_logquote.cc",
    units=SBUF + ["src/format/Quoting.cc", "src/format/Token.cc", "src/format/Config.cc", "lib/rfc1738.cc", "src/tools.cc", "src/MemBuf.cc", "compat/xstring.cc",
           "src/SquidConfig.cc", "src/ip/Address.cc", "src/helper/ChildConfig.cc"],
    unit_flags={"compat/xstring.cc": ["-Dxstrdup=vf_unused_squid_xstrdup"]},  # xstrdup is an engine model; the real file is linked for xstrncpy
    scope="kernel",
    scope_note="kernel decided: the four log-quoting transformations (log_quoted_string, Format::QuoteMimeBlob / QuoteUrlEncodeUsername, rfc1738_escape, "
               "strwordquote) and the default quoting emit no raw CR/LF and no unescaped delimiter of the field syntax they are used in, and (the four named ones) are "
               "inverted by a reference un-quoter; records built by the real Format::parse + Format::assemble for a client-controlled field (%>h) under every quoting "
               "modifier except %' (raw, by definition unquoted) have exactly the fields of their logformat and no line break; "
               "gap: 'exactly one record per finished transaction' (client_side.cc / access_log.cc accessLogLog callers), which %codes ask for quoting at all "
               "(fields with quote=0 such as %un, %ru, %mt are written as produced unless the logformat gives a modifier), width/precision truncation, the log module I/O",
    entries=dict(quick=_entries(4, 3), thorough=_entries(5, 4)),
    timeout=dict(quick=300, thorough=1800),
    stubs=["AccessLogEntry built in zeroed raw memory without its constructor chain; only headers.request is set (the only member %>h reads besides icap.reqMethod == methodNone); the RefCount handed to assemble() is fabricated from the raw pointer (no lock/unlock/destruction)",
           "vsnprintf model for %%%02X and %*.*s", "memAllocBuf rounding as mem/old_api.cc", "compat/xstring.cc is the real file with its xstrdup renamed away (xstrdup is an engine model)", "debugs() disabled"],
    assumptions=["known finding C34-username-space (examined only by entry c34_known_username_space, excluded from c34_username by vf_assume): QuoteUrlEncodeUsername leaves a space raw although the user name is a bare space-delimited field of the built-in log formats; excluded class: user names containing a space",
                 "known finding C34-shell-quote-whitespace (examined only by entry c34_known_shell_whitespace, excluded from c34_shell and the %/ layout of c34_record_url_shell by vf_assume): strwordquote quotes a word only when it contains a space and never escapes TAB/VT/FF; excluded class: data with TAB/VT/FF and no space",
                 "shell words are read with POSIX-like rules (a backslash escapes the next character inside and outside double quotes; \\n and \\r denote LF and CR)"],
    outside="data longer than the bound or containing NUL (logged strings are C strings); %' (raw) quoting; width/precision limits on a field; %codes other than %>h; icap/adaptation contexts",
)
