HTTP1R = TOK + ["src/http/one/ResponseParser.cc", "src/http/one/Parser.cc", "src/mime_header.cc", "src/SquidConfig.cc",
                "src/ip/Address.cc", "src/helper/ChildConfig.cc"]
_fam = lambda n, b, r, **kw: dict(name=n, bounds=b, reach=list(r), max_samples=4, **kw)
_Q = "; every symbolic byte ranges over all 256 values; every split point; relaxed_header_parser in {0,1}"
_T = "; every symbolic byte ranges over all 256 values; every pair of split points; relaxed_header_parser in {-1,0,1}"
SPEC = dict(
    harness="C23_status.cc", units=HTTP1R,
    entries=dict(
        quick=[
            _fam("c23_status", "2 skeletons: 'HTTP/1.1 ' b b b ' OK CRLF CRLF' (the three status bytes); 'HTTP/1.1 0' b b b ' OK CRLF CRLF' (leading zero, 3 and 4 digits)" + _Q, ("accept", "reject")),
            _fam("c23_delims", "3 skeletons: 'HTTP/1.' b b '200' b 'OK' b LF CRLF (minor digit, both delimiters, byte before LF); 'ICY' b '40' b b CRLF CRLF (end of ICY magic, last status digit, delimiter); 'HTTP/1.' b b ' 200 OK CRLF CRLF' (one- and two-digit minor versions)" + _Q, ("accept", "reject", "body09")),
            _fam("c23_reason", "2 skeletons: 'HTTP/1.0 404 ' b b b LF CRLF (reason bytes and line end); 'HTTP/1.1 200' b b b (whatever follows the status)" + _Q, ("accept", "reject", "incomplete")),
            _fam("c23_magic", "2 skeletons: b 'TTP' b '1' b '1 200 OK CRLF CRLF'; b 'C' b ' 200 OK CRLF CRLF' (damaged magic)" + _Q, ("accept", "body09")),
            _fam("c23_head", "'HTTP/1.1 200 OK' b LF 'A: b' b b CRLF b LF: line end and header block bytes" + _Q, ("accept", "reject")),
            _fam("c23_any", "every input of 0..5 fully symbolic bytes" + _Q, ("prefix", "body09")),
        ],
        thorough=[
            _fam("c23_status", "2 skeletons: 'HTTP/1.1 ' b b b b 'OK CRLF CRLF' (the three status bytes and the delimiter); 'HTTP/1.1 0' b b b ' OK CRLF CRLF'" + _T, ("accept", "reject")),
            _fam("c23_delims", "as quick" + _T, ("accept", "reject", "body09")),
            _fam("c23_reason", "as quick with 4 reason bytes" + _T, ("accept", "reject", "incomplete")),
            _fam("c23_magic", "as quick" + _T, ("accept", "body09")),
            _fam("c23_head", "as quick" + _T, ("accept", "reject")),
            _fam("c23_any", "every input of 0..7 fully symbolic bytes" + _T, ("prefix", "body09", "incomplete")),
        ]),
    timeout=dict(quick=170, thorough=900),
    stubs=["SquidConfig Config is the real global, zero-initialised, with relaxed_header_parser set by the harness and reply_header_max_size = 64 KB", "debugs() disabled"],
    assumptions=["the relaxed-mode tolerances are those written down in Squid's own sources (Parser.cc RelaxedDelimiterCharacters and skipLineTerminator)"],
    outside="response heads other than the listed skeleton families and fully symbolic inputs longer than the bound; more than two split points; header field syntax (C25); reply_header_max_size (C62); HttpStateData's handling after the parser's verdict (EOF, error replies)",
)
