_e = lambda n, b, a=(): dict(name=n, args=list(a), bounds=b + "; operation = nondeterministic choice among the methods legal for what the thread holds (lockShared, lockExclusive, lockHeaders, unlock*, switchExclusiveToShared, unlockSharedAndSwitchToExclusive, startAppending, stopAppendingAndRestoreExclusive), plus a final release; every interleaving at atomic-instruction granularity (visited-state pruning)", reach=["done"], sample_every=99991, jobs=1)
SPEC = dict(
    harness="C54_rwlock.cc", units=["src/ipc/ReadWriteLock.cc"],
    threads=True,
    entries=dict(
        quick=[_e("c54_rwlock_2x2", "2 threads x 2 operations"), _e("c54_rwlock_2x3", "2 threads x 3 operations")],
        thorough=[_e("c54_rwlock_2x4", "2 threads x 4 operations, at most 2 preemptive context switches (switches at operation boundaries are free)", ("--preempt", "2")), _e("c54_rwlock_3x2", "3 threads x 2 operations, at most 2 preemptive context switches", ("--preempt", "2"))]),
    timeout=dict(quick=300, thorough=2400),
    stubs=["sequentially consistent memory (the relaxed/acquire/release operations on the updating flag are treated as seq_cst)", "threads stand for processes sharing the lock in shared memory", "compare_exchange never fails spuriously", "debugs() disabled",
           "counterexamples are replayed by the interpreter under the recorded schedule (a native build cannot be steered at atomic-instruction granularity)", "visited-state pruning relies on a 128-bit state hash"],
    outside="more threads/operations than the bound; weak-memory reorderings; updateStats()",
)
