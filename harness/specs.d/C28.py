_f = lambda n, b, r=("accepted", "ignored", "satisfiable", "unsatisfiable"), **kw: dict(name=n, bounds=b, reach=list(r), **kw)
_P = lambda n, b, **kw: dict(name=n, bounds=b, reach=["accepted", "ignored"], **kw)
_C = lambda n, b, **kw: dict(name=n, bounds=b, reach=["satisfiable", "unsatisfiable"], **kw)
_CL = "; clen and probe position fully symbolic in [0,2^63)"
SPEC = dict(
    harness="C28_range.cc",
    units=SBUF + ["src/HttpHdrRange.cc", "src/StrList.cc", "src/String.cc", "src/HttpHeaderTools.cc"],
    o0_units=["src/HttpHdrRange.cc"], ub=True, ub_files=["HttpHdrRange.cc", "base/Range.h"],
    entries=dict(
        quick=[
            _P("c28_one", "'bytes=' b b '-' b: 3 fully symbolic non-NUL bytes; parse result against the reference"),
            _f("c28_e2e", "'bytes=' b '-' b: 2 symbolic bytes, then canonicalised" + _CL),
            _f("c28_e2e_suffix", "'bytes=-' b b: 2 symbolic bytes, then canonicalised" + _CL),
            _P("c28_suffix", "'bytes=-' b b ',' b '-': 3 symbolic bytes; parse result"),
            _P("c28_list", "'bytes=1-3' b b '5-' b: 3 symbolic bytes (separator, whitespace, digits); parse result"),
            _P("c28_ws", "'bytes=' b '0-1' b ',' b '-4': 3 symbolic bytes; parse result"),
            _P("c28_big_last", "'bytes=' b '-922337203685477580' b b; parse result"),
            _P("c28_big_first", "'bytes=922337203685477580' b '-' b; parse result"),
            _P("c28_big_both", "'bytes=922337203685477580' b '-922337203685477580' b; parse result"),
            _P("c28_big_suffix", "'bytes=-922337203685477580' b b; parse result"),
            _P("c28_any", "'bytes=' + every NUL-free value of 0..3 bytes; parse result"),
            _P("c28_prefix", "'bytes=0-1' with one byte of the 'bytes=' prefix symbolic"),
            _C("c28_canon1", "1 spec built directly as parseInit() produces it: first-last (0<=first<=last<=2^63-1, last read as min(last,2^63-2)), first-, -suffix with fully symbolic 63-bit numbers; clen fully symbolic in [0,2^63)"),
            _C("c28_canon_list", "1..2 specs from the menu {2-4, 4-, -3, 7-(2^63-2)}, clen fully symbolic in [0,2^63)"),
            dict(name="c28_known_lenient_spec", known=True, reach=[], max_samples=0, sample_every=0, bounds="KNOWN FINDING C28-lenient-spec only: 'bytes=1' b '-2' b restricted to headers in which some item is not a valid byte-range-spec but has a strtoll()-tolerant reading; strict assertion 'any invalid spec: header ignored'; its violations are listed in known_findings.json and printed as KNOWN-FINDING"),
        ],
        thorough=[
            _P("c28_one", "as quick"),
            _f("c28_e2e", "'bytes=' b b '-' b: 3 symbolic bytes, then canonicalised" + _CL),
            _f("c28_e2e_suffix", "'bytes=-' b b ',' b '-': 3 symbolic bytes, then canonicalised" + _CL),
            _P("c28_suffix", "as quick"),
            _P("c28_list", "'bytes=' b '-3' b b '5-' b: 4 symbolic bytes; parse result"),
            _P("c28_ws", "'bytes=' b '0-1' b ',' b '-4' b: 4 symbolic bytes; parse result"),
            _P("c28_big_last", "as quick"), _P("c28_big_first", "as quick"), _P("c28_big_both", "as quick"), _P("c28_big_suffix", "as quick"),
            _P("c28_list3", "'bytes=' b '-' b ',-' b b b '-': 5 symbolic bytes; parse result"),
            _P("c28_quote", "'bytes=1-2' b b b b '3-4': 4 symbolic bytes (quoted commas, separators); parse result"),
            _P("c28_any", "'bytes=' + every NUL-free value of 0..4 bytes; parse result"),
            _P("c28_prefix", "as quick"),
            _C("c28_canon1", "as quick"),
            _C("c28_canon_list", "1..3 specs from the menu {2-4, 4-, -3, 7-(2^63-2), 0-0, -0}, clen fully symbolic in [0,2^63)"),
            dict(name="c28_known_lenient_spec", known=True, reach=[], max_samples=0, sample_every=0, bounds="KNOWN FINDING C28-lenient-spec only: 'bytes=1' b '-2' b restricted to headers in which some item is not a valid byte-range-spec but has a strtoll()-tolerant reading; strict assertion 'any invalid spec: header ignored'; its violations are listed in known_findings.json and printed as KNOWN-FINDING"),
        ]),
    timeout=dict(quick=300, thorough=1200),
    stubs=["libc strtoll/strchr/strspn/strcspn/strncasecmp/isspace models (glibc semantics, C locale)", "memAllocBuf rounding as mem/old_api.cc", "debugs() disabled"],
    outside="field values other than the listed families; NUL inside the value; content length < 0 (callers refuse unknown lengths before canonize); MERGING_BREAKS_NOTHING builds (merging is compiled out); HttpHdrRange::canonize(HttpReply*) (length selection from the reply)",
    assumptions=["specs that are not valid byte-range-specs but have a strtoll()-tolerant reading ('1x-2', '+1-2', '-5x', '1-2-3') are examined by c28_known_lenient_spec only (known finding C28-lenient-spec) and excluded from every other entry"],
)
