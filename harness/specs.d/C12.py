HDR = TOK + ["src/HttpHeader.cc", "src/HttpHeaderTools.cc", "src/http/RegisteredHeaders.cc", "src/http/ContentLengthInterpreter.cc",
             "src/http/one/Parser.cc", "src/String.cc", "src/StrList.cc", "src/MemBuf.cc", "src/mime_header.cc", "src/SquidConfig.cc",
             "src/ip/Address.cc", "src/helper/ChildConfig.cc", "lib/util.cc", "compat/xstring.cc"]
_U = HDR + ["src/store.cc", "src/MemObject.cc", "src/HttpReply.cc", "src/http/Message.cc", "src/HttpBody.cc", "src/HttpHdrCc.cc",
            "src/http/RequestMethod.cc", "src/http/MethodType.cc", "src/http/StatusLine.cc", "src/http/StatusCode.cc"]
_e = lambda n, b, r, **kw: dict(name=n, bounds=b, reach=list(r), **dict(dict(jobs=4, max_samples=6, sample_every=37), **kw))
SPEC = dict(
    harness="C12_stale.cc", units=_U, unit_flags={"compat/xstring.cc": ["-Dxstrdup=vf_unused_squid_xstrdup"]},
    o0_units=["HARNESS", "src/store.cc", "src/HttpReply.cc"], ub=True, ub_files=["refresh.cc", "store.cc", "HttpReply.cc"],
    scope="kernel", scope_note="TODO",
    entries=dict(
        quick=[_e("c12_verdict", "probe", ()), _e("c12_expiry", "probe", ()), _e("c12_chain", "probe", ())],
        thorough=[]),
    timeout=dict(quick=400, thorough=1500),
    stubs=[], outside="",
)
