HDR = TOK + ["src/HttpHeader.cc", "src/HttpHeaderTools.cc", "src/http/RegisteredHeaders.cc", "src/http/ContentLengthInterpreter.cc",
             "src/http/one/Parser.cc", "src/String.cc", "src/StrList.cc", "src/MemBuf.cc", "src/mime_header.cc", "src/SquidConfig.cc",
             "src/ip/Address.cc", "src/helper/ChildConfig.cc", "lib/util.cc", "compat/xstring.cc"]
_U = HDR + ["src/store.cc", "src/MemObject.cc", "src/HttpReply.cc", "src/http/Message.cc", "src/HttpBody.cc", "src/HttpHdrCc.cc",
            "src/http/RequestMethod.cc", "src/http/MethodType.cc", "src/http/StatusLine.cc", "src/http/StatusCode.cc"]
_e = lambda n, b, r, **kw: dict(name=n, bounds=b, reach=list(r), **dict(dict(jobs=4, max_samples=6, sample_every=37), **kw))
_T = "all times in [0, 2^31) seconds"
_V = ("refreshCheck()/refreshCheckHTTP(): entry timestamp in [0,2^31); entry expires and Last-Modified any 32-bit value (without explicit expiry: Last-Modified "
      "absent or not before the timestamp, so that the floating-point LM-factor rule is not entered); entry flags any 16-bit value; request Cache-Control absent or any "
      "mask over the 14 directives with any 31-bit max-age/max-stale/min-fresh (max-stale without value included); request flags ignoreCc, nocacheHack symbolic; ")
_VQ = _V + "clock at 10^9, If-Modified-Since flag off, stored reply Cache-Control absent or any mask without stale-if-error, max_stale 1 week; built-in refresh rule"
_VT = _V + "clock symbolic in [0,2^31), If-Modified-Since flag symbolic, stored reply Cache-Control absent or any mask and values, squid.conf max_stale any 32-bit value; built-in refresh rule"
_X = ("HttpReply::hdrCacheInit()/hdrExpirationTime(): receipt time, Date (present with any time, or absent), Expires (absent, any time, or unparsable), "
      "Cache-Control object absent or any mask with any 31-bit max-age/s-maxage; " + _T)
_C = lambda t0: ("reply as in c12_expiry, stored by the real StoreEntry::timestampsSet() at receipt time " + t0 + " (no Age field, direct fetch), then refreshCheck() for a plain "
      "request (no Cache-Control, no reload) at any later time; no revalidation marks on the entry; " + _T + "; known-finding class C12-unparsable-expires-old-date excluded (see assumptions)")
_L = lambda t0: ("reply with Date (any time), Expires (any time or unparsable), Last-Modified (any time), no Cache-Control; otherwise as c12_chain (receipt time " + t0 + "); "
      "known-finding classes C12-unparsable-expires-old-date and C12-expires-before-epoch-rebase excluded (see assumptions)")
_Q0, _T0 = "10^9", "symbolic in [0,2^31)"
_k = lambda n, b: dict(name=n, known=True, bounds=b, reach=[], max_samples=0, sample_every=0, jobs=1)
_KNOWN = lambda t0: [
    _k("c12_known_unparsable_expires", "KNOWN FINDING C12-unparsable-expires-old-date only: reply with Date more than 24 h before the receipt time (" + t0 + "), unparsable "
       "Expires, no Cache-Control, no Last-Modified; plain request at any later time; its violation is listed in known_findings.json and printed as KNOWN-FINDING"),
    _k("c12_known_expires_rebase", "KNOWN FINDING C12-expires-before-epoch-rebase only: reply received at 10^9 with Date after the receipt time, Expires (valid or unparsable, "
       "taken as the receipt time) <= Date - receipt - 1, Last-Modified 9*10^8, no Cache-Control; plain request at any later time; its violation is listed in "
       "known_findings.json and printed as KNOWN-FINDING"),
    _k("c12_known_immutable_max_age", "KNOWN FINDING C12-immutable-ignores-request-max-age only: request 'Cache-Control: max-age=N' with N = 0 or N < age, stored reply "
       "'Cache-Control: immutable', unmarked entry, otherwise as c12_verdict; its violation is listed in known_findings.json and printed as KNOWN-FINDING"),
]
_R1 = ("must-revalidate", "request-max-age", "reload", "beyond-max-stale", "expired-stale", "fresh-by-max-stale", "fresh-expires", "other")
SPEC = dict(
    harness="C12_stale.cc", units=_U, unit_flags={"compat/xstring.cc": ["-Dxstrdup=vf_unused_squid_xstrdup"]},
    native_units=["src/sbuf/Algorithms.cc"],
    o0_units=["HARNESS", "src/store.cc", "src/HttpReply.cc"], ub=True, ub_files=["refresh.cc", "store.cc", "HttpReply.cc"],
    scope="kernel",
    scope_note="kernel decided: (K1) refreshCheck()/refreshStaleness()/refreshCheckHTTP() (refresh.cc) with the default refresh rule return a STALE_* verdict whenever the "
               "entry's explicit expiry time has been reached and the request carries no (honoured) max-stale, or is stale by at least the request's max-stale=N; "
               "whenever the request has max-age=0 or a max-age smaller than the entry's age (stored reply not 'immutable'); whenever the request is a client reload "
               "(nocacheHack); whenever the entry is marked ENTRY_REVALIDATE_ALWAYS, or ENTRY_REVALIDATE_STALE and expired -- regardless of the request; FRESH_EXPIRES "
               "only before the expiry time (less min-fresh), heuristic FRESH verdicts only without explicit expiry, max-stale verdicts only for a request max-stale on "
               "an unmarked entry; no arithmetic UB in refresh.cc. (K2) HttpReply::hdrExpirationTime() = Date + s-maxage | Date + max-age | Expires | none in this "
               "precedence (receipt time for a missing Date or unparsable Expires). (K3) from header values through the real StoreEntry::timestampsSet() to the verdict "
               "of a later plain request: once (now - receipt time) >= s-maxage | max-age | Expires - Date the verdict is STALE_*, for every Date skew -- except the two "
               "known-finding classes listed in assumptions. "
               "gap: what clientReplyContext::cacheHit()/processExpired()/handleIMSReply() (client_side_reply.cc) do with the verdict (revalidation request, serving the "
               "stale copy when revalidation fails unless failOnValidationError); that every hit runs refreshCheckHTTP() (internal requests, collapsed hits, "
               "ENTRY_SPECIAL, offline_mode skip it); plain flags.noCache requests (Cache-Control: no-cache without nocache_hack), which skip the store lookup in "
               "clientReplyContext::identifyStoreObject(); how ENTRY_REVALIDATE_* get set from the reply's Cache-Control (HttpStateData::haveParsedReplyHeaders, C11's "
               "kernel K2); Age header and peer response-time corrections in timestampsSet(); ICP/HTCP/cache-digest uses of refreshCheck; the floating-point LM-factor "
               "rule; parsing of the date texts (C35) and of Cache-Control (C29)",
    entries=dict(
        quick=[_e("c12_verdict", _VQ, _R1, jobs=6), _e("c12_expiry", _X, ("explicit-expiry", "no-explicit-expiry"), jobs=1),
               _e("c12_chain", _C(_Q0), ("lifetime-passed", "fresh"), jobs=8), _e("c12_chain_lm", _L(_Q0), ("lifetime-passed", "fresh"), jobs=1)] + _KNOWN(_Q0),
        thorough=[_e("c12_verdict", _VT, _R1, jobs=8), _e("c12_expiry", _X, ("explicit-expiry", "no-explicit-expiry"), jobs=1),
                  _e("c12_chain", _C(_T0), ("lifetime-passed", "fresh"), jobs=6), _e("c12_chain_lm", _L(_T0), ("lifetime-passed", "fresh"), jobs=2)] + _KNOWN(_T0)),
    timeout=dict(quick=600, thorough=2400),
    stubs=["Time::ParseRfc1123() (src/time/rfc1123.cc not linked) maps the marker texts '@D' '@E' '@L' to the harness's symbolic Date/Expires/Last-Modified times and "
           "everything else to -1 (unparsable): date text parsing is C35's subject",
           "the reply's/request's Cache-Control is an HttpHdrCc object with mask and values set directly (what HttpHdrCc::parse() leaves; C29); HttpReply is really "
           "constructed; Date/Expires/Last-Modified are real header entries read through HttpHeader::getTime()",
           "HttpRequest, StoreEntry, MemObject are zeroed raw memory of the real size; set directly: HttpRequest::method/header/cache_control/flags, StoreEntry::mem_obj/"
           "flags/timestamp/expires/lastModified_, MemObject::storeId_/method/reply_ (raw pointer, no locking)",
           "refresh.cc is #included into the harness TU (refreshCheck/refreshStaleness are static); store.cc is linked for StoreEntry::timestampsSet()",
           "SquidConfig Config is the real global, zero-initialised: no refresh_pattern (built-in rule min 0, 20%, max 3 days, no options), max_stale, "
           "refresh_all_ims/reload_into_ims/offline_mode/vary_ignore_expire off", "StatHist::enumInit/count no-ops", "debugs() disabled"],
    assumptions=["'explicit freshness lifetime passed' = now >= entry expiry time (K1) / now - receipt time >= s-maxage | max-age | Expires - Date with RFC 9111 4.2.1 "
                 "precedence, Date = receipt time when missing, unparsable Expires = already expired (K3); resident time is a lower bound of RFC 9111's current_age",
                 "known finding C12-immutable-ignores-request-max-age (examined only by entry c12_known_immutable_max_age; c12_verdict does not make claim A2 for the class): "
                 "a request max-age (also max-age=0) is ignored when the stored reply has Cache-Control: immutable (RFC 8246 behaviour chosen by Squid)",
                 "known finding C12-unparsable-expires-old-date (examined only by entry c12_known_unparsable_expires, excluded from the others by vf_assume): lifetime from an unparsable Expires and a Date more than 24 h older than Squid's clock -> "
                 "entry expiry = receipt + (receipt - Date): FRESH_EXPIRES for as long as the Date was old",
                 "known finding C12-expires-before-epoch-rebase (examined only by entry c12_known_expires_rebase, excluded from the others by vf_assume): lifetime from Expires, Date ahead of Squid's clock and Expires <= Date - receipt - 1 "
                 "-> rebased expiry <= -1 is read as 'no explicit expiry' and with Last-Modified the LM-factor rule answers FRESH_LMFACTOR_RULE",
                 "observation outside the bounds: refreshStaleness() returns time_t differences as int; with clock + min-fresh >= 2^31 + expiry (after 2038 or absurd "
                 "min-fresh) the staleness wraps negative (within the bounds the verdict stays STALE_*, only STALE_MUST_REVALIDATE may degrade to STALE_EXPIRES)"],
    outside="times beyond 2^31; refresh_pattern lines and their override options, refresh_all_ims, reload_into_ims, offline_mode; replies with an Age field or fetched "
            "through a peer with measured response time; everything listed under gap",
)
