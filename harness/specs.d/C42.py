_TOKENS = ("tokens: v4 '10.0.0.N' | '10.0.0.N/M' | '10.0.0.A-10.0.0.B' (N,A,B two symbolic decimal digits 64..95, M 26..32) "
           "and v6 'fc00::XY' | 'fc00::XY/M' | 'fc00::XY-fc00::ZW' (XY two symbolic hex digits, M 120..128); host bits below the mask zero, A<=B; "
           "probe 10.0.P.Q or fc00::PPQQ with 16 symbolic bits")
import os as _os
SPEC = dict(
    harness="C42_ipacl.cc",
    units=TOK + ["src/acl/Ip.cc", "src/ip/Address.cc", "lib/Splay.cc"],
    entries=dict(
        quick=[
            dict(name="c42_zero_mask", bounds="'::/0' with a probe of either family (10.0.P.Q or fc00::PPQQ, 16 symbolic bits)", reach=["match"]),
            dict(name="c42_v4_lists", bounds="1..2 IPv4 tokens, any kinds, any order/overlap; IPv4 probe; " + _TOKENS, reach=["match", "nomatch"], sample_every=31),
            dict(name="c42_v6_lists", bounds="1..2 IPv6 tokens, any kinds, any order/overlap; IPv6 probe", reach=["match", "nomatch"], sample_every=31),
            dict(name="c42_mixed_pair", bounds="one IPv4 range and one IPv6 range in either order; probe of either family", reach=["match", "nomatch"], sample_every=31),
            dict(name="c42_v4_chain", bounds="the fixed ranges 10.0.0.70-10.0.0.74 and 10.0.0.80-10.0.0.84 plus one symbolic IPv4 range configured before, between or after them (chained merges); IPv4 probe", reach=["match", "nomatch"], sample_every=31),
            dict(name="c42_families", bounds="one of all/ipv4/ipv6 alone, before or after one ordinary token (either family, any kind); probe of either family", reach=["match", "nomatch"], sample_every=13),
        ],
        thorough=[
            dict(name="c42_zero_mask", bounds="as quick", reach=["match"]),
            dict(name="c42_v4_lists", bounds="as quick", reach=["match", "nomatch"], sample_every=31),
            dict(name="c42_v6_lists", bounds="as quick", reach=["match", "nomatch"], sample_every=31),
            dict(name="c42_v6_ranges3", bounds="three IPv6 range tokens 'fc00::XY-fc00::ZW' (XY<=ZW), any order/overlap/adjacency (chained merges); IPv6 probe", reach=["match", "nomatch"], sample_every=211),
            dict(name="c42_v4_ranges3", bounds="three IPv4 range tokens '10.0.0.A-10.0.0.B' (64<=A<=B<=95), any order/overlap/adjacency (chained merges); IPv4 probe", reach=["match", "nomatch"], sample_every=211),
            dict(name="c42_v4_chain", bounds="as quick, the symbolic token of any kind", reach=["match", "nomatch"], sample_every=31),
            dict(name="c42_mixed_pair", bounds="as quick", reach=["match", "nomatch"], sample_every=31),
            dict(name="c42_families", bounds="as quick", reach=["match", "nomatch"], sample_every=13),
        ]),
    timeout=dict(quick=170, thorough=900),
    stubs=["ConfigParser::strtokFile hands out the harness's tokens", "self_destruct() throws (the real one exits): configuration rejected",
           "getaddrinfo/freeaddrinfo: numeric-only model in the harness (dotted-quad IPv4, hex-group IPv6 with '::'), 3 results per address when the socket type is open (as glibc); native replay uses the real libc",
           "Acl::Node constructor/destructor/default virtuals stubbed (acl/Acl.cc, the ACL registry, is not linked)", "Ip::EnableIpv6 = IPV6_ON", "libc sscanf model (%[set], %d, %c, %s)", "debugs() disabled"],
    outside="addresses outside the two prefixes; more than 3 tokens; host names; dotted netmasks; ranges with a mask; masks strictly between /0 and /26 (v4) or /120 (v6); tokens with host bits below the mask; reversed ranges; IPv4-mapped IPv6 text; the 0/0-style legacy spellings of 'all'",
)
