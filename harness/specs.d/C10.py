_b = " b = fully symbolic byte (any of the 256 values); the header sits in an exact-size heap block; entry: KEY_PRIVATE symbolic, swap_file_sz symbolic in [0,80], key fixed, URL 'h:/aB'"
_e = lambda n, b, r: dict(name=n, bounds=b, reach=r, sample_every=13)
SPEC = dict(
    harness="C10_swapmeta.cc",
    units=SBUF + ["src/store/SwapMetaIn.cc", "src/store/SwapMetaView.cc", "src/store/SwapMeta.cc", "src/store.cc", "src/MemObject.cc", "src/MemBuf.cc",
                  "src/int.cc", "src/base/Raw.cc", "src/String.cc", "src/SquidConfig.cc", "src/ip/Address.cc", "src/helper/ChildConfig.cc", "compat/xstring.cc"],
    unit_flags={"verif:harness/C10_swapmeta.cc": ["-fno-access-control"], "compat/xstring.cc": ["-Dxstrdup=vf_unused_squid_xstrdup"]},
    scope="kernel",
    scope_note="kernel decided: the swap-metadata validation every disk hit and every index rebuild goes through (Store::UnpackHitSwapMeta as called by store_client::readHeader, "
               "Store::UnpackIndexSwapMeta as called by storeRebuildParseEntry, Store::UnpackSwapMetaSize) is memory-safe on arbitrary stored bytes and accepts a header only if it is "
               "structurally intact and its stored key / URL / Vary equal those of the entry being hit, and derives object size = entry size - header size; "
               "gap: everything else in the statement -- that the bytes following the header are the body of exactly one complete response (MemStore/Rock/UFS slot and file handling, "
               "store_client::readBody/handleBodyFromDisk, swapout), entry locking and eviction (StoreEntry::lock/release, Ipc::StoreMap: see C55/C57), shared-memory copies "
               "(MemStore::copyFromShm/copyToShm), concurrent readers during writes, all store types",
    entries=dict(
        quick=[
            _e("c10_hit_key", "UnpackHitSwapMeta on the 26-byte header [b 'size' b 0 0 b] [b 'len' b 0 0 b] [b key1..key14 b] = prefix + one key field, 8 symbolic bytes (magic, size byte 0 and 3, field type, length byte 0 and 3, first and last key byte);" + _b, ["accepted-key", "accepted-other", "refused"]),
            _e("c10_hit_url", "UnpackHitSwapMeta on the 37-byte header prefix + URL field 'h:/aB\\0' + key field with 5 symbolic bytes (URL field type, length byte 0, last URL byte and the terminator, first key byte); entry with or without URLs;" + _b, ["accepted-url", "accepted-key", "refused"]),
            _e("c10_hit_vary", "UnpackHitSwapMeta on the 25-byte header prefix + Vary field 'x\\0' + object-size field with 4 symbolic bytes (Vary type, length byte 0, both value bytes); entry knows Vary 'x';" + _b, ["accepted-vary", "accepted", "refused"]),
            _e("c10_hit_objsize", "UnpackHitSwapMeta on the 39-byte header prefix + key field + object-size field whose two low value bytes are symbolic (stored size 0..65535, agreeing or not with the entry's size);" + _b, ["accepted-key", "refused"]),
            _e("c10_hit_any", "UnpackHitSwapMeta on every buffer of 0..10 fully symbolic bytes;" + _b, ["accepted-other", "refused"]),
            _e("c10_index", "UnpackIndexSwapMeta on a MemBuf holding exactly the 75-byte header prefix + key field + STD_LFS field with 5 symbolic bytes (size byte 0, key type, key length byte 0, first key byte, basics type)", ["indexed-key", "indexed-keyless", "refused"]),
            _e("c10_prefix", "UnpackSwapMetaSize on every SBuf of 0..7 fully symbolic bytes", ["accepted", "refused"]),
        ],
        thorough=[
            _e("c10_hit_key", "as quick", ["accepted-key", "accepted-other", "refused"]),
            _e("c10_hit_url", "as quick plus symbolic first URL byte, key field type and size byte 0 (8 symbolic bytes)", ["accepted-url", "accepted-key", "refused"]),
            _e("c10_hit_vary", "as quick plus symbolic type and length byte 0 of the following field (6 symbolic bytes)", ["accepted-vary", "accepted", "refused"]),
            _e("c10_hit_objsize", "UnpackHitSwapMeta on the 39-byte header prefix + key field + object-size field whose two low value bytes are symbolic (stored size 0..65535, agreeing or not with the entry's size);" + _b, ["accepted-key", "refused"]),
            _e("c10_hit_any", "UnpackHitSwapMeta on every buffer of 0..12 fully symbolic bytes;" + _b, ["accepted-other", "refused"]),
            _e("c10_index", "as quick plus symbolic magic, basics length byte 0 and first basics byte (8 symbolic bytes)", ["indexed-key", "indexed-keyless", "refused"]),
            _e("c10_prefix", "as quick", ["accepted", "refused"]),
        ]),
    timeout=dict(quick=900, thorough=5400),
    stubs=["MemObject is zeroed raw memory with storeId_/logUri_/vary_headers constructed in place and set by the harness (its constructor needs HttpReply); StoreEntry is built by its real constructor with key, flags, swap_file_sz, mem_obj set directly",
           "Debug::Extra returns its stream and Debug::Current is null (debug.cc not linked)", "compat/xstring.cc is the real file with its xstrdup renamed away (xstrdup is an engine model)", "debugs() disabled; exception message text (ToSBuf/SBufStream formatting) is outside the claim"],
    assumptions=["URL equality is case-insensitive, as SwapMetaIn.cc documents (strcasecmp); a stored Vary is compared without trailing NUL bytes"],
    outside="headers other than the listed families and fully symbolic buffers longer than the bound; field values longer than the buffers used; "
            "STORE_META_STD (old basics) contents; what follows the header on disk; all store implementations, locking and eviction (see scope_note)",
)
