_R = ("add", "pop-front", "pop-refused", "pop-empty", "drained")
SPEC = dict(
    harness="C05_pipeline.cc", units=SBUF + ["src/Pipeline.cc", "src/http/Stream.cc"],
    unit_flags={"src/Pipeline.cc": ["-Dxassert=c05_xassert"]},   # Pipeline.cc's own assert() is evaluated by the real code; a failure throws instead of aborting
    scope="kernel",
    scope_note="kernel decided: Pipeline (the per-connection queue ConnStateData keeps of in-progress Http::Stream transactions) is a FIFO over real Http::Stream objects: "
               "front() is always the oldest transaction still queued, popMe() removes the front and refuses (assert) every other transaction, count()/empty()/back()/nrequests agree "
               "with the arrivals, and a popped transaction is released exactly once; gap: that ConnStateData writes only pipeline.front()'s response and defers the others "
               "(Http::Stream::deferRecipientForLater, ConnStateData::kick, pushDeferredIfNeeded), that every request parsed is add()ed in arrival order (Http::Stream::registerWithConn, "
               "ConnStateData::concurrentRequestQueueFilled), that each stream's store client delivers the body of its own request, write scheduling and aborts",
    entries=dict(
        quick=[dict(name="c05_fifo", bounds="every program of 6 operations, each 'a new stream is add()ed' or 'popMe(s)' for any queued stream s (front or not; on an empty queue: a stream that was never added), "
                    "followed by draining the queue from the front; model checked after every operation", reach=list(_R), jobs=2, max_samples=8)],
        thorough=[dict(name="c05_fifo", bounds="as quick with 8 operations", reach=list(_R), jobs=8, max_samples=8)]),
    timeout=dict(quick=300, thorough=1200),
    stubs=["ClientHttpRequest behind each Http::Stream is zeroed raw memory of the real size (not constructed; Http::Stream only stores the pointer, reads client_stream.tail == nullptr in its destructor)",
           "httpRequestFree() (client_side.cc) records the released transaction instead of deleting it", "Http::Stream is constructed with a null Comm::ConnectionPointer",
           "src/Pipeline.cc is compiled with -Dxassert=c05_xassert and c05_xassert() throws (harness), so that a refused popMe() is observable", "debugs() disabled"],
    outside="programs longer than the bound; HTTP/2-style out-of-order completion; everything listed under gap",
)
