_LEAF = ("; per check and leaf ACL symbolic: verdict in {mismatch, match}, lookups needed in {0,1} (every subset of the evaluated ACLs slow); "
         "per rule symbolic: allow/deny and action kind in 0..3; tree built by the real lineParse()/AllOf::parse()/AnyOf::parse()")
_RULES = ("rule lists (x = leaf ACL, ! = negation, ';' separates rules): [a] [!a b; c] [a !b; !c d; e] [<no ACLs>; a] [a; <no ACLs>] [a b c d] [!a !b !c; a; b] "
          "[a; !a; b; !b; c; a b] [a b; a !b; !a b; !a !b]")
_GROUPS = ("rule lists with groups G=all-of, H=any-of (one '{..}' per acl line): [G{a b}: G; c] [G{a b}{c}: !G; d] [H{a !b}: H c; !H] [H{a}{b c}: !H d; H] "
           "[G{a !b} H{G c}: H; !c] [H{a b} G{H !c}{d}: G; H]")
_SMALL = "rule lists [a !b; c] [G{a b}: !G; c] [H{a b}: H c]"
_R = ["rule-matched", "no-rule-matched"]
SPEC = dict(
    harness="C44_firstmatch.cc",
    units=SBUF + ["src/acl/Checklist.cc", "src/acl/Tree.cc", "src/acl/BoolOps.cc", "src/acl/InnerNode.cc", "src/acl/AllOf.cc", "src/acl/AnyOf.cc",
                  "src/acl/FilledChecklist.cc", "src/cbdata.cc", "src/sbuf/Algorithms.cc", "src/base/CodeContext.cc",
                  "src/SquidConfig.cc", "src/ip/Address.cc", "src/helper/ChildConfig.cc"],
    entries=dict(
        quick=[
            dict(name="c44_rules", bounds="nonBlockingCheck over the " + _RULES + _LEAF, reach=_R + ["resumed"], sample_every=31, max_samples=2),
            dict(name="c44_groups", bounds="nonBlockingCheck over the " + _GROUPS + _LEAF, reach=_R + ["resumed"], sample_every=31, max_samples=2),
            dict(name="c44_modes", bounds="nonBlockingCheck over the " + _SMALL + "; per leaf symbolic: verdict in {mismatch, match, stop with AUTH_REQUIRED}, lookups needed in {0,1,2}, each lookup completing later or inside the starter",
                 reach=_R + ["resumed", "stopped", "lookup-in-starter"], sample_every=97, max_samples=2),
            dict(name="c44_concurrent", bounds="two concurrent nonBlockingChecks (independent symbolic verdicts/slowness) on one tree, over the " + _SMALL + "; which in-flight lookup completes next is free", reach=_R + ["resumed", "two-lookups-in-flight"], sample_every=97, max_samples=2),
            dict(name="c44_fast_rules", bounds="fastCheck() twice on one checklist over the same rule lists as c44_rules; leaf verdict in {mismatch, match, stop with AUTH_REQUIRED}; slow leaves cannot go async and either mismatch or stop with DUNNO (symbolic)",
                 reach=_R + ["stopped", "slow-acl-in-fast-check"], sample_every=31, max_samples=2),
            dict(name="c44_fast_groups", bounds="fastCheck() twice over the same group lists as c44_groups; leaves as in c44_fast_rules", reach=_R + ["stopped", "slow-acl-in-fast-check"], sample_every=31, max_samples=2),
            dict(name="c44_empty", bounds="no access list (nullptr) and a tree without rules, fastCheck() and nonBlockingCheck()", reach=["empty-list"], sample_every=1, max_samples=2),
        ],
        thorough=[
            dict(name="c44_rules", bounds="as quick plus [a !b c; !d e !f; b d] [!a; !b; !c; !d; !e; f] [a b; c d; e f; !a !c !e]; lookups needed per leaf in {0,1,2}", reach=_R + ["resumed"], sample_every=97, max_samples=2),
            dict(name="c44_groups", bounds="as quick plus [G{a b}{!a !b} H{G c} I{H !d}: !I e; I] [H{!a !b} G{H c}: G d; !G !d; H]; lookups needed per leaf in {0,1,2}", reach=_R + ["resumed"], sample_every=97, max_samples=2),
            dict(name="c44_modes", bounds="as quick plus [G{a b}{c}: !G; G d] [H{a !b} G{H c}: !G; H]", reach=_R + ["resumed", "stopped", "lookup-in-starter"], sample_every=97, max_samples=2),
            dict(name="c44_concurrent", bounds="as quick", reach=_R + ["resumed", "two-lookups-in-flight"], sample_every=97, max_samples=2),
            dict(name="c44_fast_rules", bounds="as quick plus the additional rule lists of the thorough c44_rules", reach=_R + ["stopped", "slow-acl-in-fast-check"], sample_every=97, max_samples=2),
            dict(name="c44_fast_groups", bounds="as quick plus the additional group lists of the thorough c44_groups", reach=_R + ["stopped", "slow-acl-in-fast-check"], sample_every=97, max_samples=2),
            dict(name="c44_empty", bounds="as quick", reach=["empty-list"], sample_every=1, max_samples=2),
        ]),
    timeout=dict(quick=300, thorough=1800),
    stubs=["leaf ACLs are harness Acl::Node subclasses (SynAcl) whose match() returns the symbolic verdict, calling the real ACLChecklist::goAsync() first when a lookup is needed; the lookup starter either records the lookup as in flight (the harness later calls the real resumeNonBlockingCheck()) or calls resumeNonBlockingCheck() inside the starter",
           "src/acl/Acl.cc is the real file, included into the harness TU (Acl::Node::matches/FindByName/context and the NamedAcls type)",
           "ConfigParser::strtokFile() hands out the harness's tokens (ConfigParser.cc not linked); the harness performs the steps of aclParseAccessLine()/Acl::Node::ParseNamed() that create the Acl::Tree, the AndNode per rule and the named all-of/any-of ACLs, but keeps rules without ACLs (aclParseAccessLine skips them)",
           "MemPools::create() returns a plain-heap allocator (cbdata.cc allocation); Mem::AllocatorProxy = plain heap", "SquidConfig Config is the real global; Config.namedAcls is filled by the harness",
           "checklists carry no request/reply/ALE (the synthetic ACLs need none)", "self_destruct()/fatal() are violations",
           "debugs() disabled; text built through std::ostream (generated node names) is lost"],
    assumptions=["an ACL that needs a lookup returns its verdict when matched again after the lookup completed, and the same ACL gives the same verdict wherever it occurs in the list during one check",
                 "one lookup at a time per checklist (ACLChecklist asserts this); 'lookups complete in any order' is therefore examined across two concurrent checklists sharing one tree"],
    outside="longer/other rule lists than the listed shapes; banned actions; fastCheck(const ACLList*); callers that disappear while a lookup is in flight (callerGone); more than two lookups per ACL evaluation (async loop limit); real ACL types and their data matching (C41-C43)",
)
