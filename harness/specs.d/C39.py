_SNMP = ["lib/snmplib/asn1.c", "lib/snmplib/snmp_msg.c", "lib/snmplib/snmp_pdu.c", "lib/snmplib/snmp_vars.c", "lib/snmplib/snmp_api.c",
         "lib/snmplib/snmp_api_error.c", "lib/snmplib/snmp_error.c", "lib/snmplib/snmplib_debug.c", "lib/snmplib/coexistance.c"]
_SK = "skeleton = a well-formed 43-octet SNMPv1 GET (community 'public', one binding 1.3.6.1.4.1.3495.1.1.1.0 = NULL) with 2 fully symbolic octets per template; "
_NONEG = "; INTEGER contents with the sign bit set are left to c39_snmp_negint"
SPEC = dict(
    harness="C39_snmp.cc",
    units=_SNMP,
    scope="kernel",
    scope_note="kernel decided: everything snmpDecodePacket() runs on a received datagram up to and including decoding - snmp_pdu_create, snmp_parse (snmp_msg_Decode, asn_parse_*, snmp_pdu_decode, snmp_var_DecodeVarBind), snmp_coexist_V2toV1, reading of every decoded variable, snmp_free_pdu, xfree(community) - is memory-safe and terminates, for datagrams within the bounds, in a zero-padded receive buffer as snmpHandleUdp() provides it; gap: the snmp_access ACL check, snmpAgentResponse/MIB tree walk and response encoding, comm I/O, the SMP forwarder; the ICP (icp_v2.cc/icp_v3.cc) and HTCP (htcp.cc) handlers, whose unpackers are entangled with HttpRequest/Store/comm and are not encoded; 'stop serving HTTP'",
    entries=dict(
        quick=[
            dict(name="c39_snmp_any", bounds="every datagram of 0..5 fully symbolic octets" + _NONEG, reach=["rejected"], sample_every=97),
            dict(name="c39_snmp_header", bounds=_SK + "7 templates: outer type+length; version type+length; version value + community type; community length + an octet inside it; long-form (0x81) lengths of the message and the community; a community of up to 130 octets with symbolic length (Squid's buffer holds 128); a community with a 4-octet long-form length (0x84) whose two high octets are symbolic (lengths of 2^31 and more); datagram lengths 0..16 and full" + _NONEG, reach=["rejected", "parsed_vars"], sample_every=797),
            dict(name="c39_snmp_pdu", bounds=_SK + "5 templates: PDU type+length; request-id type+length; error-status length+value; GETBULK max-repetitions length+value; v1 TRAP layout (enterprise OID length, time-stamp length+value); datagram lengths 13..27 and full" + _NONEG, reach=["rejected", "parsed_vars"], sample_every=797),
            dict(name="c39_snmp_vars", bounds=_SK + "9 templates: binding-list type+length; binding type+length; name type+length; first sub-identifier + a continuation octet; value type+length; value type+length+2 content octets (every value type); two bindings with symbolic value type/length/content; a name of up to 71 sub-identifiers with symbolic length (MAX_NAME_LEN is 64); an OCTET STRING value with a 4-octet long-form length whose two high octets are symbolic; datagram lengths 24..43 and full" + _NONEG, reach=["rejected", "parsed_vars"], sample_every=797),
            dict(name="c39_snmp_negint", bounds=_SK + "symbolic content octets (negative values included) at every position decoded as an integer: version; request-id/error-status/error-index; GETBULK counts; TRAP generic/specific/time-stamp; a binding value of symbolic type with 2 content octets; full length only; interpreter only (no native differential replay: the native UBSan build stops at asn_parse_int's left shift of a negative int)", reach=["rejected", "parsed_vars"], max_samples=0),
            dict(name="c39_known_maxlen_overread", known=True, bounds="KNOWN FINDING C39-snmp-maxlen-overread only: the real buffer discipline with the real sizes (4096 zeroed octets, 4095 received): a well-formed GET with 407 bindings whose last binding's value is an OCTET STRING header with a symbolic long-form length octet (0x81..0x84) as the very last octet of the datagram; strict memory-safety oracle; its violations are listed in known_findings.json and printed as KNOWN-FINDING", reach=[], max_samples=0, sample_every=0),
        ],
        thorough=[
            dict(name="c39_snmp_any", bounds="every datagram of 0..7 fully symbolic octets" + _NONEG, reach=["rejected"], sample_every=997),
            dict(name="c39_snmp_header", bounds="as quick plus 3 templates with 2-3 symbolic octets (message length octets, version length+value, community length+content)" + _NONEG, reach=["rejected", "parsed_vars"], sample_every=997),
            dict(name="c39_snmp_pdu", bounds="as quick plus 2 templates (PDU length + request-id; TRAP enterprise OID content, agent-address length)" + _NONEG, reach=["rejected", "parsed_vars"], sample_every=997),
            dict(name="c39_snmp_vars", bounds="as quick plus 3 templates (value with 3 content octets; name length + 3 name octets; nested length octets)" + _NONEG, reach=["rejected", "parsed_vars"], sample_every=997),
            dict(name="c39_snmp_negint", bounds="as quick", reach=["rejected", "parsed_vars"], max_samples=0),
            dict(name="c39_known_maxlen_overread", known=True, bounds="KNOWN FINDING C39-snmp-maxlen-overread only: the real buffer discipline with the real sizes (4096 zeroed octets, 4095 received): a well-formed GET with 407 bindings whose last binding's value is an OCTET STRING header with a symbolic long-form length octet (0x81..0x84) as the very last octet of the datagram; strict memory-safety oracle; its violations are listed in known_findings.json and printed as KNOWN-FINDING", reach=[], max_samples=0, sample_every=0),
        ]),
    timeout=dict(quick=400, thorough=1800),
    stubs=["receive buffer model: heap block of len+6 octets, datagram followed by 6 zero octets (snmpHandleUdp memsets a 4096-octet buffer and receives at most 4095; faithful for datagrams of at most 4090 octets)",
           "snmplib_debug_hook set to a no-op (Squid installs a debugs() wrapper)", "xmalloc/xfree = engine heap (allocation never fails)",
           "harness pre-splits (exhaustively, no assumption) the BER length octets so that the decoder's pointers are concrete on every path"],
    assumptions=["excluded by the buffer model: a datagram of 4091..4095 octets whose last object header ends in the last octets makes asn_parse_header/asn_parse_length read 1-3 octets behind snmpHandleUdp's static 4096-octet buffer (KNOWN FINDING C39-snmp-maxlen-overread: examined by c39_known_maxlen_overread with the real sizes, excluded from all other entries by the buffer model)",
                 "natively replayed entries leave out negative INTEGER encodings (asn_parse_int shifts a negative int left: undefined in C, flagged by UBSan, harmless in practice); c39_snmp_negint explores them in the interpreter"],
    outside="datagrams other than the short fully symbolic ones and the listed skeleton families; more than two bindings; allocation failure; everything listed as gap in scope_note",
)
