_SNMP = ["lib/snmplib/asn1.c", "lib/snmplib/snmp_msg.c", "lib/snmplib/snmp_pdu.c", "lib/snmplib/snmp_vars.c", "lib/snmplib/snmp_api.c",
         "lib/snmplib/snmp_api_error.c", "lib/snmplib/snmp_error.c", "lib/snmplib/snmplib_debug.c", "lib/snmplib/coexistance.c"]
SPEC = dict(
    harness="C39_snmp.cc",
    units=_SNMP,
    entries=dict(
        quick=[
            dict(name="c39_snmp_any", bounds="x", reach=["rejected"]),
            dict(name="c39_snmp_header", bounds="x", reach=["rejected", "parsed_vars"]),
            dict(name="c39_snmp_pdu", bounds="x", reach=["rejected", "parsed_vars"]),
            dict(name="c39_snmp_vars", bounds="x", reach=["rejected", "parsed_vars"]),
        ],
        thorough=[]),
    timeout=dict(quick=400, thorough=1800),
    stubs=[],
    outside="",
)
