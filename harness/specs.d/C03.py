FWD3 = TOK + ["src/HttpHeader.cc", "src/HttpHeaderTools.cc", "src/HeaderMangling.cc", "src/http/RegisteredHeaders.cc", "src/http/ContentLengthInterpreter.cc",
              "src/http/one/Parser.cc", "src/http/one/RequestParser.cc", "src/String.cc", "src/StrList.cc", "src/MemBuf.cc", "src/mime_header.cc", "src/SquidConfig.cc",
              "src/ip/Address.cc", "src/helper/ChildConfig.cc", "lib/util.cc", "compat/xstring.cc",
              "src/HttpRequest.cc", "src/http/Message.cc", "src/HttpHdrCc.cc", "src/http/RequestMethod.cc", "src/http/MethodType.cc", "src/refresh.cc", "src/globals.cc",
              "src/anyp/Uri.cc", "src/anyp/UriScheme.cc"]
_e = lambda n, b, r, **kw: dict(name=n, bounds=b, reach=list(r), **dict(dict(sample_every=23, max_samples=8), **kw))
_c = ("; each message = 'POST /p HTTP/1.1' CRLF + the block + CRLF + a pipelined 'GET /next HTTP/1.1' CRLF CRLF; relaxed_header_parser in %s; "
      "b = any byte but LF, d = any digit, n = any tchar")
def _fams(th):
    c = _c % ("{-1,0,1}" if th else "{0,1}")
    ALL = ("accepted-chunked", "accepted-length", "rejected")
    q = lambda a, b: b if th else a
    return [
        _e("c03_length", "block " + q("'Host: h' CRLF 'Content-Length: 1' b CRLF 'Content-Length: 1' b CRLF", "'Host: h' CRLF 'Content-Length:' b '1' b CRLF 'Content-Length: 1' b b CRLF") + c, ("accepted-length", "rejected")),
        _e("c03_te", "blocks 'Content-Length: 5' CRLF 'Transfer-Encoding:' " + q("b 'chunked' b", "b 'chunke' b b") + " CRLF 'Host: h' CRLF | 'Host: h' CRLF 'Transfer-Encoding' " + q("b b", "b b b") + " 'chunked' CRLF 'Content-Length: 5' CRLF" + c, ALL),
        _e("c03_fold", "blocks 'Host: h' CRLF 'Content-Length: 5' CRLF " + q("b b '7'", "b b b") + " CRLF | 'Transfer-Encoding:' b CRLF b 'chunked' CRLF 'Content-Length: 5' CRLF" + c, ALL),
        _e("c03_eol", "block 'Host: h' CRLF 'Content-Length: 5' " + q("b b", "b b b") + " LF 'X: y' CRLF" + c, ("accepted-length", "rejected")),
        _e("c03_names", "blocks 'Content-Length: 5' CRLF n 'ontent-lengt' n ': 6' CRLF | 'Connection: ' b 'ontent-length, transfer-encoding' CRLF 'Content-Length: 1' d CRLF | "
           "'Connection: content-length, ' b 'ransfer-encoding' CRLF 'Transfer-Encoding: chunked' CRLF 'Content-Length: 1' d CRLF" + c, ALL),
        _e("c03_te_dup", "block 'Transfer-Encoding: chunked' CRLF 'Transfer-Encoding:' " + q("b b", "b b b") + " CRLF" + c, ("rejected",)),
        _e("c03_value", "blocks 'Content-Length:' " + q("b b", "b b b") + " CRLF | 'Content-Length: 5' CRLF 'Content-Length:' b b CRLF (incl. the separator-only values ',' ',,' ' ,')" + c, ("accepted-length", "accepted-nobody", "rejected")),
    ]
SPEC = dict(
    harness="C03_smuggle.cc", units=FWD3, unit_flags={"compat/xstring.cc": ["-Dxstrdup=vf_unused_squid_xstrdup"]},
    native_libs=["-lnettle"],
    scope="kernel",
    scope_note="kernel decided: for a request head with symbolic bytes at its framing-relevant positions, the chain Http1::RequestParser::parse() (incl. cleanMimePrefix/"
               "unfoldMime) -> HttpRequest::parseHeader() (HttpHeader::parse(), Http::ContentLengthInterpreter, hdrCacheInit) -> HttpRequest::checkEntityFraming() -> "
               "body expectation of clientProcessRequest() -> flags.chunked_request of HttpStateData::sendRequest() -> HttpStateData::httpBuildRequestHeader() either "
               "rejects the request or (S) reads exactly the framing (chunked / Content-Length n / no body) that a strict RFC 9112 section 6.3 reading of the same bytes "
               "gives, ends the head at the first empty line (the pipelined bytes stay outside), and (F) sends upstream at most one Content-Length, never Content-Length "
               "together with Transfer-Encoding, Transfer-Encoding only as one 'chunked', chunked iff the client's request was, and otherwise the reference length; a "
               "framing field named in Connection is neither dropped nor duplicated; "
               "gap: ConnStateData's handling of the bytes after the head (body pipe, chunk decoding = C24, pipelined requests, 'stops reading the connection' after an "
               "error: quitAfterError()), the three caller lines modelled in the harness (clientProcessRequest()'s expectBody, sendRequest()'s chunked_request), HTTP/1.0 "
               "requests, request lines (C21/C22), ICAP/FTP paths",
    entries=dict(quick=_fams(False), thorough=_fams(True)),
    timeout=dict(quick=900, thorough=3000),
    stubs=["HttpRequest is zeroed raw memory of the real size with the real HttpRequest vtable pointer installed (not constructed); set directly: header (placement-new), "
           "method and http_ver from the parser, lastmod/ims -1, rangeOffsetLimit 0, url.absolute_, peer_domain 'o.example', client_addr no-addr; filled by the real "
           "HttpRequest::parseHeader(Http1::Parser&)",
           "three caller lines are modelled: body expected iff header.chunked() || content_length > 0 (clientProcessRequest), chunked_request = body && content_length < 0 "
           "(HttpStateData::sendRequest), direct connection to the origin with keepalive",
           "src/http.cc is #included into the harness TU; StatHist::enumInit/count no-ops; bitcode-only nettle base64 stand-in (not reached here)",
           "SquidConfig Config: real global, zero-initialised; via on, forwarded_for on, relaxed_header_parser per entry, request_header_max_size 64 KB; src/globals.cc real",
           "compat/xstring.cc is the real file with its xstrdup renamed away (xstrdup is an engine model)", "debugs() disabled"],
    assumptions=["reference reading: NUL, bare CR and obs-fold read as SP (the replacements RFC 9110 5.5 / RFC 9112 2.2, 5.2 allow a recipient that does not reject); field line = "
                 "token ':' value; whitespace trimmed at value and list-element edges = SP, HT, VT, FF (Squid trims the C-locale isspace class there; the C25/C26 oracles "
                 "accept that; RFC OWS is SP/HT only, so 'Content-Length: 5<VT>' read as 5 is accepted here); empty list elements ignored; Transfer-Encoding present => "
                 "chunked iff its codings are exactly 'chunked', else unframable; Content-Length values all 1*DIGIT and equal, else unframable",
                 "a Content-Length field consisting of list separators only is a malformed Content-Length (request must be rejected)"],
    outside="blocks other than the listed families; HTTP/1.0 and HTTP/0.9 requests; Content-Length values of more than 18 digits (C26/C27); cache_peer/login variations (C04); "
            "LF inside the symbolic bytes (line structure: C25); what ConnStateData does with the bytes after the head",
)
