_CFG = ("each line: password 'disable', 'none' or a secret of 1..%d symbolic NUL-free bytes; action list one of {info} {shutdown} {all} {info,shutdown} {shutdown,all}; "
        "registered actions info (public), menu (public), shutdown (password required); requested action in %s; "
        "credentials: none, or Basic credentials 'u:' + password of 0..%d symbolic NUL-free bytes")
_ALL = "{info, menu, shutdown, nosuch} or 'men' + one symbolic byte"
_REG = "{info, menu, shutdown}"
_e = lambda n, b, r: dict(name=n, bounds=b, reach=list(r), sample_every=53)
_R = ("performed", "refused", "disable-line", "secret-accepted")
_KNOWN = dict(name="c61_known_password_nul", known=True, reach=[], max_samples=0, sample_every=0,
              bounds="KNOWN FINDING C61-password-nul only: one cachemgr_passwd line (disable, none or a 1-byte secret; the five action lists), requested action in {info, menu, shutdown}, "
                     "Basic credentials 'u:' + password of 1..2 symbolic bytes containing a NUL byte; its violation is listed in known_findings.json and printed as KNOWN-FINDING")
SPEC = dict(
    harness="C61_mgrpasswd.cc",
    units=TOK + ["src/cache_manager.cc", "src/mgr/ActionParams.cc", "src/mgr/QueryParams.cc", "src/String.cc", "src/anyp/Uri.cc", "src/anyp/UriScheme.cc",
                 "src/anyp/ProtocolType.cc", "src/http/RequestMethod.cc", "src/http/MethodType.cc", "src/SquidConfig.cc", "src/ip/Address.cc",
                 "src/helper/ChildConfig.cc", "lib/rfc1738.cc", "lib/util.cc", "compat/xstring.cc", "src/MemBuf.cc"],
    unit_flags={"compat/xstring.cc": ["-Dxstrdup=vf_unused_squid_xstrdup"]},
    scope="kernel",
    scope_note="kernel decided: CacheManager::ParseUrl + ParseHeaders + CheckPassword (with PasswdGet, ActionProtection, findAction), composed as in CacheManager::start(), "
               "let an action through iff the cachemgr_passwd documentation allows it for the supplied password: never when the action is disabled, unknown, or requires a "
               "password and none is configured; with 'none' always; with a secret only when the supplied password equals it; "
               "gap: http_access / the manager ACL (clientAccessCheck; first-match rule evaluation is C44), squid.conf parsing of cachemgr_passwd (parse_cachemgrpasswd), "
               "the Authorization field and its base64 decoding (HttpHeader::getAuthToken; base64 is C36), the rest of CacheManager::start() (error replies, SMP forwarding), "
               "and the actions themselves",
    entries=dict(
        quick=[_e("c61_upto_one_line", "0..1 cachemgr_passwd lines; " + _CFG % (2, _ALL, 3), _R), _e("c61_two_lines", "2 cachemgr_passwd lines; " + _CFG % (1, _REG, 2), _R), _KNOWN],
        thorough=[_e("c61_upto_one_line", "0..1 cachemgr_passwd lines; " + _CFG % (3, _ALL, 4), _R), _e("c61_two_lines", "2 cachemgr_passwd lines; " + _CFG % (2, _REG, 3), _R), _KNOWN]),
    timeout=dict(quick=300, thorough=1800),
    stubs=["HttpHeader::getAuthToken (HttpHeader.cc not linked) returns the harness's decoded Basic credentials 'u:<password>' or nothing",
           "Config.passwd_list built directly as parse_cachemgrpasswd builds it (one node per line, in order); Mgr::ActionPasswordList destructor empty",
           "CacheManager constructed directly (not GetInstance: no Mgr::RegisterBasics) with three ActionProfiles registered through registerProfile(); creators nil (no action is created)",
           "HttpRequest built in zeroed raw memory without its constructor chain; method and url constructed in place (scheme, host, port, path written directly)",
           "compat/xstring.cc is the real file with its xstrdup renamed away", "debugs() disabled"],
    assumptions=["when several cachemgr_passwd lines cover an action the first one applies (parse_cachemgrpasswd reports the later one as 'already has a password')",
                 "known finding C61-password-nul (examined only by entry c61_known_password_nul, excluded from the others by vf_assume): CheckPassword compares the supplied password as a C string, so 'secret\\0x' is accepted as 'secret'; excluded class: supplied passwords containing a NUL byte"],
    outside="more than 2 cachemgr_passwd lines; secrets/passwords longer than the bound; action lists other than the five listed; query parameters; see scope_note",
)
