HDR = TOK + ["src/HttpHeader.cc", "src/HttpHeaderTools.cc", "src/http/RegisteredHeaders.cc", "src/http/ContentLengthInterpreter.cc",
             "src/http/one/Parser.cc", "src/String.cc", "src/StrList.cc", "src/MemBuf.cc", "src/mime_header.cc", "src/SquidConfig.cc",
             "src/ip/Address.cc", "src/helper/ChildConfig.cc", "lib/util.cc", "compat/xstring.cc"]
_U = HDR + ["src/http.cc", "src/HttpRequest.cc", "src/HttpReply.cc", "src/http/Message.cc", "src/HttpBody.cc", "src/HttpHdrCc.cc",
            "src/http/RequestMethod.cc", "src/http/MethodType.cc", "src/http/StatusLine.cc", "src/http/StatusCode.cc",
            "src/anyp/UriScheme.cc", "src/anyp/ProtocolType.cc", "lib/rfc1738.cc"]
_e = lambda n, b, r, **kw: dict(name=n, bounds=b, reach=list(r), **dict(dict(max_samples=6, sample_every=97), **kw))
SPEC = dict(
    harness="C13_vary.cc", units=_U, unit_flags={"compat/xstring.cc": ["-Dxstrdup=vf_unused_squid_xstrdup"]},
    scope="kernel",
    scope_note="kernel decided: ...; gap: ...",
    entries=dict(
        quick=[_e("c13_mark_basic", "...", ("same-mark", "different-mark"))],
        thorough=[_e("c13_mark_basic", "...", ("same-mark", "different-mark"))]),
    timeout=dict(quick=900, thorough=1800),
    stubs=[],
    outside="",
)
