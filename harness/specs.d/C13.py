# header unit group as in harness/specs.d/C25.py
HDR = TOK + ["src/HttpHeader.cc", "src/HttpHeaderTools.cc", "src/http/RegisteredHeaders.cc", "src/http/ContentLengthInterpreter.cc",
             "src/http/one/Parser.cc", "src/String.cc", "src/StrList.cc", "src/MemBuf.cc", "src/mime_header.cc", "src/SquidConfig.cc",
             "src/ip/Address.cc", "src/helper/ChildConfig.cc", "lib/util.cc", "compat/xstring.cc"]
_U = HDR + ["src/http.cc", "src/client_side.cc", "src/clients/Client.cc", "src/refresh.cc", "src/MemObject.cc", "src/HttpRequest.cc", "src/HttpReply.cc",
            "src/http/Message.cc", "src/HttpBody.cc", "src/HttpHdrCc.cc", "src/http/RequestMethod.cc", "src/http/MethodType.cc", "src/http/StatusLine.cc",
            "src/http/StatusCode.cc", "src/anyp/UriScheme.cc", "src/anyp/ProtocolType.cc", "lib/rfc1738.cc"]
_e = lambda n, b, r, **kw: dict(name=n, bounds=b, reach=list(r), **dict(dict(max_samples=4, sample_every=53), **kw))
_MO = ("match", "other-variant")
_c = ("; b = fully symbolic byte (any value but NUL); R1 = the request that stored the variant, R2 = the later request (header names spelled in another case than R1's); "
      "R2 is taken through varyEvaluateMatch() three ways: marker object then variant object, and variant object directly")
def _fam(th):
    f = lambda q, t: t if th else q
    return [
        _e("c13_value", "Vary: x-v" + f("", " | Vary: a.ccept-encodin.g with the case of the two dotted letters symbolic") + "; nominated field = b in R1, b" + f("", " | b '22'") + " in R2" + _c, _MO),
        _e("c13_states", "Vary 'accept-Encoding, X-v' | two lines 'Accept-Encoding', 'x-V'" + f("", " | 'USER-agent,x-v'") + "; R1: Accept-Encoding" + f("", ", User-Agent") +
           " in {absent, 'q'}, X-V in {absent, empty, b}; R2: Accept-Encoding" + f("", ", User-Agent") + " in {absent, empty, 'q'}, X-V in {absent, 'q'" + f("", ", empty") + "}" + _c, _MO),
        _e("c13_names", "(a) Vary '.x-v, user-agent' | 'User-.Agent,x-v'" + f("", " (and '.x-v' there) | '.x-v, X-.V'") + " with the case of the dotted letter symbolic; User-Agent in {absent,'q'}, X-V 'q' (R1), in {'q','r'} (R2); "
           "(b) variant stored under one of 'x-v, User-Agent' | 'user-agent,X-V' | 'x-v, X-V' | 'X-v'" + f("", " | 'user-agent' | two lines 'x-v','user-agent'") + ", marker object carrying any of the same list; "
           "User-Agent and X-V each in {absent, 'q'" + f("", ", empty / 'r'") + "} in both requests" + _c, _MO),
        _e("c13_inject", "(1) variant stored under 'x-v, accept-encoding' by X-V '1', Accept-Encoding '2'; marker 'x-v'; R2 X-V = '1' b ', accept-encoding=' " + f("'\"'", "b") + " '2'; "
           "(2) Vary 'x-v': R1 X-V in {'\"', ' ', '%'" + f("", ", 'a'") + "}, R2 X-V in {b '22', b '20'" + f("", ", b '25', '%' b '2'") + "}; "
           "(3) Vary 'accept-encoding, x-v': R1 Accept-Encoding '1\", x-v=\"2', X-V '3'; R2 Accept-Encoding '1', X-V '2' b ', x-v=\"3'" + _c, ("other-variant",)),
        _e("c13_list", "Vary 'accept-encoding' b b 'x-v' | 'x-v' b '*'" + f("", " | '*' b 'x-v' | b '*' b") + " with b any byte but NUL, CR, LF; R1: Accept-Encoding 'a', X-V 'b'; R2: Accept-Encoding in {'a','c'}, X-V in {'b','c',absent}" + _c,
           _MO + ("star",)),
        _e("c13_star", "HttpStateData::haveParsedReplyHeaders() on a reply with Vary '*' | 'x-v, *' | '*, x-v' | two lines 'x-v','*' | 'x-v' b '*' | '*' b 'x-v'" + f("", " | b '*' b") +
           " (b any byte but NUL, CR, LF), status in {200,203,300,301,410,404}, no Cache-Control/Expires, to a request with X-V absent or 'q'; then a later request (X-V absent or 'q') "
           "0..1200 s later through varyEvaluateMatch() and refreshCheckHTTP()", ("star-stored", "star-private", "no-star")),
        dict(name="c13_known_empty_registered", known=True, reach=[], max_samples=0, sample_every=0,
             bounds="KNOWN FINDING C13-empty-registered-header only: Vary 'User-Agent'; User-Agent absent in one of R1, R2 and present with an empty value in the other; "
                    "its violation is listed in known_findings.json and printed as KNOWN-FINDING"),
    ]
SPEC = dict(
    harness="C13_vary.cc", units=_U, unit_flags={"compat/xstring.cc": ["-Dxstrdup=vf_unused_squid_xstrdup"]},
    scope="kernel",
    scope_note="kernel decided: (K1) the variant key httpMakeVaryMark()/assembleVaryKey() (src/http.cc, with the real strListGetItem(), HttpHeader::getList()/getByName(), "
               "SBuf::toLower(), rfc1738_escape_part()) and (K2) the variant test varyEvaluateMatch() (src/client_side.cc) that clientReplyContext::cacheHit() switches on, driven as "
               "cacheHit() drives it (Vary marker object first, then the variant object found under URL+mark; and the variant object met directly): for a variant stored by request R1 "
               "(mem_obj->vary_headers = httpMakeVaryMark(R1, reply), as haveParsedReplyHeaders() sets it) a later request R2 gets VARY_MATCH -- and equal variant keys -- only if R1 and R2 "
               "agree (absent/present, length, every byte) on every header field that the stored reply's Vary nominates; the marker object itself is never 'the entity'; a Vary with a member "
               "'*' always yields exactly the mark '*'. (K3) HttpStateData::haveParsedReplyHeaders() gives a reply whose Vary has a member '*' a public key only together with "
               "ENTRY_REVALIDATE_ALWAYS, and refreshCheckHTTP() (src/refresh.cc) then answers 'stale' for every later request, which is what sends cacheHit() to the origin. "
               "gap: the rest of clientReplyContext::cacheHit() (that VARY_OTHER re-enters the store lookup with the new key and VARY_CANCEL/stale lead to processMiss()/processExpired()); "
               "storeKeyPublicByRequest() (MD5 over method, URL and mark -- equal marks are treated as 'same key'); StoreEntry::adjustVary() creating the marker object; "
               "src/store.cc and src/MemObject.cc keeping mem_obj->vary_headers across swap-out/swap-in; what the origin's 304/200 does to a revalidated Vary: * entry (C14)",
    entries=dict(quick=_fam(False), thorough=_fam(True)),
    timeout=dict(quick=900, thorough=3000),
    stubs=["HttpRequest, StoreEntry, MemObject, HttpStateData are zeroed raw memory of the real size (not constructed); set directly: HttpRequest::method/header/vary_headers, "
           "StoreEntry::mem_obj/flags/timestamp/expires/lastModified_, MemObject::storeId_/method/vary_headers/reply_ (RefCount written as raw pointer), HttpStateData::entry/request/theFinalReply; "
           "HttpReply is really constructed, its fields added with HttpHeader::addEntry()/putStr() as HttpHeader::parse() stores them, then hdrCacheInit() (K3)",
           "request header fields are added with HttpHeader::addEntry(new HttpHeaderEntry(id looked up in the registered-name table, name, value)) -- what HttpHeader::parse() does after splitting a line",
           "store.cc is not linked: StoreEntry::makePublic()/cacheNegatively()/makePrivate() are recorders, timestampsSet() a no-op (entry times set by the harness: received now, no expiry, "
           "no Last-Modified), lock()/unlock() no-ops, storeGetPublic()/storeGetPublicByRequest() return 'nothing cached yet'; neighbors_do_private_keys = 0",
           "the store lookup between the two varyEvaluateMatch() passes is not executed: the variant object is handed to the second pass whatever the key, and 'same key' is computed as "
           "byte equality of request->vary_headers and the variant's mark",
           "StatHist::enumInit/count no-ops; SquidConfig Config is the real global, zero-initialised, with minimum_expiry_time 60, max_stale 1 week, negative_ttl 0, no refresh_pattern, "
           "offline_mode off; squid_curtime set by the harness", "libc models (strspn/strcspn/strcmp/tolower/snprintf %02X, C locale)", "debugs() disabled"],
    assumptions=["'header fields named in Vary' are read from the Vary text by a reference reader that splits at commas outside double quotes and trims SP/HTAB; it claims a name (or '*') only "
                 "for an item equal to it case-insensitively, and nothing for items containing a double quote (not valid Vary syntax)",
                 "'match' = same presence, same length, same bytes; each request carries at most one field line per nominated name (Squid's joining of several lines with ', ' is the "
                 "normalisation RFC 9111 4.1 allows and is not exercised)",
                 "X_ACCELERATOR_VARY is off in this build (configure default)",
                 "known finding C13-empty-registered-header (examined only by entry c13_known_empty_registered, excluded from the others by vf_assume): a nominated registered single-value header field (User-Agent in these families) present with an "
                 "empty value in one request and absent from the other -- both get the mark 'user-agent' and varyEvaluateMatch() answers VARY_MATCH (String's copy constructor "
                 "turns the zero-length value returned by HttpHeader::getStrOrList() into an undefined String, which assembleVaryKey() reads as 'absent')"],
    outside="Vary texts, names and values other than the listed families (values longer than the templates, more than two nominated names, names other than Accept-Encoding, User-Agent, X-V); "
            "several request field lines with the same name; everything listed under gap",
)
