import os as _os
_U = SBUF + ["src/helper/Reply.cc", "src/helper/ChildConfig.cc", "src/MemBuf.cc", "src/cbdata.cc", "src/wordlist.cc", "src/dlink.cc", "src/Notes.cc",
             "src/comm/Connection.cc", "src/CommCalls.cc", "src/base/AsyncCall.cc", "src/base/CodeContext.cc", "src/base/Stopwatch.cc", "src/SquidMath.cc",
             "src/String.cc", "src/ip/Address.cc", "src/SquidConfig.cc", "lib/rfc1738.cc", "lib/util.cc"]
_R = ("both-in-order", "both-swapped", "one-unknown-or-duplicate", "none")
_KF = ""
def _c(n, ids, digits):
    q = ("one concurrent helper session (concurrency=16) with two outstanding requests on channels %s; the helper writes two reply lines '<ID> SP r <x> LF' whose channel-ID fields are %s fully symbolic "
         "decimal digits each and whose payload byte x is symbolic in a..z (so: either order, duplicated, unknown and zero-padded IDs); the %d..%d-byte stream is cut into two reads at every position" % (ids, digits, 10, 12))
    t = q.replace("cut into two reads at every position", "cut into one, two or three reads at every pair of positions")
    return (dict(name=n, bounds=q + _KF, reach=list(_R), sample_every=29, max_samples=4), dict(name=n, bounds=t + _KF, reach=list(_R), sample_every=211, max_samples=4))
def _w(n, ids):
    q = ("as the c47_ids entries with requests on channels %s; the first reply line's channel-ID field is '42949672' followed by 2 fully symbolic decimal digits (4294967200..4294967299, "
         "values beyond 32 bits), the second line's is 1 symbolic digit; the stream is cut into two reads at every position" % ids)
    return (dict(name=n, bounds=q, reach=["one-unknown-or-duplicate", "none"] if "1 and 2" == ids else ["both-in-order", "one-unknown-or-duplicate", "none"], sample_every=29, max_samples=4),
            dict(name=n, bounds=q.replace("cut into two reads at every position", "cut into one, two or three reads at every pair of positions"), reach=["one-unknown-or-duplicate", "none"] if "1 and 2" == ids else ["both-in-order", "one-unknown-or-duplicate", "none"], sample_every=211, max_samples=4))
_S = ("one non-concurrent helper session (concurrency=0), two requests submitted (the second is dispatched when the first reply has arrived); the helper writes two reply lines 'r <x> [CR] LF' "
      "(x symbolic in a..z, CR present or not per line); the stream is cut into one, two or three reads at every pair of positions")
_FAM = [_c("c47_ids_1_2", "1 and 2", "1"), _c("c47_ids_9_10", "9 and 10", "1 or 2"), _c("c47_ids_1_12", "1 and 12 (one ID is a decimal prefix of the other)", "1 or 2"),
        _c("c47_ids_5_50", "5 and 50", "1 or 2"),
        _w("c47_wide_reply_id", "1 and 2"), _w("c47_big_request_id", "4294967297 (2^32 + 1) and 2"),
        (dict(name="c47_serial", bounds=_S, reach=["in-order", "cr-kept"], sample_every=13, max_samples=4), dict(name="c47_serial", bounds=_S, reach=["in-order", "cr-kept"], sample_every=13, max_samples=4))]
SPEC = dict(
    harness="C47_helper.cc", units=_U,
    # the harness TU contains the real helper.cc (#include); -O0 (+sroa/mem2reg) keeps std::map::find() a chain of branches instead of pointer selects on the symbolic channel number
    o0_units=["HARNESS"],
    scope="kernel",
    scope_note="kernel decided: the reply dispatch of src/helper.cc -- helperHandleRead() (line splitting, channel-ID extraction, buffer compaction between reads), Helper::Session::popRequest(), "
               "helperReturnBuffer(), Helper::Client::callBack(), with Helper::Reply::accumulate()/finalize() building the reply and with the channel IDs handed out by the real helperSubmit()/"
               "helperDispatch() on a session created by the real Helper::Client::openSessions() -- calls back a request only with the payload of a reply line that carries that request's channel ID, "
               "at most once, and exactly when such a line has arrived completely; lines with unknown or already-answered IDs call nobody back; with concurrency=0 the replies go to the requests in "
               "submission order; for every value of the symbolic channel-ID digits and payload bytes and every listed cut of the stream into reads; "
               "gap: helper process creation and pipe I/O (ipcCreate, comm_read, Comm::Write are stubs), stateful helpers (helperStatefulHandleRead), request timeouts and retries, more than two "
               "outstanding requests or one session, what redirect.cc / external_acl.cc do with the reply they are handed",
    entries=dict(quick=[f[0] for f in _FAM], thorough=[f[1] for f in _FAM]),
    timeout=dict(quick=300, thorough=900),
    stubs=["ipcCreate() returns a fixed pid and descriptor pair; fd_note, commSetNonBlocking, comm_add_close_handler, commSetConnTimeout are no-ops; _comm_close marks the descriptor as closing in a harness-provided fd_table",
           "comm_read_base() records the buffer and size Squid armed and keeps the AsyncCall (and with it the cbdata lock on the session) alive; the harness copies the next reply bytes there and calls helperHandleRead() as the comm layer does",
           "Comm::Write() discards the request bytes (the harness plays the helper)",
           "memory pools behind cbdata.cc are plain heap blocks (MemPools::GetInstance/create defined in the harness); tvSubMsec() defined in the harness with the formula of time/gadgets.cc (statistics only)",
           "std::_Rb_tree_insert_and_rebalance/_Rb_tree_rebalance_for_erase/_Rb_tree_increment/_Rb_tree_decrement (libstdc++.so, std::map requestsIndex) modelled in the harness as an unbalanced binary search tree for the interpreted build; the native replay uses libstdc++",
           "int shutting_down, reconfiguring, starting_up defined by the harness (globals.cc not linked)", "debugs() disabled"],
    assumptions=["a CR that a read boundary separates from its LF stays at the end of the reply text (accepted by the harness: the reply is still the right one)"],
    outside="everything listed under gap; reply payloads other than two non-whitespace bytes (result codes, key=value annotations, embedded whitespace); channel-ID fields with a sign or leading whitespace; channel-ID values other than 0..99 and 4294967200..4294967299",
)
