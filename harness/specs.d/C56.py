_e = lambda n, b: dict(name=n, bounds=b + "; one producer (notifies iff push() returns true, retries when full), one consumer (clearSignal + pop-until-empty at start and on each notification, otherwise asleep); every interleaving at atomic-instruction granularity (visited-state pruning)", reach=["done"], sample_every=99991, jobs=1)
SPEC = dict(
    harness="C56_queue.cc", units=["src/ipc/Queue.cc", "src/base/TextException.cc", "src/base/Here.cc", "src/sbuf/SBuf.cc", "src/sbuf/MemBlob.cc", "src/sbuf/Stats.cc", "src/base/CharacterSet.cc", "src/base/Assure.cc"],
    threads=True,
    entries=dict(
        quick=[_e("c56_k3_cap2", "3 items, capacity 2"), _e("c56_k3_cap1", "3 items, capacity 1"), _e("c56_k4_cap2", "4 items, capacity 2")],
        thorough=[_e("c56_k5_cap4", "5 items, capacity 4"), _e("c56_k6_cap2", "6 items, capacity 2"), _e("c56_k8_cap4", "8 items, capacity 4")]),
    timeout=dict(quick=300, thorough=2400),
    stubs=["sequentially consistent memory", "threads stand for the two processes sharing the queue", "a notification is a ghost counter incremented when push() returns true and consumed when the consumer handles it (arbitrary delivery delay = arbitrary scheduling of the consumer)",
           "counterexamples are replayed by the interpreter under the recorded schedule", "visited-state pruning relies on a 128-bit state hash", "debugs() disabled"],
    outside="more items/capacities than the bound; several producers per reader (FewToFewBiQueue/MultiQueue index arithmetic and the shared QueueReader of several queues); rate limiting/balance; weak-memory reorderings",
)
