_JOBS = ["src/base/AsyncJob.cc", "src/base/AsyncCall.cc", "src/base/AsyncCallQueue.cc", "src/base/AsyncCallList.cc", "src/base/CodeContext.cc",
         "src/base/InstanceId.cc", "src/cbdata.cc"]
_U = SBUF + ["src/BodyPipe.cc", "src/MemBuf.cc"] + _JOBS
_e = lambda n, b, r, **kw: dict(name=n, bounds=b, reach=list(r), **dict(dict(sample_every=97, max_samples=3), **kw))
SPEC = dict(
    harness="C02_bodypipe.cc", units=_U,
    scope="kernel",
    scope_note="kernel decided: ...; gap: ...",
    entries=dict(
        quick=[
            _e("c02_pipe_cl", "x", ("all-relayed", "aborted", "in-progress", "full")),
            _e("c02_pipe_chunked", "x", ("all-relayed", "aborted", "in-progress", "full")),
        ],
        thorough=[
            _e("c02_pipe_cl", "x", ("all-relayed", "aborted", "in-progress", "full")),
            _e("c02_pipe_chunked", "x", ("all-relayed", "aborted", "in-progress", "full")),
        ]),
    timeout=dict(quick=300, thorough=1500),
    stubs=[],
    outside="",
)
