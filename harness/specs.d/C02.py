_JOBS = ["src/base/AsyncJob.cc", "src/base/AsyncCall.cc", "src/base/AsyncCallQueue.cc", "src/base/AsyncCallList.cc", "src/base/CodeContext.cc",
         "src/base/InstanceId.cc", "src/cbdata.cc"]
_HDR = ["src/HttpHeader.cc", "src/HttpHeaderTools.cc", "src/http/RegisteredHeaders.cc", "src/http/ContentLengthInterpreter.cc",
        "src/http/one/Parser.cc", "src/String.cc", "src/StrList.cc", "src/MemBuf.cc", "src/mime_header.cc", "src/SquidConfig.cc",
        "src/ip/Address.cc", "src/helper/ChildConfig.cc", "lib/util.cc", "compat/xstring.cc"]
_REQ = ["src/HttpRequest.cc", "src/http/Message.cc", "src/anyp/Uri.cc", "src/anyp/UriScheme.cc", "src/anyp/ProtocolType.cc", "src/http/RequestMethod.cc",
        "src/http/MethodType.cc", "src/log/access_log.cc", "src/MasterXaction.cc", "src/base/Stopwatch.cc"]
_U = TOK + ["src/BodyPipe.cc"] + _JOBS + _HDR + _REQ + ["src/http.cc", "src/clients/Client.cc", "src/adaptation/Initiator.cc", "src/CommCalls.cc",
            "src/comm/Connection.cc", "src/base/JobWait.cc", "src/http/one/TeChunkedParser.cc", "src/http/one/Tokenizer.cc"]
_e = lambda n, b, r, **kw: dict(name=n, bounds=b, reach=list(r), **dict(dict(sample_every=97, max_samples=3), **kw))
_PL = ("all-relayed", "complete-not-drained", "aborted", "in-progress", "full")
_RL = ("relayed", "aborted", "in-progress", "write-error")
_PIPE = ("real BodyPipe with capacity cap in 1..3 (symbolic) instead of 64 KB; body bytes (and the byte after the body) fully symbolic; consumer joins before the first byte or after the "
         "last operation; operation sequence: {put} offer a (every size 0..rest+1), getMoreData into room g (every 0..content), {put} offer b (every size), then %s "
         "from {{put} of every size, getMoreData into room 1..3, consume(m) for every m <= content, producer stops early%s}; after every operation: counters, buffered bytes, "
         "delivered bytes, productionEnded()/exhausted()/bodySize() against the ghost model; at the end the consumer's notifications (ended iff complete, aborted iff stopped early)")
_EV = ("events, each followed by the delivery of all queued AsyncCalls: client segment arrives (%s), pending Comm::Write completes, pending Comm::Write fails, "
       "client goes away, server-side job starts (FwdState dispatch; any time, also after the body ended); then all pending writes complete. After every event: what the origin has "
       "received is a valid prefix (never malformed, never more than the body, bytes equal the client's, complete only if the whole body was received); at rest: complete body => exactly "
       "the body in one complete message + request_sent; aborted/failed => connection closed, job gone, never completed; in progress => every accepted byte already forwarded")
SPEC = dict(
    harness="C02_bodypipe.cc", units=_U, unit_flags={"compat/xstring.cc": ["-Dxstrdup=vf_unused_squid_xstrdup"]},
    scope="kernel",
    scope_note="kernel decided: (A) BodyPipe::putMoreData/getMoreData/consume/checkOut+checkIn/clearProducer/setConsumerIfNotLate with MemBuf conserve the body bytes and their order under "
               "every bounded operation sequence, never accept bytes beyond a declared size, and tell the consumer 'production ended' only for a completely produced body ('producer "
               "aborted' for every other end); (B) client bytes (identity with Content-Length, or chunked and decoded by the real TeChunkedParser through BodyPipeCheckout) -> real BodyPipe "
               "-> real HttpStateData/Client request-body sender (noteMoreBodyDataAvailable, sendMoreRequestBody, getMoreRequestBody incl. re-chunking, sentRequestBody, "
               "handleRequestBodyProductionEnded, doneSendingRequestBody, finishingChunkedRequest, wroteLast, handleRequestBodyProducerAborted, swanSong/closeServer), driven by the real "
               "AsyncCallQueue under every bounded schedule of arrivals, write completions, write failure and client disconnect: the bytes handed to Comm::Write for the server connection "
               "are the client's body bytes in order inside valid framing (declared length, or chunks that a strict RFC 9112 reference decoder accepts), the last-chunk / full length is "
               "reached only when the whole body was received, and an early end always closes the server connection before that. "
               "gap: ConnStateData's own intake code (handleRequestBodyData/handleChunkedRequestBody are mirrored by ~40 harness lines around the real pipe and the real chunked parser), "
               "request header generation (Content-Length vs Transfer-Encoding: chunked upstream: C03), comm (writes are atomic and complete or fail as a whole), Expect: 100-continue, "
               "ICAP/eCAP request adaptation pipes, FTP upload, pipe capacity 64 KB and bodies beyond a few bytes (33 for one chunk)",
    entries=dict(
        quick=[
            _e("c02_pipe_cl", "declared body size cap+1; " + _PIPE % ("1 free operation", ""), _PL),
            _e("c02_pipe_chunked", "unknown body size (chunked intake: the producer appends through BodyPipeCheckout, {put} = checkout+append+checkIn), body of 0 or cap+1 bytes; "
               + _PIPE % ("1 free operation", ", producer stops at eof"), _PL),
            _e("c02_relay_cl", "Content-Length body of 1..3 symbolic bytes + 1 symbolic byte of the next request, pipe capacity 1..2, identity upstream; 4 " + _EV % "every size", _RL, sample_every=23),
            _e("c02_relay_chunked", "chunked client body of 0..2 symbolic bytes in 1..2 chunks (every cut; concrete framing by a reference encoder) + 1 byte of the next request, pipe capacity 1..2, "
               "re-chunked upstream (identity with the dechunked length when the server side starts after the last-chunk); 4 "
               + _EV % "1 or 2 bytes, or up to the end of a chunk's data / a chunk / the body / everything sent", _RL, sample_every=197),
            _e("c02_relay_hex", "one client chunk of 10, 15, 16 or 27 symbolic bytes (chunk-size a, f, 10, 1b upstream), pipe holds the whole body; 3 "
               + _EV % "1 or 2 bytes, or up to the end of the chunk's data / the chunk / the body / everything sent", _RL, sample_every=23),
        ],
        thorough=[
            _e("c02_pipe_cl", "declared body size 1..5; " + _PIPE % ("2 free operations", ""), _PL, sample_every=997),
            _e("c02_pipe_chunked", "unknown body size, body of 0..5 bytes; " + _PIPE % ("2 free operations", ", producer stops at eof"), _PL, sample_every=997),
            _e("c02_relay_cl", "as quick with bodies of 1..4 bytes and 6 events", _RL, sample_every=397),
            _e("c02_relay_chunked", "as quick with bodies of 0..3 bytes and 5 events", _RL, sample_every=1997),
            _e("c02_relay_hex", "as quick with one chunk of every size 9..33", _RL, sample_every=197),
        ]),
    timeout=dict(quick=400, thorough=2400),
    stubs=["Comm::Write() (both overloads) records the bytes as received by the origin and keeps the callback; the harness completes a write the way Comm::IoCallback::finish() does "
           "(CommIoCbParams conn/fd/size/flag, ScheduleCallHere) with Comm::OK or Comm::COMM_ERROR; comm_add/remove_close_handler, commSetConnTimeout (counted), _comm_close (counted), "
           "fd_bytes are recorders/no-ops; fde::Table is 8 zeroed entries; statCounter is a zero-initialised global",
           "HttpStateData is created by its real constructor from a FwdState; AsyncJob::Start()/HttpStateData::sendRequest() are replaced by their request-body part performed by the "
           "harness: started_ = true, real startRequestBodyFlow(), requestSender = JobCallback(sentRequestBody), flags.chunked_request = request has no Content-Length, "
           "Comm::Write of a 2-byte stand-in for the header block",
           "FwdState.cc is not linked (its globals need the connection pools): FwdState's constructor/destructor are defined by the harness (member initialisation only), "
           "fail()/unregister()/handleUnregisteredServerEnd() are recorders; PeeringActivityTimer constructor/destructor likewise",
           "HttpRequest, MasterXaction, Comm::Connection are real objects; StoreEntry and MemObject are zeroed raw memory (StoreEntry::lock/unlock no-ops, MemObject::endOffset() = 0: no "
           "reply received yet); ErrorState: harness-defined constructor (type and status only), MakeNamedErrorDetail() returns nil",
           "client side = harness class ClientSide (a BodyProducer job) mirroring ConnStateData::expectRequestBody/handleRequestBodyData/handleChunkedRequestBody/finishDechunkingRequest/"
           "noteMoreBodySpaceAvailable/noteBodyConsumerAborted and swanSong's stopProducingFor(pipe, false); group A uses minimal producer/consumer jobs that count notifications",
           "BodyPipe capacity: theBuf re-initialised with max_capacity cap+1 (MemBuf keeps one byte for its terminator); pipes, requests, FwdState are never destroyed",
           "MemPools::create() returns a plain-heap allocator (cbdata.cc allocation); Mem::AllocatorProxy = plain heap; bitcode build only: libstdc++'s out-of-line "
           "_Prime_rehash_policy members (AsyncJob's registry of all jobs) replaced by a simple growth policy",
           "ping_data constructor (peer_select.cc not linked), null_string (globals.cc not linked), StatHist::enumInit/count no-ops; SquidConfig Config is the real global, "
           "zero-initialised (no brokenPosts ACL, read timeout 0); compat/xstring.cc is the real file with its xstrdup renamed away (xstrdup is an engine model)", "debugs() disabled"],
    assumptions=["one main-loop iteration = one external event followed by AsyncCallQueue::fire() (which drains the queue, including calls scheduled meanwhile), as EventLoop::runOnce() does",
                 "a Comm::Write either completes or fails as a whole; bytes count as received by the origin when handed to Comm::Write",
                 "chunked client bodies: segment ends are restricted to 1-2 bytes ahead or chunk-structure boundaries (arbitrary segmentation of the chunked framing itself is C24's subject)"],
    outside="bodies, pipe capacities, event counts and chunk counts beyond the bounds; chunk extensions/trailers from the client (C24); several writes failing; early server replies "
            "(entry no longer empty) and server-side aborts; auto-consumption after the consumer aborted beyond what the schedules reach; everything listed under gap",
)
