_U = SBUF + ["src/FwdState.cc", "src/HttpRequest.cc", "src/http/RequestMethod.cc", "src/http/MethodType.cc", "src/BodyPipe.cc", "src/MemBuf.cc",
             "src/MemObject.cc", "src/stmem.cc", "src/mem_node.cc", "lib/Splay.cc", "src/SquidConfig.cc", "src/ip/Address.cc", "src/helper/ChildConfig.cc"]
_e = lambda n, b, r, **kw: dict(name=n, bounds=b, reach=list(r), **dict(dict(jobs=1, max_samples=6), **kw))
_NAME = ("retry-after-send", "extension-not-retried", "known-not-retried")
_nb = "; every other gate of checkRetry() open, no body pipe, flags.connected_okay symbolic, relaxed_header_parser in {0,1}; b = fully symbolic byte"
SPEC = dict(
    harness="C07_retry.cc", units=_U,
    scope="kernel",
    scope_note="kernel decided: FwdState::checkRetry()/checkRetriable() -- the only gate through which FwdState sends a request again after a "
               "connection-level failure (retryOrBail()) -- never allow a retry of a request that Squid began sending (flags.connected_okay set by "
               "dispatch(), or request body bytes consumed) unless its method is registered as idempotent (IANA method registry; POST, CONNECT, LOCK, PURGE "
               "and every extension method such as PATCH are not), for every value of every input the gate reads, with HttpRequestMethod's real "
               "isHttpSafe()/isIdempotent() tables and its real bytes->method mapping, HttpRequest::bodyNibbled(), StoreEntry::isEmpty() and "
               "FwdState::EnoughTimeToReForward(); gap: that flags.connected_okay is set on every path that starts sending (dispatch(), usePinned()) "
               "and is never cleared, that every failure path goes through retryOrBail(), pconn race handling (reactToZeroSizeObject, "
               "HappyConnOpener retriable/allowPersistent), FwdState::reforward() (re-forwarding after a complete 5xx-class reply is not a "
               "connection failure and has no method check), TunnelStateData's own retry logic for CONNECT, FTP/WHOIS clients, "
               "what HttpStateData reports to FwdState for each origin behaviour",
    entries=dict(
        quick=[
            _e("c07_retry_gate", "every input of checkRetry() symbolic: shutting_down (32 bit), self set/unset, store_status PENDING/OK, 0..2 reply bytes already stored, "
               "n_tries and forward_max_tries (32 bit), request flags.pinned, start_t / squid_curtime / forward_timeout (64 bit), flags.dont_retry, flags.connected_okay, "
               "method = every Http::MethodType value (METHOD_NONE..METHOD_OTHER), body pipe absent or present with symbolic 64-bit produced >= consumed counters",
               ("retry-after-send", "retry-before-send", "no-retry", "retriable", "not-retriable")),
            _e("c07_name_p", "method bytes 'P' b b b" + _nb, ("extension-not-retried", "known-not-retried")),
            _e("c07_name_patch", "method bytes 'PA' b b b" + _nb, ("extension-not-retried",)),
            _e("c07_name_tail", "method bytes b b 'T'" + _nb, ("retry-after-send", "extension-not-retried")),
            _e("c07_name_any", "every method of 1..3 fully symbolic bytes" + _nb, ("retry-after-send", "extension-not-retried"), jobs=2),
        ],
        thorough=[
            _e("c07_retry_gate", "as quick", ("retry-after-send", "retry-before-send", "no-retry", "retriable", "not-retriable")),
            _e("c07_name_p", "method bytes 'P' b b b" + _nb, ("extension-not-retried", "known-not-retried")),
            _e("c07_name_patch", "method bytes 'PA' b b b" + _nb, ("extension-not-retried",)),
            _e("c07_name_tail", "method bytes b b 'T'" + _nb, ("retry-after-send", "extension-not-retried")),
            _e("c07_name_any", "every method of 1..5 fully symbolic bytes" + _nb, _NAME, jobs=8),
            _e("c07_name_lock", "method bytes b b 'LOCK' (UNLOCK)" + _nb, ("retry-after-send", "extension-not-retried")),
            _e("c07_name_k", "method bytes b b b 'K' (LOCK, LINK)" + _nb, ("extension-not-retried", "known-not-retried")),
            _e("c07_name_long", "method bytes 'P' + 8 symbolic bytes (PROPFIND / PROPPATCH)" + _nb, ("retry-after-send", "extension-not-retried")),
        ]),
    timeout=dict(quick=300, thorough=1500),
    stubs=["FwdState, HttpRequest, StoreEntry, MemObject are zeroed raw memory of the real size (not constructed); set directly: FwdState::entry/request/self/"
           "start_t/n_tries/flags, HttpRequest::method/flags.pinned/body_pipe, StoreEntry::store_status/mem_obj, MemObject::data_hdr (a real mem_hdr, reply bytes written with mem_hdr::write)",
           "FwdState::self (RefCount) is written as a raw pointer without locking",
           "BodyPipe is really constructed (no producer); thePutSize/theGetSize set directly",
           "int shutting_down defined by the harness (globals.cc not linked); squid_curtime from harness/common/stubs.cc",
           "the global PconnPool constructed by FwdState.cc's static initialiser uses an empty PconnPool constructor defined by the harness (pconn.cc not linked; the pool is never used by the kernel)",
           "SquidConfig Config is the real global, zero-initialised; forward_max_tries, Timeout.forward, onoff.relaxed_header_parser set by the harness", "debugs() disabled"],
    assumptions=["'idempotent' = the Idempotent column of the IANA HTTP Method Registry (safe methods are idempotent); Squid-internal tokens NONE/PURGE and all unregistered (extension) methods count as non-idempotent",
                 "'Squid began sending the request' = FwdState::dispatch() has run (flags.connected_okay) or a body byte has been consumed from the request body pipe"],
    outside="everything listed under gap; server_pconn_for_nonretriable; method names other than the listed byte families",
)
