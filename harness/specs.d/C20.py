_U = TOK + ["src/clients/Client.cc", "src/HttpRequest.cc", "src/anyp/Uri.cc", "src/anyp/UriScheme.cc", "src/anyp/ProtocolType.cc", "src/ip/Address.cc",
            "src/SquidConfig.cc", "src/helper/ChildConfig.cc", "src/http/RequestMethod.cc", "src/http/MethodType.cc", "src/http/StatusLine.cc", "src/http/StatusCode.cc", "src/String.cc",
            "lib/rfc1738.cc", "compat/xstring.cc", "src/HttpHeader.cc", "src/HttpHeaderTools.cc", "src/http/RegisteredHeaders.cc",
            "src/http/ContentLengthInterpreter.cc", "src/StrList.cc", "src/MemBuf.cc", "src/mime_header.cc", "lib/util.cc"]
_e = lambda n, b, r, **kw: dict(name=n, bounds=b, reach=list(r), **dict(dict(jobs=2, max_samples=6), **kw))
_c = "; request POST|PUT|DELETE|PATCH http://h.x/p/q, status symbolic 200..599, the value in Location or Content-Location; b = fully symbolic byte (not NUL/CR/LF, value trimmed)"
_tb = "every method id except NONE/CONNECT and the KNOWN-FINDING candidates COPY/LOCK/UNLOCK (METHOD_OTHER = extension method 'PATCH'), status symbolic 200..599, request http://h.x/p/q, no Location headers"
_ok = ("named-invalidated", "error-status")
_known = [
    dict(name="c20_known_unsafe_methods", known=True, reach=[], max_samples=0, sample_every=0, jobs=1,
         bounds="KNOWN FINDING C20-unsafe-methods-not-purging only: methods COPY, LOCK, UNLOCK, status symbolic 200..399, request http://h.x/p/q, no Location headers; "
                "its violation is listed in known_findings.json and printed as KNOWN-FINDING"),
    dict(name="c20_known_raw_purge_keys", known=True, reach=[], max_samples=0, sample_every=0, jobs=2,
         bounds="KNOWN FINDING C20-raw-purge-keys only: values 'http://h.x/' b b | 'http://' b '.x' b 'a' | 'htt' b '://h.x/a' | '/' b 'h.x/a' | '?' b restricted to same-host values that are spelled "
                "with another authority text, have an empty path, an upper-case scheme letter, a fragment, '?' '[' ']' in an absolute value, a network-path form, dot segments or only a query; "
                "request POST|PUT|DELETE|PATCH http://h.x/p/q, status symbolic 200..399; its violation is listed in known_findings.json and printed as KNOWN-FINDING"),
]
SPEC = dict(
    harness="C20_invalidate.cc", units=_U, unit_flags={"compat/xstring.cc": ["-Dxstrdup=vf_unused_squid_xstrdup"]},
    scope="kernel",
    scope_note="kernel decided: Client::maybePurgeOthers()/purgeEntriesByHeader()/sameUrlHosts() hand to purgeEntriesByUrl() the lookup key of the request URL and of every "
               "same-host URL named by Location/Content-Location (RFC 3986 resolution; key = effectiveRequestUri() of the really parsed URL, as a later GET computes it) whenever "
               "the method is unsafe and the status is < 400; gap: purgeEntriesByUrl() itself (storeKeyPublic for GET and HEAD, Store::Controller::evictIfFound, HTCP CLR), "
               "Vary-keyed variants, store_id rewriting, entries being written concurrently, that haveParsedReplyHeaders() runs for every final reply, clientReplyContext::purgeRequest",
    entries=dict(
        quick=[
            _e("c20_target", _tb, ("invalidated", "kept"), jobs=1),
            _e("c20_abs_path", "value 'http://h.x/' b b" + _c, _ok + ("known-dot-segment", "known-encoded-char", "known-fragment")),
            _e("c20_abs_host", "value 'http://' b '.x' b 'a'" + _c, _ok + ("other-host", "known-authority-spelling")),
            _e("c20_abs_end", "value 'http://h.' b" + _c, ("known-empty-path", "other-host", "error-status"), jobs=1),
            _e("c20_abs_scheme", "value 'htt' b b '//h.x/a'" + _c, _ok + ("known-scheme-case",)),
            _e("c20_rel_abs", "value '/' b b" + _c, _ok + ("known-dot-segment", "known-fragment")),
            _e("c20_rel_net", "value '/' b 'h.x/' b" + _c, _ok + ("known-network-path",)),
            _e("c20_rel_any", "every value of 0..2 bytes" + _c, _ok + ("known-query-only",)),
        ] + _known,
        thorough=[
            _e("c20_target", _tb, ("invalidated", "kept"), jobs=1),
            _e("c20_abs_path", "value 'http://h.x/' b b b" + _c, _ok + ("known-dot-segment", "known-encoded-char", "known-fragment"), jobs=4),
            _e("c20_abs_host", "value 'http://' b '.' b b 'a'" + _c, _ok + ("other-host", "known-authority-spelling"), jobs=4),
            _e("c20_abs_end", "value 'http://h.' b b" + _c, ("known-empty-path", "other-host", "error-status"), jobs=1),
            _e("c20_abs_scheme", "value 'ht' b b b '//h.x/a'" + _c, _ok + ("known-scheme-case",), jobs=4),
            _e("c20_rel_abs", "value '/' b b b" + _c, _ok + ("known-dot-segment", "known-fragment"), jobs=4),
            _e("c20_rel_net", "value '/' b 'h.x' b b" + _c, _ok + ("known-network-path",), jobs=2),
            _e("c20_rel_any", "every value of 0..3 bytes" + _c, _ok + ("known-query-only",), jobs=4),
        ] + _known),
    timeout=dict(quick=300, thorough=2400),
    stubs=["purgeEntriesByUrl() (client_side_reply.cc) records the URL strings it is given",
           "Client, HttpRequest, HttpReply are zeroed raw memory of the real size; constructed in place: HttpRequest::method/url (url by the real AnyP::Uri::parse), HttpReply::header/sline; "
           "Client::request (raw pointer written into the RefCount without locking) and Client::theFinalReply set directly",
           "getaddrinfo/freeaddrinfo/inet_ntop: numeric-only models of harness/C30_netmodel.h; StatHist::enumInit/count no-ops; Ip::EnableIpv6 = on",
           "SquidConfig Config is the real global, zero-initialised (uri_whitespace strip, check_hostnames off, no append_domain)", "debugs() disabled"],
    assumptions=["known finding C20-unsafe-methods-not-purging (examined only by entry c20_known_unsafe_methods, excluded from c20_target by vf_assume): COPY, LOCK and UNLOCK are unsafe but HttpRequestMethod::purgesOthers() is false for them",
                 "known finding C20-raw-purge-keys (examined only by entry c20_known_raw_purge_keys, skipped by the other entries under their 'known-*' labels): same-host values whose purge key is the raw / un-normalised header value while lookup keys are canonical: "
                 "authority spelled differently from the request URL's (case, explicit port, userinfo), authority with empty path, scheme not in lower case, values with a fragment, absolute values containing '?' '[' ']', "
                 "network-path references '//host/..', values with '.' or '..' path segments, query-only references '?x'",
                 "'unsafe' = not marked Safe in the IANA HTTP Method Registry (extension methods are unsafe); 'non-error' = status < 400",
                 "the later GET asks for the header value resolved against the request URL per RFC 3986 section 5.2 (fragment dropped, dot segments removed) and is looked up under AnyP::Uri::absolute() of that URL as parsed by AnyP::Uri::parse"],
    outside="header values with bytes outside visible ASCII; values other than the listed families; request URLs other than http://h.x/p/q; everything listed under gap",
)
