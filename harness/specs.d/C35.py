_f = lambda n, b, r, **kw: dict(name=n, bounds=b, reach=list(r), **kw)
SPEC = dict(
    harness="C35_date.cc",
    units=["src/time/rfc1123.cc", "compat/xstring.cc"],
    unit_flags={"compat/xstring.cc": ["-Dxstrdup=vf_unused_xstrdup"]},   # xstrdup is already provided by the libc model; xstrncpy is the real one
    o0_units=["src/time/rfc1123.cc"], ub=True, ub_files=["time/rfc1123.cc"],
    entries=dict(
        quick=[
            _f("c35_roundtrip", "every time 1970-01-01 00:00:00 .. 9999-12-31 23:59:59: all 12 decimal digits of YYYY DD HH MM SS symbolic (valid date), month by case split", ("done",)),
            _f("c35_imf", "'Wed, DD Mon YYYY HH:MM:SS GMT': all 12 digits symbolic over 0..9, month by case split", ("accepted", "rejected")),
            _f("c35_rfc850", "'Wednesday, DD-Mon-YY HH:MM:SS GMT': all 10 digits symbolic over 0..9, month by case split", ("accepted", "rejected")),
            _f("c35_asctime", "'Wed Mon DD HH:MM:SS YYYY' (day 2DIGIT or SP DIGIT): all 12 digits symbolic over 0..9, month by case split", ("accepted", "rejected")),
            _f("c35_junk", "6 Nov 1994 08:49:37 in each of the three forms with one fully symbolic byte at every position", ("accepted", "accepted-other", "rejected")),
            _f("c35_month", "'Thu, 29 ??? 2024 23:59:59 GMT' with 3 fully symbolic month letters", ("accepted", "accepted-other", "rejected")),
            dict(name="c35_known_day_not_in_month", known=True, reach=[], max_samples=0, sample_every=0, bounds="KNOWN FINDING C35-day-not-in-month only: 'Wed, DD Feb 2021 00:00:00 GMT' with both day digits symbolic, restricted to days 29..31 (in the form, day 1..31, but February 2021 has 28 days); strict assertion 'an accepted date names a day the month has'; its violations are listed in known_findings.json and printed as KNOWN-FINDING"),
        ],
        thorough=[
            _f("c35_roundtrip", "as quick", ("done",)),
            _f("c35_imf", "as quick", ("accepted", "rejected")),
            _f("c35_rfc850", "as quick", ("accepted", "rejected")),
            _f("c35_asctime", "as quick", ("accepted", "rejected")),
            _f("c35_junk", "as quick with two adjacent fully symbolic bytes at every position", ("accepted", "accepted-other", "rejected")),
            _f("c35_month", "29 ??? 2024 23:59:59 in each of the three forms with 3 fully symbolic month letters", ("accepted", "accepted-other", "rejected")),
            dict(name="c35_known_day_not_in_month", known=True, reach=[], max_samples=0, sample_every=0, bounds="KNOWN FINDING C35-day-not-in-month only: 'Wed, DD Feb 2021 00:00:00 GMT' with both day digits symbolic, restricted to days 29..31 (in the form, day 1..31, but February 2021 has 28 days); strict assertion 'an accepted date names a day the month has'; its violations are listed in known_findings.json and printed as KNOWN-FINDING"),
        ]),
    timeout=dict(quick=300, thorough=1200),
    stubs=["timegm/gmtime/strftime (libc calendar functions, no bitcode) are defined in the harness for the bitcode build: timegm = exact proleptic-Gregorian conversion; gmtime returns the fields the harness built the time from (decomposition is unique); strftime prints RFC1123_STRFTIME from those fields and their digits. The native differential/replay build uses the real libc",
           "libc strtok/atoi/strchr/strcmp/strlen/toupper/tolower models (C locale)", "debugs() disabled"],
    outside="libc's own calendar arithmetic; locales other than C (strftime names); strings outside the listed families; weekday names other than the one in the skeleton (Squid ignores the weekday); times before 1970 or after 9999 for formatting",
    assumptions=["dates whose day of month the month does not have (31 Feb, 29 Feb of a common year) are examined by c35_known_day_not_in_month only (known finding C35-day-not-in-month) and excluded from every other entry"],
)
