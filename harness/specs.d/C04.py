FWD = TOK + ["src/HttpHeader.cc", "src/HttpHeaderTools.cc", "src/HeaderMangling.cc", "src/http/RegisteredHeaders.cc", "src/http/ContentLengthInterpreter.cc",
             "src/http/one/Parser.cc", "src/String.cc", "src/StrList.cc", "src/MemBuf.cc", "src/mime_header.cc", "src/SquidConfig.cc",
             "src/ip/Address.cc", "src/helper/ChildConfig.cc", "lib/util.cc", "compat/xstring.cc",
             "src/HttpRequest.cc", "src/HttpHdrCc.cc", "src/http/RequestMethod.cc", "src/http/MethodType.cc", "src/refresh.cc", "src/globals.cc", "src/anyp/Uri.cc", "src/anyp/UriScheme.cc"]
# xstrdup is an engine model (engine/models/libc.c); the real compat/xstring.cc is linked for xstrncpy with its xstrdup renamed away
FWD_FLAGS = {"compat/xstring.cc": ["-Dxstrdup=vf_unused_squid_xstrdup"]}
_e = lambda n, b, r, **kw: dict(name=n, bounds=b, reach=list(r), **dict(dict(sample_every=61, max_samples=6), **kw))
_b = "; b = any byte except NUL, CR, LF, DQUOTE; n = any tchar"
_req = ("client block: User-Agent, Connection, the extension field, Keep-Alive, TE, Trailer, Upgrade, Proxy-Connection, Proxy-Authenticate, Proxy-Authorization, "
        "'Transfer-Encoding: gzip, chunked', Accept, X-Keep; direct connection to the origin, flags.keepalive and flags.chunked_request symbolic")
_rep = ("origin block: Server, Connection, the extension field, Keep-Alive, TE, Trailer, Upgrade, Proxy-Connection, Proxy-Authenticate, "
        "'Transfer-Encoding: chunked', Accept, X-Keep")
def _fams(th):
    k = "b b b b b" if th else "b b b b"
    x = "1..3" if th else "1..2"
    v = {
        "any": "Connection value = %s (fully symbolic), extension field name = %s bytes n" % (k, x),
        "tail": "Connection value = 'close' %s, extension field name = %s bytes n" % (k, x),
        "head": "Connection value = %s 'keep-alive', extension field name = %s bytes n" % (k, x),
        "mid": "Connection value = 'TE' %s ',close', extension field name = %s bytes n" % (k, x),
        "reg": "Connection value = " + ("b 'cce' b b b" if th else "b 'ccep' b b") + " (names the registered end-to-end field Accept or not), extension field name = 1 byte n",
        "two": "two Connection fields: 'close' and %s, extension field name = %s bytes n" % (k, x),
    }
    out = []
    for f in ("any", "tail", "head", "mid", "reg", "two"):
        lab = ("to-origin",) if f == "reg" else ("listed-dropped", "unlisted-kept", "to-origin")
        out.append(_e("c04_req_" + f, v[f] + "; " + _req + _b, lab))
    for f in ("any", "tail", "head", "mid", "reg", "two"):
        lab = () if f == "reg" else ("listed-dropped", "unlisted-kept")
        out.append(_e("c04_rep_" + f, v[f] + "; " + _rep + _b, lab))
    out.append(_e("c04_req_flags", "Connection value = ' x' b ', close', extension field name = 2 bytes n; the client block above; every Http::StateFlags member read by "
                  "httpBuildRequestHeader() symbolic (keepalive, only_if_cached, peering, tunneling, toOrigin, chunked_request, front_end_https 0..2; tunneling => "
                  "peering and toOrigin; no peer => toOrigin); cache_peer login in {none, PASS, PASSTHRU, PROXYPASS, user:pw, *:pw} (none without a peer)" + _b,
                  ("listed-dropped", "unlisted-kept", "to-origin", "peer-credentials-passed", "peer-no-credentials")))
    return out
SPEC = dict(
    harness="C04_hopbyhop.cc", units=FWD, unit_flags=FWD_FLAGS,
    scope="kernel",
    scope_note="kernel decided: (request) the real HttpStateData::httpBuildRequestHeader() -- getList(Connection), copyOneHeaderFromClientsideRequestToUpstreamRequest() "
               "for every parsed client field, addVia, X-Forwarded-For, Host, httpFixupAuthentication(), Cache-Control, Squid's own Connection and Transfer-Encoding, "
               "httpHdrMangleList() with no header_access rules -- produces an upstream header that contains no client field named by an element of a received Connection "
               "value (RFC 9110 list syntax: commas, OWS, empty elements, any case), none of Keep-Alive/TE/Trailer/Upgrade/Proxy-Connection/Proxy-Authenticate, exactly one "
               "Connection field which is Squid's own keep-alive/close, Transfer-Encoding only as Squid's own single 'chunked' and only when Squid chunks, and no "
               "Proxy-Authorization (nor the client's proxy credentials in any field, unless cache_peer login=PROXYPASS) when the next hop is an origin server; "
               "(reply) HttpHeader::removeHopByHopEntries()/removeConnectionHeaderEntries()/strListIsMember() leave no field named in a received Connection value and none "
               "of Connection/Keep-Alive/TE/Trailer/Upgrade/Proxy-Connection/Transfer-Encoding, in the entries and in the presence mask; "
               "gap: the rest of clientReplyContext::buildReplyHeader() (it removes Proxy-Authenticate itself unless login=PASS/PASSTHRU, and adds Squid's own Connection/"
               "Transfer-Encoding), HttpStateData::forwardUpgrade() with http_upgrade_request_protocols configured, header_access/header_add rules, "
               "FTP/tunnel/ICAP paths, that every relayed message goes through these two functions",
    entries=dict(quick=_fams(False), thorough=_fams(True)),
    timeout=dict(quick=900, thorough=3000),
    stubs=["HttpRequest is zeroed raw memory of the real size (not constructed); set directly: header (placement-new HttpHeader(hoRequest), filled by the real "
           "HttpHeader::parse()), method POST, http_ver 1.1, lastmod/ims -1, rangeOffsetLimit 0 (range_offset_limit unset), url.absolute_ (cached absolute URI), "
           "peer_domain 'o.example' (supplies Host), client_addr no-addr, peer_login; CachePeer is zeroed raw memory (only tested for null); StoreEntry null; ALE null",
           "src/http.cc is #included into the harness TU (static functions); everything of it that is not reached stays undefined",
           "StatHist::enumInit/count are no-ops (per-header statistics histograms; StatHist.cc not linked)",
           "bitcode only: nettle base64_encode_* replaced by an 'A'-emitting stand-in (encodes Squid's own cache_peer login credentials; text irrelevant)",
           "SquidConfig Config is the real global, zero-initialised, with via on, cache_miss_revalidate on, redir_rewrites_host on, relaxed_header_parser on; "
           "forwarded_for on; src/globals.cc is the real file",
           "compat/xstring.cc is the real file with its xstrdup renamed away (xstrdup is an engine model)", "debugs() disabled"],
    assumptions=["'named in a received Connection header' = the field name equals, case-insensitively, an element of the comma-separated value after removing SP/HT around "
                 "it; values containing DQUOTE are outside (Squid's list iterator honours quoted strings, the Connection grammar has none)",
                 "the extension field's name is not 'Via' (Squid rebuilds Via itself from the received list) -- relevant for 3-byte names only"],
    outside="Connection values and extension names longer than the listed families; more than two Connection fields; registered names that "
            "copyOneHeaderFromClientsideRequestToUpstreamRequest() handles in their own case before the Connection test (Authorization, Host, If-Modified-Since, "
            "If-None-Match, Max-Forwards, Via, Range, If-Range, Request-Range, Content-Length, Front-End-Https, X-Forwarded-For, Cache-Control: listing one of them in "
            "Connection does not remove it -- Content-Length deliberately); cache_peer login=PROXYPASS to an originserver peer (documented: the client's proxy "
            "credentials are sent as Authorization); login=NEGOTIATE; surrogate (accelerated) requests; requests with Range/If-* validators",
)
