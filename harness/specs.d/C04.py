FWD = TOK + ["src/HttpHeader.cc", "src/HttpHeaderTools.cc", "src/HeaderMangling.cc", "src/http/RegisteredHeaders.cc", "src/http/ContentLengthInterpreter.cc",
             "src/http/one/Parser.cc", "src/String.cc", "src/StrList.cc", "src/MemBuf.cc", "src/mime_header.cc", "src/SquidConfig.cc",
             "src/ip/Address.cc", "src/helper/ChildConfig.cc", "lib/util.cc", "compat/xstring.cc",
             "src/HttpRequest.cc", "src/HttpHdrCc.cc", "src/http/RequestMethod.cc", "src/http/MethodType.cc", "src/refresh.cc", "src/globals.cc", "src/anyp/Uri.cc", "src/anyp/UriScheme.cc",
             # second harness TU (the real client_side_reply.cc is #included there) and what clientReplyContext::buildReplyHeader() reaches
             "verif:harness/C04_reply.cc", "src/HttpReply.cc", "src/HttpBody.cc", "src/LogTags.cc", "src/http/StatusLine.cc", "src/http/StatusCode.cc", "src/cbdata.cc"]
# xstrdup is an engine model (engine/models/libc.c); the real compat/xstring.cc is linked for xstrncpy with its xstrdup renamed away
FWD_FLAGS = {"compat/xstring.cc": ["-Dxstrdup=vf_unused_squid_xstrdup"]}
_e = lambda n, b, r, **kw: dict(name=n, bounds=b, reach=list(r), **dict(dict(sample_every=61, max_samples=6), **kw))
_b = "; b = any byte except NUL, CR, LF, DQUOTE; n = any tchar"
_req = ("; client block: User-Agent, Connection, the extension field X, Keep-Alive, TE, Trailer, Upgrade, Proxy-Connection, Proxy-Authenticate, Proxy-Authorization, "
        "'Transfer-Encoding: gzip, chunked', [second Connection,] Accept, X-Keep; direct connection to the origin, flags.keepalive and flags.chunked_request symbolic")
_rep = ("; origin block: Server, Connection, the extension field X, Keep-Alive, TE, Trailer, Upgrade, Proxy-Connection, Proxy-Authenticate, "
        "'Transfer-Encoding: gzip, chunked', [second Connection,] Accept, X-Keep")
def _fams(th):
    k = "b b b b" if th else "b b b"
    x2 = "'X-e'" if th else "'Xe'"
    any_ = "Connection = %s (fully symbolic), X = %s" % (k, "'xE'" if th else "'E'")
    two = "two Connection fields 'close' and %s, X = %s" % (k, x2)
    tail = "Connection = 'close' %s, X = %s" % (k, x2)
    head = "Connection = %s 'keep-alive', X = %s" % (k, x2)
    mid = "Connection = 'xe' %s 'x-keep' %s, X = 'xE'" % (("b b b", "b") if th else ("b b", "b"))
    reg = "Connection = %s (names the registered end-to-end field Accept or not), X = 'Xe'" % ("b 'cce' b b b" if th else "b 'ccep' b b")
    name = "Connection = %s, X = %s" % ("'close,xE' b ',k' b" if th else "'close,xE' b", "n n" if th else "n n")
    L3 = ("listed-dropped", "unlisted-kept", "to-origin")
    return [
        _e("c04_req_short", any_ + " | " + two + _req + _b, L3),
        _e("c04_req_edges", tail + " | " + head + _req + _b, L3),
        _e("c04_req_named", mid + " | " + reg + " | " + name + _req + _b, L3),
        _e("c04_req_flags", "Connection = ' xE , close', X = 'Xe'; the client block above; Http::StateFlags symbolic: keepalive, peering, tunneling, toOrigin, chunked_request"
           + (", only_if_cached, front_end_https 0..2" if th else "") + " (tunneling => peering and toOrigin; no peer => toOrigin); cache_peer login in {none, PASS, PASSTHRU, "
           "PROXYPASS, user:pw, *:pw} (none without a peer)", ("listed-dropped", "to-origin", "peer-credentials-passed", "peer-no-credentials"), sample_every=5, max_samples=14),
        _e("c04_rep_build", "the real clientReplyContext::buildReplyHeader() on a cache miss being relayed: " + (" | ".join((any_, two, tail)) if th else tail) + _rep +
           ", Date; reply status 200; request cache_peer login in " + ("{none, PASS, PASSTHRU, PROXYPASS}" if th else "{none, PASS, PASSTHRU}") +
           ", flags.proxyKeepalive symbolic, client HTTP version in {1.0, 1.1}" + _b, ("listed-dropped", "unlisted-kept", "from-origin", "peer-auth-passed")),
        _e("c04_rep_ws_colon", "origin block as below with SP, HTAB or SP HTAB between EVERY field name (Connection, X, Keep-Alive, TE, Trailer, Upgrade, Proxy-Connection, "
           "Proxy-Authenticate, Transfer-Encoding) and its colon (tolerated in replies, whitespace removed); both reply kernels (removeHopByHopEntries() alone | buildReplyHeader()); " + two + " | " + tail + _rep + _b,
           ("listed-dropped", "unlisted-kept")),
        _e("c04_rep_lists", " | ".join((any_, two, tail, head, mid, reg, name)) + _rep + _b, ("listed-dropped", "unlisted-kept")),
    ]
SPEC = dict(
    harness="C04_hopbyhop.cc", units=FWD, unit_flags=FWD_FLAGS,
    native_libs=["-lnettle"],   # the real base64 encoder of this build, for the native replay
    scope="kernel",
    scope_note="kernel decided: (request) the real HttpStateData::httpBuildRequestHeader() -- getList(Connection), copyOneHeaderFromClientsideRequestToUpstreamRequest() "
               "for every parsed client field, addVia, X-Forwarded-For, Host, httpFixupAuthentication(), Cache-Control, Squid's own Connection and Transfer-Encoding, "
               "httpHdrMangleList() with no header_access rules -- produces an upstream header that contains no client field named by an element of a received Connection "
               "value (RFC 9110 list syntax: commas, OWS, empty elements, any case), none of Keep-Alive/TE/Trailer/Upgrade/Proxy-Connection/Proxy-Authenticate, exactly one "
               "Connection field which is Squid's own keep-alive/close, Transfer-Encoding only as Squid's own single 'chunked' and only when Squid chunks, and no "
               "Proxy-Authorization (nor the client's proxy credentials in any field, unless cache_peer login=PROXYPASS) when the next hop is an origin server; "
               "(reply) the real clientReplyContext::buildReplyHeader() for a cache miss being relayed (Proxy-Authenticate removal unless the request goes through a cache_peer "
               "with login=PASS/PASSTHRU, HttpHeader::removeHopByHopEntries(), removeIrrelevantContentLength(), Cache-Status, keep-alive decision, Squid's own "
               "Transfer-Encoding/Via/Connection, httpHdrMangleList()) sends the client no field named in a received Connection value, none of Keep-Alive/TE/Trailer/Upgrade/"
               "Proxy-Connection, Proxy-Authenticate only in the login=PASS/PASSTHRU case, exactly one Connection which is Squid's own keep-alive/close, and Transfer-Encoding "
               "only as Squid's own single 'chunked' and only to an HTTP/1.1 client; HttpHeader::removeHopByHopEntries() alone (as Http::One::Server uses it for 1xx "
               "control messages) leaves no such field in the entries and in the presence mask; "
               "gap: cache hits (Age/Date rewriting), WWW-Authenticate connection-auth filtering, authentication info headers, reply_header_access/reply_header_add rules, "
               "HttpStateData::forwardUpgrade() with http_upgrade_request_protocols configured and the 101 path, request_header_access/request_header_add rules, "
               "FTP/tunnel/ICAP paths, that every relayed message goes through these functions",
    entries=dict(quick=_fams(False), thorough=_fams(True)),
    timeout=dict(quick=900, thorough=3000),
    stubs=["HttpRequest is zeroed raw memory of the real size (not constructed); set directly: header (placement-new HttpHeader(hoRequest), filled by the real "
           "HttpHeader::parse()), method POST, http_ver 1.1, lastmod/ims -1, rangeOffsetLimit 0 (range_offset_limit unset), url.absolute_ (cached absolute URI), "
           "peer_domain 'o.example' (supplies Host), client_addr no-addr, peer_login; CachePeer is zeroed raw memory (only tested for null); StoreEntry null; ALE null",
           "src/http.cc is #included into the harness TU (static functions); everything of it that is not reached stays undefined",
           "src/client_side_reply.cc is #included into a second harness TU (harness/C04_reply.cc); clientReplyContext, ClientHttpRequest, AccessLogEntry, HttpRequest and "
           "HttpReply are zeroed raw memory of the real size (HttpRequest/HttpReply with their real vtable pointers); set directly: reply header (placement-new, filled by "
           "the real HttpHeader::parse() with HttpReply::configureContentLengthInterpreter()), status line 1.1/200, content_length, keep_alive; request method GET, http_ver, "
           "peer_login, flags.proxyKeepalive; al->cache.code LOG_TCP_MISS; no StoreEntry, no ConnStateData, no auth_user_request; uniqueHostname() returns 'squid.example', "
           "fdUsageHigh() returns 0, Time::FormatRfc1123() returns a fixed date text (Squid's own Date field, added when the origin's was named in Connection); client_persistent_connections and error_pconns on",
           "StatHist::enumInit/count are no-ops (per-header statistics histograms; StatHist.cc not linked)",
           "bitcode only: nettle base64_encode_* replaced by an 'A'-emitting stand-in (encodes Squid's own cache_peer login credentials; text irrelevant)",
           "SquidConfig Config is the real global, zero-initialised, with via on, cache_miss_revalidate on, redir_rewrites_host on, relaxed_header_parser on; "
           "forwarded_for on; src/globals.cc is the real file",
           "compat/xstring.cc is the real file with its xstrdup renamed away (xstrdup is an engine model)", "debugs() disabled"],
    assumptions=["'named in a received Connection header' = the field name equals, case-insensitively, an element of the comma-separated value after removing SP/HT around "
                 "it; values containing DQUOTE are outside (Squid's list iterator honours quoted strings, the Connection grammar has none)",
                 "a symbolic 3-byte extension field name would exclude 'Via' (Squid rebuilds Via itself from the received list); the listed families use at most 2 symbolic name bytes"],
    outside="Connection values and extension names longer than the listed families; more than two Connection fields; registered names that "
            "copyOneHeaderFromClientsideRequestToUpstreamRequest() handles in their own case before the Connection test (Authorization, Host, If-Modified-Since, "
            "If-None-Match, Max-Forwards, Via, Range, If-Range, Request-Range, Content-Length, Front-End-Https, X-Forwarded-For, Cache-Control: listing one of them in "
            "Connection does not remove it -- Content-Length deliberately); cache_peer login=PROXYPASS to an originserver peer (documented: the client's proxy "
            "credentials are sent as Authorization); login=NEGOTIATE; surrogate (accelerated) requests; requests with Range/If-* validators",
)
