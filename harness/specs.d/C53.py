_e = lambda n, b, a=(): dict(name=n, args=list(a), bounds=b + "; operation = nondeterministic choice between pop() and push() of the page most recently obtained, plus a final release of everything; every interleaving at atomic-instruction granularity (visited-state pruning)", reach=["done"], sample_every=99991, jobs=1)
SPEC = dict(
    harness="C53_pagestack.cc", units=["src/ipc/mem/PageStack.cc"],
    threads=True,
    entries=dict(
        quick=[_e("c53_cap2_2x2", "capacity 2 (root + 2 leaves), 2 threads x 2 operations"), _e("c53_cap2_pre1_2x3", "capacity 2 with 1 page taken beforehand, 2 threads x 3 operations"),
               _e("c53_cap130_2x2", "capacity 130 (root, 2 inner nodes, 4 leaves) with 128 pages taken beforehand, 2 threads x 2 operations")],
        thorough=[_e("c53_cap2_2x4", "capacity 2, 2 threads x 4 operations"), _e("c53_cap3_3x2", "capacity 3 with 1 page taken beforehand, 3 threads x 2 operations, at most 2 preemptive context switches (switches at operation boundaries are free)", ("--preempt", "2")), _e("c53_cap130_2x3", "capacity 130 with 127 taken beforehand, 2 threads x 3 operations")]),
    timeout=dict(quick=300, thorough=2400),
    stubs=["sequentially consistent memory", "compare_exchange_weak never fails spuriously (a spurious failure only repeats the retry loop)", "threads stand for processes sharing the stack in shared memory",
           "counterexamples are replayed by the interpreter under the recorded schedule", "visited-state pruning relies on a 128-bit state hash", "debugs() disabled"],
    outside="more threads/operations/pages than the bound; PagePool level accounting (Pages.cc); weak-memory reorderings",
)
