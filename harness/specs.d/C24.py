_U = TOK + ["src/http/one/TeChunkedParser.cc", "src/http/one/Tokenizer.cc", "src/http/one/Parser.cc", "src/mime_header.cc", "src/MemBuf.cc",
           "src/SquidConfig.cc", "src/ip/Address.cc", "src/helper/ChildConfig.cc"]
_SEG = "one-shot, every split point and byte-by-byte delivery"
_SEGT = "one-shot, every split point, every pair of split points for inputs of at most 11 bytes, and byte-by-byte delivery"
_g = lambda n, b, r=("done", "more", "bad"), **kw: dict(name=n, bounds=b, reach=list(r), **kw)
_GQ = "; relaxed_header_parser in {0,1}; " + _SEG + "; oracle = reference decoder (DONE/MORE/BAD, decoded bytes, consumed length)"
_GT = "; relaxed_header_parser in {0,1}; " + _SEGT + "; oracle = reference decoder"
_X = "; bytes that the chunk-size parser can see are case-split by the harness: one path per hex-digit character (concrete), all 234 other values one symbolic class"
SPEC = dict(
    harness="C24_chunked.cc", units=_U,
    # -O0 (+sroa/mem2reg) for these two: at -O1 clang turns "if (0x prefix) s += 2" in Tokenizer::int64 and the min() calls in
    # parseChunkBody into selects, i.e. symbolic pointers/lengths, which the engine can only handle by range searches
    o0_units=["src/parser/Tokenizer.cc", "src/http/one/TeChunkedParser.cc"],
    entries=dict(
        quick=[
            _g("c24_rt_chunks", "reference encoder: body of 0..3 fully symbolic bytes in 1..3 chunks (every cut pair), 0/1 leading zeros on chunk-sizes (00 as last-chunk), output-space limit 1..len+1, one symbolic byte of the next message after the encoding; relaxed_header_parser in {0,1}; " + _SEG + "; every strict prefix", ("done",), sample_every=23, max_samples=3),
            _g("c24_rt_ext", "reference encoder: two 1-byte chunks (symbolic data); chunk-ext of 6 shapes (;n  ;n=vv  ;n=\"q\\p\"  BWS;BWS n BWS=BWS v  ;n;n=\"\"BWS;n  bare BWS) with every name/value/qdtext/quoted-pair byte symbolic over its whole RFC 9112 class and SP/HTAB case-split; combinations (ext on first chunk, trailer line 'T:'+symbolic non-CR/LF byte, output-space limit 1), (ext on last-chunk, no trailer, limit 2), (ext on last-chunk, trailer, limit 1); relaxed_header_parser in {0,1}; " + _SEG + "; every strict prefix", ("done",), sample_every=11, max_samples=3),
            _g("c24_rt_hex", "reference encoder: one chunk of 10..17 symbolic bytes (chunk-size a..f / 10, 11 with letters in either case); output-space limit in {7, size-1, size}; " + _SEG + "; every strict prefix", ("done",), sample_every=5, max_samples=3),
            _g("c24_g_size", "5 skeletons with one unconstrained byte b in a chunk-size line: b'2', '0'b'2', '2'b CRLF, '2'b LF (each + 'ab' CRLF '0' CRLF CRLF) and '1' CRLF 'X' CRLF b CRLF CRLF (first digit, 0x/0X, digit/BWS/';'/CR after the digits, the CR, first byte of the second chunk-size line); output-space limit 1" + _GQ + _X, max_samples=3),
            _g("c24_g_ext", "4 skeletons with 3 unconstrained bytes: '1;' b b b, '1;a=' b b b, '1;a=\"' b b b '\"', '1;' b 'a' b '=' b 'v' (each + CRLF 'X' CRLF '0' CRLF CRLF): extension list, value token/quoted-string, qdtext/quoted-pair, BWS positions; output-space limit 1" + _GQ, ("done", "bad"), max_samples=3),
            _g("c24_g_end", "3 skeletons: '2' CRLF 'XY' b b '0' CRLF CRLF (CRLF after chunk-data; output-space limit in {1,3}), '1' CRLF 'X' CRLF '0' b b LF (after the last-chunk size), '1' CRLF 'X' CRLF '0' CRLF b b b (trailer-section and final CRLF)" + _GQ + _X, max_samples=3),
            _g("c24_g_big", "b 'fffffffffffffff' b CRLF 'X' (first and 17th size character unconstrained: 0fff.., 7fff.., 8000.., 17 digits) and '7fffffffffffff' b b CRLF 'X' (15th and 16th) and b b '00000000000000' b CRLF 'X' (17 digits whose 64-bit accumulation wraps around)" + _GQ, ("more", "bad"), max_samples=3),
            _g("c24_any", "every input of 1..2 unconstrained bytes; relaxed_header_parser = 1; one-shot and every split point" + _X, ("more", "bad"), max_samples=3),
        ],
        thorough=[
            _g("c24_rt_chunks", "as quick with bodies of 0..4 bytes; " + _SEGT, ("done",), sample_every=211, max_samples=3),
            _g("c24_rt_ext", "as quick but every combination of (ext on first chunk / last-chunk) x (trailer / none) x (limit 1 / 2); " + _SEGT, ("done",), sample_every=31, max_samples=3),
            _g("c24_rt_hex", "as quick with one chunk of 9..33 bytes; " + _SEGT, ("done",), sample_every=11, max_samples=3),
            _g("c24_g_size", "as quick" + _GT + _X, max_samples=3),
            _g("c24_g_ext", "as quick but relaxed_header_parser in {-1,0,1}" + _GT, ("done", "bad"), max_samples=3),
            _g("c24_g_end", "as quick" + _GT + _X, max_samples=3),
            _g("c24_g_big", "as quick" + _GT, ("more", "bad"), max_samples=3),
            _g("c24_any", "every input of 1..2 unconstrained bytes" + _GT + _X, ("more", "bad"), max_samples=3),
            _g("c24_g_size2", "b b CRLF 'ab' CRLF '0' CRLF CRLF: 2 unconstrained bytes of chunk-size field at once; output-space limit 1; relaxed_header_parser = 1; " + _SEGT + _X, max_samples=3),
            _g("c24_g_next2", "'1' CRLF 'X' CRLF b b CRLF CRLF: 2 unconstrained bytes of the second chunk-size line; relaxed_header_parser = 1; " + _SEGT + _X, max_samples=3),
            _g("c24_g_ext4", "'1;' b b b b CRLF 'X' CRLF '0' CRLF CRLF: 4 unconstrained bytes of chunk-ext; relaxed_header_parser = 1; " + _SEGT, ("done", "bad"), max_samples=3),
            _g("c24_g_quoted4", "'1;a=\"' b b b b CRLF 'X' CRLF '0' CRLF CRLF: 4 unconstrained bytes from inside a quoted-string to past its end; relaxed_header_parser = 1; " + _SEGT, ("done", "bad"), max_samples=3),
            _g("c24_g_end4", "'1' CRLF 'X' CRLF '0' CRLF b b b b (4 unconstrained bytes of trailer-section / final CRLF) and '7fffffffffffff' b b b LF 'X' (15th..17th size character)" + _GT, max_samples=3),
        ]),
    timeout=dict(quick=170, thorough=1500),
    stubs=["SquidConfig Config is the real global, zero-initialised, with relaxed_header_parser set by the harness (-1 differs from 1 only in the level of disabled debugs(), so it is exercised in one thorough entry only)",
           "output buffer = real MemBuf with max_capacity = limit+1 (memAllocBuf family from harness/common/stubs.cc); the harness drains it after every parse() as BodyPipe consumers do",
           "debugs() disabled"],
    outside="bodies, chunk counts, extension lists and trailers beyond the listed families (in particular bodies up to 64 KB and the 64 KB trailer limit); more than two split points other than byte-by-byte delivery; customExtensionValueParser (ICAP use-original-body); exception message texts",
)
