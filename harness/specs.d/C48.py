_ALPHA = "content bytes symbolic over {a,B}"
_ARGS = "every position/count argument is a symbolic 32-bit value: 0..length+1 case-split, everything above (out-of-range, npos) one symbolic class"
SPEC = dict(
    harness="C48_sbufvalue.cc",
    # the two former exclusions (chop()/substr() count wrap, rawAppendStart() beyond maxSize) are compiled out: both defects are repaired in /repo
    defines=["C48_SHOW_FINDINGS=1"], units=SBUF,
    entries=dict(
        quick=[
            dict(name="c48_mutate", bounds="2 SBufs in 4 sharing shapes (independent, copy, tail slice, grown-after-copy; thorough also head slice) of a 0..3 byte value; ONE of 18 mutators (assign, assign substr of other/own, append SBuf/substr/raw pointer into own or other storage/char/c-string, assign(ptr,n), consume, chop, trim, setAt, clear, reserveSpace/Capacity, reserve, c_str, rawAppendStart+Finish) on either SBuf from either; " + _ARGS + "; " + _ALPHA + "; all SBufs compared with their references afterwards",
                 reach=["done", "threw", "cow-copy", "cow-avoided"], sample_every=401),
            dict(name="c48_query", bounds="2 sharing shapes (independent, tail slice; thorough also copy) of a 0..3 byte value, other value 0..2 bytes; ONE of find/rfind (char, SBuf), findFirst/LastOf/NotOf, cmp(SBuf,n), cmp(c-string,n), startsWith, ==, <, at, copy, iterators, SBufEqual/SBufStartsWith; " + _ARGS + "; " + _ALPHA,
                 reach=["done", "threw"], sample_every=201),
            dict(name="c48_case", bounds="3 sharing shapes (thorough: 5) of a 0..2 byte value over {a,A,B} (letters case-split, concrete per path); toLower, toUpper, caseCmp(SBuf,n), caseCmp(c-string,n), startsWith/SBufEqual/CaseInsensitiveSBufEqual ignoring case; n symbolic as above",
                 reach=["done", "cow-copy", "cow-avoided"], sample_every=401),
            dict(name="c48_seq", bounds="2 SBufs in 3 sharing shapes (copy, tail slice, grown-after-copy) of a 3-byte value, then EVERY sequence of 2 operations from 23 scripted structural operations (share, slice, append self/other/char/raw own pointer, consume into the other, chop, trim, setAt, clear, reserve, c_str, raw append; arguments from {0,1,2, symbolic >64 incl. npos}) on either SBuf; " + _ALPHA + "; all values compared after every step",
                 reach=["done", "threw", "cow-copy", "cow-avoided"], sample_every=601),
            dict(name="c48_big", bounds="capacity boundary: s0 of 2046..2048 concrete position-dependent bytes (2 KB blob), optionally copied / consumed(3) / consumed into s1; then one of 11 growing operations (append char/self/other/own raw pointer/own substr/c-string, assign(own ptr), reserveSpace, raw append, c_str, setAt) on either SBuf followed by one of the first 4 on s0; values compared at the first 8, last 24 and every 61st byte",
                 reach=["done", "cow-copy", "cow-avoided", "cow-shift"], sample_every=301),
        ],
        thorough=[
            dict(name="c48_mutate", bounds="as quick with values of 0..5 bytes and all 5 shapes", reach=["done", "threw", "cow-copy", "cow-avoided"], sample_every=4001),
            dict(name="c48_query", bounds="as quick with values of 0..5 bytes and 3 shapes", reach=["done", "threw"], sample_every=2001),
            dict(name="c48_case", bounds="as quick with values of 0..3 bytes and all 5 shapes", reach=["done", "cow-copy", "cow-avoided"], sample_every=4001),
            dict(name="c48_seq", bounds="as quick with every sequence of 3 operations, the third from the 12 operations that can expose a stale sharing state (assign, slice, append other/char/raw own pointer, consume, chop, setAt, clear, reserveSpace, c_str, raw append)", reach=["done", "threw", "cow-copy", "cow-avoided"], sample_every=20001),
            dict(name="c48_seq3", bounds="3 SBufs on one blob (value, its copy, its middle slice), every sequence of 2 of the 23 scripted operations on any of them", reach=["done", "threw", "cow-copy", "cow-avoided"], sample_every=601),
            dict(name="c48_big", bounds="as quick with 2043..2048 bytes and every pair of the 11 operations", reach=["done", "cow-copy", "cow-avoided", "cow-shift"], sample_every=601),
        ]),
    timeout=dict(quick=170, thorough=1500),
    stubs=["memAllocBuf rounding as mem/old_api.cc (2 KB minimum blob)", "the static prototype blob all empty SBufs start on is claimed by a dummy SBuf first (as in a running Squid), except in c48_seq3", "debugs() disabled", "libc memchr/memrchr/memcmp/tolower/isupper models (C locale)",
           "harness writes back the (already determined) concrete value of SBuf::off_/len_ and MemBlob::size/capacity after each operation (engine hint, identity natively)"],
    outside="more than 3 SBufs, longer values and longer sequences than stated; values near maxSize (256 MB): only the argument checks of reserveSpace/reserveCapacity/rawAppendStart are exercised with huge arguments, reservations between 4 bytes and maxSize are not executed; Printf/appendf/vappendf, SBuf(std::string), toStdString, std::hash<SBuf>; operator[] out of range (documented undefined); raw pointers outside the source SBuf (caller contract)",
)
