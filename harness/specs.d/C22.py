HTTP1 = TOK + ["src/http/one/RequestParser.cc", "src/http/one/Parser.cc", "src/mime_header.cc", "src/http/RequestMethod.cc",
               "src/http/MethodType.cc", "src/SquidConfig.cc", "src/ip/Address.cc", "src/helper/ChildConfig.cc"]
_A = ("accept1x", "reject")
_B = ("accept1x", "accept09", "reject")
_fam = lambda n, b, r=_A, **kw: dict(name=n, bounds=b, reach=list(r), max_samples=3, **kw)
_REL = "; every symbolic byte ranges over all 256 values; relaxed_header_parser in {0,1}"
_RELT = "; every symbolic byte ranges over all 256 values; relaxed_header_parser in {-1,0,1}"
SPEC = dict(
    harness="C22_reqline.cc", units=HTTP1,
    entries=dict(
        quick=[
            _fam("c22_fields", "4 skeletons: 'GET' b b '/x' b b 'HTTP/1.1 CRLF CRLF' (two bytes per delimiter); 'PUT ' b b b ' HTTP/1.1 CRLF CRLF' (target); 'GET / ' b b 'TP' b '1.1 CRLF CRLF' (version name); 31 token characters + b b b + '/ HTTP/1.1 CRLF CRLF' (method lengths 31..34 against the 32-byte limit)" + _REL, _B),
            _fam("c22_method", "b b ' / HTTP/1.1 CRLF CRLF': 2 symbolic method bytes" + _REL),
            _fam("c22_ends", "3 skeletons: 'GET /' b 'HTTP/' b '.' b b LF CRLF (delimiter, both version digits, byte before LF); 'GET / HTTP/1.1' b b b CRLF; 'GET' + 4 symbolic bytes (all HTTP/0.9 requests with a 1..2 byte target)" + _REL, _B + ("more",)),
            _fam("c22_leading", "b b 'GET / HTTP/1.0 CRLF CRLF': 2 symbolic leading bytes" + _REL),
            _fam("c22_mutate_subst", "3 valid request lines ('GET / HTTP/1.1', HTTP/0.9 'GET /a', and one valid only with relaxed tolerances: CRLF LF 'get' HT '/ ' VT ' HTTP/1.1' CR CRLF), each unchanged and with every position substituted by any byte; followed by an empty header block" + _REL, _B, sample_every=41),
            _fam("c22_mutate_insdel", "the same 3 lines with any byte inserted at every position, and with every single byte deleted" + _REL, _B, sample_every=41),
            _fam("c22_uri_limit", "'GET /' + {65534,65535} x 'a' + b + ' HTTP/1.1 CRLF CRLF' (target lengths 65535..65537 around the 65536-byte limit)" + _REL),
            dict(name="c22_known_zero_version", known=True, bounds="KNOWN FINDING C22-zero-version only: 'GET /' b 'HTTP/' b '.' b CRLF CRLF and 'GET / HTTP/1.' b b CRLF CRLF restricted to version tokens with major version 0 or several digits; its violations are listed in known_findings.json and printed as KNOWN-FINDING", reach=[], max_samples=0, sample_every=0),
        ],
        thorough=[
            _fam("c22_fields", "as quick with 4 target bytes and 4 bytes after the 31 method characters" + _RELT, _B),
            _fam("c22_method", "3 symbolic method bytes" + _RELT),
            _fam("c22_ends", "as quick with 2 bytes before 'HTTP/', 4 bytes after the version, 'GET' + 5 bytes" + _RELT, _B + ("more",)),
            _fam("c22_leading", "3 symbolic leading bytes" + _RELT),
            _fam("c22_http09", "b 'ET' b '/' b b b LF and 'get ' b b b b LF" + _RELT, ("accept09", "reject")),
            _fam("c22_mutate_subst", "as quick over 9 valid lines (adds 'M-x /;p HTTP/2.0', 'Z!z /a?b=c&d=%7e HTTP/1.0' and OPTIONS */CONNECT authority/absolute-URI forms and a relaxed-only line with whitespace, '|' and 0x80 in the target and a bare LF)" + _RELT, _B, sample_every=101),
            _fam("c22_mutate_insdel", "as quick over the 9 lines" + _RELT, _B, sample_every=101),
            _fam("c22_uri_limit", "as quick with {65533,65534} x 'a' and 2 symbolic bytes" + _RELT),
            dict(name="c22_known_zero_version", known=True, bounds="KNOWN FINDING C22-zero-version only: 'GET /' b 'HTTP/' b '.' b CRLF CRLF and 'GET / HTTP/1.' b b CRLF CRLF restricted to version tokens with major version 0 or several digits; its violations are listed in known_findings.json and printed as KNOWN-FINDING", reach=[], max_samples=0, sample_every=0),
        ]),
    timeout=dict(quick=170, thorough=900),
    stubs=["SquidConfig Config is the real global, zero-initialised, with relaxed_header_parser set by the harness and maxRequestHeaderSize = 1 MB (so that the target length limit, not the header size limit, is what the long family meets)", "debugs() disabled"],
    assumptions=["KNOWN-FINDING candidate excluded by vf_assume: request lines ending in a version token 'HTTP/' 1*DIGIT '.' 1*DIGIT whose major version is 0 or that has more than one digit on a side (Squid maps both to major version 0 and then skips the delimiter check / keeps the delimiter in the target; see harness comment)",
                 "the relaxed-mode tolerances are those written down in Squid's own sources (Parser.cc RelaxedDelimiterCharacters, RequestParser.cc skipGarbageLines/skipTrailingCrs/RequestTargetCharacters, RequestMethod.cc): squid.conf only says 'certain forms of non-compliant HTTP messages'"],
    outside="request lines other than the listed skeleton families and single-character mutations; request-target structure (origin/absolute/authority/asterisk form: AnyP::Uri::parse); interaction with request_header_max_size (C62) and segmentation (C21); strict mode with an input starting with LF is not accepted but keeps the parser waiting for data instead of being rejected (not an acceptance, noted only)",
)
