HTTP1B = TOK + ["src/http/one/RequestParser.cc", "src/http/one/ResponseParser.cc", "src/http/one/Parser.cc", "src/mime_header.cc",
                "src/http/RequestMethod.cc", "src/http/MethodType.cc", "src/SquidConfig.cc", "src/ip/Address.cc", "src/helper/ChildConfig.cc"]
_fam = lambda n, b, r, **kw: dict(name=n, bounds=b, reach=list(r), max_samples=4, **kw)
_SZ = ("ok", "at-limit", "too-large")
_QD = "; deliveries: one shot, byte by byte, and one split at every position around the end of the first line and in the last 8 bytes; relaxed_header_parser in {0,1}"
_TD = "; deliveries: one shot, byte by byte, and one split at every position; relaxed_header_parser in {-1,0,1}"
SPEC = dict(
    harness="C62_limits.cc", units=HTTP1B,
    scope="kernel",
    scope_note="kernel decided: Http1::RequestParser / Http1::ResponseParser, driven like ConnStateData::parseHttpRequest and HttpStateData::processReplyHeader, never report 'parsed OK' for a head larger than request_header_max_size / reply_header_max_size under any of the listed deliveries, and report 414/431 (requests) or header-too-large (replies) once the over-limit head has arrived; gap: that the callers turn this verdict into an error response and do not forward the request / relay the reply (client_side.cc, servers/Http1Server.cc, http.cc incl. its read-buffer cap), and limits on messages that do not go through these parsers",
    entries=dict(
        quick=[
            _fam("c62_request", "request_header_max_size L symbolic in [40,47]; well-formed requests of every size S with |S-L| <= 2 of five shapes (long target + one field, long field, HTTP/0.9 line, an obs-fold with a long whitespace run, a whitespace-preceded line after the request line: the last two get their size from bytes the parser strips; only the over-limit verdict is claimed for them)" + _QD, _SZ),
            _fam("c62_reply", "reply_header_max_size L symbolic in [40,47]; well-formed replies of every size S with |S-L| <= 2 of four shapes (long field, long reason phrase, ICY, an obs-fold with a long whitespace run)" + _QD, _SZ),
            _fam("c62_request_any", "three 27..30-byte request skeletons with 2-3 fully symbolic bytes ('GET' b '/ab HTTP/1.1' b LF 'H: vw' CRLF b LF; 'GET /a' b 'b HTTP/1.1' CRLF 'H:' b 'v' b 'w' CRLF CRLF; 'GET ' b b '/ HTTP/1.1' CRLF 'H: vw' CRLF CRLF), L symbolic within 2 of the skeleton size; every single split point and byte-by-byte; relaxed_header_parser in {0,1}", ("ok", "refused")),
            _fam("c62_reply_any", "28-byte reply skeleton with 4 fully symbolic bytes (delimiter, line ends, terminator), L symbolic within 2 of the skeleton size; every single split point and byte-by-byte; relaxed_header_parser in {0,1}", ("ok", "refused")),
            dict(name="c62_known_relaxed_ws", known=True, bounds="KNOWN FINDING C62-relaxed-whitespace only: 'GET ' b b '/ HTTP/1.1 CRLF H: vw CRLF CRLF' with relaxed_header_parser on and the first symbolic byte being relaxed whitespace, L within 2 of the size; its violation is listed in known_findings.json and printed as KNOWN-FINDING", reach=[], max_samples=0, sample_every=0),
        ],
        thorough=[
            _fam("c62_request", "as quick with L symbolic in [40,64]" + _TD, _SZ),
            _fam("c62_reply", "as quick with L symbolic in [40,64]" + _TD, _SZ),
            _fam("c62_request_any", "as quick; relaxed_header_parser in {-1,0,1}", ("ok", "refused")),
            _fam("c62_reply_any", "as quick; relaxed_header_parser in {-1,0,1}", ("ok", "refused")),
            dict(name="c62_known_relaxed_ws", known=True, bounds="KNOWN FINDING C62-relaxed-whitespace only: 'GET ' b b '/ HTTP/1.1 CRLF H: vw CRLF CRLF' with relaxed_header_parser on and the first symbolic byte being relaxed whitespace, L within 2 of the size; its violation is listed in known_findings.json and printed as KNOWN-FINDING", reach=[], max_samples=0, sample_every=0),
        ]),
    timeout=dict(quick=170, thorough=900),
    stubs=["SquidConfig Config is the real global, zero-initialised, with relaxed_header_parser, maxRequestHeaderSize and maxReplyHeaderSize set by the harness", "debugs() disabled"],
    assumptions=["head size = bytes from the first byte of the first line to the end of the blank line (HTTP/0.9 request: end of the line); 'exceeds' = strictly larger than the limit",
                 "known finding C62-relaxed-whitespace (examined only by entry c62_known_relaxed_ws, excluded from the others by vf_assume): with relaxed_header_parser on, tolerated whitespace beyond the first delimiter character between request-line fields (and empty lines before the request line) is consumed but not counted against request_header_max_size; excluded class: relaxed mode and a second whitespace byte right after the first delimiter (third skeleton of c62_request_any)"],
    outside="limits other than 40..64 (26..34 in the *_any entries); heads other than the listed shapes; more than one split point other than byte-by-byte delivery; what the callers do with the verdict",
)
