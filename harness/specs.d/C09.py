_U = TOK + ["src/http/one/RequestParser.cc", "src/http/one/ResponseParser.cc", "src/http/one/TeChunkedParser.cc", "src/http/one/Tokenizer.cc",
           "src/http/one/Parser.cc", "src/mime_header.cc", "src/MemBuf.cc", "src/http/RequestMethod.cc", "src/http/MethodType.cc",
           # HttpHeader::parse and what it needs (unit group of C25)
           "src/HttpHeader.cc", "src/HttpHeaderTools.cc", "src/http/RegisteredHeaders.cc", "src/http/ContentLengthInterpreter.cc",
           "src/String.cc", "src/StrList.cc", "lib/util.cc", "compat/xstring.cc",
           # the message objects and the per-field parsers their hdrCacheInit() runs
           "src/HttpRequest.cc", "src/HttpReply.cc", "src/http/Message.cc", "src/http/StatusLine.cc", "src/MasterXaction.cc", "src/base/Stopwatch.cc",
           "src/HttpHdrCc.cc", "src/HttpHdrRange.cc", "src/HttpHdrContRange.cc", "src/HttpHdrSc.cc", "src/HttpHdrScTarget.cc", "src/time/rfc1123.cc",
           # AnyP::Uri::parse (unit group of C30)
           "src/anyp/Uri.cc", "src/anyp/UriScheme.cc", "src/anyp/ProtocolType.cc", "lib/rfc1738.cc",
           "src/SquidConfig.cc", "src/ip/Address.cc", "src/helper/ChildConfig.cc"]
_B = "; b = fully symbolic byte (any of the 256 values); h = fully symbolic byte, case-split per hex digit (22 concrete paths + one symbolic class for the other 234 values)"
_DQ = "; each stream delivered in one piece, split in two right before the first and right after the last symbolic byte (streams of at most 8 bytes: at every position), and byte by byte"
_DT = "; each stream delivered in one piece, split in two at every position from two bytes before the first to four bytes after the last symbolic byte, and byte by byte; relaxed_header_parser in {0,1} ({-1,0,1} in c09_req_any, c09_req_line, the limit skeletons, c09_rep_any (reply streams) and the status-line skeletons of c09_rep_line)"
_R2 = "; relaxed_header_parser in {0,1}"
_R1 = "; relaxed_header_parser on (default)"
_CL = "; client connection = re-stated ConnStateData/Http1::Server loop on an intercepting port (origin-form targets get their URL from the Host field)"
_SV = "; server connection = re-stated HttpStateData loop, followed by the peer closing"
_HEAVY = {"c09_rep_hdr": 2, "c09_req_fields": 3, "c09_rep_fields": 2, "c09_req_line": 2}   # thorough: engine workers for the largest entries (the others get 1 each)
def _e(n, q, t, rq, rt=None, **kw):
    return (dict(name=n, bounds=q, reach=list(rq), max_samples=4, sample_every=37, **kw), dict(name=n, bounds=t, reach=list(rt or rq), max_samples=4, sample_every=211, jobs=_HEAVY.get(n, 1), **kw))
_GET = "'GET / HTTP/1.1 CRLF' + "
_OK = "'HTTP/1.1 200 OK CRLF' + "
_RQC = "'POST / HTTP/1.1 CRLF Transfer-Encoding: chunked CRLF CRLF' + "
_RPC = "'HTTP/1.1 200 OK CRLF Transfer-Encoding: chunked CRLF CRLF' + "
_CH = "h '2 CRLF ab CRLF 0 CRLF CRLF' | '2' h 'CRLF ab CRLF 0 CRLF CRLF' | '1;' b b b 'CRLF X CRLF 0 CRLF CRLF' | '2 CRLF XY' b b '0 CRLF CRLF' | '1 CRLF X CRLF 0 CRLF' b b b"
_FAM = [
    _e("c09_req_any", "every request stream of 0..3 bytes b (relaxed_header_parser in {0,1}) | 'GET ' b b b ' HTTP/1.1 CRLF CRLF' on a forward-proxy port (relaxed_header_parser on)" + _B + _CL + _DQ,
       "every request stream of 0..4 bytes b | 'GET ' b b b b ' HTTP/1.1 CRLF CRLF' on a forward-proxy port" + _B + _CL + _DT,
       ("request-refused", "request-incomplete", "uri-rejected")),
    _e("c09_req_line", "'GET' b b b 'HTTP/1.1 CRLF CRLF' | 'GET / HTTP/1.1' b b b | 'GET /' b 'HTTP/' b '.' b CRLF CRLF" + _B + _R2 + _CL + _DQ,
       "as quick, and b b 'GET / HTTP/1.0 CRLF' b LF | b b 'T / HTTP/1.1 CRLF H: v CRLF CRLF'" + _CL + _DT, ("request-accepted", "request-refused", "request-incomplete")),
    _e("c09_req_target", "'GET http://' b b '/ HTTP/1.1 CRLF CRLF' | 'GET http://h.a:' b b '/ HTTP/1.1 CRLF CRLF' | 'CONNECT ' b b ':44' b ' HTTP/1.1 CRLF CRLF'" + _B + _R1 + _CL + _DQ,
       "as quick, and 'GET http://[fc00::' b ']' b '8/ HTTP/1.1 CRLF CRLF' | 'GET ftp://u' b 'p@h.a' b '/ HTTP/1.1 CRLF CRLF' | 'GET /' b b ' HTTP/1.0 CRLF Host: a' b CRLF CRLF" + _CL + _DT,
       ("request-accepted", "request-refused", "uri-rejected")),
    _e("c09_req_hdr", _GET + "'Host' b ':v CRLF X: y CRLF CRLF' | 'A:' b b 'X: y CRLF CRLF' | 'A: b CRLF' b b 'CRLF X: y CRLF CRLF' | 'X: y CRLF' b b CRLF; pipelined: 'GET / HTTP/1.1 CRLF' b LF b 'ET / HTTP/1.1 CRLF CRLF' | "
       + _RQC + "'0 CRLF CRLF' b b 'T / HTTP/1.0 CRLF CRLF'" + _B + _R1 + _CL + _DQ, "as quick" + _CL + _DT,
       ("request-accepted", "request-refused", "request-header-rejected", "pipelined", "body-done")),
    _e("c09_req_fields", "'POST / HTTP/1.1 CRLF Content-Length: 1' b 'CRLF Content-Length:' b '1 CRLF CRLF' | " + _GET + "'Range: bytes=' b '-' b 'CRLF CRLF' | " + _GET + "'Cache-Control: max-age=' b ',' b 'CRLF CRLF' | "
       "'OPTIONS * HTTP/1.1 CRLF Max-Forwards: ' b 'CRLF Connection:' b 'close CRLF CRLF' | 'POST / HTTP/1.' b 'CRLF Transfer-Encoding:' b 'chunked CRLF CRLF 0 CRLF CRLF'" + _B + _R1 + _CL + _DQ,
       "as quick with one more symbolic byte in the first Content-Length value, the first range position and after 'chunked'" + _CL + _DT,
       ("request-accepted", "request-refused", "framing-rejected", "request-header-rejected", "body-done")),
    _e("c09_req_body", _RQC + _CH + " with body pipe space 1; request_header_max_size symbolic in [8,44] against 'GET /abcdefgh HTTP/1.1 CRLF Host: x CRLF' b LF (relaxed_header_parser in {0,1})" + _B + _R1 + _CL + _DQ,
       _RQC + _CH + " with body pipe space 1 or 3; request_header_max_size symbolic in [8,44] against 'GET /abcdefgh HTTP/1.1' b LF 'Host: x CRLF' b LF" + _B + _CL + _DT,
       ("request-accepted", "request-refused", "request-incomplete", "body-done", "body-bad")),
    _e("c09_rep_any", "every reply stream of 0..5 bytes b (relaxed_header_parser in {0,1}) | " + _RPC + "every chunked body stream of 1 byte h (relaxed_header_parser on)" + _B + _SV + _DQ,
       "every reply stream of 0..6 bytes b | " + _RPC + "every chunked body stream of 1..2 bytes h" + _B + _SV + _DT, ("reply-accepted", "reply-refused", "truncated", "body-bad")),
    _e("c09_rep_line", "'HTTP/1.1 ' b b b ' OK CRLF CRLF' | 'HTTP/1.' b b '200' b 'OK' b LF CRLF | 'HTTP/1.0 404 ' b b b LF CRLF | b 'TTP' b '1' b '1 200 OK CRLF CRLF' | 'ICY' b '40' b b CRLF CRLF (relaxed_header_parser in {0,1}); "
       "1xx: 'HTTP/1.1 1' b b ' C CRLF CRLF HTTP/1.1 200 OK CRLF CRLF' | 'HTTP/1.1 100 Continue CRLF' b LF 'HTTP/1.' b ' 200 OK CRLF CRLF' (relaxed_header_parser on); "
       "reply_header_max_size symbolic in [8,44] against 'HTTP/1.1 200 OK CRLF Server: abcdefg CRLF' b LF (relaxed_header_parser in {0,1})" + _B + _SV + _DQ,
       "as quick; the limit skeleton is 'HTTP/1.1 200 OK' b LF 'Server: abcdefg CRLF' b LF" + _SV + _DT, ("reply-accepted", "reply-refused", "1xx", "truncated", "reply-header-rejected")),
    _e("c09_rep_hdr", _OK + "'Host' b ':v CRLF X: y CRLF CRLF' | 'A:' b b 'X: y CRLF CRLF' | 'A: b CRLF' b b 'CRLF X: y CRLF CRLF'; 'HTTP/1.1 200 OK' b LF 'A: b' b b CRLF b LF; dates: " + _OK +
       "'Date: Sun, 06 Nov 1994 08:49:' b b ' GMT CRLF CRLF' | 'Expires: ' b b 'CRLF CRLF' | 'Last-Modified: Sunday, 06-Nov-94 08:' b b ':37 GMT CRLF CRLF'" + _B + _R1 + _SV + _DQ,
       "as quick with 'Expires: ' b b b 'CRLF CRLF'" + _SV + _DT,
       ("reply-accepted", "reply-refused", "reply-header-rejected", "truncated")),
    _e("c09_rep_fields", _OK + "'Content-Length: 1' b 'CRLF Content-Length:' b '1 CRLF CRLF ab' | 'Cache-Control: max-age=' b ',' b 'CRLF CRLF' | 'Surrogate-Control: max-age=' b ';' b 'CRLF CRLF' | "
       "'Connection:' b 'close CRLF Content-Type: a/b' b 'CRLF CRLF'; 'HTTP/1.1 206 Partial Content CRLF Content-Range: bytes ' b '-1/' b 'CRLF CRLF'" + _B + _R1 + _SV + _DQ,
       "as quick with one more symbolic byte in the first Content-Length value, the last-byte position and the Content-Type" + _SV + _DT, ("reply-accepted", "reply-header-rejected")),
    _e("c09_rep_chunked", _RPC + _CH + " | '1;a=\"' b b b '\" CRLF X CRLF 0 CRLF CRLF' | '1 CRLF X CRLF' h 'CRLF CRLF' | b 'fffffffffffffff' b 'CRLF X'; "
       "'HTTP/1.1 200 OK CRLF Transfer-Encoding:' b 'chunked' b 'CRLF CRLF 0 CRLF CRLF'" + _B + _R1 + _SV + _DQ, "as quick" + _SV + _DT,
       ("reply-accepted", "body-done", "body-bad", "reply-header-rejected", "truncated")),
    _e("c09_req_long_host", "'GET / HTTP/1.1 CRLF Host: ' + a Host value of 1021..1026 bytes ('a'..., last byte b) + CRLF CRLF in one piece: the sizes around the 1024-byte static buffer of Http1::Parser::getHostHeaderField()" + _B + _R1 + _CL,
       "as quick" + _CL, ("request-accepted", "request-refused")),
]
SPEC = dict(
    harness="C09_peers.cc", units=_U,
    # xstrdup comes from the allocation layer (engine model / libc); rfc1123.cc without PIC so that its month-name table is a plain pointer array
    unit_flags={"compat/xstring.cc": ["-Dxstrdup=vf_unused_squid_xstrdup"], "src/time/rfc1123.cc": ["-fno-pic"]},
    native_units=["src/sbuf/Algorithms.cc"],
    ub=True, ub_files=["http/one/", "parser/Tokenizer.cc", "mime_header.cc", "HttpHeader.cc", "HttpHeaderTools.cc", "anyp/Uri.cc", "ContentLengthInterpreter.cc", "HttpHdr", "rfc1123.cc",
                       "StrList.cc", "http/Message.cc", "HttpReply.cc", "HttpRequest.cc", "StatusLine.cc"],
    scope="kernel",
    scope_note="kernel decided: the byte-facing layer -- Http1::RequestParser, Http1::ResponseParser, Http1::TeChunkedParser, AnyP::Uri::parse, HttpHeader::parse and the field "
               "parsers run by HttpRequest::parseHeader()/HttpReply::parseHeader() (Content-Length, Cache-Control, Range, Content-Range, Surrogate-Control, dates, Connection), on really "
               "constructed HttpRequest/HttpReply objects and driven through the re-stated control loops of ConnStateData::parseRequests/parseHttpRequest, Http1::Server::buildHttpRequest, "
               "clientProcessRequest (framing part), ConnStateData::handleChunkedRequestBody and HttpStateData::processReply/processReplyHeader/decodeAndWriteReplyBody -- performs no "
               "out-of-bounds, use-after-free or double-free access, reaches no assert()/Must()/fatal()/abort()/exit() other than a Must() that the real caller catches as a parse error, lets no "
               "exception escape, performs no signed-overflow/shift/division undefined behaviour in the parser sources (ub_files) and terminates, for every value of the symbolic bytes of the listed streams under the listed deliveries, and ends every such stream in one of the states "
               "'message accepted', 'error reply/close', 'waiting for more bytes'; gap: the glue after parsing (error page generation, ConnStateData::abortRequestParsing, connection close, "
               "store/forwarding/adaptation, 'other transactions continue to be served'), Http::Message::parse()/sanityCheckStartLine() (used for stored and ICAP-encapsulated messages, not for "
               "HTTP/1 peers), identity-encoded bodies (copied uninterpreted), streams longer or shaped differently than the families, TLS, effects that only the real allocator/ASan can show",
    entries=dict(quick=[f[0] for f in _FAM], thorough=[f[1] for f in _FAM]),
    timeout=dict(quick=900, thorough=3000),
    stubs=["the control loops of ConnStateData/Http1::Server (client side) and HttpStateData (server side) are re-stated in the harness (struct Client, struct Server); every parsing step inside them is the real code",
           "HttpRequest and HttpReply are really constructed (HttpRequest::FromUrlXXX with a real MasterXaction, HttpReply::Pointer::Make)",
           "HierarchyLogEntry::HierarchyLogEntry() and ping_data::ping_data() (members of HttpRequest; log/access_log.cc and peer_select.cc not linked) defined in the harness with the same initial values",
           "StatHist::enumInit/count are no-ops (per-header statistics histograms); const char *null_string and Ip::EnableIpv6 defined by the harness (globals.cc, ip/tools.cc not linked)",
           "getaddrinfo/freeaddrinfo/inet_ntop: numeric-only models of harness/C30_netmodel.h in the interpreted build (native replay: real libc)",
           "timegm(): day-count model in the harness for the interpreted build (native replay: glibc)",
           "std::__detail::_Prime_rehash_policy::_M_next_bkt/_M_need_rehash defined in the harness and CaseInsensitiveSBufHash = constant for the interpreted build (LookupTable of HttpHdrCc/HttpHdrSc); native replay links src/sbuf/Algorithms.cc",
           "BodyPipe buffer = real MemBuf with the stated capacity, drained after every parse as a body consumer does; HttpStateData's decodedData = real MemBuf with default limits",
           "SquidConfig Config is the real global, zero-initialised (= defaults for uri_whitespace strip, check_hostnames off, no append_domain), relaxed_header_parser and the header size limits set by the harness; AnyP::UriScheme::Init() called as main() does",
           "RequestParser is created in preserveParsed_ mode (a superset of the default mode's code)", "debugs() disabled"],
    assumptions=["a Must() failure inside Http1::TeChunkedParser::parse() is a caught parse error: both real callers wrap the call in try/catch(...)"],
    outside="everything listed under gap; configurations other than the defaults named in stubs; allocation failure",
)
