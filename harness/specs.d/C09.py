_U = TOK + ["src/http/one/RequestParser.cc", "src/http/one/ResponseParser.cc", "src/http/one/TeChunkedParser.cc", "src/http/one/Tokenizer.cc",
           "src/http/one/Parser.cc", "src/mime_header.cc", "src/MemBuf.cc", "src/http/RequestMethod.cc", "src/http/MethodType.cc",
           "src/HttpHeader.cc", "src/HttpHeaderTools.cc", "src/http/RegisteredHeaders.cc", "src/http/ContentLengthInterpreter.cc",
           "src/String.cc", "src/StrList.cc", "lib/util.cc", "compat/xstring.cc",
           "src/HttpRequest.cc", "src/HttpReply.cc", "src/http/Message.cc", "src/http/StatusLine.cc", "src/MasterXaction.cc",
           "src/anyp/Uri.cc", "src/anyp/UriScheme.cc", "src/anyp/ProtocolType.cc", "lib/rfc1738.cc",
           "src/SquidConfig.cc", "src/ip/Address.cc", "src/helper/ChildConfig.cc"]
SPEC = dict(
    harness="C09_peers.cc", units=_U,
    unit_flags={"compat/xstring.cc": ["-Dxstrdup=vf_unused_squid_xstrdup"]},
    entries=dict(
        quick=[dict(name="c09_probe_req", bounds="probe", reach=["ok"]), dict(name="c09_probe_rep", bounds="probe", reach=["ok"])],
        thorough=[]),
    timeout=dict(quick=300, thorough=1800),
    stubs=[],
    outside="",
)
