_CFG = ["src/SquidConfig.cc", "src/ip/Address.cc", "src/helper/ChildConfig.cc"]
_B = "; 'b' = fully symbolic non-NUL byte (digits are case-split into ten concrete values); "
_PASV = _B + "forceIp in {none, 127.0.0.1}, ftp_sanitycheck in {0,1}"
_EPRT = _B + "ftp_sanitycheck in {0,1}"
_LIST = _B + "flags.skip_whitespace in {0,1}"
SPEC = dict(
    harness="C40_ftp.cc",
    units=TOK + _CFG + ["src/ftp/Parsing.cc"],
    # -fno-pic: otherwise clang turns FtpGateway.cc's Month[] into a relative lookup table (llvm.load.relative), which the engine does not implement
    unit_flags={"verif:harness/C40_ftp.cc": ["-fno-pic"]},
    entries=dict(
        quick=[
            dict(name="c40_pasv_host", bounds="Ftp::ParseIpPort on '25b,0,0,1,4,1' | '10,0,0,bb,4,1' | '0,0,0,b,4,1'" + _PASV, reach=["accepted", "rejected"], sample_every=97),
            dict(name="c40_pasv_port", bounds="Ftp::ParseIpPort on '10,0,0,1,25b,1' | '10,0,0,1,0,bb' | '10,0,0,1,b,b' | '10,0,0,1,3,25b' | '10,0,0,1,4,1b'" + _PASV, reach=["accepted", "rejected"], sample_every=197),
            dict(name="c40_pasv_huge", bounds="Ftp::ParseIpPort on '10,0,0,1,4,429496729b' | '429496729b,0,0,1,4,1' | '10,0,0,1,4,-b' | '10,0,0,1,4,1844674407370955161b' | '10,0,0,1,214748364b,1'" + _PASV, reach=["accepted", "rejected"], sample_every=31),
            dict(name="c40_eprt_addr", bounds="Ftp::ParseProtoIpPort on 'b1b10.0.0.1|8080|' | '|b|10.0.0.1|8080|' | '|1|25b.0.0.1|8080|' | '|1|0.0.0.b|8080|' | '|1|10.0.0.1b8080b' | '|1|' + 72..76 x '1' + 'b|8080|' (around the 75-byte MAX_IPSTRLEN buffer)" + _EPRT, reach=["accepted", "rejected"], sample_every=97),
            dict(name="c40_eprt_port", bounds="Ftp::ParseProtoIpPort on '|1|10.0.0.1|' + one of 'bb|' '102b|' '6553b|' '429496737b|' '214748364b|' '-b|' '922337203685477580b|'" + _EPRT, reach=["accepted", "rejected"], sample_every=61),
            dict(name="c40_eprt_v6", bounds="Ftp::ParseProtoIpPort on '|b|::1|8080|' | '|2|::b|8080|' | '|b|1.2.3.4|8080|' | '|2|b::1|8080|' | '|2|::ffff:1.2.3.b|8080|' (no '%')" + _EPRT, reach=["accepted", "rejected"], sample_every=31),
            dict(name="c40_short", bounds="every NUL-terminated string of 0..2 bytes through Ftp::ParseIpPort (forceIp on/off) and of 1..2 bytes (no '%') through Ftp::ParseProtoIpPort (its callers reject empty parameters first)", reach=["rejected"], sample_every=97),
            dict(name="c40_list_unix", bounds="ftpListParseParts on 7 Unix-style skeleton lines with 2 symbolic bytes each (size/day digit, end of the time field and start of the name, link arrow, type letter and link target, empty name, line ending at the month, a line of 70 tokens)" + _LIST, reach=["parsed", "unparsed"], sample_every=197),
            dict(name="c40_list_other", bounds="ftpListParseParts on 3 DOS-style and 3 EPLF skeleton lines with 2 symbolic bytes each" + _LIST, reach=["parsed", "unparsed"], sample_every=197),
            dict(name="c40_list_short", bounds="ftpListParseParts on every line of 0..3 fully symbolic bytes, listing mode and NLST mode (flags.tried_nlst), flags.skip_whitespace in {0,1}", reach=["parsed", "unparsed"], sample_every=97),
        ],
        thorough=[
            dict(name="c40_pasv_host", bounds="as quick plus '2bb,0,0,1,4,1' | '0,0,b,b,4,1'" + _PASV, reach=["accepted", "rejected"], sample_every=397),
            dict(name="c40_pasv_port", bounds="as quick plus '10,0,0,1,b,25b' | '10,0,0,1,2bb,1' | '10,0,0,1,bb,1' | '10,0,0,1,4,1bb'" + _PASV, reach=["accepted", "rejected"], sample_every=397),
            dict(name="c40_pasv_huge", bounds="as quick with two symbolic bytes per template, plus '10,0,0,1,-b,1b' | '10,0,0,1,bb,-b' | '10,0,0,1,4,92233720368547758bb' | '10,0,0,-21474836bb,4,1'" + _PASV, reach=["accepted", "rejected"], sample_every=397),
            dict(name="c40_eprt_addr", bounds="as quick plus '|bb10.0.0.1|8080|' | '|1|10.0.0.bb|8080|' | '|1|2bb.0.0.1|8080|'" + _EPRT, reach=["accepted", "rejected"], sample_every=397),
            dict(name="c40_eprt_port", bounds="as quick with two symbolic bytes per boundary template" + _EPRT, reach=["accepted", "rejected"], sample_every=397),
            dict(name="c40_eprt_v6", bounds="as quick plus '|b|::b|8080|' | '|2|b:b:1|8080|' | '|2|1::bb|8080|'" + _EPRT, reach=["accepted", "rejected"], sample_every=197),
            dict(name="c40_short", bounds="as quick", reach=["rejected"], sample_every=97),
            dict(name="c40_list_unix", bounds="as quick plus 6 more skeleton lines with 2 symbolic bytes (size+day, link arrow+target, month spelling, short day, link name, year/time field)" + _LIST, reach=["parsed", "unparsed"], sample_every=397),
            dict(name="c40_list_other", bounds="as quick plus 3 more skeleton lines with 2 symbolic bytes" + _LIST, reach=["parsed", "unparsed"], sample_every=397),
            dict(name="c40_list_short", bounds="as quick, lines up to 4 bytes", reach=["parsed", "unparsed"], sample_every=397),
        ]),
    timeout=dict(quick=400, thorough=1800),
    stubs=["getaddrinfo/freeaddrinfo model in the harness (bitcode build only): glibc numeric-host semantics = inet_aton_exact (1-4 parts, decimal/octal/hex) else inet_pton(AF_INET6) without scope ids; native replay uses glibc",
           "regcomp/regexec model in the harness (bitcode build only): POSIX ERE subset used by ftpListParseParts (^ $ literals, bracket lists, +, REG_ICASE, REG_NOSUB)",
           "ctime model (bitcode build only; the listing parser only ever passes time 0)",
           "libc sscanf/snprintf/strtol/strtok/strcasecmp models (glibc semantics: scanf %d stores the low 32 bits of the clamped long)",
           "Ip::EnableIpv6 defined by the harness (= IPV6_ON; ip/tools.cc is not linked)",
           "src/clients/FtpGateway.cc and compat/xstring.cc are #included by the harness (static functions; xstring.cc's xstrdup renamed because the engine models xstrdup)",
           "Config.Ftp.sanitycheck set by the harness on the real zero-initialised SquidConfig global", "debugs() disabled"],
    assumptions=["KNOWN-FINDING candidates excluded by vf_assume (re-enable with defines=['C40_NO_EXCLUSIONS=1']): (1) ParseIpPort with forceIp ignores h1..h4 entirely; (2) ParseIpPort reads components through scanf %d, which wraps values beyond int; (3) ParseProtoIpPort accepts a missing/zero port and ports > 65535 (truncated to 16 bits, after strtol's long is cut to int)",
                 "ParseProtoIpPort is never called with an empty string (FtpServer.cc checks params.size() first)"],
    outside="strings other than the listed skeleton families and the short fully symbolic ones; IPv6 scope ids ('%'); listing lines longer than the skeletons (in particular tokens longer than the 128-byte date buffer, which snprintf truncates) ; the callers in FtpClient.cc/FtpServer.cc/FtpGateway.cc beyond their argument conventions; Ftp::UnescapeDoubleQuoted; ftpReadEPSV's own sscanf-based port parsing in FtpClient.cc",
)
