_e = lambda n, b, r=("ok", "more", "bad"), **kw: dict(name=n, bounds=b, reach=list(r), max_samples=4, **kw)
_P = "; complete input against the reference decoder (outcome, version, command, address use, addresses, ports, TLVs, consumed size) and EVERY prefix length against the complete input"
SPEC = dict(
    harness="C38_proxyp.cc",
    units=TOK + ["src/proxyp/Parser.cc", "src/proxyp/Header.cc", "src/parser/BinaryTokenizer.cc", "src/ip/Address.cc", "src/ip/tools.cc"],
    o0_units=["src/parser/Tokenizer.cc"],   # at -O1 Tokenizer::int64's "0x" skip becomes a select, i.e. a symbolic pointer
    entries=dict(
        quick=[
            _e("c38_v1_values", "v1 'PROXY TCP4 1.2.3.d 5.6.7.25d 6553d d' CRLF b and 'PROXY TCP4 d.2.3.4 5.6.7.8 d 6d535' CRLF b: d = symbolic decimal digits (255 and 65535 boundaries), b unconstrained" + _P, ("ok", "bad")),
            _e("c38_v1_struct", "9 v1/magic skeletons with 2-3 unconstrained bytes each: the three SP separators before/after the first address; family digit, SP before and between ports; both port positions and CR; 3 bytes after the destination port; UNKNOWN keyword byte and line end; 5th magic byte and CR; 3 arbitrary bytes; 12 bytes with an unconstrained first byte; v2 magic with its last byte and the version byte unconstrained" + _P),
            _e("c38_v1_family", "v1 'PROXY TCP' f SP src SP dst ' 65535 0' CRLF: f unconstrained, src and dst from {1.2.3.4, 255.0.0.255, ::1, 1:2:3:4:5:6:7:8, 2001:db8::5, ::} (all 36 pairs): family mismatch, IPv6 text" + _P, ("ok", "bad")),
            _e("c38_v1_long", "v1 'PROXY UNKNOWN' + filler + CRLF + b with a total line length of 106..109 bytes (limit 107), two unconstrained filler bytes" + _P, ("ok", "bad")),
            _e("c38_v2_encoded", "v2 reference encoder: command in {LOCAL, PROXY} and protocol in {UNSPEC, STREAM, DGRAM} symbolic; family in {UNSPEC (block of 0..3 symbolic bytes), INET, INET6, UNIX}; all address and port bytes symbolic (UNIX: first/last 4 bytes); 0..2 TLVs with symbolic type, length 0..2, symbolic value; one unconstrained byte after the header" + _P, ("ok",)),
            _e("c38_v2_mutated", "valid v2 header (PROXY, TCP/IPv4, one 2-byte TLV, one following byte) with unconstrained bytes at one of 5 position groups: version/command + family/protocol; both length bytes; TLV type + both TLV length bytes; 11th magic byte + version/command; family/protocol + low length byte" + _P),
            dict(name="c38_known_lenient_v1", known=True, reach=[], max_samples=0, sample_every=0, bounds="KNOWN FINDING C38-lenient-v1 only: 'PROXY TCP4 1.2.3.4 5.6.7.8 ' b b ' 2' CRLF and 'PROXY TCP4 1.2.' b ' 5.6.7.8 1 2' CRLF restricted to headers the reference marks lenient (leading-zero port, inet_aton-only IPv4 form); violations are listed in known_findings.json and printed as KNOWN-FINDING"),
        ],
        thorough=[
            _e("c38_v1_values", "as quick" + _P, ("ok", "bad")),
            _e("c38_v1_struct", "as quick plus 4 skeletons with 4 unconstrained bytes: separators + family digit; both port fields (2 bytes each); 4 bytes after UNKNOWN; last octet of the source address (2 bytes) + 2 bytes after the destination address" + _P),
            _e("c38_v1_family", "as quick" + _P, ("ok", "bad")),
            _e("c38_v1_long", "as quick" + _P, ("ok", "bad")),
            _e("c38_v2_encoded", "as quick with TLV lengths 0..3" + _P, ("ok",)),
            _e("c38_v2_mutated", "as quick plus 2 position groups of 4 unconstrained bytes: all four bytes after the magic; both length bytes + both TLV length bytes" + _P),
            dict(name="c38_known_lenient_v1", known=True, reach=[], max_samples=0, sample_every=0, bounds="KNOWN FINDING C38-lenient-v1 only: 'PROXY TCP4 1.2.3.4 5.6.7.8 ' b b ' 2' CRLF and 'PROXY TCP4 1.2.' b ' 5.6.7.8 1 2' CRLF restricted to headers the reference marks lenient (leading-zero port, inet_aton-only IPv4 form); violations are listed in known_findings.json and printed as KNOWN-FINDING"),
        ]),
    timeout=dict(quick=170, thorough=1500),
    stubs=["getaddrinfo/freeaddrinfo/gai_strerror: numeric-host model in the harness for the interpreted build (inet_aton forms for IPv4 text, RFC 4291 forms for IPv6 text, EAI_NONAME for everything else = no resolver answer); the native replay uses the real libc",
           "Ip::EnableIpv6 = IPV6_ON (state after Ip::ProbeTransport() on a dual-stack host)",
           "ProxyProtocol::Header::command_ read through '#define private public'",
           "debugs() disabled"],
    assumptions=["known finding C38-lenient-v1: v1 headers with leading zeros in a port or an IPv4 address in an inet_aton-only form are examined only by c38_known_lenient_v1"],
    outside="v1 lines other than the listed skeletons (in particular v4-mapped IPv6 text such as ::ffff:1.2.3.4, which Ip::Address classifies as IPv4); v2 headers with more than 2 TLVs or TLV values longer than 3 bytes; Header::toMime/getValues/getElem; exception message texts",
)
