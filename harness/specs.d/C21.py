HTTP1 = TOK + ["src/http/one/RequestParser.cc", "src/http/one/Parser.cc", "src/mime_header.cc", "src/http/RequestMethod.cc",
               "src/http/MethodType.cc", "src/SquidConfig.cc", "src/ip/Address.cc", "src/helper/ChildConfig.cc"]
_fam = lambda n, b, r=("ok", "error"): dict(name=n, bounds=b, reach=list(r))
SPEC = dict(
    harness="C21_reqseg.cc", units=HTTP1,
    entries=dict(
        quick=[
            _fam("c21_delims", "'GET' b b b 'HTTP/1.1 CRLF CRLF': 3 fully symbolic bytes (both delimiters and the target byte), every split point, relaxed_header_parser in {0,1}"),
            _fam("c21_line_end", "'GET / HTTP/1.1' + 4 fully symbolic bytes, every split point", ("ok", "error", "more")),
            _fam("c21_leading", "b b 'GET / HTTP/1.0 CRLF' b LF: 3 symbolic bytes (leading garbage, terminator), every split point", ("ok", "error", "more")),
            _fam("c21_fold", "'GET / HTTP/1.1 CRLF A:b' b b b 'c CRLF CRLF': 3 symbolic bytes inside a field (obs-fold, bare CR/LF), every split point", ("ok",)),
            _fam("c21_version", "'GET /' b 'HTTP/' b '.' b CRLF CRLF: 3 symbolic bytes (delimiter, both version digits; includes HTTP/0.9), every split point"),
            _fam("c21_method", "b b 'T / HTTP/1.1 CRLF H: v CRLF CRLF': 2 symbolic method bytes, every split point"),
            _fam("c21_limit", "maxRequestHeaderSize symbolic in [8,44] against a 37-byte message with 2 symbolic line-end bytes, every split point"),
            _fam("c21_any", "every input of 0..4 fully symbolic bytes, every split point", ("error", "more")),
        ],
        thorough=[
            _fam("c21_delims", "as quick, every pair of split points, relaxed_header_parser in {-1,0,1}"),
            _fam("c21_line_end", "as quick, every pair of split points", ("ok", "error", "more")),
            _fam("c21_leading", "as quick, every pair of split points", ("ok", "error", "more")),
            _fam("c21_fold", "as quick, every pair of split points", ("ok",)),
            _fam("c21_version", "as quick, every pair of split points"),
            _fam("c21_method", "as quick, every pair of split points"),
            _fam("c21_limit", "as quick, every pair of split points"),
            _fam("c21_any", "every input of 0..5 fully symbolic bytes, every pair of split points", ("error", "more")),
            _fam("c21_delims2", "'GET' b b '/' b b 'HTTP/1.1' b LF CRLF: 5 symbolic bytes, every pair of split points"),
            _fam("c21_fold2", "'GET / HTTP/1.1 CRLF A:b' b b b b 'c CRLF' b LF: 5 symbolic bytes, every pair of split points", ("ok",)),
        ]),
    timeout=dict(quick=400, thorough=3000),
    stubs=["SquidConfig Config is the real global, zero-initialised, with relaxed_header_parser and maxRequestHeaderSize set by the harness", "debugs() disabled"],
    outside="messages other than the listed skeleton families and fully symbolic inputs longer than the bound; more than two split points; preserveParsed_ mode; ConnStateData's own buffer management beyond the parse/remaining()/append loop",
)
