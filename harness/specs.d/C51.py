_R = ["done", "added", "rejected", "hit", "miss", "relimit", "expired", "purged-for-add", "purged-for-limit"]
SPEC = dict(
    harness="C51_clpmap.cc", units=[],
    entries=dict(
        quick=[
            dict(name="c51_symbolic", bounds="TODO", reach=_R, sample_every=53),
            dict(name="c51_sized", bounds="TODO", reach=_R, sample_every=53),
        ],
        thorough=[
            dict(name="c51_symbolic", bounds="TODO", reach=_R, sample_every=503),
            dict(name="c51_sized", bounds="TODO", reach=_R, sample_every=503),
        ]),
    timeout=dict(quick=170, thorough=1500),
    stubs=["std::__detail::_List_node_base::_M_transfer and _Prime_rehash_policy::_M_next_bkt/_M_need_rehash defined in the harness for the interpreted build (libstdc++.so has no bitcode)", "engine/models/cxx.cc _List_node_base::_M_hook/_M_unhook", "memAllocBuf/memFreeBuf: plain heap blocks", "squid_curtime is a plain global set by the harness"],
    outside="TODO",
)
