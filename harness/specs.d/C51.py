_OV = "every operation is followed by a comparison of memLimit(), memoryUsed() (<= memLimit()), freeMem(), entries() and the complete traversal (key, value, accounted size, expiry time, recency order) with the reference"
SPEC = dict(
    harness="C51_clpmap.cc", units=[],
    entries=dict(
        quick=[
            dict(name="c51_lru", bounds="instantiation ClpMap<Key,Val,ValMemory> (harness key type with length(), 2-valued hash); keys 1..3 accounting 3/8/13 bytes, value size 8 (or 40 for key 1); initial capacity in {one small entry, any two entries, unlimited}; every sequence of 4 operations from add(4 variants, symbolic value) / get(k) / del(k) / setMemLimit(c in {0, exactly the smallest entry, one small, any two, unlimited}) with the last one an add or setMemLimit; no expiry; " + _OV,
                 reach=["done", "added", "rejected", "hit", "miss", "relimit", "purged-for-add", "purged-for-limit"], sample_every=4001),
            dict(name="c51_ttl", bounds="keys 1..2, capacity for one entry or unlimited; clock starts at 1000 or anywhere in the last 65535 s of time_t; every sequence of 3 operations from add(k, ttl: any 16-bit signed value or INT_MAX, symbolic) / get(k) / clock advance (any 16-bit value, symbolic); " + _OV,
                 reach=["done", "added", "rejected", "hit", "miss", "expired", "purged-for-add"], sample_every=151),
            dict(name="c51_sizes", bounds="symbolic accounting: key 1 length 3..258, value size any 8-bit value or 2^64-1 minus an 8-bit value (overflows the 64-bit accounting), capacities any 16-bit value; every sequence of 2 operations from add / get / del / setMemLimit (the last one an add or setMemLimit); " + _OV,
                 reach=["done", "added", "rejected", "relimit", "purged-for-add", "purged-for-limit"], sample_every=11),
        ],
        thorough=[
            dict(name="c51_lru", bounds="as quick with every sequence of 5 operations (del() only for key 1)", reach=["done", "added", "rejected", "hit", "miss", "relimit", "purged-for-add", "purged-for-limit"], sample_every=60001),
            dict(name="c51_ttl", bounds="as quick with every sequence of 4 operations", reach=["done", "added", "rejected", "hit", "miss", "expired", "purged-for-add"], sample_every=2001),
            dict(name="c51_sizes", bounds="as quick, del() only for key 1 (sequences of 3 operations did not finish in 25 minutes)", reach=["done", "added", "rejected", "relimit", "purged-for-add", "purged-for-limit"], sample_every=101),
        ]),
    timeout=dict(quick=170, thorough=1500),
    stubs=["std::__detail::_List_node_base::_M_transfer and _Prime_rehash_policy::_M_next_bkt/_M_need_rehash defined in the harness for the interpreted build (libstdc++.so has no bitcode; bucket counts above 13 are odd numbers instead of primes)",
           "engine/models/cxx.cc _List_node_base::_M_hook/_M_unhook", "memAllocBuf/memFreeBuf: plain heap blocks", "squid_curtime is a plain global set by the harness"],
    assumptions=["reference semantics where ClpMap.h is silent or contradicts itself: add() forgets the previous value of the key even when the new value is rejected (tests/testClpMap.cc testNegativeTtl demands it; the header comment says 'the map remains unchanged'); victims are taken strictly from the LRU end whether expired or not; traversal starts at the most recently used entry (the header comment says 'least recently used entry first')"],
    outside="other Key/Value types (ClpMap<SBuf,...> as used by Squid: std::hash<SBuf>), more than 3 keys (unordered_map rehashing), longer sequences, sizes/TTLs/clock values wider than the stated symbolic widths, the clock moving backwards",
)
