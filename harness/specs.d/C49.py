_W = "offsets = base + d, base case-split over {0, 2^40+7}%s, d case-split inside the window; data bytes of the small writes symbolic; byte-wise presence probes, lowestOffset() and endOffset() after every operation; at the end hasContigousContentRange() for every sub-range of the window and copy() from every present byte of the window to its end"
SPEC = dict(
    harness="C49_stmem.cc", units=["src/stmem.cc", "src/mem_node.cc", "lib/Splay.cc"],
    entries=dict(
        quick=[
            dict(name="c49_window", bounds="every sequence of 3 operations, each a non-overlapping write of 1..2 bytes anywhere in a 5-byte window (any arrival order, adjacent or with gaps) or freeDataUpto(t) with t at any window position, 1 or beyond everything; " + _W % "",
                 reach=["done", "write", "released", "kept", "short-read", "full-read"], sample_every=1501),
            dict(name="c49_page", bounds="node capacity boundary (base = 2^40+7 only): one write of 4094..4098 concrete bytes at base, then every sequence of 2 operations (write of 1..2 bytes / freeDataUpto) in the 8-byte window base+4093..4100 (release targets also 1 and beyond everything); reads across the node boundary; " + _W % "",
                 reach=["done", "write", "released", "kept", "short-read", "full-read"], sample_every=601),
            dict(name="c49_tree", bounds="splay shapes: single-byte nodes at base+{0,2,4,6,8} (base = 1): 4 of them written in every order, then every pair of operations from {one-byte presence query at a site, freeDataUpto(site+1), write of a remaining site}; then the checks of c49_window over base+0..9",
                 reach=["done", "write", "released", "kept", "short-read"], sample_every=1001),
            dict(name="c49_sparse", bounds="2 non-overlapping writes of 1..2 symbolic bytes at independent fully symbolic offsets in [0, 3*4096+8], optional freeDataUpto(t) with fully symbolic t, then hasContigousContentRange([q,q+n)) for n in {0,1,3} and copy(3 bytes at q) at a fully symbolic q",
                 reach=["released-or-kept", "short-read", "full-read", "absent"], sample_every=23),
            dict(name="c49_far", bounds="as c49_sparse with every offset (writes, release target, probe) = F + d, F case-split over {0, 2^31, 3*2^30, 2^32, 2^32+2^31}, d symbolic in 0..5 (node offsets whose differences do not fit into 31 bits: sparse ranges of a multi-GiB object)",
                 reach=["released-or-kept", "short-read", "absent"], sample_every=23),
        ],
        thorough=[
            dict(name="c49_window", bounds="as quick with every sequence of 4 operations; " + _W % "",
                 reach=["done", "write", "released", "kept", "short-read", "full-read"], sample_every=20001),
            dict(name="c49_page", bounds="as quick with every sequence of 3 operations, (base = 2^40+7 only, as in quick)", reach=["done", "write", "released", "kept", "short-read", "full-read"], sample_every=10001),
            dict(name="c49_tree", bounds="as quick with all 5 sites written in every order, then every sequence of 3 presence queries / freeDataUpto()", reach=["done", "write", "released", "kept", "short-read"], sample_every=20001),
            dict(name="c49_sparse", bounds="as quick with writes of 1..3 bytes, n in {0,1,3,5} and copy(5 bytes at q)", reach=["released-or-kept", "short-read", "full-read", "absent"], sample_every=301),
            dict(name="c49_far", bounds="as c49_sparse with every offset (writes, release target, probe) = F + d, F case-split over {0, 2^31, 3*2^30, 2^32, 2^32+2^31}, d symbolic in 0..5 (node offsets whose differences do not fit into 31 bits: sparse ranges of a multi-GiB object)",
                 reach=["released-or-kept", "short-read", "absent"], sample_every=23),
        ]),
    timeout=dict(quick=170, thorough=1500),
    stubs=["Mem::AllocatorProxy: plain heap blocks of the object size", "debugs() disabled"],
    assumptions=["caller contract of stmem.cc: writes never overlap data that is in memory (mem_hdr::write fatal_dump()s otherwise); copy() is asked for a non-empty range whose first byte is in memory (it fatal_dump()s otherwise)",
                 "the set of bytes removed by freeDataUpto() is read off its return value (the new lowest offset): everything below it is gone; that nothing at or after the release offset is below it is asserted"],
    outside="longer operation sequences, wider windows and longer small writes than stated; c49_window/c49_page use representative base offsets (the code depends on offset differences, offset > 0 and offset >= 0 only), fully symbolic offsets only in c49_sparse, offsets beyond 2^31 only in c49_far; nodes with write_pending set (NodeGet/memNodeWriteComplete); reads starting at an absent byte or on an empty store (fatal by design); MemObject/store_client users of mem_hdr",
)
