SPEC = dict(
    harness="C49_stmem.cc", units=["src/stmem.cc", "src/mem_node.cc", "lib/Splay.cc"],
    entries=dict(
        quick=[
            dict(name="c49_window", bounds="TODO", reach=["done", "write", "released", "kept", "short-read", "full-read"], sample_every=101),
            dict(name="c49_page", bounds="TODO", reach=["done", "write", "released", "kept", "short-read", "full-read"], sample_every=101),
            dict(name="c49_sparse", bounds="TODO", reach=["released-or-kept", "short-read", "full-read", "absent"], sample_every=11),
        ],
        thorough=[
            dict(name="c49_window", bounds="TODO", reach=["done", "write", "released", "kept", "short-read", "full-read"], sample_every=1001),
            dict(name="c49_page", bounds="TODO", reach=["done", "write", "released", "kept", "short-read", "full-read"], sample_every=1001),
            dict(name="c49_sparse", bounds="TODO", reach=["released-or-kept", "short-read", "full-read", "absent"], sample_every=101),
        ]),
    timeout=dict(quick=170, thorough=1500),
    stubs=["Mem::AllocatorProxy: plain heap blocks", "debugs() disabled"],
    outside="TODO",
)
