# header unit group as in harness/specs.d/C25.py
HDR = TOK + ["src/HttpHeader.cc", "src/HttpHeaderTools.cc", "src/http/RegisteredHeaders.cc", "src/http/ContentLengthInterpreter.cc",
             "src/http/one/Parser.cc", "src/String.cc", "src/StrList.cc", "src/MemBuf.cc", "src/mime_header.cc", "src/SquidConfig.cc",
             "src/ip/Address.cc", "src/helper/ChildConfig.cc", "lib/util.cc", "compat/xstring.cc"]
_U = HDR + ["src/ETag.cc", "src/store.cc", "src/client_side_reply.cc", "src/MemObject.cc", "src/HttpRequest.cc", "src/HttpReply.cc", "src/http/Message.cc",
            "src/HttpBody.cc", "src/HttpHdrCc.cc", "src/http/RequestMethod.cc", "src/http/MethodType.cc", "src/http/StatusLine.cc", "src/http/StatusCode.cc",
            "src/anyp/UriScheme.cc", "src/anyp/ProtocolType.cc", "src/LogTags.cc", "src/cbdata.cc"]
_e = lambda n, b, r, **kw: dict(name=n, bounds=b, reach=list(r), **dict(dict(max_samples=4, sample_every=53), **kw))
SPEC = dict(
    harness="C14_cond.cc", units=_U, unit_flags={"compat/xstring.cc": ["-Dxstrdup=vf_unused_squid_xstrdup"]},
    scope="kernel", scope_note="kernel decided: ...; gap: ...",
    entries=dict(
        quick=[_e("c14_etag", "...", ("equal", "different", "rejected")),
               _e("c14_inm", "...", ("304-inm", "412-inm", "200-inm")),
               _e("c14_ifmatch", "...", ("412-if-match", "200-plain", "304-inm", "200-inm", "412-inm")),
               _e("c14_ims", "...", ("304-ims", "200-ims", "non-200")),
               _e("c14_order", "...", ("412-if-match", "304-inm", "200-inm", "304-ims", "200-ims", "200-plain")),
               _e("c14_merge", "...", ("updated", "nothing-new"))],
        thorough=[]),
    timeout=dict(quick=900, thorough=3000),
    stubs=[], outside="",
)
