# header unit group as in harness/specs.d/C25.py
HDR = TOK + ["src/HttpHeader.cc", "src/HttpHeaderTools.cc", "src/http/RegisteredHeaders.cc", "src/http/ContentLengthInterpreter.cc",
             "src/http/one/Parser.cc", "src/String.cc", "src/StrList.cc", "src/MemBuf.cc", "src/mime_header.cc", "src/SquidConfig.cc",
             "src/ip/Address.cc", "src/helper/ChildConfig.cc", "lib/util.cc", "compat/xstring.cc"]
_U = HDR + ["src/ETag.cc", "src/store.cc", "src/client_side_reply.cc", "src/MemObject.cc", "src/HttpRequest.cc", "src/HttpReply.cc", "src/http/Message.cc",
            "src/HttpBody.cc", "src/HttpHdrCc.cc", "src/http/RequestMethod.cc", "src/http/MethodType.cc", "src/http/StatusLine.cc", "src/http/StatusCode.cc",
            "src/anyp/UriScheme.cc", "src/anyp/ProtocolType.cc", "src/LogTags.cc", "src/cbdata.cc"]
_e = lambda n, b, r, **kw: dict(name=n, bounds=b, reach=list(r), **dict(dict(max_samples=4, sample_every=53), **kw))
_b = "; b = fully symbolic byte (any value but NUL, CR, LF)"
_m = "; method GET or HEAD"
_mo = "; method GET, HEAD, POST, PUT or DELETE"
def _fam(th):
    f = lambda q, t: t if th else q
    return [
        _e("c14_etag", "etagParseInit/etagIsStrongEqual/etagIsWeakEqual on every pair of strings of 0..%d fully symbolic non-NUL bytes" % f(4, 6), ("equal", "different", "rejected")),
        _e("c14_inm", "cached 200 reply with ETag '\"' b b '\"' | 'W/\"' b '\"' | none | " + f("'\"a\"'", "b '\"a\"'") + ", Last-Modified earlier than the If-Modified-Since date; If-None-Match = '\"' b " +
           f("'b\"'", "b '\"'") + " | 'W/\"' b '\"' | '\"x\",' b '\"a\"'" + f("", " b") + " | '*' | b '\"a\"' b | " + f("'\"a\", *'", "'\"a\"' b '*'") + " | empty; If-Modified-Since present or not" +
           _b + _m + " (without If-Modified-Since also POST, PUT, DELETE)", ("304-inm", "412-inm", "200-inm")),
        _e("c14_ifmatch", "cached 200 reply with ETag '\"' b 'b\"' | 'W/\"a\"' | none | " + f("'\"ab\"'", "'W/\"' b 'b\"'") + "; If-Match = '\"' b b '\"' | 'W/\"a\"' | '\"x\", \"' b 'b\"' | '*' | b '\"ab\"' | empty; "
           "If-None-Match absent | '\"ab\"' | '\"zz\"'" + _b + _mo, ("412-if-match", "200-plain", "304-inm", "200-inm", "412-inm")),
        _e("c14_ims", "cached reply with status 200 or any other status 100..599, with or without ETag, Last-Modified any time 0..2^31-1 or unknown, entry timestamp any time 0..2^31-1; "
           "If-Modified-Since any time 1..2^31-1" + _m, ("304-ims", "200-ims", "non-200")),
        _e("c14_order", "cached 200 reply with ETag '\"' b '\"' | " + f("'W/\"a\"'", "'W/\"' b '\"'") + ", Last-Modified any time; If-Match absent | '\"' b '\"' | '*'; If-None-Match absent | '\"' b '\"' | 'W/\"a\"'; "
           "If-Modified-Since absent or any time" + _b + _m, ("412-if-match", "304-inm", "200-inm", "304-ims", "200-ims", "200-plain")),
        _e("c14_merge", "cached 200 reply {Date, Content-Type, ETag \"a\", Content-Length 5, X-A old, X-C keep, Vary x-v}; origin 304 with a newer Date and one of: X-A: b b" + f("", " b") +
           " | x-a: b | X-B: b | ETag: '\"' b '\"' | X-A: old and the old Date (nothing new) | two lines X-A: b, X-A: 2 | Vary: x-w + X-A: b | Content-Length: 5" + _b, ("updated", "nothing-new")),
        dict(name="c14_known_ims_without_lm", known=True, reach=[], max_samples=0, sample_every=0,
             bounds="KNOWN FINDING C14-ims-without-last-modified only: cached 200 reply without ETag and without Last-Modified, entry timestamp any time 0..2^31-1, If-Modified-Since any time "
                    "not earlier than the timestamp, method GET or HEAD; its violation is listed in known_findings.json and printed as KNOWN-FINDING"),
        dict(name="c14_known_304_content_length", known=True, reach=[], max_samples=0, sample_every=0,
             bounds="KNOWN FINDING C14-304-content-length only: the cached reply of c14_merge (Content-Length 5) and an origin 304 with a newer Date and 'Content-Length: ' d, d any digit but 5; "
                    "its violation is listed in known_findings.json and printed as KNOWN-FINDING"),
    ]
SPEC = dict(
    harness="C14_cond.cc", units=_U, unit_flags={"compat/xstring.cc": ["-Dxstrdup=vf_unused_squid_xstrdup"]},
    scope="kernel",
    scope_note="kernel decided: (K1) src/ETag.cc parses every well-formed entity-tag and compares strongly/weakly as RFC 9110 8.8.3.2 says. (K2) clientReplyContext::processConditional() "
               "(src/client_side_reply.cc) with the real StoreEntry::hasIfMatchEtag()/hasIfNoneMatchEtag()/hasOneOfEtags()/modifiedSince() (src/store.cc), HttpHeader::getList()/getETag(), "
               "strListGetItem() and the real sendNotModified()/sendPreconditionFailedError()/sendNotModifiedOrPreconditionFailedError()/processMiss() up to their first store-client call: "
               "on a cached 200 reply it starts a 304 only for GET/HEAD with an If-None-Match member that weakly matches the cached ETag (or '*'), or -- If-None-Match absent -- an "
               "If-Modified-Since date not earlier than the entry's Last-Modified; it starts a 412 exactly when If-Match has no strongly matching member (or an If-None-Match member matches "
               "on another method); otherwise it lets the full cached response go out; If-Match is evaluated before If-None-Match, and If-Modified-Since is switched off when If-None-Match "
               "is present (RFC 9110 13.2.2); a hit on a non-200 reply is forwarded to the origin. (K3) StoreEntry::updateOnNotModified() -> HttpReply::recreateOnNotModified() -> "
               "HttpHeader::needUpdate()/update(): after an origin 304, MemObject::freshestReply() -- what later hits send -- carries every field of the 304 with the 304's value (once; "
               "several lines joined), keeps every stored field the 304 does not mention, keeps Vary, status and Content-Length, while the stored reply object that locates the body is untouched. "
               "gap: clientReplyContext::cacheHit() reaching processConditional() only for fresh hits, and handleIMSReply()/processExpired() (which reply goes to the client after the origin's "
               "304/200, Store::Controller::updateOnNotModified() persisting the update to shared memory/disk); clientInterpretRequestHeaders() turning the If-Modified-Since text into "
               "flags.ims/ims (date parsing: C35); the 304/412 replies themselves (HttpReply::make304(), the error page) and the byte stream of the full response; range requests (flags.isRanged "
               "switches If-None-Match to strong comparison: not exercised)",
    entries=dict(quick=_fam(False), thorough=_fam(True)),
    timeout=dict(quick=900, thorough=3000),
    stubs=["clientReplyContext, ClientHttpRequest, AccessLogEntry, HttpRequest, StoreEntry, MemObject are zeroed raw memory of the real size (not constructed); set directly: "
           "clientReplyContext::http, ClientHttpRequest::al/request/entry_/uri, AccessLogEntry::cache.code, HttpRequest::method/header/flags.ims/ims/imslen/vary_headers, "
           "StoreEntry::mem_obj/timestamp/lastModified_/expires, MemObject::storeId_/method/vary_headers/reply_ (RefCount and const members written as raw pointers); HttpReply objects are "
           "really constructed and filled with HttpHeader::addEntry() as HttpHeader::parse() stores fields",
           "flags.ims/ims are set as clientInterpretRequestHeaders() sets them (flags.ims only for a date > 0; imslen -1)",
           "storeUnregister() (store_client.cc not linked) records the logging tag set by the running sender (LOG_TCP_INM_HIT/LOG_TCP_IMS_HIT = 304, LOG_TCP_HIT + error page status 412 = 412, "
           "LOG_TCP_MISS = forwarded) and ends the path by throwing; ErrorState's constructor (errorpage.cc not linked) records the status of the requested error page; "
           "MemPools::create() returns a plain-heap allocator (cbdata.cc allocation of the ErrorState)",
           "Time::ParseRfc1123() (src/time/rfc1123.cc not linked) knows the two Date texts of c14_merge and nothing else",
           "StatHist::enumInit/count no-ops; SquidConfig Config is the real global, zero-initialised, reply_header_max_size 64 KB; squid_curtime set by the harness",
           "libc models (strcmp/strncmp/strlen/strspn/strcspn, C locale)", "debugs() disabled"],
    assumptions=["validators 'match' as RFC 9110 13.1.1-13.1.3 define it; list members are read by a reference reader that splits at commas outside double quotes and trims SP/HTAB; it answers "
                 "yes/no only for lists whose members are all '*' or well-formed entity-tags without backslash (RFC 9110 has no escapes inside entity-tags, Squid's list splitter has) and for "
                 "a well-formed cached ETag; for other inputs only the 'only when' directions are asserted (no 304/412 without a possible match/failure)",
                 "only GET and HEAD requests are looked up in the cache (HttpRequestMethod::respMaybeCacheable()), so If-Modified-Since is exercised with these two methods only",
                 "known finding C14-ims-without-last-modified (examined only by entry c14_known_ims_without_lm, excluded from the others by vf_assume): a cached reply without Last-Modified answering If-Modified-Since >= StoreEntry::timestamp with 304 "
                 "(StoreEntry::lastModified() falls back to the timestamp; RFC 9110 13.1.3: the field MUST be ignored when no modification date is available)",
                 "known finding C14-304-content-length (examined only by entry c14_known_304_content_length, excluded from the others by vf_assume): an origin 304 carrying a Content-Length different from the stored one replaces the stored Content-Length "
                 "(HttpHeader::update() exempts only Vary; RFC 9111 3.2 also exempts Content-Length), so later hits declare a length that is not the stored body's"],
    outside="entity-tags, lists and field sets other than the listed families; If-Unmodified-Since and If-Range (not evaluated by processConditional()); ranged requests; everything listed under gap",
)
