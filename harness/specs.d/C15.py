_HDR = ["src/HttpHeader.cc", "src/HttpHeaderTools.cc", "src/http/RegisteredHeaders.cc", "src/http/ContentLengthInterpreter.cc",
        "src/http/one/Parser.cc", "src/String.cc", "src/StrList.cc", "src/MemBuf.cc", "src/mime_header.cc", "src/SquidConfig.cc",
        "src/ip/Address.cc", "src/helper/ChildConfig.cc", "lib/util.cc", "compat/xstring.cc"]
_REQ = ["src/HttpRequest.cc", "src/http/Message.cc", "src/anyp/Uri.cc", "src/anyp/UriScheme.cc", "src/anyp/ProtocolType.cc", "src/http/RequestMethod.cc",
        "src/http/MethodType.cc", "src/log/access_log.cc", "src/MasterXaction.cc", "src/base/Stopwatch.cc"]
_U = TOK + _HDR + _REQ + ["src/http/Stream.cc", "src/client_side.cc", "src/client_side_request.cc", "src/HttpHdrRange.cc", "src/HttpHdrContRange.cc",
                          "src/HttpReply.cc", "src/HttpBody.cc", "src/HttpHdrCc.cc", "src/http/StatusLine.cc", "src/http/StatusCode.cc", "src/LogTags.cc", "src/cbdata.cc"]
_e = lambda n, b, r, **kw: dict(name=n, bounds=b, reach=list(r), **dict(dict(sample_every=97, max_samples=3), **kw))
SPEC = dict(
    harness="C15_ranges.cc", units=_U, unit_flags={"compat/xstring.cc": ["-Dxstrdup=vf_unused_squid_xstrdup"]},
    scope="kernel",
    scope_note="kernel decided: ...; gap: ...",
    entries=dict(
        quick=[
            _e("c15_single", "x", ("206-single", "200-full", "200-unsatisfiable")),
            _e("c15_multi", "x", ("206-multi", "206-single", "200-full", "200-unsatisfiable")),
            _e("c15_big", "x", ("206-multi", "206-single")),
            _e("c15_arith", "x", ("complete", "in-progress")),
        ],
        thorough=[
            _e("c15_single", "x", ("206-single", "200-full", "200-unsatisfiable")),
            _e("c15_multi", "x", ("206-multi", "206-single", "200-full", "200-unsatisfiable")),
            _e("c15_big", "x", ("206-multi", "206-single")),
            _e("c15_arith", "x", ("complete", "in-progress")),
        ]),
    timeout=dict(quick=400, thorough=2400),
    stubs=[],
    outside="",
)
