_HDR = ["src/HttpHeader.cc", "src/HttpHeaderTools.cc", "src/http/RegisteredHeaders.cc", "src/http/ContentLengthInterpreter.cc",
        "src/http/one/Parser.cc", "src/String.cc", "src/StrList.cc", "src/MemBuf.cc", "src/mime_header.cc", "src/SquidConfig.cc",
        "src/ip/Address.cc", "src/helper/ChildConfig.cc", "lib/util.cc", "compat/xstring.cc"]
_REQ = ["src/HttpRequest.cc", "src/http/Message.cc", "src/anyp/Uri.cc", "src/anyp/UriScheme.cc", "src/anyp/ProtocolType.cc", "src/http/RequestMethod.cc",
        "src/http/MethodType.cc", "src/log/access_log.cc", "src/MasterXaction.cc", "src/base/Stopwatch.cc"]
_U = TOK + _HDR + _REQ + ["src/http/Stream.cc", "src/client_side.cc", "src/client_side_request.cc", "src/HttpHdrRange.cc", "src/HttpHdrContRange.cc",
                          "src/HttpReply.cc", "src/HttpBody.cc", "src/HttpHdrCc.cc", "src/http/StatusLine.cc", "src/http/StatusCode.cc", "src/LogTags.cc", "src/cbdata.cc"]
_e = lambda n, b, r, **kw: dict(name=n, bounds=b, reach=list(r), **dict(dict(sample_every=197, max_samples=3), **kw))
_SHAPES = "each spec of any shape first-last / first- / -suffix as HttpHdrRangeSpec::parseInit() leaves it"
_ENV = ("cached (TCP_HIT) or not, for misses range_offset_limit %s; object bytes fully symbolic; stored reply 200 with Content-Length; first body buffer at offset 0 with 0..B bytes, "
        "then a buffer of 1..B bytes (symbolic) at every offset pullData() asks for, B = %d. Oracle: the response text is parsed (status, Content-Length, Content-Range, multipart "
        "delimiters and part headers): 206 => every part's bytes = object[a..b] of its Content-Range a-b/clen, parts together = exactly the satisfiable requested bytes, Content-Length = "
        "body bytes sent, stream completes; 200 => whole object, no Content-Range; nothing satisfiable => not 206")
SPEC = dict(
    harness="C15_ranges.cc", units=_U, unit_flags={"compat/xstring.cc": ["-Dxstrdup=vf_unused_squid_xstrdup"]},
    scope="kernel",
    scope_note="kernel decided: for a stored 200 reply with known length and a parsed Range header, Http::Stream::buildRangeHeader() (with HttpHdrRange::canonize/isComplex/"
               "offsetLimitExceeded, ClientHttpRequest::prepPartialResponseGeneration/mRangeCLen, httpHeaderAddContRange) and the body path getNextRangeOffset/lengthToSend/"
               "noteSentBodyBytes/canPackMoreRanges/packRange (with clientPackRangeHdr/clientPackTermBound, HttpHdrRangeIter, MemBuf) produce either a 206 whose part(s) carry exactly "
               "the bytes their Content-Range states and together exactly the satisfiable requested bytes, with a Content-Length equal to what is sent, or (unsatisfiable, overlapping/"
               "out-of-order, or a miss beyond range_offset_limit) the whole representation with 200 -- however the store cuts the body into buffers; Squid never answers 416 itself. "
               "gap: the store side (clientReplyContext, store_client::copy really returning the bytes at the requested offset), Http::Stream::sendStartOfMessage/sendBody/"
               "writeComplete/socketState/pullData themselves (10-line dispatch functions mirrored by the harness: they need a live ConnStateData) and comm; Range header parsing (C28); "
               "If-Range; replies that already are 206 or lack Content-Length (ranges are then ignored/relayed); chunked replies; range_offset_limit ACLs; objects/buffers beyond the bounds",
    entries=dict(
        quick=[
            _e("c15_single", "object of 1..5 bytes; 1 spec, " + _SHAPES + " with numbers 0..6 (symbolic, case-split); " + _ENV % ("0 (default) / none / 1", 3), ("206-single", "200-full", "200-unsatisfiable")),
            _e("c15_multi", "object of 4 bytes; 2 specs, " + _SHAPES + " with numbers 0..3 (includes overlapping, out of order, adjacent, one unsatisfiable); " + _ENV % ("none", 3),
               ("206-multi", "206-single", "200-full", "200-unsatisfiable")),
            _e("c15_big", "object of 2^31+2, 2^32+2 or 2^62 bytes whose last 4 bytes are the symbolic window; 1..2 specs with numbers window start + 0..3 (suffix 0..3), satisfiable and in order; "
               + _ENV % ("none", 4) + " (the first buffer holds 0..4 bytes of the object's start)", ("206-multi", "206-single")),
            _e("c15_arith", "one canonical spec, offset in {0, 2^32-1, 2^62-9000}, length in {1, 4097, 2^32+4096}, object ends 0..1 bytes after it; one delivery step from an arbitrary point of the "
               "transfer (induction over the buffers): bytes already sent = symbolic distance 0..8192 from the start or from the end of the range, or the first buffer (offset 0); buffer length "
               "symbolic 0/1..4096: bytes used = min(buffer, rest) from the first missing position only, debt/offset updated, completion iff rest sent, next pull = first missing byte",
               ("complete", "in-progress"), sample_every=7),
        ],
        thorough=[
            _e("c15_single", "as quick with objects of 1..6 bytes and numbers 0..7", ("206-single", "200-full", "200-unsatisfiable"), sample_every=997),
            _e("c15_multi", "as quick with an object of 5 bytes, numbers 0..5, buffers of up to 3 bytes, range_offset_limit 0 / none / 1 for misses",
               ("206-multi", "206-single", "200-full", "200-unsatisfiable"), sample_every=9973),
            _e("c15_big", "as quick plus an object of 2^32+4098 bytes, numbers window start + 0..4, buffers of up to 3 bytes, range_offset_limit also = window start + 1",
               ("206-multi", "206-single"), sample_every=9973),
            _e("c15_arith", "as quick with offsets {0, 1, 4095, 4096, 2^31-1, 2^31, 2^32-1, 2^32, 2^62-9000} x lengths {1, 2, 4095, 4096, 4097, 8192, 2^31+1, 2^32+4096}", ("complete", "in-progress"), sample_every=37),
        ]),
    timeout=dict(quick=400, thorough=2400),
    stubs=["Http::Stream is a real object (real constructor, no connection); ClientHttpRequest, StoreEntry, MemObject, AccessLogEntry are zeroed raw memory with exactly these members set: "
           "ClientHttpRequest::request/al/entry_ (out, range_iter start zeroed), StoreEntry::mem_obj, MemObject::reply_ (the stored reply), AccessLogEntry::cache.code (TCP_HIT or TCP_MISS)",
           "HttpRequest, MasterXaction, both HttpReply objects (stored reply and the copy being sent: status 200, Content-Type, Content-Length) are real; HttpRequest::range is filled with "
           "HttpHdrRangeSpec objects as parseInit() produces them; HttpRequest::rangeOffsetLimit is set directly (what getRangeOffsetLimit() caches per request)",
           "harness mirrors of Http::Stream::sendStartOfMessage()/sendBody() (without delay pools and chunking; ConnStateData::write() replaced by appending to the output array) and of "
           "writeComplete()/socketState()/pullData() (completion = !canPackMoreRanges() for ranges, whole object sent otherwise; next store read at getNextRangeOffset())",
           "StoreEntry::getMD5Text() returns a constant (multipart boundary text; store.cc not linked); visible_appname_string = \"squid\"; null_string; ping_data constructor; "
           "StatHist::enumInit/count no-ops; MemPools::create() = plain heap (cbdata allocation of MemBuf); SquidConfig Config zero-initialised",
           "c15_arith: range_iter.debt and out.offset of the mid-transfer state are set directly to len-sent / offset+sent (the state shown to be kept by every step)",
           "compat/xstring.cc is the real file with its xstrdup renamed away (xstrdup is an engine model)", "debugs() disabled"],
    assumptions=["the store returns, for a read at offset o, the object's bytes starting exactly at o (clientReplyContext::pushStreamData() asserts result.offset == readBuffer.offset)",
                 "'cover the requested satisfiable ranges' is checked as set equality between the bytes of all parts and the satisfiable requested bytes (Squid does not merge ranges)"],
    outside="objects longer than 6 bytes other than the big-offset windows; more than 2 specs; numbers beyond the listed menus; symbolic positions in c15_arith are restricted to boundary menus "
            "plus a symbolic 13-bit distance/buffer length (wider symbolic 64-bit chains through memory exceed the solver: see report); everything listed under gap",
)
