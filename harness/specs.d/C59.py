_OPS = "operations: schedule(when = k*0.5 s, k symbolic in 0..2; weight symbolic in {0,1}; handler A/B alternating), cancel(victim symbolic among all events scheduled so far, pending or not), clock step symbolic in {-0.5, 0, +0.5, +1} s, run; then clock +100 s and drain"
SPEC = dict(
    harness="C59_events.cc",
    units=SBUF + ["src/event.cc", "src/EventLoop.cc", "src/base/AsyncCall.cc", "src/base/AsyncCallQueue.cc", "src/base/AsyncCallList.cc",
                  "src/base/CodeContext.cc", "src/base/InstanceId.cc"],
    entries=dict(
        quick=[
            dict(name="c59_ops", bounds="every sequence of 4 operations, at most 3 events; run = EventScheduler::checkEvents + AsyncCallQueue::fire; " + _OPS,
                 reach=["done", "fired", "cancelled", "batch-of-several", "heavy-stop"], sample_every=97, max_samples=3),
            dict(name="c59_batches", bounds="3 schedules at one instant (k symbolic in 0..2, weight symbolic), optional cancel of a symbolic victim, clock step, run, then drain",
                 reach=["done", "fired", "cancelled", "batch-of-several", "heavy-stop"], sample_every=197, max_samples=3),
            dict(name="c59_cancel_all", bounds="3 schedules at one instant (k in 0..2, weight and handler symbolic), eventDelete(handler, nullptr) for either handler, clock +0.5 s, run, drain",
                 reach=["done", "fired", "cancelled"], sample_every=97, max_samples=3),
            dict(name="c59_loop", bounds="every sequence of 4 operations, at most 3 events; run = EventLoop::runOnce() with the scheduler registered as a secondary engine and a recording primary engine; " + _OPS,
                 reach=["done", "fired", "cancelled", "batch-of-several", "loop-ran"], sample_every=97, max_samples=3),
        ],
        thorough=[
            dict(name="c59_ops", bounds="every sequence of 5 operations, at most 3 events; " + _OPS,
                 reach=["done", "fired", "cancelled", "batch-of-several", "heavy-stop"], sample_every=997, max_samples=3),
            dict(name="c59_batches", bounds="as quick with 4 schedules",
                 reach=["done", "fired", "cancelled", "batch-of-several", "heavy-stop"], sample_every=1997, max_samples=3),
            dict(name="c59_cancel_all", bounds="as quick with 4 schedules", reach=["done", "fired", "cancelled"], sample_every=997, max_samples=3),
            dict(name="c59_loop", bounds="every sequence of 5 operations, at most 3 events, run = EventLoop::runOnce(); " + _OPS,
                 reach=["done", "fired", "cancelled", "batch-of-several", "loop-ran"], sample_every=997, max_samples=3),
        ]),
    timeout=dict(quick=300, thorough=1800),
    stubs=["current_dtime is a plain global set by the harness (no gettimeofday)", "debug_trap() counts calls (tools.cc not linked)", "fatal()/fatal_dump() are violations",
           "events are scheduled with cbdata=false (plain pointer arguments; cbdata locking of event arguments is not exercised)",
           "Mem::AllocatorProxy = plain heap", "debugs() disabled",
           "c59_loop: the primary engine is a harness AsyncEngine that records its timeout and reports idle (stands for the comm engine); no time service"],
    assumptions=["due time = the timestamp documented in EventScheduler::schedule(): current_dtime + when for when > 0, and 0 (immediately, ahead of every positive timestamp) for when == 0",
                 "event handlers do not themselves schedule or cancel events"],
    outside="more events/operations than the bounds; delays other than multiples of 0.5 s; cbdata-protected arguments; handlers that re-arm themselves; eventAddIsh randomisation; the cache-manager dump",
)
