HDR = TOK + ["src/HttpHeader.cc", "src/HttpHeaderTools.cc", "src/http/RegisteredHeaders.cc", "src/http/ContentLengthInterpreter.cc",
             "src/http/one/Parser.cc", "src/String.cc", "src/StrList.cc", "src/MemBuf.cc", "src/mime_header.cc", "src/SquidConfig.cc",
             "src/ip/Address.cc", "src/helper/ChildConfig.cc", "lib/util.cc", "compat/xstring.cc"]
# xstrdup is an engine model (engine/models/libc.c); the real compat/xstring.cc is linked for xstrncpy with its xstrdup renamed away
HDR_FLAGS = {"compat/xstring.cc": ["-Dxstrdup=vf_unused_squid_xstrdup"]}
_lab = lambda *fams: [f + o for f in fams for o in ("-accepted", "-rejected")]
_e = lambda n, b, r: dict(name=n, bounds=b, reach=r, sample_every=61)
_cfg = "; each for owner in {hoRequest, hoReply} x relaxed_header_parser in {0,1}; b = fully symbolic byte (any of the 256 values)"
SPEC = dict(
    harness="C25_hdrblock.cc", units=HDR, unit_flags=HDR_FLAGS,
    entries=dict(
        quick=[
            _e("c25_names", "blocks 'Host' b ':v' CRLF 'X: y' CRLF | b 'ost: v' CRLF" + _cfg, _lab("colon", "name")),
            _e("c25_lines", "blocks 'X:' b 'v' b CRLF 'Host: y' CRLF | 'A: b' b b 'X: y' CRLF | 'A: b' CRLF b b CRLF 'X: y' CRLF | 'A: b' b LF b 'c' CRLF" + _cfg,
               _lab("value", "eol", "fold", "fold2") + ["accepted-folded"]),
            _e("c25_ends", "blocks b b LF 'X: y' CRLF | 'X: y' CRLF b b CRLF | every block of 0..3 fully symbolic bytes" + _cfg,
               _lab("head", "tail", "any") + ["accepted-empty"]),
            _e("c25_framing", "blocks N ': 1' b '0' CRLF b ':2' CRLF with N in {Content-Length, Transfer-Encoding, cONTENT-lENGTH} | two fields from the pool "
               "{X: a, Content-Length: 7, Transfer-Encoding: chunked, Host: h} the second possibly 'Content-Length: ' b | N ':' CRLF b '10' CRLF 'X: y' CRLF and N ': 10' CRLF b b CRLF 'X: y' CRLF (a fold at the edge of the framing value)" + _cfg, _lab("framing", "dup", "framingEdge")),
            dict(name="c25_known_reply_ws_colon", known=True, reach=[], max_samples=0, sample_every=0, bounds="KNOWN FINDING C25-reply-ws-before-colon only: reply blocks 'Host' b ':v' CRLF 'X: y' CRLF whose symbolic byte is whitespace before the colon, with the literal assertion 'rejected'; violations are listed in known_findings.json and printed as KNOWN-FINDING"),
        ],
        thorough=[
            _e("c25_names", "blocks 'Host' b b ':v' CRLF 'X: y' CRLF | b b 'st: v' CRLF; each for owner in {hoRequest, hoReply} x relaxed_header_parser in {-1,0,1}; b = fully symbolic byte", _lab("colon", "name")),
            _e("c25_lines", "blocks 'X:' b 'v' b b CRLF 'Host: y' CRLF | 'A: b' b b b 'X: y' CRLF | 'A: b' b LF b b CRLF 'X: y' CRLF | 'A: b' b LF b 'c' b LF" + _cfg,
               _lab("value", "eol", "fold", "fold2") + ["accepted-folded"]),
            _e("c25_ends", "blocks b b b LF 'X: y' CRLF | 'X: y' CRLF b b b LF | every block of 0..4 fully symbolic bytes" + _cfg,
               _lab("head", "tail", "any") + ["accepted-empty"]),
            _e("c25_framing", "blocks N ': 1' b '0' b LF b ':2' CRLF with N in {Content-Length, Transfer-Encoding, cONTENT-lENGTH, Host} | three fields from the pool "
               "{X: a, Content-Length: 7, Transfer-Encoding: chunked, Host: h} the second possibly 'Content-Length: ' b | N ':' CRLF b '10' CRLF 'X: y' CRLF and N ': 10' CRLF b b CRLF 'X: y' CRLF (a fold at the edge of the framing value)" + _cfg, _lab("framing", "dup", "framingEdge")),
            dict(name="c25_known_reply_ws_colon", known=True, reach=[], max_samples=0, sample_every=0, bounds="KNOWN FINDING C25-reply-ws-before-colon only: reply blocks 'Host' b ':v' CRLF 'X: y' CRLF whose symbolic byte is whitespace before the colon, with the literal assertion 'rejected'; violations are listed in known_findings.json and printed as KNOWN-FINDING"),
        ]),
    timeout=dict(quick=900, thorough=3000),
    stubs=["StatHist::enumInit/count are no-ops (per-header statistics histograms; StatHist.cc not linked)",
           "SquidConfig Config is the real global, zero-initialised, relaxed_header_parser set by the harness",
           "compat/xstring.cc is the real file with its xstrdup renamed away (xstrdup is an engine model)", "debugs() disabled"],
    outside="blocks other than the listed skeleton families and fully symbolic blocks longer than the bound; owners other than hoRequest/hoReply; "
            "field names/values longer than 64 KB; Content-Length value semantics (C26); the unfolding done by Http1::Parser before HttpHeader::parse is called",
)
