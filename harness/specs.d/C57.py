_full = ("; per slot symbolic: key (one of the candidates), firstSlot in [-1,N], nextSlot in [-2,N], payloadSize in [0,17] (valid: 1..16), "
         "entrySize in [0,34], version in [0,2], first payload byte (any; 0 = zeroed metadata), truncated (short read of 0..39 bytes) or not; "
         "swap-metadata parser: verdict, stored key (one of the candidates), stored swap_file_sz in [0,34] and stored flags symbolic")
_sane = ("; per slot symbolic: key (one of the candidates), firstSlot in [0,N-1], nextSlot in [-1,N-1], payloadSize in [1,16], entrySize in [0,34] "
         "(every header passes DbCellHeader::sane(); version 1, no truncation, non-zero metadata); swap-metadata parser: verdict, stored swap_file_sz in [0,34] "
         "and stored flags symbolic, stored key = the slot header's key")
_tail = ("; slot size 56 (40-byte header + 16 payload); loadingSteps() over all slots, then validationSteps() over every entry and every slot (opt_store_doublecheck=1); "
         "images with a cross-entry nextSlot link are excluded (known finding C57-cross-entry-link, see assumptions)")
_r = ["none-readable", "one-readable", "two-readable"]
_e = lambda n, b, r: dict(name=n, bounds=b + _tail, reach=r, sample_every=97)
_known = dict(name="c57_known_cross_entry_link", known=True, reach=[], max_samples=0, sample_every=0,
              bounds="KNOWN FINDING C57-cross-entry-link only: db of N=3 slots / 3 entries, slot 0 written for key B, slots 1 and 2 for key A; firstSlot in [0,2], nextSlot in [-1,2], "
                     "payloadSize in [1,16], entrySize in [0,34] of every slot and the swap-metadata verdict/size/flags symbolic (sane headers, no truncation), restricted to images in which a "
                     "loadable slot's nextSlot names a loadable slot whose key maps to a different anchor; strict oracle; its violations are listed in known_findings.json and printed as KNOWN-FINDING")
SPEC = dict(
    harness="C57_rebuild.cc",
    units=[u for u in SBUF if u != "src/base/TextException.cc"] + ["src/fs/rock/RockSwapDir.cc", "src/fs/rock/RockDbCell.cc", "src/store/Disk.cc", "src/ipc/StoreMap.cc", "src/ipc/ReadWriteLock.cc", "src/ipc/mem/PageStack.cc",
                  "src/String.cc", "src/MemBuf.cc", "src/store.cc", "src/base/AsyncJob.cc", "src/base/RunnersRegistry.cc", "src/base/InstanceId.cc",
                  "src/SquidConfig.cc", "src/ip/Address.cc", "src/helper/ChildConfig.cc", "compat/xstring.cc"],
    unit_flags={"verif:harness/C57_rebuild.cc": ["-fno-access-control"], "compat/xstring.cc": ["-Dxstrdup=vf_unused_squid_xstrdup"]},
    native_libs=["-latomic"],   # __atomic_is_lock_free (IdSet constructor) for the native replay build
    entries=dict(
        quick=[_e("c57_2slots", "db of N=2 slots / 2 entries, 2 candidate keys (different anchors)" + _full, _r),
               _e("c57_3slots_sane", "db of N=3 slots / 3 entries, 2 candidate keys (different anchors)" + _sane, _r), _known],
        thorough=[_e("c57_3slots_2keys", "db of N=3 slots / 3 entries, 2 candidate keys (different anchors)" + _full, _r),
                  _e("c57_3slots_collide_sane", "db of N=3 slots / 3 entries, 3 candidate keys, two of which map to the same anchor" + _sane, _r),
                  _e("c57_4slots_1key", "db of N=4 slots / 4 entries, all slots carry the same key" + _sane, ["none-readable", "one-readable"]), _known]),
    timeout=dict(quick=900, thorough=7200),
    stubs=["Ipc::Mem::Segment replaced by a name->heap registry (no shm_open/mmap)",
           "lseek() inside RockRebuild.cc is redirected (macro) to a harness function that records the offset; storeRebuildLoadEntry() is a harness function that copies the db image from that offset into the buffer like read(2) (whole remainder of the file, or a short read for a truncated slot)",
           "storeRebuildParseEntry() (swap metadata parser, store_rebuild.cc + SwapMetaIn.cc) is a stub: symbolic verdict; on success key = one of the candidate keys, swap_file_sz = expectedSize when that is known else symbolic, KEY_PRIVATE clear (the real function's contract)",
           "the harness performs the steps of Rock::SwapDirRr::create(), Rock::SwapDir::init() and Rock::Rebuild::Start()/start() that create/attach the shared segments, the map, the free-slot index, the read buffer and LoadingParts (no file_open/xread of the db header, no event scheduling); Rock::Rebuild is constructed by its real constructor with placement new (no cbdata allocator); loadingSteps()/validationSteps() are called directly instead of through eventAdd/AsyncCall",
           "Store::Root().markedForDeletion() returns false", "base/TextException.cc is replaced by harness definitions whose what()/print() produce no text (the real ones format through std::ostringstream; what() is called by finalizeOrFree only to log the reason)", "compat/xstring.cc is the real file with its xstrdup renamed away (xstrdup is an engine model)", "std::__detail::_Prime_rehash_policy::_M_next_bkt/_M_need_rehash modelled in the harness for the bitcode build (reached only by AsyncJob's constructor registering the job)", "opt_foreground_rebuild=1 (no time-based pausing), opt_store_doublecheck=1", "paranoid_hit_validation off", "debugs() disabled"],
    assumptions=["known finding C57-cross-entry-link (examined only by entry c57_known_cross_entry_link, excluded from the others by vf_assume on the image): a loadable slot (not truncated, sane header) whose nextSlot names a loadable slot that belongs to a different entry (anchor); Rock::Rebuild::finalizeOrThrow() follows the link into the foreign, not yet finalized slot: the thief becomes readable with a slot of another entry, which later also enters the free-slot index (victim freed), an unreachable slot stays mapped-but-unfinalized so that validateOneSlot()'s Must() escapes with squid -S, or the stolen slot is pushed to the free-slot index twice (PageStack assertion)"],
    outside="read(2)/lseek errors (I/O failures are not db contents); databases with more slots/keys than the bound; slot sizes other than 56; resumed (restarted mid-way) rebuilds; "
            "from-network entries stored while the rebuild runs (leIgnored); the bytes of the swap metadata themselves (decided by the parser stub's symbolic result; the parser is the subject of C10/C49)",
)
