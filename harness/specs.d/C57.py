_common = ("; per slot symbolic: key (one of the candidates), firstSlot in [-1,N], nextSlot in [-2,N], payloadSize in [0,17] (valid: 1..16), "
           "entrySize in [0,34], version in [0,2], first payload byte (any), truncated (short read of 0..39 bytes) or not; "
           "swap-metadata parser verdict, stored key (one of the candidates), stored swap_file_sz in [0,34] and stored flags symbolic; "
           "slot size 56 (40-byte header + 16 payload); then every entry and every slot validated (opt_store_doublecheck=1)")
_e = lambda n, b, r: dict(name=n, bounds=b + _common, reach=r, sample_every=97)
SPEC = dict(
    harness="C57_rebuild.cc",
    units=SBUF + ["src/fs/rock/RockSwapDir.cc", "src/fs/rock/RockDbCell.cc", "src/store/Disk.cc", "src/ipc/StoreMap.cc", "src/ipc/ReadWriteLock.cc", "src/ipc/mem/PageStack.cc",
                  "src/String.cc", "src/MemBuf.cc", "src/store.cc", "src/base/AsyncJob.cc", "src/base/RunnersRegistry.cc", "src/base/InstanceId.cc",
                  "src/SquidConfig.cc", "src/ip/Address.cc", "src/helper/ChildConfig.cc"],
    unit_flags={"verif:harness/C57_rebuild.cc": ["-fno-access-control"]},
    entries=dict(
        quick=[_e("c57_2slots", "db of N=2 slots / 2 entries, 2 candidate keys (different anchors)", ["none-readable", "one-readable", "two-readable"]),
               _e("c57_3slots_2keys", "db of N=3 slots / 3 entries, 2 candidate keys (different anchors)", ["none-readable", "one-readable", "two-readable"])],
        thorough=[_e("c57_3slots_collide", "db of N=3 slots / 3 entries, 3 candidate keys, two of which map to the same anchor", ["none-readable", "one-readable", "two-readable"]),
                  _e("c57_4slots_2keys", "db of N=4 slots / 4 entries, 2 candidate keys (different anchors)", ["none-readable", "one-readable", "two-readable"])]),
    timeout=dict(quick=600, thorough=2400),
    stubs=["Ipc::Mem::Segment replaced by a name->heap registry (no shm_open/mmap)",
           "lseek() inside RockRebuild.cc is redirected (macro) to a harness function that records the offset; storeRebuildLoadEntry() is a harness function that copies the db image from that offset into the buffer like read(2) (whole remainder of the file, or a short read for a truncated slot)",
           "storeRebuildParseEntry() (swap metadata parser, store_rebuild.cc + SwapMetaIn.cc) is a stub: symbolic verdict; on success key = one of the candidate keys, swap_file_sz = expectedSize when that is known else symbolic, KEY_PRIVATE clear (the real function's contract)",
           "the harness performs the steps of Rock::SwapDirRr::create(), Rock::SwapDir::init() and Rock::Rebuild::Start()/start() that create/attach the shared segments, the map, the free-slot index, the read buffer and LoadingParts (no file_open/xread of the db header, no event scheduling); Rock::Rebuild is constructed by its real constructor with placement new (no cbdata allocator); loadingSteps()/validationSteps() are called directly instead of through eventAdd/AsyncCall",
           "Store::Root().markedForDeletion() returns false", "opt_foreground_rebuild=1 (no time-based pausing), opt_store_doublecheck=1", "paranoid_hit_validation off", "debugs() disabled"],
    outside="read(2)/lseek errors (I/O failures are not db contents); databases with more slots/keys than the bound; slot sizes other than 56; resumed (restarted mid-way) rebuilds; "
            "from-network entries stored while the rebuild runs (leIgnored); the bytes of the swap metadata themselves (decided by the parser stub's symbolic result; the parser is the subject of C10/C49)",
)
