HDR = TOK + ["src/HttpHeader.cc", "src/HttpHeaderTools.cc", "src/http/RegisteredHeaders.cc", "src/http/ContentLengthInterpreter.cc",
             "src/http/one/Parser.cc", "src/String.cc", "src/StrList.cc", "src/MemBuf.cc", "src/mime_header.cc", "src/SquidConfig.cc",
             "src/ip/Address.cc", "src/helper/ChildConfig.cc", "lib/util.cc", "compat/xstring.cc"]
_U = HDR + ["src/http.cc", "src/clients/Client.cc", "src/refresh.cc", "src/MemObject.cc", "src/HttpRequest.cc", "src/HttpReply.cc", "src/http/Message.cc",
            "src/HttpBody.cc", "src/HttpHdrCc.cc", "src/http/RequestMethod.cc", "src/http/MethodType.cc", "src/http/StatusLine.cc", "src/http/StatusCode.cc",
            "src/anyp/UriScheme.cc", "src/anyp/ProtocolType.cc"]
_e = lambda n, b, r, **kw: dict(name=n, bounds=b, reach=list(r), **dict(dict(jobs=2, max_samples=4), **kw))
SPEC = dict(
    harness="C11_nostore.cc", units=_U, unit_flags={"compat/xstring.cc": ["-Dxstrdup=vf_unused_squid_xstrdup"]},
    native_units=["src/sbuf/Algorithms.cc"],
    scope="kernel", scope_note="TODO",
    entries=dict(
        quick=[_e("c11_decision", "probe", ("reuseNot",), jobs=4),
               _e("c11_request_veto", "probe", ()),
               _e("c11_hdr_case", "probe", ()),
               _e("c11_hdr_sep", "probe", ()),
               _e("c11_hdr_dup", "probe", ()),
               _e("c11_hdr_req", "probe", ()),
               _e("c11_hdr_auth", "probe", ()),
        ],
        thorough=[]),
    timeout=dict(quick=300, thorough=1500),
    stubs=[], outside="",
)
