HDR = TOK + ["src/HttpHeader.cc", "src/HttpHeaderTools.cc", "src/http/RegisteredHeaders.cc", "src/http/ContentLengthInterpreter.cc",
             "src/http/one/Parser.cc", "src/String.cc", "src/StrList.cc", "src/MemBuf.cc", "src/mime_header.cc", "src/SquidConfig.cc",
             "src/ip/Address.cc", "src/helper/ChildConfig.cc", "lib/util.cc", "compat/xstring.cc"]
_U = HDR + ["src/http.cc", "src/clients/Client.cc", "src/refresh.cc", "src/MemObject.cc", "src/HttpRequest.cc", "src/HttpReply.cc", "src/http/Message.cc",
            "src/HttpBody.cc", "src/HttpHdrCc.cc", "src/http/RequestMethod.cc", "src/http/MethodType.cc", "src/http/StatusLine.cc", "src/http/StatusCode.cc",
            "src/anyp/UriScheme.cc", "src/anyp/ProtocolType.cc"]
_e = lambda n, b, r, **kw: dict(name=n, bounds=b, reach=list(r), **dict(dict(jobs=1, max_samples=3, sample_every=17), **kw))
_h = ("; b = fully symbolic byte of a field value (any value except NUL, CR, LF); status symbolic in "
      "{200,203,300,301,308,410,404}, negative_ttl symbolic 0..3600; fresh private entry received now without explicit expiry; nothing cached before")
_K1 = ("request Cache-Control absent or any mask over the 14 recognised directives with any values; reply Cache-Control likewise, no-cache/private with or "
       "without field list; request flags auth, authSent; reply status 0..999; reply Date, Expires, Content-Length any 32-bit value; entry flags any 16-bit "
       "value; entry timestamp 0..10^9, expires any 32-bit value, no Last-Modified; ignoreCacheControl, surrogateNoStore, sawDateGoBack; negative_ttl 0..3600; "
       "minimum_expiry_time 60, max_stale 1 week, no refresh_pattern")
_D = ("reuseNot", "cachePositively", "cacheNegatively", "doNotCacheButShare", "reply-no-store", "reply-private", "request-no-store", "auth-not-shared",
      "auth-shared-stored", "auth-no-cache-exception-stored")
_Q = [
    _e("c11_decision", "HttpStateData::reusableReply(): " + _K1, _D, jobs=4, max_samples=8, sample_every=97),
    _e("c11_request_veto", "HttpRequest::maybeCacheable(): every registered method, scheme http|https, request Cache-Control absent or any mask, "
       "flags hostVerified/intercepted/interceptTproxy/ignoreCc symbolic", ("request-no-store", "cachable", "vetoed"), jobs=1),
]
def _fam(t):
    th = t == "thorough"
    f = lambda q, T: T if th else q
    return [
        _e("c11_hdr_case", "reply 'Cache-Control: " + f("b 'o-' b 'tore'", "b 'o-' b 'tor' b") + "'" + _h, ("reply-no-store", "stored")),
        _e("c11_hdr_case_private", "reply 'Cache-Control: max-age=60, " + f("b 'rivat' b", "b 'r' b 'vat' b") + "'" + _h, ("reply-private", "stored")),
        _e("c11_hdr_sep", "reply 'Cache-Control: public' " + f("b b", "b b b") + " 'no-store'" + _h, ("reply-no-store", "stored")),
        _e("c11_hdr_sep_private", "reply 'Cache-Control: private' b b 's-maxage=9'" + f("", " b") + _h, ("reply-private", "stored")),
        _e("c11_hdr_args", "reply 'Cache-Control: public, private' " + f("b b", "b b b") + _h, ("reply-private", "stored")),
        _e("c11_hdr_dup", "reply with two field lines 'Cache-Control: public' and 'Cache-Control: max-age=5' " + f("b ' ' b", "b b b") + " 'o-store'" + _h, ("reply-no-store", "stored")),
        _e("c11_hdr_req", "request 'Cache-Control: ' b 'o-store' " + f("b", "b b") + " 'max-age=0', reply 'Cache-Control: public, max-age=60'" + _h, ("request-no-store", "stored")),
        _e("c11_hdr_req_dup", "request with two field lines 'Cache-Control: no-cache' and 'Cache-Control: " + f("no-' b 'tor' b", "' b 'o-' b 'tor' b") + ", reply 'Cache-Control: public'" + _h, ("request-no-store", "stored")),
        _e("c11_hdr_auth", "request with Authorization; reply 'Cache-Control: " + f("b 'ubli' b", "b 'ubl' b b") + "'" + _h, ("auth-not-shared", "auth-stored")),
        _e("c11_hdr_auth_list", "request with Authorization; reply 'Cache-Control: max-age=60' " + f("b b 'must-revalidate'", "b b b 'ust-revalidate'") + _h, ("auth-not-shared", "auth-stored")),
        _e("c11_hdr_auth_nocache", "request with Authorization; reply 'Cache-Control: no-cache' " + f("b b", "b b b") + _h, ("auth-not-shared", "auth-no-cache-exception-stored")),
        _e("c11_hdr_auth_smaxage", "request with Authorization; reply 'Cache-Control: " + f("s-maxage' b b", "' b '-maxage' b b") + _h, ("auth-not-shared", "auth-stored")),
    ]
SPEC = dict(
    harness="C11_nostore.cc", units=_U, unit_flags={"compat/xstring.cc": ["-Dxstrdup=vf_unused_squid_xstrdup"]},
    native_units=["src/sbuf/Algorithms.cc"],
    scope="kernel",
    scope_note="kernel decided: (K1) HttpStateData::reusableReply() -- the only place where http.cc decides whether a reply may get a public cache key -- answers "
               "reuseNot (or doNotCacheButShare for an entry that was already released and can no longer be made public), never cachePositively/cacheNegatively, "
               "whenever the reply's Cache-Control has no-store or private, the request's Cache-Control has no-store, or the request carried credentials "
               "(flags.auth) and the reply's Cache-Control has none of public, must-revalidate, s-maxage -- except, in this USE_HTTP_VIOLATIONS build, a reply "
               "'no-cache' without field list to a request with credentials; for every combination of the other inputs the decision reads. "
               "(K2) HttpStateData::haveParsedReplyHeaders() on a real HttpReply whose Cache-Control field lines are text with symbolic bytes (parsed by the real "
               "HttpReply::hdrCacheInit()/HttpHeader::getCc()/HttpHdrCc::parse(); same for the request) calls StoreEntry::makePrivate() and neither makePublic() nor "
               "cacheNegatively() in those cases, and in the no-cache exception stores only with ENTRY_REVALIDATE_ALWAYS set. (K3) HttpRequest::maybeCacheable() vetoes "
               "caching for every http/https request with Cache-Control: no-store. "
               "gap: that an entry which never got a public key (StoreEntry::makePrivate()/releaseRequest(), store.cc) is never found by a later lookup "
               "(storeGetPublicByRequest, Store::Controller, shared memory/disk indexes, collapsed forwarding's sharing of doNotCacheButShare entries); that every reply "
               "passes through haveParsedReplyHeaders() before any client can hit it (FwdState/StoreEntry life cycle; FTP/Gopher/WHOIS gateways and adapted (ICAP/eCAP) "
               "replies have their own paths); clientInterpretRequestHeaders() itself (it sets flags.auth from the Authorization header/URL userinfo and flags.cachable "
               "from maybeCacheable(): modelled by two lines of the harness); how ENTRY_REVALIDATE_ALWAYS is honoured on a hit (C12's kernel); Surrogate-Control handling",
    # quick: both kernels on objects + the twelve text families; thorough: the same with one more symbolic byte each
    entries=dict(quick=_Q + _fam("quick"),
                 thorough=_Q + _fam("thorough")),
    timeout=dict(quick=400, thorough=1500),
    stubs=["HttpStateData, HttpRequest, StoreEntry, MemObject are zeroed raw memory of the real size (not constructed); set directly: HttpStateData::entry/request/"
           "theFinalReply/ignoreCacheControl/surrogateNoStore/sawDateGoBack, HttpRequest::method/header/cache_control/flags/url.scheme_, StoreEntry::mem_obj/flags/"
           "timestamp/expires/lastModified_, MemObject::storeId_/method/reply_; RefCount members written as raw pointers without locking",
           "K1: HttpReply is zeroed raw memory with header/sline/cache_control/date/expires/content_length set directly, HttpHdrCc objects with mask and values set directly; "
           "K2: HttpReply is really constructed and filled by HttpHeader::addEntry() + HttpReply::hdrCacheInit()",
           "store.cc is not linked: StoreEntry::makePublic()/cacheNegatively()/makePrivate() are recorders, timestampsSet() a no-op (entry times are set by the harness), "
           "lock()/unlock() no-ops, storeGetPublic()/storeGetPublicByRequest() return 'nothing cached yet'",
           "flags.auth = request header has Authorization (what clientInterpretRequestHeaders() does); neighbors_do_private_keys = 0 (no peers)",
           "bitcode build only: constant CaseInsensitiveSBufHash and std::__detail::_Prime_rehash_policy members as in C29 (LookupTable of directive names); the native replay build uses the real ones",
           "StatHist::enumInit/count no-ops; SquidConfig Config is the real global, zero-initialised, with minimum_expiry_time, maxStale, negativeTtl set by the harness", "debugs() disabled"],
    assumptions=["'forbidden to be stored' rows and the USE_HTTP_VIOLATIONS no-cache exception exactly as listed in the header comment of harness/C11_nostore.cc; "
                 "'request with Authorization credentials' = RequestFlags::auth; rows about Cache-Control are claimed while Squid honours Cache-Control (ignoreCacheControl, "
                 "set only by Surrogate-Control processing in accelerator mode, and http_port ignore-cc are off: neither is a default setting)"],
    outside="Cache-Control texts other than the listed families (HttpHdrCc::parse itself is C29); refresh_pattern lines incl. ignore-no-store/ignore-private/store-stale; "
            "Vary; everything listed under gap",
)
