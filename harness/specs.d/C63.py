FWD6 = TOK + ["src/HttpHeader.cc", "src/HttpHeaderTools.cc", "src/HeaderMangling.cc", "src/http/RegisteredHeaders.cc", "src/http/ContentLengthInterpreter.cc",
              "src/http/one/Parser.cc", "src/String.cc", "src/StrList.cc", "src/MemBuf.cc", "src/mime_header.cc", "src/SquidConfig.cc",
              "src/ip/Address.cc", "src/helper/ChildConfig.cc", "lib/util.cc", "compat/xstring.cc",
              "src/HttpRequest.cc", "src/http/Message.cc", "src/HttpHdrCc.cc", "src/http/RequestMethod.cc", "src/http/MethodType.cc", "src/refresh.cc", "src/globals.cc",
              "src/anyp/Uri.cc", "src/anyp/UriScheme.cc", "src/cbdata.cc"]
_e = lambda n, b, r, **kw: dict(name=n, bounds=b, reach=list(r), **dict(dict(sample_every=37, max_samples=8), **kw))
_v = ("; request block 'Host: o.example' CRLF 'Via:' value CRLF 'Accept: a/b' CRLF ['Via:' value2 CRLF]; method GET; this Squid = 'squid.example (squid)'; "
      "b = any byte except NUL, CR, LF, DQUOTE; Via elements that name this Squid in another spelling than Squid's own are excluded (known finding C63-via-spelling, examined by c63_known_via_spelling)")
_m = "; request block 'Host: o.example' CRLF 'Max-Forwards:' value CRLF; method in {TRACE, OPTIONS, GET}; direct connection to the origin"
def _fams(th):
    q = lambda a, b: b if th else a
    return [
        _e("c63_via_position", "Via values " + q("' 1.0 fred' b b '1.1 ' b 'quid.example' b '(squid)'", "' 1.0 fred' b b '1.1 ' b 'quid.exampl' b b '(squid)'") + " | ' 1.1 squid.example (squid)' b b "
           + q("'1.0 fred (a' b 'b)'", "'1.0 fred ' b 'a' b 'b)'") + _v, ("loop", "no-loop", "names-this-squid")),
        _e("c63_via_spelling", "Via values ' ' b b '1' b 'squid.example' " + q("' (squid)'", "b '(squid)'") + " | two fields ' 1.0 fred' and ' 1.1 squid.example' " + q("' (squi' b b", "b '(squi' b b") + _v, ("loop", "no-loop", "names-this-squid")),
        _e("c63_via_context", "Via values two fields ' 1.0 a,' b '1.1 squid.example (squid)' b and ' 1.1 b' | ' 1.0 fred ' b 'x, 1.1 squid.example (squid))' b" + _v, ("loop", "names-this-squid")),
        _e("c63_mf_digits", "value = SP + 1.." + ("3" if th else "2") + " symbolic digits" + _m, ("zero-answered", "decremented", "get")),
        _e("c63_mf_any", "value = " + ("b b b" if th else "b b") + " (any byte except NUL, CR, LF, DQUOTE)" + _m, ("zero-answered", "decremented", "get", "invalid-value")),
        dict(name="c63_known_via_spelling", known=True, reach=[], max_samples=0, sample_every=0,
             bounds="KNOWN FINDING C63-via-spelling only: Via values ' 1.0 fred' b b '1.1 ' b 'quid.example' b '(squid)' | ' 1.0 fred, 1.1 squid.example' b b | two fields "
                    "' 1.0 fred' and ' 1.1 squid.example (squi' b b | ' 1.0 fred,' b '1.1' b 'squid.example (squid)', restricted to values with an element that names this Squid "
                    "(received-by = unique host name, any letter case, optional port) but is not spelled SP host SP '(squid)'; its violations are listed in known_findings.json "
                    "and printed as KNOWN-FINDING"),
    ]
SPEC = dict(
    harness="C63_loop.cc", units=FWD6, unit_flags={"compat/xstring.cc": ["-Dxstrdup=vf_unused_squid_xstrdup"]},
    native_libs=["-lnettle"],
    scope="kernel",
    scope_note="kernel decided: (V) the real clientInterpretRequestHeaders() (client_side_request.cc; getList(Via) + strListIsSubstr(ThisCache2)) sets "
               "request->flags.loopDetected for every parsed request whose Via field(s) contain, at any list position and next to other elements, comments with commas or "
               "other Via fields, an element naming this Squid in Squid's own spelling; (M) for TRACE and OPTIONS requests with a valid Max-Forwards value v, the "
               "'answer locally' predicates of clientProcessRequest()/clientGetMoreData() (method && header.getInt64(Max-Forwards) == 0, real HttpHeader::getInt64()) are "
               "true iff v = 0, and the real HttpStateData::httpBuildRequestHeader() sends exactly one Max-Forwards with the decimal v-1 when v > 0, none when v = 0, and "
               "none for other methods; "
               "gap: that a request with flags.loopDetected is never forwarded (clientReplyContext::processMiss() answers 403 instead of FwdState::Start(); "
               "peer selection also reads the flag; cache hits are served), the two predicate lines are modelled in the harness (clientProcessRequest() and "
               "clientGetMoreData() themselves are not executed), TRACE/OPTIONS reply construction (traceReply(), setReplyToError), CDN-Loop detection for accelerated "
               "requests, via off",
    entries=dict(quick=_fams(False), thorough=_fams(True)),
    timeout=dict(quick=900, thorough=3000),
    stubs=["HttpRequest and ClientHttpRequest are zeroed raw memory of the real size (HttpRequest with the real vtable pointer); set directly: request header (placement-new, "
           "filled by the real HttpHeader::parse() + HttpRequest::hdrCacheInit()), method, http_ver 1.1, url scheme http and cached absolute URI, peer_domain, "
           "client_addr no-addr, lastmod/ims -1, rangeOffsetLimit 0; ClientHttpRequest::request; no client connection (getConn() null)",
           "src/client_side_request.cc and src/http.cc are #included into the harness TU (static functions); what is not reached stays undefined",
           "debugObj() (logging of the looping request) is a no-op; StatHist::enumInit/count no-ops; bitcode-only nettle base64 stand-in (not reached)",
           "ThisCache/ThisCache2 = 'squid.example (squid)' / ' squid.example (squid)' as cache_cf.cc builds them from unique_hostname and the application name; "
           "SquidConfig Config real global, zero-initialised, via on, forwarded_for on; src/globals.cc real",
           "libc strtoll model (glibc semantics)", "debugs() disabled"],
    assumptions=["a Via element 'names this Squid' when its received-by (second whitespace-separated token of the element; list elements split at commas outside "
                 "comments) equals the unique host name case-insensitively, optionally followed by ':' port",
                 "known finding C63-via-spelling (examined only by entry c63_known_via_spelling, excluded from the others by vf_assume): a Via element naming this Squid "
                 "that is not spelled exactly SP <unique_hostname> SP '(' <appname> ')' (other letter case, HTAB, comment removed or changed, port appended) is not "
                 "recognised by the case-sensitive substring search",
                 "Max-Forwards value valid = 1*DIGIT after trimming SP/HT (RFC 9110 7.6.2); invalid values carry no obligation (a recipient MAY ignore them)"],
    outside="Via values other than the listed families; more than two Via fields; Max-Forwards values of more than 3 digits; several Max-Forwards fields; "
            "methods other than TRACE, OPTIONS, GET",
)
