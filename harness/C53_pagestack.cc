// C53: Ipc::Mem::PageStack (lock-free IdSet tree) never double-allocates or loses pages.
// NT modelled threads run NOPS operations each on one real PageStack: pop(), or push() of a page the thread holds.
// Every interleaving at atomic-instruction granularity (sequential consistency, CAS never fails spuriously).
// Ghost state: owner[] (who holds each page) and a lower bound L of the number of pages that must be available:
//   L = capacity - held - (pages inside an unfinished push) - (other unfinished pops, each may have claimed one page).
// A pop() may fail only if L <= 0 at some moment during it ("at some point during it, no page was free").
#include "squid.h"
#include "ipc/mem/PageStack.h"
#include "ipc/mem/Page.h"
#include "common.h"
#include <new>

#define MAXT 3
#define MAXPAGES 300
static Ipc::Mem::PageStack *stack;
static unsigned CAP, NT, NOPS;
static const uint32_t POOL = 7;
// ghost
static int owner[MAXPAGES + 1];          // 0 = nobody, t+1 = thread t, 99 = main (before/after the concurrent phase)
static int held, pushing, popping;
static bool inPop[MAXT], sawNoFree[MAXT];

static void noteL()
{
    for (unsigned t = 0; t < NT; ++t)
        if (inPop[t] && (int)CAP - held - pushing - (popping - 1) <= 0)
            sawNoFree[t] = true;
}

static bool doPop(const int who, Ipc::Mem::PageId &page)
{
    const bool ok = stack->pop(page);
    if (ok) {
        vf_assert(page.pool == POOL && page.number >= 1 && page.number <= CAP, "allocated page is a valid page of the pool");
        vf_assert(owner[page.number] == 0, "page handed to two holders at the same time");
        owner[page.number] = who;
    }
    return ok;
}

static void worker(void *arg)
{
    const unsigned me = (unsigned)(uintptr_t)arg;
    Ipc::Mem::PageId mine[4]; unsigned n = 0;
    for (unsigned i = 0; i < NOPS; ++i) {
        const bool wantPush = n > 0 && vf_choose(2, "op") == 1;
        if (wantPush) {
            --n;
            owner[mine[n].number] = 0; --held; ++pushing; noteL();   // before the first atomic step of push()
            stack->push(mine[n]);
            --pushing;                                                // same step as the last atomic operation of push()
            vf_assert(!mine[n], "push() clears the caller's PageId");
        } else {
            inPop[me] = true; sawNoFree[me] = false; ++popping; noteL();
            Ipc::Mem::PageId page;
            const bool ok = doPop(me + 1, page);
            inPop[me] = false; --popping;
            if (ok) { ++held; mine[n++] = page; noteL(); }
            else vf_assert(sawNoFree[me], "pop() failed although a free page was available during the whole call");
        }
        vf_yield();
    }
    while (n > 0) { // release everything before stopping
        --n;
        owner[mine[n].number] = 0; --held; ++pushing; noteL();
        stack->push(mine[n]);
        --pushing;
    }
}

// capacity pages; the main thread takes `pre` pages before the concurrent phase and returns them afterwards
static void run(const unsigned cap, const unsigned pre, const unsigned nt, const unsigned nops)
{
    vf_quiet();
    CAP = cap; NT = nt; NOPS = nops;
    Ipc::Mem::PageStack::Config cfg; cfg.poolId = POOL; cfg.pageSize = 32; cfg.capacity = cap; cfg.createFull = true;
    void *mem = xcalloc(1, Ipc::Mem::PageStack::StackSize(cap));
    stack = new (mem) Ipc::Mem::PageStack(cfg);
    static Ipc::Mem::PageId prePages[MAXPAGES];
    for (unsigned i = 0; i < pre; ++i) { vf_assert(doPop(99, prePages[i]), "initially full stack hands out pages"); ++held; }
    for (unsigned t = 0; t < nt; ++t) vf_spawn(worker, (void *)(uintptr_t)t);
    vf_join();
    vf_assert(held == (int)pre && pushing == 0 && popping == 0, "harness: ghost counters consistent");
    for (unsigned i = 0; i < pre; ++i) { owner[prePages[i].number] = 0; stack->push(prePages[i]); }
    // once activity stops, every page can be allocated again, exactly once
    for (unsigned i = 0; i < cap; ++i) { Ipc::Mem::PageId p; vf_assert(doPop(99, p), "a released page can be allocated again"); }
    Ipc::Mem::PageId extra;
    vf_assert(!stack->pop(extra), "no more pages than the capacity");
    vf_reach("done");
    WITNESS_POINT();
}
extern "C" void c53_cap2_2x2(void) { run(2, 0, 2, 2); }
extern "C" void c53_cap2_pre1_2x3(void) { run(2, 1, 2, 3); }
extern "C" void c53_cap3_3x2(void) { run(3, 1, 3, 2); }
extern "C" void c53_cap130_2x2(void) { run(130, 128, 2, 2); }   // 4 leaves, 2 inner levels; 2 pages (in the third leaf) remain
extern "C" void c53_cap2_2x4(void) { run(2, 0, 2, 4); }
extern "C" void c53_cap3_3x3(void) { run(3, 1, 3, 3); }
extern "C" void c53_cap130_2x3(void) { run(130, 127, 2, 3); }
