// C04, second translation unit: the real clientReplyContext::buildReplyHeader() (src/client_side_reply.cc is #included here, it
// cannot share a TU with src/http.cc) applied to an origin reply header block. Linked as an extra unit of the C04 check.
//
// World: clientReplyContext, ClientHttpRequest, AccessLogEntry, HttpRequest and HttpReply are zeroed raw memory of the real size
// with exactly the members buildReplyHeader() reads set directly (a cache miss being relayed: no StoreEntry, no client connection
// object, no authentication, no adaptation); the reply header is filled by the real HttpHeader::parse().
#include "squid.h"
#include <sstream>
#include <functional>
#include <chrono>
#include <atomic>
#include <iostream>
#include <string>
#include <vector>
#include <list>
#include <map>
#include <set>
#include <queue>
#include <stack>
#include <tuple>
#include <unordered_map>
#include <unordered_set>
#include <memory>
#include <algorithm>
#include <optional>
#include <limits>
#include <iosfwd>
#include <ostream>
#include <utility>
#include <type_traits>
#include "debug/Stream.h"
#include "SquidString.h"
#include "sbuf/SBuf.h"
#include "base/RefCount.h"
#include "base/TextException.h"
#define private public
#define protected public
#include "HttpHeader.h"
#include "http/Message.h"
#include "HttpRequest.h"
#include "HttpReply.h"
#include "AccessLogEntry.h"
#include "client_side_request.h"
#include "client_side_reply.h"
#undef private
#undef protected
#include "client_side_reply.cc"     // the real translation unit
#include "http/ContentLengthInterpreter.h"
#include "vf.h"
#include <new>
#include <typeinfo>
#include <cstring>

// ---- stubs (environment of buildReplyHeader() that is unrelated to header filtering)
const char *uniqueHostname(void) { return "squid.example"; }      // tools.cc: unique_hostname (goes into Squid's own Cache-Status field)
// time/rfc1123.cc (needs libc calendar functions): text of the Date field Squid adds itself when the origin's Date was removed
// (only reached when the Connection value names "Date"); the text is irrelevant to the property
const char *Time::FormatRfc1123(time_t) { return "Thu, 01 Jan 2026 00:00:00 GMT"; }
int fdUsageHigh(void) { return 0; }                                // fd.cc: file descriptor pressure (only switches keep-alive off)

template <class T> static T *rawObject() { return static_cast<T *>(xcalloc(1, sizeof(T))); }
// real vtables (HttpRequest.cc, HttpReply.cc): the raw objects get their vptr so that virtual calls dispatch as on constructed objects
extern void *HttpRequestVtable[] __asm__("_ZTV11HttpRequest");
extern void *HttpReplyVtable[] __asm__("_ZTV9HttpReply");
static void installVptr(void *obj, void **vtable, const void *typeinfo)
{
    unsigned ti = 0;                                               // Itanium ABI: the vptr points just past the typeinfo slot
    while (vtable[ti] != typeinfo) { ++ti; vf_assert(ti < 8, "harness: typeinfo slot of the vtable found"); }
    *reinterpret_cast<void ***>(obj) = &vtable[ti + 1];
}

// Runs buildReplyHeader() for a miss being relayed. block/len: the origin's header block (parsed with the real HttpHeader::parse());
// peerLogin: cache_peer login mode of the request (nullptr = none); status: reply status code; proxyKeepalive: whether the client
// connection may persist; http11: client speaks HTTP/1.1. Returns the reply header as it will be packed for the client, or nullptr
// if the block did not parse.
HttpHeader *c04BuildReplyHeader(const char *block, const size_t len, const char *peerLogin, const int status, const bool proxyKeepalive, const bool http11)
{
    HttpRequest *req = rawObject<HttpRequest>();
    installVptr(req, HttpRequestVtable, &typeid(HttpRequest));
    new (&req->header) HttpHeader(hoRequest);
    new (&req->method) HttpRequestMethod(Http::METHOD_GET);
    req->http_ver = Http::ProtocolVersion(1, http11 ? 1 : 0);
    req->peer_login = const_cast<char *>(peerLogin);
    req->flags.proxyKeepalive = proxyKeepalive;

    HttpReply *rep = rawObject<HttpReply>();
    installVptr(rep, HttpReplyVtable, &typeid(HttpReply));
    new (&rep->header) HttpHeader(hoReply);
    rep->sline.set(Http::ProtocolVersion(1, 1), static_cast<Http::StatusCode>(status));
    Http::ContentLengthInterpreter clen;
    rep->configureContentLengthInterpreter(clen);                  // 1xx/204/304 rules, as Http::Message::parseHeader() does
    if (!rep->header.parse(block, len, clen))
        return nullptr;
    rep->content_length = rep->header.getInt64(Http::HdrType::CONTENT_LENGTH);   // Http::Message::hdrCacheInit()
    rep->keep_alive = 1;

    AccessLogEntry *al = rawObject<AccessLogEntry>();
    al->cache.code.oldType = LOG_TCP_MISS;
    ClientHttpRequest *http = rawObject<ClientHttpRequest>();
    *const_cast<HttpRequest **>(&http->request) = req;
    memcpy(const_cast<AccessLogEntry::Pointer *>(&http->al), &al, sizeof(al));    // RefCount<> holds just the raw pointer

    clientReplyContext *ctx = rawObject<clientReplyContext>();
    ctx->http = http;
    ctx->reply = rep;
    ctx->buildReplyHeader();
    return &rep->header;
}
