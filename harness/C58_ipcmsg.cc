// C58: IPC messages (Ipc::TypedMsgHdr) round-trip, and malformed received messages are rejected safely.
//
// Real code: src/ipc/TypedMsgHdr.cc (+ src/String.cc). No socket I/O is needed: what sendmsg()/recvmsg() do with a
// TypedMsgHdr is copy msg_iov[0] (the whole DataBuffer: type_, size, raw[]) and the control buffer; transport() does
// exactly that through the msghdr fields the real code maintains (msg_iov, iov_len, msg_control, msg_controllen), so
// the iovec plumbing of allocData()/allocControl()/sync() is part of what is checked.
//
//  c58_roundtrip   sender: setType + a sequence of putInt/putPod/putString/putFixed (+ optional putFd) with symbolic
//                  values -> (optionally the copy UdsSender makes) -> transport -> (checkType +
//                  the same get* sequence: same values, nothing left over; wrong type and reading past the end throw.
//  c58_capacity    a message filled to within a few bytes of maxSize, then one more item: the put succeeds iff it
//                  fits (reference: byte count), never writes past data.raw, and what fitted still round-trips.
//  c58_adversarial receiver: prepForReading() + a DataBuffer as a peer process could send it: any type_, any size,
//                  symbolic content bytes, length fields of strings anywhere in int range (see bounds); a sequence of
//                  get* calls is compared with a reference reader over a private copy of the bytes: each call either
//                  throws or returns exactly the bytes at the reference offset, and the read offset never leaves
//                  [0, min(size, maxSize)].
#include "squid.h"
#define private public            // data.type_/size/raw and offset are set as recvmsg() would set them
#include "ipc/TypedMsgHdr.h"
#undef private
#include "SquidString.h"
#include "base/TextException.h"
#include "common.h"
#include <cstring>
#include <exception>

#ifdef VF_THOROUGH
#define NITEMS 4      // items per message
#define SLEN 3        // longest string / fixed blob in the round trip
#define NOPS 3        // get* calls on an adversarial message
#else
#define NITEMS 2
#define SLEN 3
#define NOPS 2
#endif

typedef Ipc::TypedMsgHdr Msg;
enum { MAXSZ = Msg::maxSize };

struct Pod { char c; int32_t i; uint64_t q; };   // has padding, like the real PODs (Ip::Address, counters, ...)

// what sendmsg()+recvmsg() do: the receiver prepares all buffers, the kernel copies data and control
static void transport(const Msg &tx, Msg &rx)
{
    rx.prepForReading();
    vf_assert(tx.msg_iovlen <= 1 && rx.msg_iovlen == 1, "one I/O vector");
    if (tx.msg_iovlen) {
        vf_assert(tx.msg_iov[0].iov_base == (const void *)&tx.data && tx.msg_iov[0].iov_len == sizeof(tx.data), "sender iovec covers the data buffer");
        vf_assert(rx.msg_iov[0].iov_base == (void *)&rx.data && rx.msg_iov[0].iov_len == sizeof(rx.data), "receiver iovec covers the data buffer");
        memcpy(rx.msg_iov[0].iov_base, tx.msg_iov[0].iov_base, tx.msg_iov[0].iov_len);
    }
    vf_assert(rx.msg_control == (void *)&rx.ctrl && rx.msg_controllen == sizeof(rx.ctrl), "receiver offers the whole control buffer");
    if (tx.msg_control) {
        vf_assert(tx.msg_control == (const void *)&tx.ctrl && tx.msg_controllen <= sizeof(tx.ctrl), "sender control buffer");
        memcpy(rx.msg_control, tx.msg_control, tx.msg_controllen);
        rx.msg_controllen = tx.msg_controllen;
    } else
        rx.msg_controllen = 0;     // recvmsg() reports "no control data"
}

// ------------------------------------------------------------------------------------------------ round trip
struct Item { unsigned kind; int n; Pod pod; unsigned len; char bytes[8]; };
enum { kInt, kPod, kString, kFixed, kKinds };

static void putItem(Msg &m, const Item &it)
{
    switch (it.kind) {
    case kInt: m.putInt(it.n); break;
    case kPod: m.putPod(it.pod); break;
    case kString: { String s; if (it.len) s.assign(it.bytes, it.len); m.putString(s); break; }
    default: m.putFixed(it.bytes, it.len); break;
    }
}
static unsigned wireSize(const Item &it)
{
    switch (it.kind) {
    case kInt: return sizeof(int);
    case kPod: return sizeof(Pod);
    case kString: return sizeof(int) + it.len;
    default: return it.len;
    }
}
static void getAndCompare(const Msg &m, const Item &it)
{
    switch (it.kind) {
    case kInt: vf_assert(m.getInt() == it.n, "getInt returns the stored int"); break;
    case kPod: {
        Pod p; memset(&p, 0x5a, sizeof(p));
        m.getPod(p);
        vf_assert(p.c == it.pod.c && p.i == it.pod.i && p.q == it.pod.q, "getPod returns the stored POD");
        break;
    }
    case kString: {
        String s("zz");
        m.getString(s);
        vf_assert(s.size() == it.len, "getString returns a string of the stored length");
        for (unsigned k = 0; k < it.len; ++k) vf_assert(s.rawBuf()[k] == it.bytes[k], "getString returns the stored bytes");
        break;
    }
    default: {
        char b[8]; memset(b, 0x5a, sizeof(b));
        m.getFixed(b, it.len);
        for (unsigned k = 0; k < 8; ++k) vf_assert(b[k] == (k < it.len ? it.bytes[k] : 0x5a), "getFixed loads exactly the stored bytes");
        break;
    }
    }
}
static void symbolicItem(Item &it, unsigned maxLen)
{
    memset(&it, 0, sizeof(it));
    it.kind = (unsigned)vf_concretize(vf_range(0, kKinds - 1, "kind"));
    if (it.kind == kInt) it.n = (int)vf_nondet_u32("int");
    else if (it.kind == kPod) { it.pod.c = (char)vf_nondet_u8("pod.c"); it.pod.i = (int32_t)vf_nondet_u32("pod.i"); it.pod.q = vf_nondet_u64("pod.q"); }
    else {
        it.len = (unsigned)vf_concretize(vf_range(0, maxLen, "len"));
        for (unsigned k = 0; k < it.len; ++k) it.bytes[k] = (char)vf_nondet_u8("byte");
    }
}
template <class F> static bool throws(F f)
{
    try { f(); } catch (const std::exception &) { return true; }
    return false;
}

extern "C" void c58_roundtrip(void)
{
    vf_quiet();
    const int type = (int)vf_nondet_u32("type");
    vf_assume(type != 0);                       // 0 (mtNone) means "no type set"; unused on the wire
    const int otherType = (int)vf_nondet_u32("otherType");
    const unsigned nitems = (unsigned)vf_concretize(vf_range(0, NITEMS, "nitems"));
    const bool withFd = vf_concretize(vf_bool("withFd"));
    const int fd = (int)vf_nondet_u32("fd");
    const bool viaCopy = vf_concretize(vf_bool("viaCopy"));
    Item items[NITEMS];

    Msg *tx = new Msg;
    vf_assert(tx->rawType() == 0 && !tx->hasMoreData(), "fresh message: no type, no data");
    tx->setType(type);
    vf_assert(tx->rawType() == type, "setType");
    if (otherType != type)
        vf_assert(throws([&] { tx->setType(otherType); }), "a message type cannot be changed");
    unsigned total = 0;
    for (unsigned i = 0; i < nitems; ++i) {
        symbolicItem(items[i], SLEN);
        putItem(*tx, items[i]);
        total += wireSize(items[i]);
        vf_assert(tx->data.size == total, "put* appends exactly the item's bytes");
    }
    if (withFd) {
        if (fd < 0) {
            vf_assert(throws([&] { tx->putFd(fd); }), "negative descriptors are refused");
            vf_reach("badfd");
            WITNESS_POINT();
            return;
        }
        tx->putFd(fd);
        vf_assert(throws([&] { tx->putFd(fd); }), "only one descriptor per message");
    }

    // UdsSender sends a copy of the caller's message, with the destination address added
    const Msg *sent = tx;
    if (viaCopy) {
        Msg *c = new Msg(*tx);
        tx->data.type_ = 0;                      // the copy must not alias the original's buffers
        memset(tx->data.raw, 0xee, 16);
        memset(tx->ctrl.raw, 0xee, sizeof(tx->ctrl.raw));
        // (UdsSender also calls address(); not exercised: glibc's SUN_LEN() null-pointer idiom trips UBSan in the native replay)
        sent = c;
    }
    Msg *rx = new Msg;
    transport(*sent, *rx);

    vf_assert(rx->rawType() == type, "type survives");
    rx->checkType(type);
    vf_assert(throws([&] { rx->checkType(otherType); }) == (otherType != type), "checkType throws exactly for another type");
    for (unsigned i = 0; i < nitems; ++i) {
        vf_assert(rx->hasMoreData() || wireSize(items[i]) == 0, "hasMoreData before a non-empty item");
        getAndCompare(*rx, items[i]);
    }
    vf_assert(!rx->hasMoreData(), "nothing left after the last item");
    vf_assert(throws([&] { (void)rx->getInt(); }), "reading past the end throws");
    { char one; vf_assert(throws([&] { rx->getFixed(&one, 1); }), "reading one byte past the end throws"); }
    vf_assert(rx->hasFd() == withFd, "descriptor presence survives");
    if (withFd) {
        vf_assert(rx->getFd() == fd, "descriptor survives");
        vf_reach("fd");
    } else
        vf_assert(throws([&] { (void)rx->getFd(); }), "getFd without a descriptor throws");
    vf_observe("total", total);
    vf_reach("done");
    WITNESS_POINT();
}

// ------------------------------------------------------------------------------------------------ capacity boundary
extern "C" void c58_capacity(void)
{
    vf_quiet();
    static char big[MAXSZ];
    for (unsigned k = 0; k < 8; ++k) big[k] = big[MAXSZ - 1 - k] = (char)vf_nondet_u8("filler");
    const unsigned fill = (unsigned)vf_concretize(vf_range(MAXSZ - 7, MAXSZ, "fill"));
    Item it;
    symbolicItem(it, 5);

    Msg *tx = new Msg;
    tx->setType(Ipc::mtCacheMgrRequest);
    tx->putFixed(big, fill);
    vf_assert(tx->data.size == fill, "filler stored");
    const unsigned need = wireSize(it);
    // putString is putInt + putRaw: the length field may be stored before the content is refused
    const bool fits = fill + need <= MAXSZ;
    const bool threw = throws([&] { putItem(*tx, it); });
    vf_assert(threw == !fits, "put* succeeds iff the item fits into the remaining space");
    vf_assert(tx->data.size <= MAXSZ, "stored size never exceeds the buffer");
    for (unsigned k = 0; k < sizeof(tx->ctrl.raw); ++k) vf_assert(tx->ctrl.raw[k] == 0, "put* never writes past data.raw");
    vf_assert(tx->offset == 0, "put* leaves the read offset alone");
    if (fits) {
        vf_assert(tx->data.size == fill + need, "size accounts for the item");
        Msg *rx = new Msg;
        transport(*tx, *rx);
        static char back[MAXSZ];
        rx->getFixed(back, fill);
        for (unsigned k = 0; k < 8; ++k) vf_assert(back[k] == big[k] && back[fill - 1 - k] == big[fill - 1 - k], "filler round-trips");
        getAndCompare(*rx, it);
        vf_assert(!rx->hasMoreData(), "nothing left");
        vf_reach("fits");
    } else
        vf_reach("full");
    WITNESS_POINT();
}

// ------------------------------------------------------------------------------------------------ adversarial receive
// Reference reader over a private copy of the received bytes: all arithmetic in 64 bits, no wrap-around possible.
struct RefReader {
    const uint8_t *bytes;   // copy of data.raw
    uint64_t size;          // claimed data.size
    uint64_t off;
    // a claimed size beyond the buffer is an out-of-range length: every (non-empty) read of such a message is an error
    bool can(uint64_t n) const { return size <= MAXSZ && n <= MAXSZ && off <= size && n <= size - off && off + n <= MAXSZ; }
};
enum { oInt, oString, oPod, oFixed, oKinds };
struct Op { unsigned kind; size_t n; };
static const size_t fixedSizes[] = { 0, 1, 3, MAXSZ - 4, MAXSZ, MAXSZ + 1 };

// one get* call against the reference; returns false when the call threw (receivers abandon the message then)
static bool step(const Msg &rx, RefReader &ref, const Op &op)
{
    bool threw = false, expectThrow = false;
    if (op.kind == oInt) {
        int v = 0x5a5a5a5a;
        try { v = rx.getInt(); } catch (const std::exception &) { threw = true; }
        expectThrow = !ref.can(4);
        if (!expectThrow) { int e; memcpy(&e, ref.bytes + ref.off, 4); ref.off += 4; if (!threw) vf_assert(v == e, "getInt returns the bytes at the read offset"); }
    } else if (op.kind == oString) {
        String s("zz");
        try { rx.getString(s); } catch (const std::exception &) { threw = true; }
        if (!ref.can(4)) expectThrow = true;
        else {
            int32_t l; memcpy(&l, ref.bytes + ref.off, 4); ref.off += 4;
            if (l < 0 || l > MAXSZ || !ref.can((uint64_t)l)) expectThrow = true;
            else {
                if (!threw) {
                    vf_assert((int64_t)s.size() == l, "getString returns the announced length");
                    for (int k = 0; k < l && k < 16; ++k) vf_assert((uint8_t)s.rawBuf()[k] == ref.bytes[ref.off + k], "getString returns the bytes after the length field");
                    for (int k = l > 16 ? l - 16 : 0; k < l; ++k) vf_assert((uint8_t)s.rawBuf()[k] == ref.bytes[ref.off + k], "getString returns the bytes after the length field (tail)");
                }
                ref.off += l;
            }
        }
    } else if (op.kind == oPod) {
        Pod p; memset(&p, 0x5a, sizeof(p));
        try { rx.getPod(p); } catch (const std::exception &) { threw = true; }
        expectThrow = !ref.can(sizeof(Pod));
        if (!expectThrow) { if (!threw) vf_assert(memcmp(&p, ref.bytes + ref.off, sizeof(Pod)) == 0, "getPod returns the bytes at the read offset"); ref.off += sizeof(Pod); }
    } else { // getFixed with a caller-chosen constant size, small or huge
        static char dst[MAXSZ + 1];
        const size_t n = op.n;
        try { rx.getFixed(dst, n); } catch (const std::exception &) { threw = true; }
        expectThrow = n > 0 && !ref.can(n);
        if (!expectThrow) {
            if (!threw) {
                for (size_t k = 0; k < n && k < 8; ++k) vf_assert((uint8_t)dst[k] == ref.bytes[ref.off + k], "getFixed returns the bytes at the read offset");
                for (size_t k = n > 8 ? n - 8 : 0; k < n; ++k) vf_assert((uint8_t)dst[k] == ref.bytes[ref.off + k], "getFixed returns the bytes at the read offset (tail)");
            }
            ref.off += n;
        }
    }
    vf_assert(threw || !expectThrow, "truncated content / out-of-range length raises an error");
    vf_assert(!threw || expectThrow, "a well-formed part is accepted");
    vf_assert(rx.offset <= MAXSZ && rx.offset <= ref.size, "the read offset stays inside the received data");
    if (!threw) vf_assert(rx.offset == ref.off, "the read offset advances by exactly the part's size");
    vf_observe("threw", threw);
    return !threw;
}

static void receiveAndRead(const uint8_t *copy, const uint64_t size, const Op *ops, const unsigned nops)
{
    Msg *rx = new Msg;
    rx->prepForReading();
    // ---- what recvmsg() stores: the DataBuffer a peer chose
    const int type = (int)vf_nondet_u32("type_");
    rx->data.type_ = type;
    rx->data.size = size;
    memcpy(rx->data.raw, copy, MAXSZ);

    const int wanted = (int)vf_nondet_u32("wantedType");
    vf_assert(rx->rawType() == type, "rawType reports what was received");
    vf_assert(throws([&] { rx->checkType(wanted); }) == (wanted != type), "checkType throws exactly for a wrong type");

    RefReader ref = { copy, size, 0 };
    bool anyOk = false, anyThrow = false;
    for (unsigned i = 0; i < nops; ++i) {
        const bool ok = step(*rx, ref, ops[i]);
        anyOk = anyOk || ok; anyThrow = anyThrow || !ok;
        if (!ok) break;
    }
    vf_assert(rx->hasMoreData() == (rx->offset < size), "hasMoreData");
    if (anyOk) vf_reach("accepted");
    if (anyThrow) vf_reach("rejected");
    WITNESS_POINT();
}

static uint8_t copyBuf[MAXSZ + 64];
static void symAt(uint64_t pos) { if (pos < MAXSZ) copyBuf[pos] = vf_nondet_u8("raw"); }

// Structured adversarial message: the get* sequence is chosen first and symbolic bytes are placed where a reader of
// that sequence looks (first/last bytes of every part), string length fields are symbolic ints confined to
// int range minus (3, maxSize-5): every negative, every too-large value and both boundary windows. data.size is any
// 64-bit value, including values far beyond maxSize.
extern "C" void c58_adversarial(void)
{
    vf_quiet();
    Op ops[NOPS];
    const unsigned nops = (unsigned)vf_concretize(vf_range(1, NOPS, "nops"));
    uint64_t lo = 0;
    for (unsigned i = 0; i < nops; ++i) {
        ops[i].kind = (unsigned)vf_concretize(vf_range(0, oKinds - 1, "op"));
        ops[i].n = 0;
        if (ops[i].kind == oInt) { for (int k = 0; k < 4; ++k) symAt(lo + k); lo += 4; }
        else if (ops[i].kind == oPod) { for (unsigned k = 0; k < sizeof(Pod); ++k) symAt(lo + k); lo += sizeof(Pod); }
        else if (ops[i].kind == oFixed) {
            const size_t n = ops[i].n = fixedSizes[vf_concretize(vf_range(0, 5, "fixedSize"))];
            for (size_t k = 0; k < n && k < 3; ++k) { symAt(lo + k); symAt(lo + n - 1 - k); }
            lo += n;
        } else {
            int32_t l = (int32_t)vf_nondet_u32("strlen");
            vf_assume(!(l > 3 && l < MAXSZ - 5));
            const bool plausible = l >= 0 && l <= MAXSZ;
            if (plausible) l = (int32_t)vf_concretize((uint32_t)l);
            if (lo + 4 <= MAXSZ) memcpy(copyBuf + lo, &l, 4);
            lo += 4;
            if (plausible) { for (int k = 0; k < l && k < 3; ++k) { symAt(lo + k); symAt(lo + l - 1 - k); } lo += l; }
        }
        if (lo > MAXSZ) lo = MAXSZ;     // nothing to place beyond the buffer
    }
    const uint64_t size = vf_nondet_u64("size");
    // A received data.size > maxSize used to be trusted by getRaw() (heap over-read); repaired in /repo by the
    // 'fix: TypedMsgHdr::getRaw() trusted a received data.size ...' commit. The size is therefore unconstrained here.
    receiveAndRead(copyBuf, size, ops, nops);
}

// Unstructured adversarial message: NRAW fully symbolic content bytes (every length field a reader may find there is
// unconstrained), claimed size 0..NRAW+4 (so the claimed size may exceed what was really sent; the rest is zero).
#define NRAW 12
extern "C" void c58_adversarial_raw(void)
{
    vf_quiet();
    for (unsigned k = 0; k < NRAW; ++k) copyBuf[k] = vf_nondet_u8("raw");
    const uint64_t size = vf_nondet_u64("size");
    vf_assume(size <= NRAW + 4);
    Op ops[NOPS];
    const unsigned nops = (unsigned)vf_concretize(vf_range(1, NOPS, "nops"));
    for (unsigned i = 0; i < nops; ++i) {
        ops[i].kind = (unsigned)vf_concretize(vf_range(0, oKinds - 1, "op"));
        ops[i].n = ops[i].kind == oFixed ? fixedSizes[vf_concretize(vf_range(0, 2, "fixedSize"))] : 0;
    }
    receiveAndRead(copyBuf, size, ops, nops);
}
