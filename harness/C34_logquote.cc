// C34 (kernel): client-controlled bytes cannot break an access.log record under any logformat quoting,
// and the quoting transformations are reversible.
//
// Real code encoded (re-read from the repo on every run):
//   src/format/Quoting.cc   Format::QuoteMimeBlob, Format::QuoteUrlEncodeUsername
//   src/format/Format.cc    (#included: the static log_quoted_string(), Format::Format::parse(), and the quoting switch at the
//                            end of Format::Format::assemble())
//   src/format/Token.cc     Format::Token::parse() (the quoting modifiers " [ # / and the "..." / [...] toggles of literals)
//   lib/rfc1738.cc          rfc1738_do_escape (URL quoting and the default quoting of a field that asks for it)
//   src/tools.cc            strwordquote (shell quoting);  src/MemBuf.cc
//
// Symbolic: the logged datum (every NUL-free byte string up to the bound; logged strings are C strings).
// Oracles (written here, independent of the code under test): for each quoting a *reference field reader/un-quoter* that
// follows the documented output syntax; it must (a) find the end of the field exactly where the quoter stopped (so no byte
// of the datum acted as a field delimiter), (b) see no raw CR/LF, (c) return the original datum (reversibility; not for the
// default quoting, which is documented as not reversible: it leaves %XX-looking input alone).
#include "squid.h"
#include <sstream>
#include <functional>
#include <chrono>
#include <atomic>
#include <iostream>
#include <string>
#include <vector>
#include <list>
#include <map>
#include <unordered_map>
#include <memory>
#include <algorithm>
#include "debug/Stream.h"
#include "SquidString.h"
#include "sbuf/SBuf.h"
#include "base/RefCount.h"
#include "base/TextException.h"
#include "format/Format.cc"     // the real translation unit: log_quoted_string() is static
#include "format/Quoting.h"
#include "rfc1738.h"
#include "tools.h"
#include "common.h"

#ifdef VF_THOROUGH
#define NFUN 5      // datum length bound for the quoting functions
#define NURL 3      // ... for rfc1738_do_escape (about 22 byte classes: it tests the unsafe characters one by one)
#define NREC 4      // datum length bound for whole records (quoted-string and shell layouts)
#define NRECM 3     // ... mime-blob layouts (the c2x[] hex table lookups are expensive solver queries)
#else
#define NFUN 4
#define NURL 2
#define NREC 3
#define NRECM 2
#endif

// ---------------------------------------------------------------- reference readers / un-quoters
struct Field { unsigned end; unsigned n; unsigned char v[3 * 8]; bool ok; };
static bool isWs(unsigned char c) { return c == ' ' || (c >= 9 && c <= 13); }
// branch-free (a symbolic hex digit must not fork the path): value 0..15, or -1 for a non-digit
static int hexv(unsigned char c, bool upper)
{
    const unsigned d = (unsigned)c - '0', a = (unsigned)c - (upper ? 'A' : 'a');
    const int isd = d < 10, isa = a < 6;
    return (int)(isd * d + isa * (a + 10)) - (1 - (isd | isa));
}

// quoted-string body: ends at the first unescaped '"' or at the end of the text; \r \n \t \x escapes
static Field readQuotedString(const char *q, unsigned i)
{
    Field f; f.n = 0; f.ok = true;
    for (; q[i] && q[i] != '"';) {
        unsigned char c = (unsigned char)q[i];
        if (c == '\\') {
            const unsigned char e = (unsigned char)q[i + 1];
            if (!e) { f.ok = false; break; }
            c = e == 'r' ? '\r' : e == 'n' ? '\n' : e == 't' ? '\t' : e;
            if (e == '\r' || e == '\n') f.ok = false;
            i += 2;
        } else {
            if (c == '\r' || c == '\n' || c == '\t') f.ok = false; // must have been escaped
            ++i;
        }
        f.v[f.n++] = c;
    }
    f.end = i;
    return f;
}

// mime-blob body ("squid text log format as used by log_mime_hdrs"): ends at ']' or end of text; %xx, \r, \n, \\ escapes
static Field readMimeBlob(const char *q, unsigned i)
{
    Field f; f.n = 0; f.ok = true;
    for (; q[i] && q[i] != ']';) {
        unsigned char c = (unsigned char)q[i];
        if (c == '\\') {
            const unsigned char e = (unsigned char)q[i + 1];
            if (e == 'r') c = '\r'; else if (e == 'n') c = '\n'; else if (e == '\\') c = '\\'; else f.ok = false;
            i += 2;
        } else if (c == '%') {
            const int h = hexv((unsigned char)q[i + 1], false), l = h < 0 ? -1 : hexv((unsigned char)q[i + 2], false);
            if (h < 0 || l < 0) { f.ok = false; ++i; } else { c = (unsigned char)(h * 16 + l); i += 3; }
        } else {
            if (c < 0x20 || c >= 0x7f || c == '[') f.ok = false; // line breaks, controls, non-ASCII and brackets never raw
            ++i;
        }
        f.v[f.n++] = c;
    }
    f.end = i;
    return f;
}

// URL-quoted token: ends at whitespace (or at '"' when the logformat put it inside "...") or end of text; %XX escapes
static Field readUrlToken(const char *q, unsigned i, const bool decode, const bool insideQuotes = false)
{
    Field f; f.n = 0; f.ok = true;
    for (; q[i] && !isWs((unsigned char)q[i]) && !(insideQuotes && q[i] == '"');) {
        unsigned char c = (unsigned char)q[i];
        if (c == '%' && decode) {
            const int h = hexv((unsigned char)q[i + 1], true), l = h < 0 ? -1 : hexv((unsigned char)q[i + 2], true);
            if (h < 0 || l < 0) { f.ok = false; ++i; } else { c = (unsigned char)(h * 16 + l); i += 3; }
        } else {
            if (c < 0x21 || c >= 0x7f || c == '"') f.ok = false;
            ++i;
        }
        f.v[f.n++] = c;
    }
    f.end = i;
    return f;
}

// shell word: either "..." or a bare word ending at whitespace; \n \r \x escapes in both
static Field readShellWord(const char *q, unsigned i)
{
    Field f; f.n = 0; f.ok = true;
    const bool quoted = q[i] == '"';
    if (quoted) ++i;
    for (; q[i];) {
        unsigned char c = (unsigned char)q[i];
        if (quoted ? c == '"' : isWs(c)) break;
        if (c == '\\') {
            const unsigned char e = (unsigned char)q[i + 1];
            if (!e) { f.ok = false; break; }
            c = e == 'r' ? '\r' : e == 'n' ? '\n' : e;
            if (e == '\r' || e == '\n') f.ok = false;
            i += 2;
        } else {
            if (c == '\r' || c == '\n' || (!quoted && c == '"')) f.ok = false;
            ++i;
        }
        f.v[f.n++] = c;
    }
    if (quoted) { if (q[i] == '"') ++i; else f.ok = false; }
    f.end = i;
    return f;
}

static void sameDatum(const Field &f, const char *d, const unsigned n, const char *what)
{
    bool same = f.n == n;
    for (unsigned i = 0; same && i < n; ++i) same = f.v[i] == (unsigned char)d[i];
    vf_assert(same, what);
}
static void noLineBreak(const char *q)
{
    for (unsigned i = 0; q[i]; ++i) vf_assert(q[i] != '\r' && q[i] != '\n', "no raw CR or LF in the quoted output");
}

// every NUL-free string of 0..maxLen bytes, in an exact-size heap block (so that an over-read is a memory-safety violation)
static char *datum(const unsigned minLen, const unsigned maxLen, unsigned &n, const bool printable = false)
{
    n = (unsigned)vf_concretize(vf_range(minLen, maxLen, "len"));
    char *d = (char *)xmalloc(n + 1);
    for (unsigned i = 0; i < n; ++i) { d[i] = (char)vf_nondet_u8("byte"); vf_assume(d[i] != 0); if (printable) vf_assume(d[i] >= 0x20 && d[i] <= 0x7e); }
    d[n] = 0;
    return d;
}

// ---------------------------------------------------------------- the quoting functions on their own
static void mimeblob(const unsigned maxLen, const bool printable)
{
    vf_quiet();
    unsigned n; char *d = datum(0, maxLen, n, printable);
    char *q = Format::QuoteMimeBlob(d);
    const unsigned ql = strlen(q);
    vf_observe("ql", ql);
    vf_assert(ql <= 3 * n, "mime-blob output fits 3*len");
    noLineBreak(q);
    const Field f = readMimeBlob(q, 0);
    vf_assert(f.ok, "mime-blob output: only printable ASCII, no raw bracket, well-formed escapes");
    vf_assert(f.end == ql, "mime-blob output contains no raw ']' (the delimiter of the [...] field)");
    sameDatum(f, d, n, "un-quoting the mime-blob output returns the datum");
    xfree(q);
    char *e = Format::QuoteMimeBlob(nullptr);
    vf_assert(e && !*e, "QuoteMimeBlob(NULL) is the empty string");
    xfree(e);
    vf_reach("done");
    WITNESS_POINT();
}
extern "C" void c34_mimeblob(void) { mimeblob(NFUN - 1, false); }
extern "C" void c34_mimeblob_printable(void) { mimeblob(NFUN, true); }

static bool onlyNamesWithSpace = false; // set by c34_known_username_space only
static void username(const unsigned minLen, const unsigned maxLen)
{
    vf_quiet();
    unsigned n; char *d = datum(minLen, maxLen, n);
    // KNOWN FINDING C34-username-space (known_findings.json): Format::QuoteUrlEncodeUsername ("Safely URL-encode a username")
    // is QuoteMimeBlob, which leaves a space (0x20) raw. The built-in squid/common/combined/icap log formats (and %[un of the
    // default "squid" logformat) print the user name as a bare, space-delimited field, so a user name containing a space
    // ("foo bar" is a legal Basic/Digest user name) adds a field to the record: the assertion marked (*) fails.
    // The class (user names containing a space) is examined by its own entry, c34_known_username_space; every other entry
    // excludes exactly this class.
    int hasSpace = 0;
    for (unsigned i = 0; i < n; ++i) hasSpace |= (d[i] == ' ');
    vf_assume((hasSpace != 0) == onlyNamesWithSpace);
    char *q = Format::QuoteUrlEncodeUsername(d);
    vf_assert((q == nullptr) == (n == 0), "no user name (NULL) exactly for the empty name");
    vf_assert(Format::QuoteUrlEncodeUsername(nullptr) == nullptr, "no user name for NULL");
    if (q) {
        noLineBreak(q);
        for (unsigned i = 0; q[i]; ++i)
            vf_assert(!isWs((unsigned char)q[i]), "quoted user name contains no whitespace (it is a space-delimited field) (*)");
        const Field f = readMimeBlob(q, 0);
        vf_assert(f.ok && !q[f.end], "quoted user name: only printable ASCII, well-formed escapes");
        sameDatum(f, d, n, "un-quoting the user name returns the original");
        vf_observe("ql", strlen(q));
        xfree(q);
        vf_reach("name");
    } else
        vf_reach("none");
    WITNESS_POINT();
}
extern "C" void c34_username(void) { username(0, NFUN - 2); }
// KNOWN FINDING (known_findings.json, C34-username-space): user names of 1..2 bytes containing a space
extern "C" void c34_known_username_space(void) { onlyNamesWithSpace = true; username(1, 2); }

extern "C" void c34_quoted_string(void)
{
    vf_quiet();
    unsigned n; char *d = datum(0, NFUN, n);
    char *q = (char *)xmalloc(2 * n + 1);   // the size Format::assemble() provides: strlen*2+1
    log_quoted_string(d, q);
    const unsigned ql = strlen(q);
    vf_observe("ql", ql);
    noLineBreak(q);
    const Field f = readQuotedString(q, 0);
    vf_assert(f.ok, "quoted-string output: CR, LF and TAB only as escapes");
    vf_assert(f.end == ql, "quoted-string output contains no unescaped '\"' (the delimiter of the \"...\" field)");
    sameDatum(f, d, n, "un-quoting the quoted-string output returns the datum");
    vf_reach("done");
    WITNESS_POINT();
}

extern "C" void c34_url(void)
{
    vf_quiet();
    unsigned n; char *d = datum(0, NURL, n);
    const char *q = rfc1738_escape(d);
    const unsigned ql = strlen(q);
    vf_observe("ql", ql);
    noLineBreak(q);
    const Field f = readUrlToken(q, 0, true);
    vf_assert(f.ok, "URL-quoted output: printable ASCII without '\"', well-formed %XX");
    vf_assert(f.end == ql, "URL-quoted output contains no whitespace (it is a space-delimited field)");
    sameDatum(f, d, n, "un-quoting the URL-quoted output returns the datum");
    // default quoting of a field that asks for quoting: same alphabet, but existing %XX are kept (not reversible)
    const char *u = rfc1738_escape_unescaped(d);
    noLineBreak(u);
    const Field g = readUrlToken(u, 0, false);
    vf_assert(g.ok && !u[g.end], "default-quoted output: printable ASCII without '\"' and whitespace");
    vf_reach("done");
    WITNESS_POINT();
}

static bool hasUnquotedShellSeparator(const char *d, const unsigned n)
{
    bool space = false, otherWs = false;
    for (unsigned i = 0; i < n; ++i) { if (d[i] == ' ') space = true; else if (d[i] == '\t' || d[i] == '\v' || d[i] == '\f') otherWs = true; }
    return otherWs && !space;
}

static bool onlyBareWordsWithWhitespace = false; // set by c34_known_shell_whitespace only
static void shell(const unsigned minLen, const unsigned maxLen)
{
    vf_quiet();
    unsigned n; char *d = datum(minLen, maxLen, n);
    // KNOWN FINDING C34-shell-quote-whitespace (known_findings.json): strwordquote() puts the word in double quotes only when it
    // contains a space (strchr(str,' ')) and never escapes TAB, VT or FF. A datum with one of those and no space is emitted
    // as a bare word with the raw whitespace in it, which every shell-style tokenizer (including Squid's own strwordtok():
    // xisspace) splits in two: the assertion marked (*) fails (and with it the round trip).
    // The class (data containing TAB/VT/FF but no space) is examined by its own entry, c34_known_shell_whitespace; every
    // other entry (also the %/ layout of c34_record_url_shell) excludes exactly this class.
    vf_assume(hasUnquotedShellSeparator(d, n) == onlyBareWordsWithWhitespace);
    MemBuf mb; mb.init();
    strwordquote(&mb, d);
    const char *q = mb.content();
    const unsigned ql = strlen(q);
    vf_observe("ql", ql);
    vf_assert(ql == (unsigned)mb.contentSize(), "no NUL inside the shell-quoted output");
    noLineBreak(q);
    const Field f = readShellWord(q, 0);
    vf_assert(f.ok, "shell-quoted output: CR/LF only as escapes, quotes balanced");
    vf_assert(f.end == ql, "shell-quoted output is exactly one shell word (*)");
    sameDatum(f, d, n, "un-quoting the shell word returns the datum");
    vf_reach(q[0] == '"' ? "quoted" : "bare");
    mb.clean();
    WITNESS_POINT();
}
extern "C" void c34_shell(void) { shell(0, NFUN); }
// KNOWN FINDING (known_findings.json, C34-shell-quote-whitespace): data of 1..2 bytes with TAB/VT/FF and no space
extern "C" void c34_known_shell_whitespace(void) { onlyBareWordsWithWhitespace = true; shell(1, 2); }

// ---------------------------------------------------------------- whole records through Format::parse()/assemble()
// The datum is the client's request header block (%>h = al->headers.request, a field for which assemble() asks for quoting).
// Record layout "x <field> y": the reference reader for the quoting in force must find the field's end exactly 2 bytes
// before the end of the record, i.e. the record has exactly three fields, and no line break.
struct Layout { const char *def; char kind; const char *label; };
static const Layout layouts[] = {
    {"x %>h y", 'd', "default"},          // no modifier: rfc1738_escape_unescaped
    {"x \"%>h\" y", 'q', "quotes"},       // "..." literal toggles quoted-string quoting
    {"x \"%\">h\" y", 'q', "quotes"},     // explicit %" inside "..."
    {"x [%>h] y", 'm', "mime"},           // [...] literal toggles mime-blob quoting
    {"x [%[>h] y", 'm', "mime"},          // explicit %[
    {"x %#>h y", 'u', "url"},             // explicit %#
    {"x %/>h y", 's', "shell"},           // explicit %/
    {"x \"%#>h\" y", 'U', "url"},         // explicit modifier overrides the toggled one
};

// AccessLogEntry without its constructor chain (HierarchyLogEntry, timers, ...): zeroed memory; %>h reads only headers.request
// (and icap.reqMethod == methodNone). No vtable pointer exists in such a block, so the RefCount<> handed to assemble() is
// fabricated as well (a RefCount is one raw pointer); nothing locks, unlocks or destroys the entry.
struct RawPointer { AccessLogEntry *p; };
static_assert(sizeof(RawPointer) == sizeof(AccessLogEntry::Pointer), "RefCount is a single pointer");

static void record(const unsigned first, const unsigned last)
{
    vf_quiet();
    const unsigned li = first + (unsigned)vf_concretize(vf_range(0, last - first, "layout"));
    const Layout &L = layouts[li];
    const unsigned maxLen = (L.kind == 'd' || L.kind == 'u' || L.kind == 'U') ? NURL : L.kind == 'm' ? NRECM : NREC;
    unsigned n; char *d = datum(1, maxLen, n);   // an empty datum is logged as "-"
    if (L.kind == 's')
        vf_assume(!hasUnquotedShellSeparator(d, n)); // known finding C34-shell-quote-whitespace: see shell()
    Format::Format fmt("c34");
    const bool parsed = fmt.parse(L.def);
    vf_assert(parsed, "logformat definition accepted");
    RawPointer raw = { static_cast<AccessLogEntry *>(xcalloc(1, sizeof(AccessLogEntry))) };
    raw.p->headers.request = d;
    const AccessLogEntry::Pointer &al = *reinterpret_cast<const AccessLogEntry::Pointer *>(&raw);
    MemBuf mb; mb.init();
    fmt.assemble(mb, al, 0);
    const char *r = mb.content();
    const unsigned rl = strlen(r);
    vf_observe("rl", rl);
    vf_assert(rl == (unsigned)mb.contentSize(), "no NUL inside the record");
    noLineBreak(r);
    vf_assert(rl >= 5 && r[0] == 'x' && r[1] == ' ' && r[rl - 2] == ' ' && r[rl - 1] == 'y', "record keeps its literal fields");
    Field f; unsigned i = 2;
    switch (L.kind) {
    case 'q': vf_assert(r[i] == '"', "opening quote"); f = readQuotedString(r, i + 1);
        vf_assert(f.ok && r[f.end] == '"', "quoted field ends at a quote"); f.end += 1; break;
    case 'm': vf_assert(r[i] == '[', "opening bracket"); f = readMimeBlob(r, i + 1);
        vf_assert(f.ok && r[f.end] == ']', "bracketed field ends at a bracket"); f.end += 1; break;
    case 'u': f = readUrlToken(r, i, true); vf_assert(f.ok, "URL-quoted field well-formed"); break;
    case 'U': vf_assert(r[i] == '"', "opening quote"); f = readUrlToken(r, i + 1, true, true);
        vf_assert(f.ok && r[f.end] == '"', "URL-quoted field inside quotes ends at the closing quote"); f.end += 1; break;
    case 's': f = readShellWord(r, i); vf_assert(f.ok, "shell word well-formed"); break;
    default: f = readUrlToken(r, i, false); vf_assert(f.ok, "default-quoted field well-formed"); break;
    }
    vf_assert(f.end == rl - 2, "the record has exactly the three fields of its logformat: the datum added no delimiter");
    if (L.kind != 'd')
        sameDatum(f, d, n, "un-quoting the logged field returns the datum");
    vf_reach(L.label);
    WITNESS_POINT();
}
extern "C" void c34_record_default_quotes(void) { record(0, 2); }
extern "C" void c34_record_mime(void) { record(3, 4); }
extern "C" void c34_record_url_shell(void) { record(5, 7); }
