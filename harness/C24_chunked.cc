// C24: chunked transfer decoding is exact and rejects malformed framing.
// The real Http1::TeChunkedParser is driven as ConnStateData::handleChunkedRequestBody() / HttpStateData::
// decodeAndWriteReplyBody() / Adaptation::Icap::ModXact drive it:
//     setPayloadBuffer(&memBuf); done = parse(inBuf); inBuf = remaining(); caller drains memBuf;
//     re-parse when needsMoreSpace() was reported and space has been freed, otherwise append the next input segment.
// Two kinds of entries:
//  (a) c24_rt_*: a reference ENCODER in the harness builds a valid chunked encoding of a symbolic body (symbolic body
//      bytes, symbolic extension/trailer bytes constrained to their RFC 9112 classes; chunk cuts, leading zeros, hex-digit
//      case, SP/HTAB, extension shape, output-space limit are case-split). For one-shot delivery, every split point
//      (thorough: every pair for short inputs) and byte-by-byte delivery: decoded == body, consumed == encoded length;
//      every strict prefix only ever yields "need more data" (no exception, no early completion).
//  (b) c24_g_* / c24_any: a concrete skeleton with fully symbolic (unconstrained) bytes at the framing positions; a
//      reference DECODER in the harness (RFC 9112 section 7.1 grammar + Squid's documented tolerances, three outcomes
//      DONE / MORE / BAD) is the oracle: the parser must complete, ask for more data, or throw exactly when the
//      reference says so, with the same decoded bytes and consumed length, under every segmentation as in (a).
#include "http1.h"
#include "http/one/TeChunkedParser.h"
#include "MemBuf.h"

enum { DONE = 0, MORE = 1, BAD = 2 };
#define MAXOUT 48
#define MAXIN 96
struct Outcome {
    int st;
    unsigned consumed, outLen;
    uint8_t out[MAXOUT];
};

// ---- the caller's loop. cuts[0..ncuts) are the (non-decreasing) ends of the delivered segments, cuts[ncuts-1] == n.
// cap = output-space limit (the MemBuf can hold at most cap content bytes); the caller drains it after every parse().
static Outcome drive(const uint8_t *in, const unsigned n, const uint8_t *cuts, const unsigned ncuts, const unsigned cap)
{
    Http1::TeChunkedParser p;
    MemBuf mb;
    mb.init(cap + 1, cap + 1); // MemBuf reserves one byte for its terminator
    SBuf inBuf;
    unsigned delivered = 0, k = 0;
    bool again = false; // re-parse without new input: the parser wanted space and the caller has freed some
    Outcome o;
    o.st = MORE; o.outLen = 0; o.consumed = 0;
    try {
        for (;;) {
            if (!again) {
                while (k < ncuts && cuts[k] == delivered) ++k; // empty segments produce no read event
                if (k == ncuts) break;                         // no more input; the parser still wants some
                inBuf.append(reinterpret_cast<const char *>(in) + delivered, cuts[k] - delivered);
                delivered = cuts[k];
            }
            p.setPayloadBuffer(&mb);
            const bool done = p.parse(inBuf);
            inBuf = p.remaining(); // "sync buffers after parse"
            const bool wantsSpace = p.needsMoreSpace();
            const unsigned got = mb.contentSize();
            vf_assert(got <= cap, "decoder never exceeds the output-space limit");
            vf_assert(o.outLen + got <= MAXOUT, "harness: output array large enough");
            for (unsigned i = 0; i < got; ++i) o.out[o.outLen++] = (uint8_t)mb.content()[i];
            mb.consume(got);
            if (done) { o.st = DONE; break; }
            if (!p.needsMoreData()) { o.st = BAD; break; } // terminal state without success (oversized trailers; outside the bounds)
            // ConnStateData: Must(!needsMoreSpace() || bodyPipe->buf().hasContent())
            vf_assert(!wantsSpace || got > 0, "needsMoreSpace() only when the output buffer holds something to drain");
            again = wantsSpace && !inBuf.isEmpty();
        }
        o.consumed = delivered - inBuf.length();
    } catch (...) { // callers treat every exception escaping parse() as malformed chunks
        o.st = BAD;
    }
    return o;
}

// runs check(cuts, ncuts) for the one-shot delivery, every split point (thorough: every pair of split points of inputs
// of at most PAIRMAX bytes) and byte-by-byte delivery
#define PAIRMAX 11
template <class F> static void forAllSegmentations(const unsigned n, F check)
{
    uint8_t cuts[MAXIN];
    cuts[0] = n; check(cuts, 1);
    for (unsigned s = 1; s < n; ++s) {
        cuts[0] = s; cuts[1] = n; check(cuts, 2);
#ifdef VF_THOROUGH
        for (unsigned t = s + 1; t < n && n <= PAIRMAX; ++t) { cuts[0] = s; cuts[1] = t; cuts[2] = n; check(cuts, 3); }
#endif
    }
    for (unsigned i = 0; i < n; ++i) cuts[i] = i + 1;
    if (n > 2) check(cuts, n);
}

// ---- character classes of RFC 9110/9112, written without short-circuit operators so that they are single terms
static inline bool rng(uint8_t c, uint8_t lo, uint8_t hi) { return (c >= lo) & (c <= hi); }
static inline bool isAlnum(uint8_t c) { return rng(c, '0', '9') | rng(c, 'a', 'z') | rng(c, 'A', 'Z'); }
static inline bool isTchar(uint8_t c)
{
    return isAlnum(c) | (c == '!') | (c == '#') | (c == '$') | (c == '%') | (c == '&') | (c == '\'') | (c == '*') | (c == '+') |
           (c == '-') | (c == '.') | (c == '^') | (c == '_') | (c == '`') | (c == '|') | (c == '~');
}
static inline bool isQdtext(uint8_t c) { return (c == '\t') | (c == ' ') | (c == 0x21) | rng(c, 0x23, 0x5B) | rng(c, 0x5D, 0x7E) | (c >= 0x80); }
static inline bool isQpair(uint8_t c) { return (c == '\t') | (c == ' ') | rng(c, 0x21, 0x7E) | (c >= 0x80); }
static inline bool isWsp(uint8_t c) { return (c == ' ') | (c == '\t'); }
// BWS as ParseBws() documents it: SP / HTAB, and with relaxed_header_parser also VT, FF and bare CR
static inline bool isBws(uint8_t c, bool relaxed) { return isWsp(c) | (relaxed & ((c == 0x0B) | (c == 0x0C) | (c == '\r'))); }
static inline int hexVal(uint8_t c) { return rng(c, '0', '9') ? c - '0' : rng(c, 'a', 'f') ? c - 'a' + 10 : rng(c, 'A', 'F') ? c - 'A' + 10 : -1; }

// =====================================================================================================================
// (b) reference decoder: RFC 9112 7.1
//   chunked-body = *chunk last-chunk trailer-section CRLF
//   chunk = chunk-size [chunk-ext] CRLF chunk-data CRLF ; chunk-size = 1*HEXDIG ; last-chunk = 1*"0" [chunk-ext] CRLF
//   chunk-ext = *( BWS ";" BWS chunk-ext-name [ BWS "=" BWS chunk-ext-val ] ) ; name = token ; val = token / quoted-string
// plus: chunk-size must not start with 0x/0X and must fit in 63 bits (property text); optional SP/HTAB between chunk-size
// and chunk-ext/CRLF (Squid bug 4492 tolerance); trailer-section = lines ended by LF up to the first empty line (CRLF or
// bare LF), as mime header blocks are delimited everywhere in Squid.
// MORE = the input is a strict prefix of something acceptable; BAD = no continuation can make it acceptable.
#define NEED(cond) do { if (cond) { r.st = MORE; return r; } } while (0)
#define REJECT() do { r.st = BAD; return r; } while (0)
static Outcome reference(const uint8_t *x, const unsigned n, const bool relaxed)
{
    Outcome r;
    r.st = MORE; r.consumed = 0; r.outLen = 0;
    unsigned p = 0;
    for (;;) {
        // chunk-size
        NEED(p == n);
        if (x[p] == '0' && p + 1 < n && (x[p + 1] == 'x' || x[p + 1] == 'X')) REJECT();
        uint64_t size = 0; bool tooBig = false; unsigned nd = 0;
        for (; p < n && hexVal(x[p]) >= 0; ++p, ++nd) {
            if (size >= (1ULL << 59)) tooBig = true; // size*16 + d would need more than 63 bits
            else size = size * 16 + (unsigned)hexVal(x[p]);
        }
        if (!nd || tooBig) REJECT();
        NEED(p == n); // more digits may follow
        while (p < n && isWsp(x[p])) ++p;
        NEED(p == n);
        // chunk-ext list
        unsigned nExt = 0;
        for (;;) {
            unsigned q = p;
            while (q < n && isBws(x[q], relaxed)) ++q;
            NEED(q == n);
            if (x[q] != ';') { // BWS is only allowed in front of ";"
                // (SP/HTAB between a complete chunk-ext and the CRLF is malformed. It used to be accepted when a segment
                // ended inside that whitespace; repaired in /repo by the 'fix: chunk-ext followed by whitespace ...' commit.)
                break;
            }
            ++q;
            while (q < n && isBws(x[q], relaxed)) ++q;
            NEED(q == n);
            if (!isTchar(x[q])) REJECT();
            while (q < n && isTchar(x[q])) ++q;
            NEED(q == n);
            p = q; ++nExt; // a complete valueless chunk-ext
            while (q < n && isBws(x[q], relaxed)) ++q;
            NEED(q == n);
            if (x[q] != '=') continue;
            ++q;
            while (q < n && isBws(x[q], relaxed)) ++q;
            NEED(q == n);
            if (x[q] == '"') {
                ++q;
                for (;;) {
                    NEED(q == n);
                    const uint8_t c = x[q++];
                    if (c == '"') break;
                    if (c == '\\') { NEED(q == n); if (!isQpair(x[q++])) REJECT(); }
                    else if (!isQdtext(c)) REJECT();
                }
            } else {
                if (!isTchar(x[q])) REJECT();
                while (q < n && isTchar(x[q])) ++q;
                NEED(q == n);
            }
            p = q;
        }
        // CRLF
        NEED(p == n);
        if (x[p] != '\r') REJECT();
        NEED(p + 1 == n);
        if (x[p + 1] != '\n') REJECT();
        p += 2;
        if (size == 0) break;
        // chunk-data CRLF
        for (uint64_t i = 0; i < size; ++i) {
            NEED(p == n);
            vf_assert(r.outLen < MAXOUT, "harness: output array large enough");
            r.out[r.outLen++] = x[p++];
        }
        NEED(p == n);
        if (x[p] != '\r') REJECT();
        NEED(p + 1 == n);
        if (x[p + 1] != '\n') REJECT();
        p += 2;
    }
    // trailer-section CRLF
    for (;;) {
        NEED(p == n);
        if (x[p] == '\n') { ++p; break; }
        if (x[p] == '\r') { NEED(p + 1 == n); if (x[p + 1] == '\n') { p += 2; break; } }
        while (p < n && x[p] != '\n') ++p;
        NEED(p == n);
        ++p;
    }
    r.st = DONE; r.consumed = p;
    return r;
}

static void sameAsReference(const Outcome &got, const Outcome &want)
{
    if (want.st == BAD) vf_assert(got.st == BAD, "malformed chunked framing is rejected");
    if (want.st == MORE) vf_assert(got.st == MORE, "a prefix of a valid encoding only asks for more data");
    if (want.st == DONE) vf_assert(got.st == DONE, "a complete valid encoding is decoded to the end");
    if (want.st != BAD) {
        vf_assert(got.outLen == want.outLen, "decoded length equals the reference decoder's");
        for (unsigned i = 0; i < want.outLen; ++i) vf_assert(got.out[i] == want.out[i], "decoded bytes equal the reference decoder's");
    }
    if (want.st == DONE) vf_assert(got.consumed == want.consumed, "consumed exactly the encoded bytes");
}

// Config.onoff.relaxed_header_parser: 0 = off, 1 = on (the default); -1 = on with warnings (differs from 1 only in the debugs()
// level, so it is included in one thorough entry only)
static int relaxedSetting(const bool withWarnMode = false)
{
    return withWarnMode ? (int)vf_concretize(vf_range(0, 2, "relaxed")) - 1 : (int)vf_concretize(vf_range(0, 1, "relaxed"));
}

enum ConfigModes { cmDefault, cmBoth, cmAll }; // relaxed_header_parser = 1 / in {0,1} / in {-1,0,1}
static void grammar(const uint8_t *in, const unsigned n, const unsigned cap, const ConfigModes modes = cmBoth)
{
    const int relaxed = modes == cmDefault ? 1 : relaxedSetting(modes == cmAll);
    http1Config(relaxed, 65536, 65536);
    const Outcome want = reference(in, n, relaxed != 0);
    vf_observe("ref", want.st); vf_observe("refConsumed", want.consumed); vf_observe("refOut", want.outLen);
    bool first = true;
    forAllSegmentations(n, [&](const uint8_t *cuts, unsigned ncuts) {
        const Outcome got = drive(in, n, cuts, ncuts, cap);
        if (first) { vf_observe("st", got.st); vf_observe("out", got.outLen); first = false; }
        sameAsReference(got, want);
    });
    vf_reach(want.st == DONE ? "done" : want.st == MORE ? "more" : "bad");
    WITNESS_POINT();
}

// Templates: '\x01' = a fully symbolic byte; '\x02' = a fully symbolic byte at a position that the chunk-size parser can see.
// For '\x02' the harness case-splits: each of the 22 hex-digit characters gets its own path with a concrete byte (so that
// the chunk size, and with it every copy length and buffer offset, is concrete on that path); the 234 other byte values
// stay one fully symbolic class. Every byte value is covered either way.
struct Tmpl { const char *s; unsigned n; bool twoLimits; };
#define T(lit) {lit, sizeof(lit) - 1, false}   // output-space limit 1 (the parser must be re-entered for every data byte)
#define T2(lit) {lit, sizeof(lit) - 1, true}   // output-space limit in {1, 3}
static uint8_t sizeByte()
{
    const uint8_t c = vf_nondet_u8("b");
    return hexVal(c) >= 0 ? (uint8_t)vf_concretize(c) : c;
}
static void families(const Tmpl *t, const unsigned count, const ConfigModes modes = cmBoth)
{
    const Tmpl &f = t[count > 1 ? vf_concretize(vf_range(0, count - 1, "family")) : 0];
    const unsigned cap = f.twoLimits && vf_concretize(vf_range(0, 1, "cap")) ? 3 : 1;
    uint8_t in[MAXIN];
    for (unsigned i = 0; i < f.n; ++i)
        in[i] = f.s[i] == '\x01' ? vf_nondet_u8("b") : f.s[i] == '\x02' ? sizeByte() : (uint8_t)f.s[i];
    grammar(in, f.n, cap, modes);
}
#define GRAMMAR_M(fn, modes, ...) extern "C" void fn(void) { static const Tmpl t[] = {__VA_ARGS__}; families(t, sizeof(t) / sizeof(*t), modes); }
#define GRAMMAR(fn, ...) GRAMMAR_M(fn, cmBoth, __VA_ARGS__)

// ---- chunk-size line, one unconstrained byte at a time: first digit; after a leading 0 (0x/0X); after the digits (more
// digits, BWS, ";", CR); the CR; first byte of the second chunk-size line
GRAMMAR(c24_g_size,
        T("\x02" "2\r\nab\r\n0\r\n\r\n"), T("0\x02" "2\r\nab\r\n0\r\n\r\n"), T("2\x02\r\nab\r\n0\r\n\r\n"), T("2\x02\nab\r\n0\r\n\r\n"),
        T("1\r\nX\r\n\x02\r\n\r\n"))
// ---- chunk-ext: list after the ";", value (token or quoted-string), inside a quoted-string (qdtext, quoted-pair, closing
// quote), the BWS positions inside an extension (the one after the chunk-size is in c24_g_size)
#ifdef VF_THOROUGH
#define EXT_MODES cmAll
#else
#define EXT_MODES cmBoth
#endif
GRAMMAR_M(c24_g_ext, EXT_MODES,
        T("1;\x01\x01\x01\r\nX\r\n0\r\n\r\n"), T("1;a=\x01\x01\x01\r\nX\r\n0\r\n\r\n"), T("1;a=\"\x01\x01\x01\"\r\nX\r\n0\r\n\r\n"),
        T("1;\x01" "a\x01=\x01v\r\nX\r\n0\r\n\r\n"))
// ---- CRLF after chunk-data; after the last-chunk size; trailer-section and final CRLF
GRAMMAR(c24_g_end,
        T2("2\r\nXY\x01\x01" "0\r\n\r\n"), T("1\r\nX\r\n0\x02\x01\n"), T("1\r\nX\r\n0\r\n\x01\x01\x01"))
// ---- 63-bit limit: 16/17 hex digits with the first and the last unconstrained (0fff…f, 7fff…ff, 8000…, one digit too
// many …); 15th and 16th digit unconstrained
GRAMMAR(c24_g_big,
        T("\x01" "fffffffffffffff\x01\r\nX"), T("7fffffffffffff\x01\x01\r\nX"),
        // 17 digits whose 64-bit accumulation wraps around to a small value (17000000000000000 ...): still "does not fit in 63 bits"
        T("\x01\x01" "00000000000000\x01\r\nX"))
#ifdef VF_THOROUGH
// two bytes of a chunk-size line at once: first line, second line
GRAMMAR_M(c24_g_size2, cmDefault, T("\x02\x02\r\nab\r\n0\r\n\r\n"))
GRAMMAR_M(c24_g_next2, cmDefault, T("1\r\nX\r\n\x02\x02\r\n\r\n"))
GRAMMAR_M(c24_g_ext4, cmDefault, T("1;\x01\x01\x01\x01\r\nX\r\n0\r\n\r\n"))
GRAMMAR_M(c24_g_quoted4, cmDefault, T("1;a=\"\x01\x01\x01\x01\r\nX\r\n0\r\n\r\n"))
GRAMMAR(c24_g_end4, T("1\r\nX\r\n0\r\n\x01\x01\x01\x01"), T("7fffffffffffff\x01\x01\x01\nX"))
#endif

#define NANY 2
extern "C" void c24_any(void)
{
    const unsigned n = (unsigned)vf_concretize(vf_range(1, NANY, "len"));
    uint8_t in[NANY + 1];
    for (unsigned i = 0; i < n; ++i) in[i] = sizeByte();
#ifdef VF_THOROUGH
    grammar(in, n, 1, cmBoth);
#else
    grammar(in, n, 1, cmDefault);
#endif
}

// =====================================================================================================================
// (a) round trip through a reference encoder
struct Enc {
    uint8_t b[MAXIN];
    unsigned n;
    void put(uint8_t c) { vf_assert(n < MAXIN, "harness: encoding array large enough"); b[n++] = c; }
    void lit(const char *s) { for (; *s; ++s) put((uint8_t)*s); }
    void crlf() { put('\r'); put('\n'); }
    // hex digits, letters in either case (case split: a symbolic chunk-size character would make the size a symbolic term)
    void hexDigit(unsigned d) { put(d < 10 ? (uint8_t)('0' + d) : (uint8_t)((vf_concretize(vf_range(0, 1, "upper")) ? 'A' : 'a') + (d - 10))); }
    void size(unsigned v, unsigned zeros)
    {
        for (unsigned i = 0; i < zeros; ++i) put('0');
        if (v >= 256) hexDigit((v >> 8) & 15);
        if (v >= 16) hexDigit((v >> 4) & 15);
        hexDigit(v & 15);
    }
    uint8_t sym(const char *name) { return vf_nondet_u8(name); }
    void tchar() { const uint8_t c = sym("tchar"); vf_assume(isTchar(c)); put(c); }
    void wsp() { put(vf_concretize(vf_range(0, 1, "htab")) ? '\t' : ' '); } // case split (may follow chunk-size directly)
    // chunk-ext shapes; every variable byte is symbolic within its grammar class
    void ext(unsigned shape)
    {
        switch (shape) {
        case 0: break;
        case 1: put(';'); tchar(); break;                                      // ;n
        case 2: put(';'); tchar(); put('='); tchar(); tchar(); break;          // ;n=vv
        case 3: { put(';'); tchar(); lit("=\"");                               // ;n="q\p"
            const uint8_t q = sym("qdtext"); vf_assume(isQdtext(q)); put(q);
            put('\\'); const uint8_t e = sym("qpair"); vf_assume(isQpair(e)); put(e);
            put('"'); break; }
        case 4: wsp(); put(';'); wsp(); tchar(); wsp(); put('='); wsp(); tchar(); break; // BWS at every allowed position
        case 5: put(';'); tchar(); put(';'); tchar(); lit("=\"\""); wsp(); put(';'); tchar(); break; // list; empty quoted-string; BWS before ";"
        case 6: wsp(); break;                                                  // SP/HTAB between chunk-size and CRLF (bug 4492)
        }
    }
};
#define NSHAPES 7

static void roundTrip(const Enc &e, const unsigned validLen, const uint8_t *body, const unsigned bodyLen, const unsigned cap)
{
    forAllSegmentations(e.n, [&](const uint8_t *cuts, unsigned ncuts) {
        const Outcome got = drive(e.b, e.n, cuts, ncuts, cap);
        vf_assert(got.st != BAD, "a valid chunked encoding is never rejected, however it is segmented");
        vf_assert(got.st == DONE, "a valid chunked encoding is decoded to its end");
        vf_assert(got.consumed == validLen, "consumed exactly the encoded bytes");
        vf_assert(got.outLen == bodyLen, "decoded length equals the body length");
        for (unsigned i = 0; i < bodyLen; ++i) vf_assert(got.out[i] == body[i], "decoded bytes equal the body");
    });
    // truncated input: every strict prefix, delivered at once, only asks for more data and has output a prefix of the body
    for (unsigned len = 1; len < validLen; ++len) {
        const uint8_t cuts[1] = {(uint8_t)len};
        const Outcome got = drive(e.b, len, cuts, 1, cap);
        vf_assert(got.st == MORE, "truncated input only asks for more data");
        vf_assert(got.outLen <= bodyLen, "truncated input: decoded bytes are a prefix of the body");
        for (unsigned i = 0; i < got.outLen && i < bodyLen; ++i) vf_assert(got.out[i] == body[i], "truncated input: decoded bytes are a prefix of the body");
    }
    vf_observe("encLen", validLen); vf_observe("bodyLen", bodyLen);
    vf_reach("done");
    WITNESS_POINT();
}

#ifdef VF_THOROUGH
#define NBODY 4
#else
#define NBODY 3
#endif
// body of 0..NBODY symbolic bytes cut into 1..3 chunks, optional leading zeros, symbolic output-space limit,
// one byte of the next message after the encoding
extern "C" void c24_rt_chunks(void)
{
    http1Config(relaxedSetting(), 65536, 65536);
    const unsigned n = (unsigned)vf_concretize(vf_range(0, NBODY, "bodyLen"));
    const unsigned c1 = (unsigned)vf_concretize(vf_range(0, n, "cut1"));
    const unsigned c2 = (unsigned)vf_concretize(vf_range(c1, n, "cut2"));
    const unsigned zeros = (unsigned)vf_concretize(vf_range(0, 1, "zeros"));
    const unsigned cap = (unsigned)vf_concretize(vf_range(1, n + 1, "cap"));
    uint8_t body[NBODY + 1];
    for (unsigned i = 0; i < n; ++i) body[i] = vf_nondet_u8("body");
    const unsigned ends[3] = {c1, c2, n};
    Enc e; e.n = 0;
    unsigned from = 0;
    for (unsigned k = 0; k < 3; ++k) {
        if (ends[k] == from) continue; // an empty piece would be the last-chunk
        e.size(ends[k] - from, zeros); e.crlf();
        for (; from < ends[k]; ++from) e.put(body[from]);
        e.crlf();
    }
    e.size(0, zeros * 2); e.crlf(); e.crlf();
    const unsigned validLen = e.n;
    e.put(vf_nondet_u8("next"));
    roundTrip(e, validLen, body, n, cap);
}

// two chunks of one symbolic byte each; an extension of every shape on the first chunk or on the last-chunk;
// optional one-line trailer with a symbolic value byte
extern "C" void c24_rt_ext(void)
{
    http1Config(relaxedSetting(), 65536, 65536);
    const unsigned shape = (unsigned)vf_concretize(vf_range(1, NSHAPES - 1, "shape"));
#ifdef VF_THOROUGH
    const bool onLast = vf_concretize(vf_range(0, 1, "onLast"));
    const bool trailer = vf_concretize(vf_range(0, 1, "trailer"));
    const unsigned cap = (unsigned)vf_concretize(vf_range(1, 2, "cap"));
#else
    // quick: (extension on first chunk, trailer, limit 1), (on last-chunk, no trailer, limit 2), (on last-chunk, trailer, limit 1)
    const unsigned combo = (unsigned)vf_concretize(vf_range(0, 2, "combo"));
    const bool onLast = combo > 0, trailer = combo != 1;
    const unsigned cap = combo == 1 ? 2 : 1;
#endif
    uint8_t body[2] = {vf_nondet_u8("body"), vf_nondet_u8("body")};
    Enc e; e.n = 0;
    e.size(1, 0); e.ext(onLast ? 0 : shape); e.crlf(); e.put(body[0]); e.crlf();
    e.size(1, 1); e.crlf(); e.put(body[1]); e.crlf();
    e.size(0, 0); e.ext(onLast ? shape : 0); e.crlf();
    if (trailer) {
        e.lit("T:");
        const uint8_t v = vf_nondet_u8("trailerByte"); vf_assume((v != '\r') & (v != '\n')); e.put(v);
        e.crlf();
    }
    e.crlf();
    const unsigned validLen = e.n;
    e.put(vf_nondet_u8("next"));
    roundTrip(e, validLen, body, 2, cap);
}

// one chunk whose size needs hex letters / two digits; letters in symbolic case; output-space limit around the chunk size
#ifdef VF_THOROUGH
#define HEXLO 9
#define HEXHI 33
#else
#define HEXLO 10
#define HEXHI 17
#endif
extern "C" void c24_rt_hex(void)
{
    http1Config(relaxedSetting(), 65536, 65536);
    const unsigned n = (unsigned)vf_concretize(vf_range(HEXLO, HEXHI, "bodyLen"));
    const unsigned capSel = (unsigned)vf_concretize(vf_range(0, 2, "capSel"));
    const unsigned cap = capSel == 0 ? 7 : capSel == 1 ? n - 1 : n;
    uint8_t body[HEXHI];
    for (unsigned i = 0; i < n; ++i) body[i] = vf_nondet_u8("body");
    Enc e; e.n = 0;
    e.size(n, 0); e.crlf();
    for (unsigned i = 0; i < n; ++i) e.put(body[i]);
    e.crlf();
    e.size(0, 0); e.crlf(); e.crlf();
    roundTrip(e, e.n, body, n, cap);
}
