// Shared by the C04, C03 and C63 harnesses (same author): the real src/http.cc is #included so that its static functions
// (copyOneHeaderFromClientsideRequestToUpstreamRequest, httpFixupAuthentication) and the public static
// HttpStateData::httpBuildRequestHeader() are reachable, plus the small "world" that function needs:
//   * an HttpRequest that is zeroed raw memory of the real size (its constructor chain needs MasterXaction, AnyP::Uri ...)
//     with exactly the members httpBuildRequestHeader() reads set directly (see rawRequest());
//   * a header block with symbolic bytes parsed by the real HttpHeader::parse() into request->header;
//   * byte-level reference helpers written from RFC 9110 (independent of Squid's tables), branch-free where they look at
//     symbolic bytes so that the oracle itself does not multiply paths.
#pragma once
#include "squid.h"
#include <sstream>
#include <functional>
#include <chrono>
#include <atomic>
#include <iostream>
#include <string>
#include <vector>
#include <list>
#include <map>
#include <set>
#include <queue>
#include <stack>
#include <tuple>
#include <unordered_map>
#include <unordered_set>
#include <memory>
#include <algorithm>
#include <optional>
#include <limits>
#include <iosfwd>
#include <ostream>
#include <utility>
#include <type_traits>
#include "debug/Stream.h"
#include "SquidString.h"
#include "sbuf/SBuf.h"
#include "base/RefCount.h"
#include "base/TextException.h"
#define private public
#define protected public
#include "anyp/Uri.h"
#include "HttpHeader.h"
#include "http/Message.h"
#include "HttpRequest.h"
#undef private
#undef protected
#include "http.cc"               // the real translation unit
#include "http/ContentLengthInterpreter.h"
#include "http/RegisteredHeaders.h"
#include "CachePeer.h"
#include "StatHist.h"
#include "common.h"
#include <cstring>
#include <new>
#include <typeinfo>

// ---- stubs
// per-header statistics histograms (StatHist.cc, floating point log histograms, is not linked)
void StatHist::enumInit(unsigned int) {}
void StatHist::count(double) {}
#ifdef VF_BITCODE
// This build uses libnettle's base64 (HAVE_NETTLE_BASE64_H), which is not bitcode. httpFixupAuthentication() encodes
// *Squid's own* peer credentials (cache_peer login=user:pw) with it; the text of those credentials is irrelevant to every
// property checked here, so the encoder is replaced by one that emits 'A's of the right length. Native replay uses nettle.
extern "C" {
void nettle_base64_encode_init(struct base64_encode_ctx *) {}
size_t nettle_base64_encode_update(struct base64_encode_ctx *, char *dst, size_t length, const uint8_t *)
{
    const size_t n = (length * 8 + 5) / 6;
    for (size_t i = 0; i < n; ++i) dst[i] = 'A';
    return n;
}
size_t nettle_base64_encode_final(struct base64_encode_ctx *, char *dst) { dst[0] = '='; return 1; }
}
#endif

// ---- byte classes of the reference models (RFC 9110; not Squid's tables). Branch-free on purpose.
static inline uint8_t refLower(const uint8_t c) { return (uint8_t)(c | (((uint8_t)(c - 'A') < 26) << 5)); }
static inline unsigned refOws(const uint8_t c) { return (c == ' ') | (c == '\t'); }
static inline unsigned refTchar(const uint8_t c)
{
    const uint8_t l = refLower(c);
    return ((uint8_t)(l - 'a') < 26) | ((uint8_t)(c - '0') < 10) | (c == '!') | (c == '#') | (c == '$') | (c == '%') | (c == '&') | (c == '\'') |
           (c == '*') | (c == '+') | (c == '-') | (c == '.') | (c == '^') | (c == '_') | (c == '`') | (c == '|') | (c == '~');
}
// case-insensitive equality of two byte strings of the same (concrete) length
static inline unsigned refEqNoCase(const uint8_t *a, const uint8_t *b, const unsigned n)
{
    unsigned eq = 1;
    for (unsigned i = 0; i < n; ++i) eq &= (refLower(a[i]) == refLower(b[i]));
    return eq;
}
// Is `name` an element of the comma-separated list `v` (RFC 9110 5.6.1: elements separated by ',', optional whitespace
// (SP/HT) around them, empty elements ignored; element compared case-insensitively)?
static inline unsigned refListHas(const uint8_t *v, const unsigned n, const uint8_t *name, const unsigned nl)
{
    unsigned found = 0;
    if (!nl) return 0;
    for (unsigned a = 0; a + nl <= n; ++a) {
        unsigned ok = refEqNoCase(v + a, name, nl);
        unsigned open = 1;                                  // still inside this element, walking left
        for (unsigned j = a; j-- > 0;) { const unsigned comma = v[j] == ','; ok &= (open ^ 1) | comma | refOws(v[j]); open &= comma ^ 1; }
        open = 1;                                           // walking right
        for (unsigned j = a + nl; j < n; ++j) { const unsigned comma = v[j] == ','; ok &= (open ^ 1) | comma | refOws(v[j]); open &= comma ^ 1; }
        found |= ok;
    }
    return found;
}

// ---- header blocks: every '\x01' of a template is a fresh symbolic byte of a field *value* (any byte except NUL, CR, LF --
// the line structure is C25's subject -- and DQUOTE: quoted strings are not part of the token-list grammar of Connection),
// every '\x02' a fresh symbolic field-*name* byte (any tchar), every '\x03' a fresh symbolic digit.
#define FWD_MAXN 512
struct Block {
    uint8_t b[FWD_MAXN];
    unsigned n;
};
static inline unsigned blockPut(Block &k, const char *tmpl)
{
    const unsigned start = k.n;
    for (; *tmpl; ++tmpl) {
        vf_assert(k.n < FWD_MAXN, "harness: block fits");
        uint8_t c = (uint8_t)*tmpl;
        if (c == 1) { c = vf_nondet_u8("v"); vf_assume((c != 0) & (c != '\r') & (c != '\n') & (c != '"')); }
        else if (c == 2) { c = vf_nondet_u8("n"); vf_assume(refTchar(c)); }
        else if (c == 3) { c = vf_nondet_u8("d"); vf_assume((uint8_t)(c - '0') < 10); }
        k.b[k.n++] = c;
    }
    return start;
}
static inline int blockParse(const Block &k, HttpHeader &h)
{
    static char buf[FWD_MAXN + 1];                          // parse() may edit its buffer (relaxed mode)
    for (unsigned i = 0; i < k.n; ++i) buf[i] = (char)k.b[i];
    buf[k.n] = 0;
    Http::ContentLengthInterpreter clen;
    return h.parse(buf, k.n, clen);
}

// ---- looking at a header the way the next hop will: by field name text, not by Squid's ids
static inline unsigned entryNameIs(const HttpHeaderEntry *e, const uint8_t *name, const unsigned nl)
{
    if (e->name.length() != nl) return 0;
    unsigned eq = 1;
    for (unsigned i = 0; i < nl; ++i) eq &= (refLower((uint8_t)e->name[i]) == refLower(name[i]));
    return eq;
}
static inline unsigned countName(const HttpHeader &h, const uint8_t *name, const unsigned nl)
{
    unsigned c = 0;
    for (const auto e : h.entries) if (e) c += entryNameIs(e, name, nl);
    return c;
}
static inline unsigned countName(const HttpHeader &h, const char *name) { return countName(h, (const uint8_t *)name, strlen(name)); }
static inline const HttpHeaderEntry *findName(const HttpHeader &h, const char *name)
{
    for (const auto e : h.entries) if (e && entryNameIs(e, (const uint8_t *)name, strlen(name))) return e;   // concrete names only
    return nullptr;
}
static inline bool valueIs(const HttpHeaderEntry *e, const char *lit)
{
    const size_t n = strlen(lit);
    if (e->value.size() != n) return false;
    for (size_t i = 0; i < n; ++i) if (e->value[i] != lit[i]) return false;
    return true;
}

// vacuity label chosen by a (possibly symbolic) condition. optnone: clang otherwise merges the calls into one call whose argument
// is a select between string literals, which the engine cannot resolve to a label
__attribute__((optnone, noinline)) static void reachIf(const bool c, const char *yes, const char *no = nullptr)
{
    if (c) vf_reach(yes);
    else if (no) vf_reach(no);
}

// ---- the request object
template <class T> static inline T *rawObject() { return static_cast<T *>(xcalloc(1, sizeof(T))); }
// the real vtable of HttpRequest (defined by src/HttpRequest.cc): a raw object gets its vptr set so that the virtual calls made by
// Http::Message::parseHeader() (configureContentLengthInterpreter(), hdrCacheInit()) dispatch as they do on a constructed object
extern void *HttpRequestVtable[] __asm__("_ZTV11HttpRequest");

static inline HttpRequest *rawRequest(const Http::MethodType m)
{
    HttpRequest *r = rawObject<HttpRequest>();
    unsigned ti = 0;                                         // Itanium ABI: the vptr points just past the typeinfo slot
    while (HttpRequestVtable[ti] != (void *)&typeid(HttpRequest)) { ++ti; vf_assert(ti < 8, "harness: typeinfo slot of the HttpRequest vtable found"); }
    *reinterpret_cast<void ***>(r) = &HttpRequestVtable[ti + 1];
    new (&r->header) HttpHeader(hoRequest);
    new (&r->method) HttpRequestMethod(m);
    r->http_ver = Http::ProtocolVersion(1, 1);
    r->lastmod = -1;                                       // no cached entry being revalidated
    r->ims = -1;
    r->rangeOffsetLimit = 0;                               // range_offset_limit not configured (skips the ACL evaluation)
    new (&r->url.absolute_) SBuf("http://o.example/p");       // cached absolute URI: AnyP::Uri.cc is not needed
    r->peer_domain = xstrdup("o.example");                 // Host: value (cache_peer forceddomain=); avoids AnyP::Uri::authority()
    r->client_addr.setNoAddr();                            // X-Forwarded-For gets "unknown"
    r->pstate = Http::Message::psParsed;
    return r;
}

static inline void fwdConfig(const int relaxed)
{
    vf_quiet();
    Config.onoff.relaxed_header_parser = relaxed;
    Config.onoff.via = 1;                                  // squid.conf defaults
    Config.onoff.cache_miss_revalidate = 1;
    Config.onoff.redir_rewrites_host = 1;
    opt_forwarded_for = const_cast<char *>("on");
    strcpy(ThisCache, "squid.example (squid)");
    strcpy(ThisCache2, " squid.example (squid)");
}

// every Http::StateFlags member httpBuildRequestHeader() reads, symbolic, within the invariants documented in
// http/StateFlags.h: tunneling implies peering and toOrigin; without a cache_peer the next hop is the origin
static inline void symbolicFlags(Http::StateFlags &f)
{
    f.keepalive = vf_bool("keepalive");
#ifdef VF_THOROUGH
    f.only_if_cached = vf_bool("only_if_cached");
    f.front_end_https = vf_range(0, 2, "front_end_https");
#endif
    f.peering = vf_bool("peering");
    f.tunneling = vf_bool("tunneling");
    f.toOrigin = vf_bool("toOrigin");
    f.chunked_request = vf_bool("chunked_request");
    vf_assume((!f.tunneling) | (f.peering & f.toOrigin));
    vf_assume(f.peering | f.toOrigin);
}
