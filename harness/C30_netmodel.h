// Numeric-only models of getaddrinfo()/freeaddrinfo()/inet_ntop() for the interpreted build (VF_BITCODE);
// the native replay uses the real libc, so every sampled path also diffs these models against glibc.
//   getaddrinfo: IPv4 text as glibc's __inet_aton_exact (1..4 parts, each decimal / 0octal / 0xhex, last part fills the
//                remaining bytes, no trailing characters); IPv6 text as inet_pton(AF_INET6) without an embedded
//                dotted quad and without a %scope suffix (both => EAI_NONAME here; the harness families cannot
//                produce them). One result per socket type when the hints leave it open, like glibc.
//   inet_ntop:   AF_INET dotted quad; AF_INET6 as glibc (longest zero run of >= 2 groups compressed, lower-case hex,
//                embedded IPv4 for ::a.b.c.d / ::ffff:a.b.c.d).
#pragma once
#ifdef VF_BITCODE
#include <netdb.h>
#include <arpa/inet.h>
#include <cstring>
#include <cstdlib>
#include <cerrno>

static bool vfAton(const char *s, uint8_t out[4])
{
    uint32_t parts[4]; int np = 0;
    for (;;) {
        if (!(*s >= '0' && *s <= '9')) return false;
        unsigned base = 10;
        if (*s == '0') { if (s[1] == 'x' || s[1] == 'X') { base = 16; s += 2; } else base = 8; }
        uint64_t v = 0; unsigned nd = 0;
        for (;; ++s, ++nd) {
            const unsigned c = (unsigned char)*s;
            unsigned d;
            if (c >= '0' && c <= '9') d = c - '0';
            else if (base == 16 && c >= 'a' && c <= 'f') d = c - 'a' + 10;
            else if (base == 16 && c >= 'A' && c <= 'F') d = c - 'A' + 10;
            else break;
            if (d >= base) break;
            v = v * base + d;
            if (v > 0xffffffffULL) return false;
        }
        if (base == 16 && nd == 0) return false;      // "0x" without digits: strtoul stops after the '0', then 'x' is garbage
        parts[np++] = (uint32_t)v;
        if (*s == '.') { if (np == 4) return false; ++s; continue; }
        break;
    }
    if (*s) return false;
    for (int i = 0; i + 1 < np; ++i) if (parts[i] > 255) return false;
    static const uint32_t lastMax[4] = { 0xffffffffu, 0xffffffu, 0xffffu, 0xffu };
    if (parts[np - 1] > lastMax[np - 1]) return false;
    uint32_t a = parts[np - 1];
    for (int i = 0; i + 1 < np; ++i) a |= parts[i] << (24 - 8 * i);
    out[0] = (uint8_t)(a >> 24); out[1] = (uint8_t)(a >> 16); out[2] = (uint8_t)(a >> 8); out[3] = (uint8_t)a;
    return true;
}
static int vfHexVal(char ch)
{
    const unsigned c = (unsigned char)ch;
    const unsigned ok = ((c >= '0') & (c <= '9')) | ((c >= 'a') & (c <= 'f')) | ((c >= 'A') & (c <= 'F'));
    return ok ? (int)((c & 0xf) + 9 * (c >> 6)) : -1;
}
static bool vfPton6(const char *s, uint8_t out[16])
{
    uint16_t g[8]; int ng = 0, gap = -1;
    if (s[0] == ':') { if (s[1] != ':') return false; gap = 0; s += 2; }
    while (*s) {
        if (ng == 8) return false;
        unsigned v = 0, nd = 0;
        while (vfHexVal(*s) >= 0) { if (nd == 4) return false; v = v * 16 + (unsigned)vfHexVal(*s); ++s; ++nd; }
        if (!nd) return false;
        g[ng++] = (uint16_t)v;
        if (!*s) break;
        if (*s != ':') return false;
        ++s;
        if (*s == ':') { if (gap >= 0) return false; gap = ng; ++s; }
        else if (!*s) return false;
    }
    if (gap < 0 && ng != 8) return false;
    if (gap >= 0 && ng >= 8) return false;
    memset(out, 0, 16);
    for (int i = 0; i < ng; ++i) {
        const int pos = (gap >= 0 && i >= gap) ? 8 - (ng - i) : i;
        out[2 * pos] = (uint8_t)(g[i] >> 8); out[2 * pos + 1] = (uint8_t)g[i];
    }
    return true;
}
extern "C" int getaddrinfo(const char *node, const char *, const struct addrinfo *hints, struct addrinfo **res)
{
    uint8_t a4[4], a6[16];
    *res = nullptr;
    if (!node) return EAI_NONAME;
    const bool is4 = vfAton(node, a4);
    const bool is6 = !is4 && vfPton6(node, a6);
    if (!is4 && !is6) return EAI_NONAME;
    const int ntypes = (hints && hints->ai_socktype) ? 1 : 3;
    struct addrinfo **tail = res;
    for (int t = 0; t < ntypes; ++t) {
        char *blk = (char *)calloc(1, sizeof(struct addrinfo) + sizeof(struct sockaddr_in6));
        struct addrinfo *ai = (struct addrinfo *)blk;
        ai->ai_addr = (struct sockaddr *)(blk + sizeof(struct addrinfo));
        ai->ai_socktype = (hints && hints->ai_socktype) ? hints->ai_socktype : t + 1;
        if (is4) {
            struct sockaddr_in *sa = (struct sockaddr_in *)ai->ai_addr;
            ai->ai_family = sa->sin_family = AF_INET; ai->ai_addrlen = sizeof(*sa);
            memcpy(&sa->sin_addr, a4, 4);
        } else {
            struct sockaddr_in6 *sa = (struct sockaddr_in6 *)ai->ai_addr;
            ai->ai_family = sa->sin6_family = AF_INET6; ai->ai_addrlen = sizeof(*sa);
            memcpy(&sa->sin6_addr, a6, 16);
        }
        *tail = ai; tail = &ai->ai_next;
    }
    return 0;
}
extern "C" void freeaddrinfo(struct addrinfo *p) { while (p) { struct addrinfo *n = p->ai_next; free(p); p = n; } }
extern "C" const char *gai_strerror(int) { return "error"; }

static char *vfPutDec(char *p, unsigned v) { if (v >= 100) *p++ = (char)('0' + v / 100); if (v >= 10) *p++ = (char)('0' + v / 10 % 10); *p++ = (char)('0' + v % 10); return p; }
static char *vfPutQuad(char *p, const uint8_t *b) { for (int i = 0; i < 4; ++i) { if (i) *p++ = '.'; p = vfPutDec(p, b[i]); } return p; }
static char *vfPutHex(char *p, unsigned v)
{
    bool started = false;
    for (int sh = 12; sh >= 0; sh -= 4) {
        const unsigned d = (v >> sh) & 0xf;
        if (d || started || sh == 0) { *p++ = (char)(d < 10 ? '0' + d : 'a' + d - 10); started = true; }
    }
    return p;
}
extern "C" const char *inet_ntop(int af, const void *src, char *dst, socklen_t size)
{
    char tmp[64], *p = tmp;
    const uint8_t *b = (const uint8_t *)src;
    if (af == AF_INET) p = vfPutQuad(p, b);
    else if (af == AF_INET6) {
        unsigned w[8];
        for (int i = 0; i < 8; ++i) w[i] = (unsigned)b[2 * i] << 8 | b[2 * i + 1];
        int bestBase = -1, bestLen = 0, curBase = -1, curLen = 0;
        for (int i = 0; i < 8; ++i) {
            if (w[i] == 0) { if (curBase < 0) { curBase = i; curLen = 1; } else ++curLen; }
            else if (curBase >= 0) { if (bestBase < 0 || curLen > bestLen) { bestBase = curBase; bestLen = curLen; } curBase = -1; }
        }
        if (curBase >= 0 && (bestBase < 0 || curLen > bestLen)) { bestBase = curBase; bestLen = curLen; }
        if (bestBase >= 0 && bestLen < 2) bestBase = -1;
        for (int i = 0; i < 8; ++i) {
            if (bestBase >= 0 && i >= bestBase && i < bestBase + bestLen) { if (i == bestBase) *p++ = ':'; continue; }
            if (i) *p++ = ':';
            if (i == 6 && bestBase == 0 && (bestLen == 6 || (bestLen == 5 && w[5] == 0xffff))) { p = vfPutQuad(p, b + 12); break; }
            p = vfPutHex(p, w[i]);
        }
        if (bestBase >= 0 && bestBase + bestLen == 8) *p++ = ':';
    } else { errno = EAFNOSUPPORT; return nullptr; }
    *p++ = 0;
    if ((size_t)(p - tmp) > size) { errno = ENOSPC; return nullptr; }
    memcpy(dst, tmp, (size_t)(p - tmp));
    return dst;
}
#endif
