// C12 (kernel): stale responses are not served without revalidation.
//
// Decided kernels (real code, re-read from the repo on every run):
//  K1 c12_verdict: refreshCheck()/refreshStaleness() (src/refresh.cc, included as a TU because they are static), also through
//     the public refreshCheckHTTP(). Symbolic (32-bit time range): the clock, entry timestamp / expires / Last-Modified /
//     flags (16 bits), the request's Cache-Control (any mask over the 14 directives, any values of max-age, max-stale,
//     min-fresh), request flags ignoreCc / ims / nocacheHack, the stored reply's Cache-Control (immutable, stale-if-error ...),
//     max_stale from squid.conf. Default refresh rules: no refresh_pattern line -> the built-in rule (min 0, 20%, max 3 days,
//     no override option), refresh_all_ims / reload_into_ims / offline_mode off.
//  K2 c12_expiry: HttpReply::hdrCacheInit()/hdrExpirationTime() (src/HttpReply.cc) on a real HttpReply with Date / Expires
//     fields present, absent or unparsable and a symbolic Cache-Control object.
//  K3 c12_chain: K2, then the real StoreEntry::timestampsSet() (src/store.cc) at the time of receipt, then K1 at a later
//     symbolic time: the whole way from header values to the verdict.
//
// Oracle (RFC 9111 4.2; written over the inputs):
//   K1: E = entry->expires is the absolute time at which the explicit freshness lifetime ends (timestamp + lifetime), E <= -1
//       means "no explicit lifetime"; now = squid_curtime.  "lifetime passed" <=> E > -1 and now >= E   (freshness_lifetime >
//       current_age <=> E - timestamp > now - timestamp).
//     A1  lifetime passed and the request has no usable max-stale                      => a STALE_* verdict (>= 200)
//     A1b lifetime passed, request max-stale=N (honoured) and now - E >= N              => a STALE_* verdict
//     A2  request (Cache-Control honoured) max-age=N and age > N, or max-age=0          => a STALE_* verdict
//         [stored reply "immutable": KNOWN FINDING, claimed only by c12_known_immutable_max_age]
//     A3  request reload (nocacheHack: Cache-Control no-cache / Pragma no-cache when an ignore-reload/reload-into-ims rule exists)
//         with the default rule                                                          => a STALE_* verdict
//     A4  entry marked ENTRY_REVALIDATE_ALWAYS (reply no-cache/private), or ENTRY_REVALIDATE_STALE (must-revalidate,
//         proxy-revalidate, s-maxage) and lifetime passed                                => a STALE_* verdict, whatever the request says
//         (not demanded: the exact code STALE_MUST_REVALIDATE -- refreshStaleness() returns the time_t staleness as int, and with
//         clock + min-fresh - expiry >= 2^31 (request "min-fresh=2000000000") it wraps negative: the verdict is then STALE_EXPIRES)
//     A5  FRESH_EXPIRES only if E > now (+ honoured min-fresh); FRESH_MIN_RULE/FRESH_LMFACTOR_RULE only without explicit lifetime;
//         FRESH_REQUEST_MAX_STALE_* only with a honoured request max-stale on an entry not marked for revalidation;
//         FRESH_OVERRIDE_* never (no override configured); refreshCheckHTTP() says "stale" exactly for verdicts >= 200
//   K2: expires = Date + s-maxage | Date + max-age (receipt time if there is no valid Date) | Expires (receipt time if
//       unparsable) | -1, in that order of precedence.
//   K3: lifetime L = s-maxage | max-age | Expires - Date (Date = receipt time when absent/invalid; an unparsable Expires = already
//       expired), resident = now - receipt time (<= current_age of RFC 9111 4.2.3):
//     C1  explicit L and resident >= L  => a STALE_* verdict for a plain later request
//   Two input classes violate C1 and one violates A2 on the unchanged tree: KNOWN FINDINGS (known_findings.json), each examined by its
//   own entry c12_known_* and excluded from all other entries (see the flags before verdict() and the comments in chain()).
// Quick tier: the clock (K1) / the receipt time (K3) stands at 10^9 and all other times are symbolic; thorough: symbolic too.
#include "C11_env.h"
#include "time/gadgets.h"
#include "mgr/Registration.h"
#include "refresh.cc" // the real translation unit (refreshCheck and refreshStaleness are static)

// ---- date text parsing is C35's subject: Time::ParseRfc1123() (src/time/rfc1123.cc, not linked) is replaced by a stub that maps
// three marker texts to the harness's symbolic Date / Expires / Last-Modified values; any other text is unparsable (-1)
static time_t markD = -1, markE = -1, markL = -1;
time_t Time::ParseRfc1123(const char *s)
{
    if (s[0] == '@' && s[1] == 'D' && !s[2]) return markD;
    if (s[0] == '@' && s[1] == 'E' && !s[2]) return markE;
    if (s[0] == '@' && s[1] == 'L' && !s[2]) return markL;
    return -1;
}

#define T31 2147483647u
#ifdef VF_THOROUGH
#define T(quick, thorough) thorough
#else
#define T(quick, thorough) quick
#endif

struct World {
    HttpRequest *req;
    HttpReply *rep;
    StoreEntry *entry;
    MemObject *mem;
    World()
    {
        req = rawObject<HttpRequest>();
        rep = new HttpReply;
        entry = rawObject<StoreEntry>();
        mem = rawObject<MemObject>();
        ::new (&req->method) HttpRequestMethod(Http::METHOD_GET);
        ::new (&req->header) HttpHeader(hoRequest);
        ::new (&mem->storeId_) SBuf("http://h.x/p");
        ::new (&mem->method) HttpRequestMethod(Http::METHOD_GET);
        rawPointer(mem->reply_, rep);
        entry->mem_obj = mem;
    }
};

static void defaults()
{
    vf_quiet();
    Config.Refresh = nullptr;              // no refresh_pattern line: built-in rule, no override options
    Config.onoff.refresh_all_ims = 0;
    Config.onoff.reload_into_ims = 0;
    Config.onoff.offline = 0;
    Config.onoff.vary_ignore_expire = 0;
    Config.minimum_expiry_time = 60;
}

struct Req { HttpHdrCc *cc; bool ignoreCc, ims, reload; };
static Req symbolicRequest(World &w)
{
    Req r;
    r.cc = vf_concretize(vf_bool("req_has_cc")) ? symbolicCc("req_cc", false) : nullptr;
    w.req->cache_control = r.cc;
    w.req->flags.ignoreCc = r.ignoreCc = vf_bool("ignoreCc");     // http_port ignore-cc (not a default)
    // (If-Modified-Since matters only with refresh-ims/refresh_all_ims, which are off: the flag only doubles the paths)
    w.req->flags.ims = r.ims = T(false, vf_bool("ims"));
    w.req->flags.nocacheHack = r.reload = vf_bool("nocacheHack");
    return r;
}

// the verdict, both through the static function and through the public wrapper
static int verdictOf(World &w)
{
    const int reason = refreshCheck(w.entry, w.req, 0);
    const int stale = refreshCheckHTTP(w.entry, w.req);
    vf_observe("reason", reason);
    vf_assert((reason >= 100 && reason <= FRESH_OVERRIDE_LASTMOD) || (reason >= 200 && reason <= STALE_MAX_STALE) || reason == STALE_DEFAULT, "a defined verdict");
    vf_assert(stale == (reason >= 200), "refreshCheckHTTP() reports stale exactly for STALE_* verdicts");
    vf_assert(reason != FRESH_OVERRIDE_EXPIRES && reason != FRESH_OVERRIDE_LASTMOD, "no override verdict without an override option");
    return reason;
}

// ================================================================== K1
// KNOWN FINDINGS (known_findings.json). Each class is examined only by its own entry c12_known_*, which sets the flag, is
// restricted by vf_assume to exactly that input class and keeps the strict assertion; every other entry excludes the class.
static bool onlyImmutableMaxAge = false; // C12-immutable-ignores-request-max-age: set by c12_known_immutable_max_age only
static bool onlyBadExpiresOldDate = false; // C12-unparsable-expires-old-date:     set by c12_known_unparsable_expires only
static bool onlyRebasedBeforeEpoch = false; // C12-expires-before-epoch-rebase:    set by c12_known_expires_rebase only

static void verdict()
{
    defaults();
    World w;
    // max_stale of squid.conf: default 1 week; thorough: any value (negative = no limit). It only selects between STALE_* codes.
    Config.maxStale = T(604800, (time_t)(int32_t)vf_nondet_u32("config_max_stale"));
    // quick tier: the clock stands at 10^9 (2001-09-09) and everything else is symbolic relative to it; thorough: symbolic clock
    const int64_t now = T(1000000000, vf_range(0, T31, "now"));
    squid_curtime = (time_t)now;
    const int64_t ts = vf_range(0, T31, "timestamp");
    const int64_t E = (int32_t)vf_nondet_u32("expires");
    const int64_t lm = (int32_t)vf_nondet_u32("lastmod");
    // without an explicit lifetime the LM-factor heuristic (floating point) would run: Last-Modified absent or not before the timestamp
    vf_assume(E > -1 || lm < 0 || lm >= ts);
    w.entry->timestamp = (time_t)ts;
    w.entry->expires = (time_t)E;
    w.entry->lastModified_ = (time_t)lm;
    const uint16_t eflags = onlyImmutableMaxAge ? 0 : vf_nondet_u16("entry_flags");
    w.entry->flags = eflags;
    const Req r = symbolicRequest(w);
    HttpHdrCc *repCc = (onlyImmutableMaxAge || vf_concretize(vf_bool("rep_has_cc"))) ? symbolicCc("rep_cc", false) : nullptr;
    if (onlyImmutableMaxAge) { // the known entry is kept tiny: request "Cache-Control: max-age=N" only, stored reply "immutable" only, unmarked entry
        vf_assume(r.cc && r.cc->mask == (1 << CC_MAX_AGE) && !r.ignoreCc && !r.reload && !r.ims);
        vf_assume(repCc->mask == (1 << CC_IMMUTABLE));
    }
#ifndef VF_THOROUGH
    // quick: of the stored reply's directives only immutable (the one that changes a verdict); stale-if-error only sets a request flag
    if (repCc) vf_assume(!ccHas(repCc, CC_STALE_IF_ERROR));
#endif
    w.rep->cache_control = repCc;

    const int reason = verdictOf(w);

    // (bitwise operators and implications instead of if/&&: the oracle itself must not split paths at -O0)
    const bool stale = reason >= 200;
    const bool always = (eflags >> ENTRY_REVALIDATE_ALWAYS) & 1, ifStale = (eflags >> ENTRY_REVALIDATE_STALE) & 1;
    const bool ccOn = !r.ignoreCc;
    const bool maxStaleGiven = ccOn & ccHas(r.cc, CC_MAX_STALE);
    const int64_t maxStale = r.cc ? r.cc->max_stale : -1, maxAge = r.cc ? r.cc->max_age : -1;
    const int64_t minFresh = (r.cc ? r.cc->min_fresh : 0) * (int64_t)(ccOn & ccHas(r.cc, CC_MIN_FRESH));
    const bool passed = (E > -1) & (now >= E);
    const int64_t age = (now - ts) * (int64_t)(now > ts);

    const bool a1 = passed & !maxStaleGiven;
    vf_assert(!a1 | stale, "explicit freshness lifetime passed and no request max-stale: the verdict is STALE");
    const bool a1b = passed & maxStaleGiven & (maxStale != HttpHdrCc::MAX_STALE_ANY) & (now - E >= maxStale);
    vf_assert(!a1b | stale, "stale by more than the request's max-stale: the verdict is STALE");
    // KNOWN FINDING C12-immutable-ignores-request-max-age: refreshCheck() ignores the request's max-age (also max-age=0) when the
    // stored reply carries Cache-Control: immutable (RFC 8246), so "Cache-Control: max-age=0" does not reach the origin while such
    // a reply is fresh. Class: honoured request max-age that is 0 or smaller than the age, stored reply with immutable. The claim A2
    // is made for that class only by c12_known_immutable_max_age (restricted to it); here the class is excluded from A2.
    const bool a2any = ccOn & ccHas(r.cc, CC_MAX_AGE) & ((maxAge == 0) | (age > maxAge));
    const bool immutableClass = a2any & ccHas(repCc, CC_IMMUTABLE);
    if (onlyImmutableMaxAge) vf_assume(immutableClass);
    const bool a2 = a2any & (onlyImmutableMaxAge | !immutableClass);
    vf_assert(!a2 | stale, "request max-age=0 or max-age smaller than the age: the verdict is STALE");
    const bool a3 = ccOn & r.reload;
    vf_assert(!a3 | stale, "client reload (no-cache) with the default rule: the verdict is STALE");
    const bool a4 = always | (ifStale & passed);
    vf_assert(!a4 | stale, "reply marked no-cache/private, or must-revalidate and expired: STALE whatever the request says");
    vf_assert((reason != FRESH_EXPIRES) | ((E > -1) & (E > now + minFresh)), "FRESH_EXPIRES only while the explicit lifetime (less min-fresh) has not passed");
    vf_assert(((reason != FRESH_MIN_RULE) & (reason != FRESH_LMFACTOR_RULE)) | (E <= -1), "heuristic freshness only without an explicit lifetime");
    const bool byMaxStale = (reason == FRESH_REQUEST_MAX_STALE_ALL) | (reason == FRESH_REQUEST_MAX_STALE_VALUE);
    vf_assert(!byMaxStale | (maxStaleGiven & !a4), "max-stale verdicts only for a honoured request max-stale on an entry not marked for revalidation");
    // vacuity labels: one per path, by priority
    if (a4) vf_reach("must-revalidate");
    else if (a2) vf_reach("request-max-age");
    else if (a3) vf_reach("reload");
    else if (a1b) vf_reach("beyond-max-stale");
    else if (a1) vf_reach("expired-stale");
    else if (byMaxStale) vf_reach("fresh-by-max-stale");
    else if (reason == FRESH_EXPIRES) vf_reach("fresh-expires");
    else vf_reach("other");
    WITNESS_POINT();
}
extern "C" void c12_verdict(void) { verdict(); }
extern "C" void c12_known_immutable_max_age(void) { onlyImmutableMaxAge = true; verdict(); }

// ================================================================== K2 / K3
struct Hdr {
    bool hasDate, hasExpires, expiresValid;
    int64_t D, X;       // Date (valid if hasDate), Expires (if hasExpires && expiresValid)
    HttpHdrCc *cc;
    int64_t expected;   // reference value of reply->expires
};

static void field(HttpHeader &h, const Http::HdrType id, const char *value) { h.addEntry(new HttpHeaderEntry(id, SBuf(), value)); } // as HttpHeader::parse() does

// Reply with Date / Expires present (any time), absent, or (Expires) unparsable, and a symbolic Cache-Control object;
// t0 = time of receipt (squid_curtime). Runs the real HttpReply::hdrCacheInit()/hdrExpirationTime().
static Hdr symbolicReply(World &w, const int64_t t0, const bool dateAndExpiresOnly = false)
{
    Hdr h;
    h.hasDate = dateAndExpiresOnly || vf_concretize(vf_bool("has_date")); // an unparsable Date is the same as none (getTime() = -1)
    h.D = h.hasDate ? (int64_t)vf_range(0, T31, "date") : -1;
    const unsigned ex = (unsigned)vf_concretize(vf_range(dateAndExpiresOnly ? 1 : 0, 2, "expires_field")); // 0 absent, 1 valid, 2 unparsable ("0", "-1", "now" ...)
    h.hasExpires = ex != 0; h.expiresValid = ex == 1;
    h.X = h.expiresValid ? (int64_t)vf_range(0, T31, "expires") : -1;
    markD = (time_t)h.D; markE = (time_t)h.X;
    if (h.hasDate) field(w.rep->header, Http::HdrType::DATE, "@D");
    if (h.hasExpires) field(w.rep->header, Http::HdrType::EXPIRES, h.expiresValid ? "@E" : "0");
    w.rep->sline.set(Http::ProtocolVersion(1, 1), Http::scOkay);
    w.rep->hdrCacheInit();                                  // date, last_modified, expires (no Cache-Control field yet) ...
    vf_assert(w.rep->date == h.D, "reply date is the Date field's value (or -1)");
    h.cc = (!dateAndExpiresOnly && vf_concretize(vf_bool("rep_has_cc"))) ? symbolicCc("rep_cc", false) : nullptr;
    w.rep->cache_control = h.cc;                            // what header.getCc() yields for the corresponding field text (C29)
    w.rep->expires = w.rep->hdrExpirationTime();           // last step of hdrCacheInit(), now with the Cache-Control object
    // reference (RFC 9111 4.2.1 precedence: s-maxage, max-age, Expires)
    if (ccHas(h.cc, CC_S_MAXAGE)) h.expected = h.hasDate ? h.D + h.cc->s_maxage : t0;
    else if (ccHas(h.cc, CC_MAX_AGE)) h.expected = h.hasDate ? h.D + h.cc->max_age : t0;
    else if (h.hasExpires) h.expected = h.expiresValid ? h.X : t0;
    else h.expected = -1;
    return h;
}

extern "C" void c12_expiry(void)
{
    defaults();
    World w;
    const int64_t t0 = vf_range(0, T31, "now");
    squid_curtime = (time_t)t0;
    const Hdr h = symbolicReply(w, t0);
    vf_observe("expires", (uint64_t)w.rep->expires);
    vf_assert((int64_t)w.rep->expires == h.expected, "expiry time = Date + s-maxage | Date + max-age | Expires | none, in this order");
    reachEither(h.expected == -1, "no-explicit-expiry", "explicit-expiry");
    WITNESS_POINT();
}

// plain later request (no Cache-Control, no reload): K1 covers what requests can change.
// withLastModified: the reply also carries Last-Modified (any time).
// dateAndExpiresOnly: Date present, Expires present (valid or unparsable), no Cache-Control.
static void chain(const bool withLastModified, const bool dateAndExpiresOnly)
{
    defaults();
    World w;
    Config.maxStale = 604800;
    // receipt (quick tier: at 10^9 = 2001-09-09; every other time stays symbolic, so every Date/Expires skew relative to it is covered)
    // (c12_known_expires_rebase is kept tiny: receipt at 10^9 and Last-Modified at 9*10^8 in both tiers, so that the LM-factor rule's
    // floating-point product is concrete)
    const int64_t t0 = onlyRebasedBeforeEpoch ? 1000000000 : T(1000000000, vf_range(0, T31, "received"));
    squid_curtime = (time_t)t0;
    if (withLastModified) {
        markL = onlyRebasedBeforeEpoch ? 900000000 : (time_t)vf_range(0, T31, "last_modified");
        field(w.rep->header, Http::HdrType::LAST_MODIFIED, "@L");
    }
    const Hdr h = symbolicReply(w, t0, dateAndExpiresOnly);
    // reference freshness lifetime (RFC 9111 4.2.1), Date = receipt time when there is no valid Date (RFC 9110 6.6.1)
    const int64_t dateRef = h.hasDate ? h.D : t0;
    bool explicitL = true, byExpires = false; int64_t L = 0;
    if (ccHas(h.cc, CC_S_MAXAGE)) L = h.cc->s_maxage;
    else if (ccHas(h.cc, CC_MAX_AGE)) L = h.cc->max_age;
    else if (h.hasExpires) { L = h.expiresValid ? h.X - dateRef : 0; byExpires = true; } // unparsable Expires = already expired (RFC 9111 5.3)
    else explicitL = false;
    // KNOWN FINDING C12-unparsable-expires-old-date: the lifetime comes from an unparsable Expires ("0", "-1", ...) and the Date field
    // is more than 24 h older than Squid's clock. hdrExpirationTime() turns the bad Expires into the receipt time t0,
    // StoreEntry::timestampsSet() replaces the old Date by t0 (served_date) but still adds (expires - Date): entry->expires =
    // t0 + (t0 - Date), so the already-expired reply is FRESH_EXPIRES for as long as the Date was old
    // (e.g. received=10^9 date=999900000 Expires unparsable now=1000050000 -> FRESH_EXPIRES).
    // Examined by c12_known_unparsable_expires only; every other entry excludes exactly this class.
    const bool badExpiresOldDate = byExpires && !h.expiresValid && h.hasDate && h.D < t0 - 86400;
    vf_assume(badExpiresOldDate == onlyBadExpiresOldDate);
    // KNOWN FINDING C12-expires-before-epoch-rebase: the lifetime comes from Expires, the Date field is ahead of Squid's clock
    // (served_date = t0) and Expires <= Date - t0 - 1 (e.g. "Expires: Thu, 01 Jan 1970 00:00:01 GMT" from an origin whose clock is
    // 2 s ahead; for an unparsable Expires, taken as t0: Date >= 2*t0 + 1): the rebased entry->expires = t0 + Expires - Date is
    // <= -1, which refreshStaleness() reads as "no explicit expiry", and with a Last-Modified field the reply is
    // FRESH_LMFACTOR_RULE although it had expired before it was sent (e.g. received=10^9 date=10^9+2 expires=1
    // last_modified=900000000 now=10^9+3600). Without Last-Modified the verdict is STALE_DEFAULT, so the class includes Last-Modified.
    // Examined by c12_known_expires_rebase only; every other entry excludes exactly this class.
    const bool rebasedBeforeEpoch = withLastModified && byExpires && h.hasDate && h.D > t0 && t0 + (h.expiresValid ? h.X : t0) - h.D <= -1;
    vf_assume(rebasedBeforeEpoch == onlyRebasedBeforeEpoch);

    w.entry->timestamp = -1; w.entry->expires = -1; w.entry->lastModified_ = -1; // as new StoreEntry
    w.entry->timestampsSet();
    vf_observe("timestamp", (uint64_t)w.entry->timestamp); vf_observe("entry_expires", (uint64_t)w.entry->expires);
    w.entry->flags = 0; // no revalidation marks (they can only add STALE verdicts, see K1)
    // a later request
    const int64_t now = vf_range(0, T31, "now");
    vf_assume(now >= t0);
    squid_curtime = (time_t)now;
    w.req->cache_control = nullptr;

    const int reason = verdictOf(w);

    const int64_t resident = now - t0;
    if (explicitL && resident >= L) {
        vf_assert(reason >= 200, "explicit freshness lifetime (s-maxage | max-age | Expires - Date) passed: the verdict is STALE");
        vf_reach("lifetime-passed");
    }
    if (reason < 200) vf_reach("fresh");
    WITNESS_POINT();
}
extern "C" void c12_chain(void) { chain(false, false); }
// with Last-Modified: the cases in which a lost explicit expiry would silently turn into LM-factor heuristic freshness
extern "C" void c12_chain_lm(void) { chain(true, true); }
extern "C" void c12_known_unparsable_expires(void) { onlyBadExpiresOldDate = true; chain(false, true); }
extern "C" void c12_known_expires_rebase(void) { onlyRebasedBeforeEpoch = true; chain(true, true); }
