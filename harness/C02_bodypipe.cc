// C02 (kernel): request bodies reach the origin byte-exactly with valid framing.
// Group A (c02_pipe_*): the real BodyPipe (src/BodyPipe.cc) + MemBuf under every sequence of producer/consumer operations.
#include "squid.h"
#include <sstream>
#include <functional>
#include <chrono>
#include <atomic>
#include <iostream>
#include <string>
#include <vector>
#include <list>
#include <map>
#include <unordered_map>
#include <unordered_set>
#include <memory>
#include <algorithm>
#include <optional>
#include "debug/Stream.h"
#include "SquidString.h"
#include "sbuf/SBuf.h"
#include "base/RefCount.h"
#include "base/TextException.h"
#include "base/AsyncCall.h"
#include "base/CbcPointer.h"
#include "cbdata.h"
#include "MemBuf.h"
#define private public
#define protected public
#include "base/AsyncJob.h"
#include "base/AsyncJobCalls.h"
#include "BodyPipe.h"
#include "clients/Client.h"
#include "http.h"
#include "FwdState.h"
#include "HttpRequest.h"
#include "Store.h"
#include "MemObject.h"
#include "errorpage.h"
#undef private
#undef protected
#include "base/AsyncCallQueue.h"
#include "comm.h"
#include "comm/Connection.h"
#include "comm/Write.h"
#include "CommCalls.h"
#include "fd.h"
#include "fde.h"
#include "HierarchyLogEntry.h"
#include "MasterXaction.h"
#include "PingData.h"
#include "StatHist.h"
#include "http/one/TeChunkedParser.h"
#include "mem/Allocator.h"
#include "mem/Pool.h"
#include "SquidConfig.h"
#include "StatCounters.h"
#include "http1.h"

// ---------------------------------------------------------------- environment stubs
void fatal(const char *) { vf_assert(0, "fatal() reached"); }
// cbdata.cc allocates through memory pools: a pool here is the plain heap
struct PlainPool: public Mem::Allocator {
    PlainPool(const char *l, size_t sz): Mem::Allocator(l, sz) {}
    size_t getStats(Mem::PoolStats &) override { return 0; }
    bool idleTrigger(int) const override { return false; }
    void clean(time_t) override {}
    void *allocate() override { return xcalloc(1, objectSize); }
    void deallocate(void *p) override { xfree(p); }
};
MemPools::MemPools() {}
MemPools &MemPools::GetInstance() { static MemPools *p = new MemPools; return *p; }
Mem::Allocator *MemPools::create(const char *label, size_t sz) { return new PlainPool(label, sz); }
#ifdef VF_BITCODE
// libstdc++'s out-of-line unordered_set growth policy (AsyncJob's registry of all jobs), interpreted build only
namespace std { namespace __detail {
size_t _Prime_rehash_policy::_M_next_bkt(size_t n) const { return n < 13 ? 13 : 2 * n + 1; }
pair<bool, size_t> _Prime_rehash_policy::_M_need_rehash(size_t nBkt, size_t nElt, size_t nIns) const
{ return nElt + nIns > nBkt ? make_pair(true, _M_next_bkt(nElt + nIns)) : make_pair(false, (size_t)0); }
} }
#endif

// ---------------------------------------------------------------- minimal jobs at both ends of the pipe
enum { evData = 1, evEnded = 2, evAborted = 3 };
class Prod: public BodyProducer
{
    CBDATA_CHILD(Prod);
public:
    Prod(): AsyncJob("Prod") {}
    void noteMoreBodySpaceAvailable(BodyPipe::Pointer) override { ++spaceNotes; }
    void noteBodyConsumerAborted(BodyPipe::Pointer) override { ++consumerAborted; }
    bool doneAll() const override { return false; }
    void stop(BodyPipe::Pointer &p, bool atEof) { stopProducingFor(p, atEof); }
    unsigned spaceNotes = 0, consumerAborted = 0;
};
CBDATA_CLASS_INIT(Prod);
class Cons: public BodyConsumer
{
    CBDATA_CHILD(Cons);
public:
    Cons(): AsyncJob("Cons") {}
    void noteMoreBodyDataAvailable(BodyPipe::Pointer) override { ++dataNotes; }
    void noteBodyProductionEnded(BodyPipe::Pointer) override { ++ended; }
    void noteBodyProducerAborted(BodyPipe::Pointer) override { ++aborted; }
    bool doneAll() const override { return false; }
    unsigned dataNotes = 0, ended = 0, aborted = 0;
};
CBDATA_CLASS_INIT(Cons);

#ifdef VF_THOROUGH
#define NFREE 2
#else
#define NFREE 1
#endif
#define MAXCAP 3
#define NBODY (MAXCAP + 2)

// ---------------------------------------------------------------- group A: the pipe under producer/consumer operations
// Ghost state: src[] is the client's body (src[n] = first byte after it); put = bytes the pipe accepted so far,
// got = bytes the consumer has taken (copied to out[]).
struct PipeWorld {
    bool sizeKnown, withConsumer, stoppedEarly, stoppedAtEof;
    unsigned n, cap, put, got;
    uint8_t src[NBODY + 2], out[NBODY + 2];
    Prod *prod;
    Cons *cons;
    BodyPipe *pipe;
    BodyPipe::Pointer prodPipe; // the producer's pointer (cleared when the producer stops)

    void setup(const bool known, const unsigned bodyLen, const unsigned capacity)
    {
        sizeKnown = known; n = bodyLen; cap = capacity;
        put = got = 0; stoppedEarly = stoppedAtEof = false;
        for (unsigned i = 0; i < n + 1; ++i) src[i] = vf_nondet_u8("body");
        prod = new Prod;
        cons = new Cons;
        pipe = new BodyPipe(prod);
        pipe->lock(); // never destroyed (its destructor demands a completed shutdown)
        prodPipe = pipe;
        pipe->theBuf.clean();
        pipe->theBuf.init(cap + 1, cap + 1); // small capacity instead of 64 KB (MemBuf keeps one byte for its terminator)
        if (sizeKnown) pipe->setBodySize(n);
        // HttpStateData usually joins later than the first body bytes arrive; both orders
        withConsumer = vf_choose(2, "consumerJoinsFirst");
        if (withConsumer) vf_assert(pipe->setConsumerIfNotLate(cons), "consumer accepted before any consumption");
    }
    bool producing() const { return prodPipe != nullptr && !pipe->productionEnded(); }
    unsigned room() const { return cap - (put - got); }
    bool complete() const { return stoppedAtEof || (sizeKnown && put == n); }

    // ConnStateData::handleRequestBodyData, identity: offer what has arrived (may include the start of the next request)
    void opPut(const unsigned offer)
    {
        const size_t took = pipe->putMoreData(reinterpret_cast<const char *>(src) + put, offer);
        unsigned want = offer; // it must take everything that is body and fits, and nothing else
        if (sizeKnown && want > n - put) want = n - put;
        if (want > room()) want = room();
        vf_assert(took == want, "putMoreData takes min(offered, undeclared rest of the body, free space) bytes");
        put += took;
    }
    // ConnStateData::handleChunkedRequestBody: the chunked decoder appends through a checkout, limited by potentialSpaceSize()
    void opCheckout(unsigned k)
    {
        BodyPipeCheckout bpc(*pipe);
        vf_assert((unsigned)bpc.buf.potentialSpaceSize() == room(), "checked-out buffer offers exactly the free space");
        if (k > room()) k = room();
        bpc.buf.append(reinterpret_cast<const char *>(src) + put, k);
        bpc.checkIn();
        put += k;
    }
    // Client::getMoreRequestBody: BodyPipe::getMoreData into a buffer with room for m bytes
    void opGet(const unsigned m)
    {
        MemBuf mb;
        mb.init(m + 1, m + 1);
        const size_t g = pipe->getMoreData(mb);
        const unsigned have = put - got;
        vf_assert(g == (have < m ? have : m), "getMoreData moves min(content, room) bytes");
        vf_assert((size_t)mb.contentSize() == g, "getMoreData reports what it moved");
        for (unsigned i = 0; i < g; ++i) out[got + i] = (uint8_t)mb.content()[i];
        got += g;
        mb.clean();
    }
    // peek at buf() and consume(m): BodySink, ICAP and FTP consumers
    void opConsume(const unsigned m)
    {
        for (unsigned i = 0; i < m; ++i) out[got + i] = (uint8_t)pipe->buf().content()[i];
        pipe->consume(m);
        got += m;
    }
    void opStop(const bool atEof)
    {
        prod->stop(prodPipe, atEof);
        (atEof ? stoppedAtEof : stoppedEarly) = true;
    }
    // one operation, free choice among those a caller may perform in this state, with every size
    void freeOp()
    {
        enum { PUT, CHECKOUT, GET, CONSUME, STOP_EOF, STOP_EARLY };
        unsigned ops[6], nops = 0;
        if (producing()) {
            if (sizeKnown) ops[nops++] = PUT;
            else { ops[nops++] = CHECKOUT; ops[nops++] = STOP_EOF; }
            if (!complete()) ops[nops++] = STOP_EARLY; // client went away / malformed chunk
        }
        if (withConsumer) {
            ops[nops++] = GET;
            if (put > got) ops[nops++] = CONSUME;
        }
        if (!nops) return;
        switch (ops[vf_choose(nops, "op")]) {
        case PUT: opPut((unsigned)vf_concretize(vf_range(0, n + 1 - put, "offer"))); break;
        case CHECKOUT: opCheckout((unsigned)vf_concretize(vf_range(0, n - put, "decoded"))); break;
        case GET: opGet((unsigned)vf_concretize(vf_range(1, MAXCAP, "room"))); break;
        case CONSUME: opConsume((unsigned)vf_concretize(vf_range(1, put - got, "consume"))); break;
        case STOP_EOF: opStop(true); break;
        case STOP_EARLY: opStop(false); break;
        }
    }
    void invariants()
    {
        vf_assert(pipe->producedSize() == put && pipe->consumedSize() == got, "pipe counters equal the bytes accepted/taken");
        vf_assert((unsigned)pipe->buf().contentSize() == put - got, "pipe holds exactly the accepted bytes not yet taken");
        for (unsigned i = got; i < put; ++i) vf_assert((uint8_t)pipe->buf().content()[i - got] == src[i], "buffered bytes are the body bytes, in order");
        for (unsigned i = 0; i < got; ++i) vf_assert(out[i] == src[i], "bytes taken by the consumer are the body bytes, in order");
        vf_assert(pipe->productionEnded() == (complete() || stoppedEarly), "production ends exactly at the declared size, at eof, or on abort");
        if (pipe->productionEnded()) {
            vf_assert(pipe->exhausted() == (got == put), "exhausted() iff production ended and everything was taken");
            if (complete()) vf_assert(pipe->bodySizeKnown() && pipe->bodySize() == put, "complete body: size known and equal to the produced size");
            else vf_assert(!pipe->bodySizeKnown() || pipe->bodySize() != put, "aborted body never looks complete");
        } else
            vf_assert(!pipe->exhausted(), "not exhausted while the producer may still produce");
    }
    // the consumer (joining now if it has not) is told "ended" only for a complete body, "aborted" for every other end
    void finish()
    {
        if (!withConsumer) vf_assert(pipe->setConsumerIfNotLate(cons), "late consumer accepted when nothing was consumed");
        AsyncCallQueue::Instance().fire();
        vf_assert(cons->ended == (complete() ? 1u : 0u), "consumer is told 'production ended' exactly when the whole body was produced");
        vf_assert(cons->aborted == (stoppedEarly ? 1u : 0u), "consumer is told 'producer aborted' exactly when the producer stopped early");
        if (put > got) vf_assert(cons->dataNotes > 0, "consumer was told about the data waiting in the pipe");
        vf_observe("put", put); vf_observe("got", got); vf_observe("ended", cons->ended); vf_observe("aborted", cons->aborted);
        vf_reach(complete() ? (got == n ? "all-relayed" : "complete-not-drained") : stoppedEarly ? "aborted" : "in-progress");
        if (put - got == cap) vf_reach("full");
    }
};

// Operation sequences: put a, take g, put b (every fill level, shifted content, refills) + NFREE free operations
static void pipeOps(const bool sizeKnown)
{
    vf_quiet();
    PipeWorld w;
    const unsigned cap = (unsigned)vf_concretize(vf_range(1, MAXCAP, "cap"));
#ifdef VF_THOROUGH
    const unsigned n = (unsigned)vf_concretize(vf_range(sizeKnown ? 1 : 0, NBODY, "bodyLen"));
#else
    const unsigned n = !sizeKnown && vf_concretize(vf_range(0, 1, "emptyBody")) ? 0 : cap + 1; // larger than the pipe
#endif
    w.setup(sizeKnown, n, cap);
    w.invariants();
    for (unsigned round = 0; round < 2 && n; ++round) {
        if (sizeKnown) w.opPut((unsigned)vf_concretize(vf_range(0, n + 1 - w.put, "offer")));
        else w.opCheckout((unsigned)vf_concretize(vf_range(0, n - w.put, "decoded")));
        w.invariants();
        if (round == 0 && w.withConsumer && w.put) {
            const unsigned g = (unsigned)vf_concretize(vf_range(0, w.put, "take"));
            if (g) w.opGet(g);
            w.invariants();
        }
        if (!w.producing()) break;
    }
    for (unsigned i = 0; i < NFREE; ++i) {
        w.freeOp();
        w.invariants();
    }
    w.finish();
    WITNESS_POINT();
}
extern "C" void c02_pipe_cl(void) { pipeOps(true); }
extern "C" void c02_pipe_chunked(void) { pipeOps(false); }

// ================================================================ group B: client intake -> pipe -> HttpStateData -> wire
// The real HttpStateData (real constructor; the request-body half of sendRequest() is performed by the harness) consumes
// from the real pipe through the real Client::noteMoreBodyDataAvailable / sendMoreRequestBody / getMoreRequestBody /
// sentRequestBody / handleRequestBodyProductionEnded / doneSendingRequestBody / finishingChunkedRequest / wroteLast /
// handleRequestBodyProducerAborted / swanSong / closeServer, all delivered as real AsyncCalls by the real AsyncCallQueue.
// Comm::Write() is a recorder (the bytes handed to comm for the server connection = what the origin receives).
#define WIREMAX 96
#define HDR "H\n" // stands for the request header block written by sendRequest() before any body byte
#define HDRLEN 2
static uint8_t wire[WIREMAX];
static unsigned wireLen, serverCloses, fwdFails, timeoutsSet;
static AsyncCall::Pointer *pendingWrite;
static Comm::ConnectionPointer *serverConn;
static bool replyStarted;

void Comm::Write(const Comm::ConnectionPointer &conn, const char *buf, int size, AsyncCall::Pointer &callback, FREE *free_func)
{
    vf_assert(conn != nullptr && conn->isOpen(), "writes go to an open server connection only");
    vf_assert(*pendingWrite == nullptr, "one write at a time per connection (comm asserts this)");
    vf_assert(size >= 0 && wireLen + size <= WIREMAX, "harness: wire array large enough");
    for (int i = 0; i < size; ++i) wire[wireLen++] = (uint8_t)buf[i];
    *pendingWrite = callback;
    if (free_func) free_func(const_cast<char *>(buf));
}
void Comm::Write(const Comm::ConnectionPointer &conn, MemBuf *mb, AsyncCall::Pointer &callback) { Comm::Write(conn, mb->buf, mb->size, callback, mb->freeFunc()); }
// what Comm::IoCallback::finish() does when a write has ended
static void finishWrite(const Comm::Flag flag)
{
    AsyncCall::Pointer cb = *pendingWrite;
    *pendingWrite = nullptr;
    CommIoCbParams &params = GetCommParams<CommIoCbParams>(cb);
    params.fd = (*serverConn)->fd;
    params.conn = *serverConn;
    params.size = 1;
    params.flag = flag;
    ScheduleCallHere(cb);
}
void comm_add_close_handler(int, AsyncCall::Pointer &) {}
void comm_remove_close_handler(int, AsyncCall::Pointer &) {}
void commSetConnTimeout(const Comm::ConnectionPointer &, time_t, AsyncCall::Pointer &) { ++timeoutsSet; }
void _comm_close(int, char const *, int) { ++serverCloses; }
void fd_bytes(int, int, IoDirection) {}
// peer_select.cc is not linked: HierarchyLogEntry (a member of every HttpRequest) embeds a ping_data, whose constructor lives there
ping_data::ping_data(): n_sent(0), n_recv(0), n_replies_expected(0), timeout(0), timedout(0), w_rtt(0), p_rtt(0)
{
    start.tv_sec = 0; start.tv_usec = 0; stop.tv_sec = 0; stop.tv_usec = 0;
}
const char *null_string = ""; // globals.cc is not linked
void StatHist::enumInit(unsigned int) {}
void StatHist::count(double) {}
StatCounters statCounter;
fde *fde::Table = nullptr; // fde.cc is not linked
void StoreEntry::lock(const char *) {}
int StoreEntry::unlock(const char *) { return 1; }
int64_t MemObject::endOffset() const { return replyStarted ? 1 : 0; }
// FwdState.cc is not linked (its globals need the connection pools): constructor/destructor are defined here (members only),
// fail()/unregister()/handleUnregisteredServerEnd() are recorders
cbdata_type FwdState::CBDATA_FwdState = CBDATA_UNKNOWN;
PeeringActivityTimer::PeeringActivityTimer(const HttpRequestPointer &r): request(r) {}
PeeringActivityTimer::~PeeringActivityTimer() {}
FwdState::FwdState(const Comm::ConnectionPointer &client, StoreEntry *e, HttpRequest *r, const AccessLogEntryPointer &alp):
    entry(e), request(r), al(alp), err(nullptr), clientConn(client), start_t(0), n_tries(0), waitingForDispatched(false),
    pconnRace(raceImpossible), storedWholeReply_(nullptr), peeringTimer(r)
{
    flags.connected_okay = flags.dont_retry = flags.forward_completed = flags.destinationsFound = false;
}
FwdState::~FwdState() {}
void FwdState::fail(ErrorState *) { ++fwdFails; }
void FwdState::unregister(Comm::ConnectionPointer &) {}
void FwdState::handleUnregisteredServerEnd() {}
cbdata_type ErrorState::CBDATA_ErrorState = CBDATA_UNKNOWN;
ErrorState::ErrorState(err_type t, Http::StatusCode s, HttpRequest *, const AccessLogEntryPointer &): type(t), httpStatus(s) {}
ErrorDetail::Pointer MakeNamedErrorDetail(const char *) { return nullptr; }

template <class T> static inline T *rawObject() { return static_cast<T *>(xcalloc(1, sizeof(T))); }

// ---- the client side of the pipe: the body-related steps of ConnStateData (expectRequestBody, handleRequestBodyData,
// handleChunkedRequestBody, finishDechunkingRequest, abortChunkedRequestBody, Http1::Server::noteMoreBodySpaceAvailable,
// noteBodyConsumerAborted), with the real TeChunkedParser for chunked client bodies
class ClientSide: public BodyProducer
{
    CBDATA_CHILD(ClientSide);
public:
    ClientSide(): AsyncJob("ClientSide") {}
    bool doneAll() const override { return false; }
    BodyPipe::Pointer expectRequestBody(const int64_t size, const unsigned cap)
    {
        bodyPipe = new BodyPipe(this);
        bodyPipe->lock(); // never destroyed
        bodyPipe->theBuf.clean();
        bodyPipe->theBuf.init(cap + 1, cap + 1); // small capacity instead of 64 KB
        if (size >= 0) bodyPipe->setBodySize(size);
        else bodyParser = new Http1::TeChunkedParser;
        return bodyPipe;
    }
    void received(const uint8_t *p, const unsigned len) { inBuf.append(reinterpret_cast<const char *>(p), len); if (bodyPipe != nullptr) handleRequestBodyData(); }
    void handleRequestBodyData()
    {
        if (bodyParser) {
            if (inBuf.isEmpty()) return;
            bool failed = false;
            try {
                BodyPipeCheckout bpc(*bodyPipe);
                bodyParser->setPayloadBuffer(&bpc.buf);
                const bool parsed = bodyParser->parse(inBuf);
                inBuf = bodyParser->remaining();
                bpc.checkIn();
                if (parsed) { finishDechunkingRequest(true); return; }
                Must(!bodyParser->needsMoreData() || bodyPipe->mayNeedMoreData());
                Must(!bodyParser->needsMoreSpace() || bodyPipe->buf().hasContent());
            } catch (...) {
                failed = true;
            }
            if (failed) { malformed = true; finishDechunkingRequest(false); }
        } else {
            const auto putSize = bodyPipe->putMoreData(inBuf.rawContent(), inBuf.length());
            if (putSize > 0) inBuf.consume(putSize);
            if (!bodyPipe->mayNeedMoreData()) bodyPipe = nullptr;
        }
    }
    void finishDechunkingRequest(const bool withSuccess)
    {
        if (bodyPipe != nullptr) stopProducingFor(bodyPipe, withSuccess);
        delete bodyParser;
        bodyParser = nullptr;
    }
    void clientGone() { if (bodyPipe != nullptr) stopProducingFor(bodyPipe, false); } // ConnStateData::swanSong
    void noteMoreBodySpaceAvailable(BodyPipe::Pointer) override { if (bodyPipe != nullptr) handleRequestBodyData(); }
    void noteBodyConsumerAborted(BodyPipe::Pointer) override { consumerAborted = true; if (bodyPipe != nullptr) bodyPipe->enableAutoConsumption(); }
    BodyPipe::Pointer bodyPipe;
    Http1::TeChunkedParser *bodyParser = nullptr;
    SBuf inBuf;
    bool malformed = false, consumerAborted = false;
};
CBDATA_CLASS_INIT(ClientSide);

// ---- reference decoder for what the origin receives after the header block: strict RFC 9112 7.1 without extensions and
// trailers (Squid generates none): *( 1*HEXDIG-without-leading-zero CRLF data CRLF ) "0" CRLF CRLF
enum { DONE = 0, MORE = 1, BAD = 2 };
struct Decoded { int st; unsigned consumed, len; uint8_t out[NBODY + 32]; };
static Decoded refDecode(const uint8_t *x, const unsigned n)
{
    Decoded r; r.st = MORE; r.consumed = 0; r.len = 0;
    unsigned p = 0;
    for (;;) {
        if (p == n) return r;
        unsigned size = 0, nd = 0;
        for (; p < n && nd < 4; ++p, ++nd) {
            const uint8_t c = x[p];
            unsigned d;
            if (c >= '0' && c <= '9') d = c - '0'; else if (c >= 'a' && c <= 'f') d = c - 'a' + 10; else if (c >= 'A' && c <= 'F') d = c - 'A' + 10; else break;
            if (nd == 1 && size == 0) { r.st = BAD; return r; } // leading zero / 0x
            size = size * 16 + d;
        }
        if (p == n) return r;
        if (!nd || x[p] != '\r') { r.st = BAD; return r; }
        if (++p == n) return r;
        if (x[p] != '\n') { r.st = BAD; return r; }
        ++p;
        if (size == 0) break;
        for (unsigned i = 0; i < size; ++i) {
            if (p == n) return r;
            if (r.len >= sizeof(r.out)) { r.st = BAD; return r; }
            r.out[r.len++] = x[p++];
        }
        if (p == n) return r;
        if (x[p] != '\r') { r.st = BAD; return r; }
        if (++p == n) return r;
        if (x[p] != '\n') { r.st = BAD; return r; }
        ++p;
    }
    if (p == n) return r;
    if (x[p] != '\r') { r.st = BAD; return r; }
    if (++p == n) return r;
    if (x[p] != '\n') { r.st = BAD; return r; }
    r.st = DONE; r.consumed = p + 1;
    return r;
}

struct Relay {
    bool chunkedOut;      // HttpStateData re-chunks (no Content-Length known to it when the header was built)
    bool chunkedIn;       // client sends chunked
    unsigned n, cap;      // body size, pipe capacity
    uint8_t body[NBODY + 32];
    uint8_t in[WIREMAX];  // what the client sends after its header: the body, identity or chunked, + 1 byte of the next request
    bool segEnd[WIREMAX + 1]; // chunked client: where a segment longer than 2 bytes may end (see ARRIVE)
    unsigned inLen, bodyEnd, delivered;
    ClientSide *client;
    BodyPipe::Pointer pipe;
    HttpStateData *hs;
    CbcPointer<HttpStateData> hsAlive;
    HttpRequest *request;
    FwdState *fwd;
    bool started, clientGone, writeFailed;

    void setup(const bool cIn, const bool cOut, const unsigned bodyLen, const unsigned capacity, const unsigned cut)
    {
        http1Config(1, 65536, 65536);
        chunkedIn = cIn; chunkedOut = cOut; n = bodyLen; cap = capacity;
        started = clientGone = writeFailed = false; delivered = 0;
        wireLen = serverCloses = fwdFails = timeoutsSet = 0;
        pendingWrite = new AsyncCall::Pointer;
        for (unsigned i = 0; i < n; ++i) body[i] = vf_nondet_u8("body");
        // the client's bytes
        inLen = 0;
        for (unsigned i = 0; i <= WIREMAX; ++i) segEnd[i] = !chunkedIn;
        if (chunkedIn) { // chunks [0,cut) [cut,n), last-chunk; concrete framing, symbolic data
            const unsigned ends[2] = {cut, n};
            unsigned from = 0;
            for (unsigned k = 0; k < 2; ++k) {
                if (ends[k] == from) continue;
                const unsigned sz = ends[k] - from;
                if (sz >= 16) in[inLen++] = "0123456789abcdef"[sz >> 4];
                in[inLen++] = "0123456789ABCDEF"[sz & 15];
                in[inLen++] = '\r'; in[inLen++] = '\n';
                for (; from < ends[k]; ++from) in[inLen++] = body[from];
                segEnd[inLen] = true; // between chunk-data and its CRLF
                in[inLen++] = '\r'; in[inLen++] = '\n';
                segEnd[inLen] = true; // between chunks
            }
            in[inLen++] = '0'; in[inLen++] = '\r'; in[inLen++] = '\n'; in[inLen++] = '\r'; in[inLen++] = '\n';
        } else
            for (unsigned i = 0; i < n; ++i) in[inLen++] = body[i];
        bodyEnd = inLen;
        in[inLen++] = vf_nondet_u8("next");
        segEnd[bodyEnd] = segEnd[inLen] = true; // first byte of the next pipelined request: must never reach this origin message
        client = new ClientSide;
        pipe = client->expectRequestBody(chunkedIn ? -1 : (int64_t)n, cap);
        request = new HttpRequest(MasterXaction::MakePortful(nullptr));
        request->lock(); // never destroyed
        request->body_pipe = pipe;
        fd_table = static_cast<fde *>(xcalloc(8, sizeof(fde)));
        serverConn = new Comm::ConnectionPointer(new Comm::Connection);
        (*serverConn)->fd = 5;
        StoreEntry *entry = rawObject<StoreEntry>();
        entry->mem_obj = rawObject<MemObject>();
        fwd = new FwdState(nullptr, entry, request, nullptr);
        fwd->lock(); // never destroyed
        fwd->serverConn = *serverConn;
        hs = nullptr;
    }
    // FwdState::dispatch() -> httpStart(): the server-side job is created and sendRequest() runs: it joins the pipe, decides
    // about re-chunking, and writes the header block with sentRequestBody() as the completion callback
    void start()
    {
        hs = new HttpStateData(fwd);
        hsAlive = hs;
        hs->started_ = true;
        const bool joined = hs->startRequestBodyFlow();
        vf_assert(joined, "the server side joins a pipe nobody has consumed from");
        typedef CommCbMemFunT<HttpStateData, CommIoCbParams> Dialer;
        hs->requestSender = JobCallback(11, 5, Dialer, hs, HttpStateData::sentRequestBody);
        // sendRequest(): chunk the body iff the request has no Content-Length; a chunked client body has got one only if it
        // was received completely before now (ConnStateData::finishDechunkingRequest() sets it)
        chunkedOut = chunkedIn && !bodyComplete();
        hs->flags.chunked_request = chunkedOut;
        Comm::Write(*serverConn, HDR, HDRLEN, hs->requestSender, nullptr);
        started = true;
    }
    void drain() { AsyncCallQueue::Instance().fire(); }
    bool bodyComplete() const { return pipe->productionEnded() && pipe->bodySizeKnown() && pipe->bodySize() == pipe->producedSize(); }

    // one external event followed by the delivery of all resulting AsyncCalls (one main-loop iteration)
    void step()
    {
        enum { ARRIVE, WRITTEN, GONE, START, WRITE_ERROR };
        unsigned ev[5], nev = 0;
        if (delivered < inLen && !clientGone && !client->malformed) ev[nev++] = ARRIVE;
        if (*pendingWrite != nullptr) { ev[nev++] = WRITTEN; if (!writeFailed) ev[nev++] = WRITE_ERROR; }
        if (!clientGone && client->bodyPipe != nullptr) ev[nev++] = GONE;
        if (!started) ev[nev++] = START;
        if (!nev) return;
        switch (ev[vf_choose(nev, "event")]) {
        case ARRIVE: {
            // identity bodies: every segment size; chunked bodies (framing segmentation is C24's subject): 1 or 2 bytes, or up
            // to the end of a chunk's data, of a chunk, of the body, or of everything the client has sent
            const unsigned ks = vf_range(1, inLen - delivered, "segment");
            vf_assume(ks <= 2 || segEnd[delivered + ks]);
            const unsigned k = (unsigned)vf_concretize(ks);
            client->received(in + delivered, k);
            delivered += k;
            break; }
        case WRITTEN: finishWrite(Comm::OK); break;
        case WRITE_ERROR: writeFailed = true; finishWrite(Comm::COMM_ERROR); break;
        case GONE: clientGone = true; client->clientGone(); break;
        case START: start(); break;
        }
        drain();
        check(false);
    }
    // everything that has been set in motion completes: all pending writes succeed
    void quiesce()
    {
        for (unsigned i = 0; i < 2 * NBODY + 8 && *pendingWrite != nullptr; ++i) { finishWrite(Comm::OK); drain(); }
        vf_assert(*pendingWrite == nullptr, "the relay comes to rest");
        check(true);
    }
    void check(const bool quiet)
    {
        vf_assert(wireLen == 0 || started, "nothing is written before the server side starts");
        if (!started) return;
        const unsigned put = (unsigned)pipe->producedSize();
        vf_assert(wireLen >= HDRLEN, "header block written first");
        const uint8_t *w = wire + HDRLEN;
        const unsigned wl = wireLen - HDRLEN;
        const bool alive = hsAlive.valid();
        unsigned sent; // body bytes the origin has got
        bool framedComplete;
        if (chunkedOut) {
            const Decoded d = refDecode(w, wl);
            vf_assert(d.st != BAD, "what the origin receives is validly chunked (so far)");
            vf_assert(d.len <= n, "origin never receives more than the body");
            for (unsigned i = 0; i < d.len && i < n; ++i) vf_assert(d.out[i] == body[i], "origin receives the client's body bytes, in order");
            if (d.st == DONE) vf_assert(d.consumed == wl, "nothing follows the last-chunk");
            sent = d.len; framedComplete = d.st == DONE;
        } else {
            vf_assert(wl <= n, "origin never receives more than the declared length");
            for (unsigned i = 0; i < wl && i < n; ++i) vf_assert(w[i] == body[i], "origin receives the client's body bytes, in order");
            sent = wl; framedComplete = wl == n;
        }
        vf_assert(sent <= put, "origin receives only bytes the pipe has accepted");
        if (framedComplete) {
            vf_assert(bodyComplete() && sent == n, "the upstream message is complete only if the whole client body was received");
        }
        if (quiet) {
            if (writeFailed || (pipe->productionEnded() && !bodyComplete())) {
                // Squid stopped relaying early: visibly incomplete upstream message, connection closed
                vf_assert(!framedComplete || writeFailed, "an aborted body is never completed upstream");
                vf_assert(serverCloses == 1 && !(*serverConn)->isOpen(), "the server connection is closed when the body relay is aborted");
                vf_assert(!alive, "the server-side job ends");
                vf_reach(writeFailed ? "write-error" : "aborted");
            } else if (bodyComplete()) {
                vf_assert(framedComplete && sent == n, "a completely received body is completely relayed, in one validly framed message");
                vf_assert(alive && serverCloses == 0 && hs->flags.request_sent && timeoutsSet == 1, "request sent: the server side now waits for the reply");
                vf_reach("relayed");
            } else {
                // the client is still sending: everything the pipe accepted has been forwarded, the message is open
                vf_assert(sent == put && !framedComplete && alive && serverCloses == 0, "all accepted bytes are forwarded while the body is in progress");
                vf_reach("in-progress");
            }
        }
    }
};

#ifdef VF_THOROUGH
#define NEVENTS 5
#define NEVENTS_CL 6
#define RBODY 4
#define RBODYC 3
#else
#define NEVENTS 4
#define NEVENTS_CL 4
#define RBODY 3
#define RBODYC 2
#endif
static void relay(const bool chunkedIn)
{
    vf_quiet();
    Relay r;
    const unsigned n = (unsigned)vf_concretize(vf_range(chunkedIn ? 0 : 1, chunkedIn ? RBODYC : RBODY, "bodyLen"));
    const unsigned cap = (unsigned)vf_concretize(vf_range(1, 2, "cap"));
    const unsigned cut = chunkedIn && n > 1 ? (unsigned)vf_concretize(vf_range(1, n, "chunkCut")) : n;
    r.setup(chunkedIn, chunkedIn, n, cap, cut);
    for (unsigned i = 0; i < (chunkedIn ? NEVENTS : NEVENTS_CL); ++i) r.step();
    r.quiesce();
    vf_observe("wireLen", wireLen); vf_observe("closes", serverCloses); vf_observe("put", r.pipe->producedSize());
    WITNESS_POINT();
}
extern "C" void c02_relay_cl(void) { relay(false); }
extern "C" void c02_relay_chunked(void) { relay(true); }
// chunk sizes that need hex letters / two hex digits: one client chunk of n bytes through a pipe that holds all of it
extern "C" void c02_relay_hex(void)
{
    vf_quiet();
    Relay r;
#ifdef VF_THOROUGH
    const unsigned n = (unsigned)vf_concretize(vf_range(9, 33, "bodyLen"));
#else
    static const unsigned sizes[4] = {10, 15, 16, 27};
    const unsigned n = sizes[vf_concretize(vf_range(0, 3, "bodyLenIdx"))];
#endif
    r.setup(true, true, n, n, n);
    for (unsigned i = 0; i < 3; ++i) r.step();
    r.quiesce();
    vf_observe("wireLen", wireLen); vf_observe("closes", serverCloses); vf_observe("put", r.pipe->producedSize());
    WITNESS_POINT();
}
