// C02 (kernel): request bodies reach the origin byte-exactly with valid framing.
// Group A (c02_pipe_*): the real BodyPipe (src/BodyPipe.cc) + MemBuf under every sequence of producer/consumer operations.
#include "squid.h"
#include <sstream>
#include <functional>
#include <chrono>
#include <atomic>
#include <iostream>
#include <string>
#include <vector>
#include <list>
#include <map>
#include <unordered_map>
#include <unordered_set>
#include <memory>
#include <algorithm>
#include <optional>
#include "debug/Stream.h"
#include "SquidString.h"
#include "sbuf/SBuf.h"
#include "base/RefCount.h"
#include "base/TextException.h"
#include "base/AsyncCall.h"
#include "base/AsyncJob.h"
#include "base/AsyncJobCalls.h"
#include "base/CbcPointer.h"
#include "cbdata.h"
#include "MemBuf.h"
#define private public
#define protected public
#include "BodyPipe.h"
#undef private
#undef protected
#include "base/AsyncCallQueue.h"
#include "mem/Allocator.h"
#include "mem/Pool.h"
#include "common.h"

// ---------------------------------------------------------------- environment stubs
void fatal(const char *) { vf_assert(0, "fatal() reached"); }
// cbdata.cc allocates through memory pools: a pool here is the plain heap
struct PlainPool: public Mem::Allocator {
    PlainPool(const char *l, size_t sz): Mem::Allocator(l, sz) {}
    size_t getStats(Mem::PoolStats &) override { return 0; }
    bool idleTrigger(int) const override { return false; }
    void clean(time_t) override {}
    void *allocate() override { return xcalloc(1, objectSize); }
    void deallocate(void *p) override { xfree(p); }
};
MemPools::MemPools() {}
MemPools &MemPools::GetInstance() { static MemPools *p = new MemPools; return *p; }
Mem::Allocator *MemPools::create(const char *label, size_t sz) { return new PlainPool(label, sz); }
#ifdef VF_BITCODE
// libstdc++'s out-of-line unordered_set growth policy (AsyncJob's registry of all jobs), interpreted build only
namespace std { namespace __detail {
size_t _Prime_rehash_policy::_M_next_bkt(size_t n) const { return n < 13 ? 13 : 2 * n + 1; }
pair<bool, size_t> _Prime_rehash_policy::_M_need_rehash(size_t nBkt, size_t nElt, size_t nIns) const
{ return nElt + nIns > nBkt ? make_pair(true, _M_next_bkt(nElt + nIns)) : make_pair(false, (size_t)0); }
} }
#endif

// ---------------------------------------------------------------- minimal jobs at both ends of the pipe
enum { evData = 1, evEnded = 2, evAborted = 3 };
class Prod: public BodyProducer
{
    CBDATA_CHILD(Prod);
public:
    Prod(): AsyncJob("Prod") {}
    void noteMoreBodySpaceAvailable(BodyPipe::Pointer) override { ++spaceNotes; }
    void noteBodyConsumerAborted(BodyPipe::Pointer) override { ++consumerAborted; }
    bool doneAll() const override { return false; }
    void stop(BodyPipe::Pointer &p, bool atEof) { stopProducingFor(p, atEof); }
    unsigned spaceNotes = 0, consumerAborted = 0;
};
CBDATA_CLASS_INIT(Prod);
class Cons: public BodyConsumer
{
    CBDATA_CHILD(Cons);
public:
    Cons(): AsyncJob("Cons") {}
    void noteMoreBodyDataAvailable(BodyPipe::Pointer) override { ++dataNotes; }
    void noteBodyProductionEnded(BodyPipe::Pointer) override { ++ended; }
    void noteBodyProducerAborted(BodyPipe::Pointer) override { ++aborted; }
    bool doneAll() const override { return false; }
    unsigned dataNotes = 0, ended = 0, aborted = 0;
};
CBDATA_CLASS_INIT(Cons);

#ifdef VF_THOROUGH
#define MAXCAP 3
#define NFREE 3
#else
#define MAXCAP 3
#define NFREE 2
#endif
#define NBODY (MAXCAP + 2)

// ---------------------------------------------------------------- group A: the pipe under producer/consumer operations
// Ghost state: src[] is the client's body (src[n] = first byte after it); put = bytes the pipe accepted so far,
// got = bytes the consumer has taken (copied to out[]).
struct PipeWorld {
    bool sizeKnown, withConsumer, stoppedEarly, stoppedAtEof;
    unsigned n, cap, put, got;
    uint8_t src[NBODY + 2], out[NBODY + 2];
    Prod *prod;
    Cons *cons;
    BodyPipe *pipe;
    BodyPipe::Pointer prodPipe; // the producer's pointer (cleared when the producer stops)

    void setup(const bool known, const unsigned bodyLen, const unsigned capacity)
    {
        sizeKnown = known; n = bodyLen; cap = capacity;
        put = got = 0; stoppedEarly = stoppedAtEof = false;
        for (unsigned i = 0; i < n + 1; ++i) src[i] = vf_nondet_u8("body");
        prod = new Prod;
        cons = new Cons;
        pipe = new BodyPipe(prod);
        pipe->lock(); // never destroyed (its destructor demands a completed shutdown)
        prodPipe = pipe;
        pipe->theBuf.clean();
        pipe->theBuf.init(cap + 1, cap + 1); // small capacity instead of 64 KB (MemBuf keeps one byte for its terminator)
        if (sizeKnown) pipe->setBodySize(n);
        // HttpStateData usually joins later than the first body bytes arrive; both orders
        withConsumer = vf_choose(2, "consumerJoinsFirst");
        if (withConsumer) vf_assert(pipe->setConsumerIfNotLate(cons), "consumer accepted before any consumption");
    }
    bool producing() const { return prodPipe != nullptr && !pipe->productionEnded(); }
    unsigned room() const { return cap - (put - got); }
    bool complete() const { return stoppedAtEof || (sizeKnown && put == n); }

    // ConnStateData::handleRequestBodyData, identity: offer what has arrived (may include the start of the next request)
    void opPut(const unsigned offer)
    {
        const size_t took = pipe->putMoreData(reinterpret_cast<const char *>(src) + put, offer);
        unsigned want = offer; // it must take everything that is body and fits, and nothing else
        if (sizeKnown && want > n - put) want = n - put;
        if (want > room()) want = room();
        vf_assert(took == want, "putMoreData takes min(offered, undeclared rest of the body, free space) bytes");
        put += took;
    }
    // ConnStateData::handleChunkedRequestBody: the chunked decoder appends through a checkout, limited by potentialSpaceSize()
    void opCheckout(unsigned k)
    {
        BodyPipeCheckout bpc(*pipe);
        vf_assert((unsigned)bpc.buf.potentialSpaceSize() == room(), "checked-out buffer offers exactly the free space");
        if (k > room()) k = room();
        bpc.buf.append(reinterpret_cast<const char *>(src) + put, k);
        bpc.checkIn();
        put += k;
    }
    // Client::getMoreRequestBody: BodyPipe::getMoreData into a buffer with room for m bytes
    void opGet(const unsigned m)
    {
        MemBuf mb;
        mb.init(m + 1, m + 1);
        const size_t g = pipe->getMoreData(mb);
        const unsigned have = put - got;
        vf_assert(g == (have < m ? have : m), "getMoreData moves min(content, room) bytes");
        vf_assert((size_t)mb.contentSize() == g, "getMoreData reports what it moved");
        for (unsigned i = 0; i < g; ++i) out[got + i] = (uint8_t)mb.content()[i];
        got += g;
        mb.clean();
    }
    // peek at buf() and consume(m): BodySink, ICAP and FTP consumers
    void opConsume(const unsigned m)
    {
        for (unsigned i = 0; i < m; ++i) out[got + i] = (uint8_t)pipe->buf().content()[i];
        pipe->consume(m);
        got += m;
    }
    void opStop(const bool atEof)
    {
        prod->stop(prodPipe, atEof);
        (atEof ? stoppedAtEof : stoppedEarly) = true;
    }
    // one operation, free choice among those a caller may perform in this state, with every size
    void freeOp()
    {
        enum { PUT, CHECKOUT, GET, CONSUME, STOP_EOF, STOP_EARLY };
        unsigned ops[6], nops = 0;
        if (producing()) {
            ops[nops++] = PUT;
            if (!sizeKnown) { ops[nops++] = CHECKOUT; ops[nops++] = STOP_EOF; }
            if (!complete()) ops[nops++] = STOP_EARLY; // client went away / malformed chunk
        }
        if (withConsumer) {
            ops[nops++] = GET;
            if (put > got) ops[nops++] = CONSUME;
        }
        if (!nops) return;
        switch (ops[vf_choose(nops, "op")]) {
        case PUT: opPut((unsigned)vf_concretize(vf_range(0, n + 1 - put, "offer"))); break;
        case CHECKOUT: opCheckout((unsigned)vf_concretize(vf_range(0, n - put, "decoded"))); break;
        case GET: opGet((unsigned)vf_concretize(vf_range(1, MAXCAP, "room"))); break;
        case CONSUME: opConsume((unsigned)vf_concretize(vf_range(1, put - got, "consume"))); break;
        case STOP_EOF: opStop(true); break;
        case STOP_EARLY: opStop(false); break;
        }
    }
    void invariants()
    {
        vf_assert(pipe->producedSize() == put && pipe->consumedSize() == got, "pipe counters equal the bytes accepted/taken");
        vf_assert((unsigned)pipe->buf().contentSize() == put - got, "pipe holds exactly the accepted bytes not yet taken");
        for (unsigned i = got; i < put; ++i) vf_assert((uint8_t)pipe->buf().content()[i - got] == src[i], "buffered bytes are the body bytes, in order");
        for (unsigned i = 0; i < got; ++i) vf_assert(out[i] == src[i], "bytes taken by the consumer are the body bytes, in order");
        vf_assert(pipe->productionEnded() == (complete() || stoppedEarly), "production ends exactly at the declared size, at eof, or on abort");
        if (pipe->productionEnded()) {
            vf_assert(pipe->exhausted() == (got == put), "exhausted() iff production ended and everything was taken");
            if (complete()) vf_assert(pipe->bodySizeKnown() && pipe->bodySize() == put, "complete body: size known and equal to the produced size");
            else vf_assert(!pipe->bodySizeKnown() || pipe->bodySize() != put, "aborted body never looks complete");
        } else
            vf_assert(!pipe->exhausted(), "not exhausted while the producer may still produce");
    }
    // the consumer (joining now if it has not) is told "ended" only for a complete body, "aborted" for every other end
    void finish()
    {
        if (!withConsumer) vf_assert(pipe->setConsumerIfNotLate(cons), "late consumer accepted when nothing was consumed");
        AsyncCallQueue::Instance().fire();
        vf_assert(cons->ended == (complete() ? 1u : 0u), "consumer is told 'production ended' exactly when the whole body was produced");
        vf_assert(cons->aborted == (stoppedEarly ? 1u : 0u), "consumer is told 'producer aborted' exactly when the producer stopped early");
        if (put > got) vf_assert(cons->dataNotes > 0, "consumer was told about the data waiting in the pipe");
        vf_observe("put", put); vf_observe("got", got); vf_observe("ended", cons->ended); vf_observe("aborted", cons->aborted);
        vf_reach(complete() ? (got == n ? "all-relayed" : "complete-not-drained") : stoppedEarly ? "aborted" : "in-progress");
        if (put - got == cap) vf_reach("full");
    }
};

// canonical prefix (put a bytes, take g of them: reaches every fill level with shifted content) + NFREE free operations
static void pipeOps(const bool sizeKnown)
{
    vf_quiet();
    PipeWorld w;
    const unsigned cap = (unsigned)vf_concretize(vf_range(1, MAXCAP, "cap"));
#ifdef VF_THOROUGH
    const unsigned n = (unsigned)vf_concretize(vf_range(sizeKnown ? 1 : 0, NBODY, "bodyLen"));
#else
    const unsigned n = !sizeKnown && vf_concretize(vf_range(0, 1, "emptyBody")) ? 0 : cap + 1; // larger than the pipe
#endif
    w.setup(sizeKnown, n, cap);
    w.invariants();
    if (n) {
        w.opPut((unsigned)vf_concretize(vf_range(0, n, "offer")));
        w.invariants();
        if (w.withConsumer && w.put) {
            const unsigned g = (unsigned)vf_concretize(vf_range(0, w.put, "take"));
            if (g) { if (vf_choose(2, "how")) w.opGet(g); else w.opConsume(g); }
            w.invariants();
        }
    }
    for (unsigned i = 0; i < NFREE; ++i) {
        w.freeOp();
        w.invariants();
    }
    w.finish();
    WITNESS_POINT();
}
extern "C" void c02_pipe_cl(void) { pipeOps(true); }
extern "C" void c02_pipe_chunked(void) { pipeOps(false); }
