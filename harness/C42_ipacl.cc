// C42: IP-address ACLs (ACLIP) match exactly the union of the configured address sets.
//
// Real code: src/acl/Ip.cc (ACLIP::parse -> parseGlobal / acl_ip_data::FactoryParse (sscanf patterns, DecodeMask) ->
// Acl::SplayInserter<acl_ip_data*>::Merge (Compare/IsSubset/MakeCombinedValue) -> splay; ACLIP::match ->
// splay find with aclIpAddrNetworkCompare), src/ip/Address.cc, include/splay.h.
//
// The ACL is configured from TEXT tokens, as squid.conf would: every token is
//   v4:  "10.0.0.N" | "10.0.0.N/M" | "10.0.0.A-10.0.0.B"         N,A,B = two symbolic decimal digits, 64..95; M 26..32
//   v6:  "fc00::XY" | "fc00::XY/M" | "fc00::XY-fc00::ZW"          XY = two symbolic hex digits (0..255); M 120..128
// with the host bits below the mask zero and A <= B, as the property says ("given without host bits below the
// mask"); the kind and family of every token are chosen per path, so every order and every overlap/containment/
// adjacency relation between the tokens is covered. The probe is 10.0.P.Q or fc00::PPQQ with 16 symbolic bits.
// Oracle: direct comparison of the probe with every token's [lo, hi] interval of its family.
#include "squid.h"
#include "acl/Ip.h"
#include "acl/Checklist.h"
#include "ConfigParser.h"
#include "cache_cf.h"
#include "ip/tools.h"
#include "common.h"
#include <cstring>
#include <netdb.h>
#include <cstdlib>

#define MAXTOK 4
int opt_parse_cfg_only = 0;            // globals.cc is not linked
int Ip::EnableIpv6 = IPV6_ON;          // ip/tools.cc (socket probing) is not linked: IPv6 enabled

// ---- configuration environment (ConfigParser.cc and cache_cf.cc are not linked)
static char *cfgTok[MAXTOK + 1];
static unsigned cfgNext = 0, cfgCount = 0;
char *ConfigParser::strtokFile() { return cfgNext < cfgCount ? cfgTok[cfgNext++] : nullptr; }
struct VfConfigRejected {};
void self_destruct(void) { throw VfConfigRejected(); }   // the real one logs and exits: configuration rejected

// Acl::Node's constructor/destructor live in acl/Acl.cc (the ACL registry, not linked); they only log and free cfgline
Acl::Node::Node() {}
Acl::Node::~Node() {}
bool Acl::Node::valid() const { return true; }
bool Acl::Node::isProxyAuth() const { return false; }
int Acl::Node::matchForCache(ACLChecklist *) { return 0; }
bool Acl::Node::requiresAle() const { return false; }
bool Acl::Node::requiresRequest() const { return false; }
bool Acl::Node::requiresReply() const { return false; }
void *Acl::Node::operator new(size_t) { abort(); }
void Acl::Node::operator delete(void *) {}

// a concrete ACLIP (what ACLSourceIP etc. are), living on the stack because ACLIP::operator new is "unused"
struct TestIpAcl : public ACLIP {
    char const *typeString() const override { return "src"; }
    int match(ACLChecklist *) override { return 0; }
    int probe(const Ip::Address &a) { return ACLIP::match(a); }
};

#ifdef VF_BITCODE
// ---- numeric-only model of getaddrinfo()/freeaddrinfo() (the native replay uses the real libc).
// Accepts exactly: dotted-quad decimal IPv4 (1-3 digits per octet, value <= 255) and IPv6 hex groups with at most one
// "::"; anything else is EAI_NONAME. Like glibc it returns one result per socket type (3) when the hints leave the
// socket type open, which is what makes FactoryParse's duplicate elimination run.
static bool vfParse4(const char *s, uint8_t out[4])
{
    for (int k = 0; k < 4; ++k) {
        unsigned v = 0, nd = 0;
        while (*s >= '0' && *s <= '9' && nd < 3) { v = v * 10 + (unsigned)(*s - '0'); ++s; ++nd; }
        if (!nd || v > 255) return false;
        out[k] = (uint8_t)v;
        if (k < 3) { if (*s != '.') return false; ++s; }
    }
    return *s == 0;
}
// branch-free on purpose (a symbolic hex digit must not fork the path into "digit" and "letter")
static int vfHex(char ch)
{
    const unsigned c = (unsigned char)ch;
    const unsigned ok = ((c >= '0') & (c <= '9')) | ((c >= 'a') & (c <= 'f')) | ((c >= 'A') & (c <= 'F'));
    const int v = (int)((c & 0xf) + 9 * (c >> 6));
    return ok ? v : -1;
}
static bool vfParse6(const char *s, uint8_t out[16])
{
    uint16_t g[8]; int ng = 0, gap = -1;
    if (s[0] == ':') { if (s[1] != ':') return false; gap = 0; s += 2; }
    while (*s) {
        if (ng == 8) return false;
        unsigned v = 0, nd = 0;
        while (vfHex(*s) >= 0 && nd < 4) { v = v * 16 + (unsigned)vfHex(*s); ++s; ++nd; }
        if (!nd) return false;
        g[ng++] = (uint16_t)v;
        if (!*s) break;
        if (*s != ':') return false;
        ++s;
        if (*s == ':') { if (gap >= 0) return false; gap = ng; ++s; }
        else if (!*s) return false;
    }
    if (gap < 0 && ng != 8) return false;
    if (gap >= 0 && ng >= 8) return false;
    memset(out, 0, 16);
    for (int i = 0; i < ng; ++i) {
        const int pos = (gap >= 0 && i >= gap) ? 8 - (ng - i) : i;
        out[2 * pos] = (uint8_t)(g[i] >> 8); out[2 * pos + 1] = (uint8_t)g[i];
    }
    return true;
}
extern "C" int getaddrinfo(const char *node, const char *, const struct addrinfo *hints, struct addrinfo **res)
{
    uint8_t a4[4], a6[16];
    *res = nullptr;
    if (!node) return EAI_NONAME;
    const bool is4 = vfParse4(node, a4);
    const bool is6 = !is4 && vfParse6(node, a6);
    if (!is4 && !is6) return EAI_NONAME;
    const int ntypes = (hints && hints->ai_socktype) ? 1 : 3;
    struct addrinfo **tail = res;
    for (int t = 0; t < ntypes; ++t) {
        char *blk = (char *)calloc(1, sizeof(struct addrinfo) + sizeof(struct sockaddr_in6));
        struct addrinfo *ai = (struct addrinfo *)blk;
        ai->ai_addr = (struct sockaddr *)(blk + sizeof(struct addrinfo));
        ai->ai_socktype = (hints && hints->ai_socktype) ? hints->ai_socktype : t + 1;
        if (is4) {
            struct sockaddr_in *sa = (struct sockaddr_in *)ai->ai_addr;
            ai->ai_family = sa->sin_family = AF_INET; ai->ai_addrlen = sizeof(*sa);
            memcpy(&sa->sin_addr, a4, 4);
        } else {
            struct sockaddr_in6 *sa = (struct sockaddr_in6 *)ai->ai_addr;
            ai->ai_family = sa->sin6_family = AF_INET6; ai->ai_addrlen = sizeof(*sa);
            memcpy(&sa->sin6_addr, a6, 16);
        }
        *tail = ai; tail = &ai->ai_next;
    }
    return 0;
}
extern "C" void freeaddrinfo(struct addrinfo *p) { while (p) { struct addrinfo *n = p->ai_next; free(p); p = n; } }
extern "C" const char *gai_strerror(int) { return "error"; }
#endif

// ------------------------------------------------------------------------------------------------ symbolic tokens
struct Tok { bool v6; unsigned lo, hi; };          // the set a token denotes: family + [lo,hi] of the last address byte

static unsigned dec2(char *&p, unsigned lo, unsigned hi, const char *name)   // two symbolic decimal digits, value in [lo,hi]
{
    const unsigned char t = vf_nondet_u8(name), u = vf_nondet_u8(name);
    vf_assume(t >= '0' && t <= '9' && u >= '0' && u <= '9');
    const unsigned v = (t - '0') * 10u + (u - '0');
    vf_assume(v >= lo && v <= hi);
    *p++ = (char)t; *p++ = (char)u;
    return v;
}
static unsigned hexDigit(char *&p, const char *name)
{
    const unsigned char c = vf_nondet_u8(name);
    vf_assume((c >= '0' && c <= '9') || (c >= 'a' && c <= 'f'));
    *p++ = (char)c;
    return (c & 0xf) + 9u * (c >> 6);
}
static unsigned hex2(char *&p, const char *name) { const unsigned h = hexDigit(p, name); return h * 16 + hexDigit(p, name); }
static void lit(char *&p, const char *s) { while (*s) *p++ = *s++; }

enum { kHost, kCidr, kRange, kKinds };
enum Fam { fV4, fV6, fAny };
static char *symbolicToken(Tok &t, const Fam fam, const bool rangesOnly = false)
{
    char *s = (char *)xmalloc(48), *p = s;
    t.v6 = fam == fV6 || (fam == fAny && vf_concretize(vf_bool("v6")));
    const unsigned kind = rangesOnly ? kRange : (unsigned)vf_concretize(vf_range(0, kKinds - 1, "kind"));
    if (!t.v6) {
        lit(p, "10.0.0.");
        t.lo = t.hi = dec2(p, 64, 95, "n4");
        if (kind == kCidr) {
            *p++ = '/';
            const unsigned m = dec2(p, 26, 32, "m4");
            const unsigned hostMask = (1u << (32 - m)) - 1;
            vf_assume((t.lo & hostMask) == 0);               // no host bits below the mask
            t.hi = t.lo | hostMask;
        } else if (kind == kRange) {
            lit(p, "-10.0.0.");
            t.hi = dec2(p, 64, 95, "n4b");
            vf_assume(t.lo <= t.hi);
        }
    } else {
        lit(p, "fc00::");
        t.lo = t.hi = hex2(p, "n6");
        if (kind == kCidr) {
            lit(p, "/12");
            const unsigned char u = vf_nondet_u8("m6");
            vf_assume(u >= '0' && u <= '8');
            *p++ = (char)u;
            const unsigned hostMask = (1u << (8 - (u - '0'))) - 1;
            vf_assume((t.lo & hostMask) == 0);
            t.hi = t.lo | hostMask;
        } else if (kind == kRange) {
            lit(p, "-fc00::");
            t.hi = hex2(p, "n6b");
            vf_assume(t.lo <= t.hi);
        }
    }
    *p = 0;
    return s;
}

// probe: 10.0.P.Q or fc00::PPQQ; returns the 16 symbolic bits
static unsigned symbolicProbe(Ip::Address &a, const bool v6)
{
    const unsigned pq = vf_nondet_u16("probe");
    if (!v6) {
        struct in_addr ia;
        ia.s_addr = htonl(0x0A000000u | pq);
        a = ia;
    } else {
        struct in6_addr i6;
        memset(&i6, 0, sizeof(i6));
        i6.s6_addr[0] = 0xfc; i6.s6_addr[14] = (uint8_t)(pq >> 8); i6.s6_addr[15] = (uint8_t)pq;
        a = i6;
    }
    return pq;
}

// mode: all tokens IPv4 | all IPv6 | exactly two tokens, one of each family in either order | every token either family
enum Mode { mV4, mV6, mOneEach, mAny };
static void ipAcl(const unsigned maxTokens, const Mode mode, const bool rangesOnly = false)
{
    vf_quiet();
    cfgCount = mode == mOneEach ? 2 : (unsigned)vf_concretize(vf_range(rangesOnly ? maxTokens : 1, maxTokens, "ntokens"));
    Tok toks[MAXTOK];
    const bool firstV6 = mode == mOneEach && vf_concretize(vf_bool("firstV6"));
    for (unsigned i = 0; i < cfgCount; ++i) {
        const Fam fam = mode == mV4 ? fV4 : mode == mV6 ? fV6 : mode == mAny ? fAny : ((i == 0) == firstV6 ? fV6 : fV4);
        cfgTok[i] = symbolicToken(toks[i], fam, rangesOnly);
    }
    cfgNext = 0;
    const bool probeV6 = mode == mV6 || (mode != mV4 && vf_concretize(vf_bool("probeV6")));
    Ip::Address probe;
    const unsigned pq = symbolicProbe(probe, probeV6);

    TestIpAcl acl;
    acl.parse();                                      // a rejected configuration (self_destruct) escapes = violation
    vf_assert(!acl.empty(), "parsed values are kept");
    bool expect = false;
    for (unsigned i = 0; i < cfgCount; ++i)
        expect = expect || (toks[i].v6 == probeV6 && (pq >> 8) == 0 && toks[i].lo <= (pq & 0xff) && (pq & 0xff) <= toks[i].hi);
    const bool got = acl.probe(probe);
    vf_observe("expect", expect);
    vf_observe("got", got);
    vf_assert(got == expect, "the ACL matches iff the address belongs to the union of the listed sets");
    vf_reach(got ? "match" : "nomatch");
    WITNESS_POINT();
}
extern "C" void c42_v4_lists(void) { ipAcl(2, mV4); }
extern "C" void c42_v6_lists(void) { ipAcl(2, mV6); }
extern "C" void c42_mixed_pair(void) { ipAcl(2, mOneEach, true); }  // one range of each family
extern "C" void c42_v4_ranges3(void) { ipAcl(3, mV4, true); }       // thorough: three ranges, every relative position
extern "C" void c42_v4_lists3(void) { ipAcl(3, mV4); }              // not in a tier: > 31000 paths, did not finish within 15 minutes
extern "C" void c42_v6_ranges3(void) { ipAcl(3, mV6, true); }       // thorough

// ---- chained merges: two fixed disjoint ranges and one symbolic token (any kind) configured before, between or after them
extern "C" void c42_v4_chain(void)
{
    vf_quiet();
    Tok t;
#ifdef VF_THOROUGH
    char *tok = symbolicToken(t, fV4);
#else
    char *tok = symbolicToken(t, fV4, true);          // quick: the symbolic token is a range (the most general kind)
#endif
    const unsigned pos = (unsigned)vf_concretize(vf_range(0, 2, "position"));
    unsigned nfixed = 0;
    for (unsigned i = 0; i < 3; ++i)
        cfgTok[i] = i == pos ? tok : xstrdup(nfixed++ == 0 ? "10.0.0.70-10.0.0.74" : "10.0.0.80-10.0.0.84");
    cfgCount = 3;
    cfgNext = 0;
    Ip::Address probe;
    const unsigned pq = symbolicProbe(probe, false);
    TestIpAcl acl;
    acl.parse();
    const unsigned q = pq & 0xff;
    const bool expect = (pq >> 8) == 0 && ((t.lo <= q && q <= t.hi) || (70 <= q && q <= 74) || (80 <= q && q <= 84));
    const bool got = acl.probe(probe);
    vf_observe("expect", expect);
    vf_observe("got", got);
    vf_assert(got == expect, "the ACL matches iff the address belongs to the union of the listed sets (chained merge)");
    vf_reach(got ? "match" : "nomatch");
    WITNESS_POINT();
}

// ---- all / ipv4 / ipv6, alone or next to an ordinary token, in either order
extern "C" void c42_families(void)
{
    vf_quiet();
    static const char *volatile special[3] = { "all", "ipv4", "ipv6" };   // volatile: keeps clang from emitting llvm.load.relative
    const unsigned which = (unsigned)vf_concretize(vf_range(0, 2, "special"));
    const unsigned shape = (unsigned)vf_concretize(vf_range(0, 2, "shape"));    // special alone | special, token | token, special
    Tok t;
    char *tok = shape ? symbolicToken(t, fAny) : nullptr;
    cfgCount = 0;
    if (shape == 2) cfgTok[cfgCount++] = tok;
    cfgTok[cfgCount++] = xstrdup(special[which]);
    if (shape == 1) cfgTok[cfgCount++] = tok;
    cfgNext = 0;
    const bool probeV6 = vf_concretize(vf_bool("probeV6"));
    Ip::Address probe;
    const unsigned pq = symbolicProbe(probe, probeV6);

    TestIpAcl acl;
    acl.parse();
    vf_assert(!acl.empty(), "parsed values are kept");
    bool expect = which == 0 || (which == 1 && !probeV6) || (which == 2 && probeV6);
    if (shape) expect = expect || (t.v6 == probeV6 && (pq >> 8) == 0 && t.lo <= (pq & 0xff) && (pq & 0xff) <= t.hi);
    const bool got = acl.probe(probe);
    vf_observe("expect", expect);
    vf_observe("got", got);
    vf_assert(got == expect, "all/ipv4/ipv6 match their families; other tokens keep matching their sets");
    vf_reach(got ? "match" : "nomatch");
    WITNESS_POINT();
}

// ---- the widest CIDR network of a family: "::/0" denotes every IPv6 address.
// It used to be stored as the single host "::" (Ip::Address::applyMask(0, ...) produced the all-ones
// "no mask" value); repaired in /repo by the 'fix: a /0 CIDR mask ...' commit.
static void zeroMask(const char *token, const bool v6)
{
    vf_quiet();
    cfgTok[0] = xstrdup(token); cfgCount = 1; cfgNext = 0;
    Ip::Address probe;
    const bool probeV6 = vf_bool("probeV6");
    (void)symbolicProbe(probe, probeV6);
    TestIpAcl acl;
    acl.parse();
    const bool got = acl.probe(probe);
    vf_observe("got", got);
    // (IPv4 clients are stored as v4-mapped IPv6 addresses, which "::/0" contains as well: nothing is demanded for them.)
    if (probeV6 == v6) vf_assert(got, "a /0 network matches every address of its family");
    vf_reach(got ? "match" : "nomatch");
    WITNESS_POINT();
}
extern "C" void c42_zero_mask(void) { zeroMask("::/0", true); }
// ("0.0.0.0/0" is not examined: ACLIP::parseGlobal() documents it as a legacy spelling of 'all', matching both families.)
