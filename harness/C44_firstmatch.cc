// C44: access lists decide by first match, even when checks go asynchronous.
//
// Real code: ACLChecklist (fastCheck, nonBlockingCheck, matchChild, goAsync, resumeNonBlockingCheck, matchAndFinish,
// calcImplicitAnswer, checkCallback), ACLFilledChecklist, Acl::Tree (winningAction/lastAction), Acl::NotNode/AndNode/
// OrNode, Acl::InnerNode (lineParse, resumeMatchingAt), Acl::AllOf/AnyOf (parse, doMatch), Acl::Node::matches,
// Acl::Node::FindByName, cbdata.
//
// A rule list is written as a small configuration text (see SHAPES below). The real tree is built from it the way
// squid.conf parsing does: every "acl NAME all-of|any-of ..." line goes through the real Acl::AllOf::parse()/
// Acl::AnyOf::parse() and every access rule through the real Acl::InnerNode::lineParse() ("!name" -> NotNode), with
// ConfigParser::strtokFile() handing out the tokens and Config.namedAcls holding the named ACLs.
// The leaves are harness ACLs (SynAcl) "a".."f". Per check and leaf, SYMBOLIC: the verdict (mismatch / match /
// "stop the check with AUTH_REQUIRED"), how many lookups the leaf needs before it knows its verdict (0 = fast ACL),
// whether a lookup completes inside the starter (cache hit: goAsync() reports failure and the ACL evaluates at once)
// or later (the harness calls resumeNonBlockingCheck()), and what a slow leaf does when it may not go async (fast
// check): mismatch, or stop with DUNNO. Per rule, SYMBOLIC: allow/deny and the custom action kind.
// Which shape is used is a structural choice (vf_choose). With two concurrent checklists on the same tree the
// order in which their lookups complete is a free choice, too.
//
// Oracle: a direct recursive first-match evaluator over the harness's own parse of the same text (not the tree).
#include "squid.h"
#include "acl/Acl.cc"               // the real translation unit (gives access to the Acl::NamedAcls type)
#include "acl/AllOf.h"
#include "acl/AnyOf.h"
#include "acl/BoolOps.h"
#include "acl/FilledChecklist.h"
#include "acl/Tree.h"
#include "mem/Allocator.h"
#include "mem/Pool.h"
#include "common.h"

// ---------------------------------------------------------------- environment stubs
char config_input_line[BUFSIZ];
void self_destruct(void) { vf_assert(0, "self_destruct(): configuration rejected"); }
void fatal(const char *) { vf_assert(0, "fatal() reached"); }

// cbdata.cc allocates through memory pools: a pool here is the plain heap
struct PlainPool: public Mem::Allocator {
    PlainPool(const char *l, size_t sz): Mem::Allocator(l, sz) {}
    size_t getStats(Mem::PoolStats &) override { return 0; }
    bool idleTrigger(int) const override { return false; }
    void clean(time_t) override {}
    void *allocate() override { return xcalloc(1, objectSize); }
    void deallocate(void *p) override { xfree(p); }
};
MemPools::MemPools() {}
MemPools &MemPools::GetInstance() { static MemPools *p = new MemPools; return *p; }
Mem::Allocator *MemPools::create(const char *label, size_t sz) { return new PlainPool(label, sz); }

#ifdef VF_BITCODE
// libstdc++'s out-of-line unordered_map growth policy (Config.namedAcls), for the interpreted build only: grow when the
// load factor would exceed 1
namespace std { namespace __detail {
size_t _Prime_rehash_policy::_M_next_bkt(size_t n) const { return n < 13 ? 13 : 2 * n + 1; }
pair<bool, size_t> _Prime_rehash_policy::_M_need_rehash(size_t nBkt, size_t nElt, size_t nIns) const
{ return nElt + nIns > nBkt ? make_pair(true, _M_next_bkt(nElt + nIns)) : make_pair(false, (size_t)0); }
} }
#endif

// the configuration tokens of the line being parsed (ConfigParser.cc is not linked)
#define MAXTOK 8
static char *cfgTok[MAXTOK];
static unsigned cfgNext, cfgCount;
char *ConfigParser::strtokFile() { return cfgNext < cfgCount ? cfgTok[cfgNext++] : nullptr; }

// ---------------------------------------------------------------- the rule list as text, and the oracle's view of it
// lines separated by ';': "all G x y" = acl G all-of x y;  "any H x !y" = acl H any-of x !y;
// "rule x !G" = <directive> <allow|deny> x !G (the action is symbolic); "rule" alone = a rule without ACLs.
// leaves: 'a'..'f'; groups: 'G'..'J'
#define NLEAF 6
#define NGROUP 4
#define MAXTERM 4
#define MAXLINES 2
#define MAXRULES 6
struct Term { bool neg; bool group; int id; };
struct Line { int n; Term t[MAXTERM]; };
struct Group { bool used, allOf; int nlines; Line lines[MAXLINES]; };
struct Rule { Line line; bool allow; int kind; };
static Group groups[NGROUP];
static Rule rules[MAXRULES];
static int nrules;

enum Verdict { MISMATCH = 0, MATCH = 1, STOP = 2 };

// ---------------------------------------------------------------- per-check ghost state
#define NCHK 2
struct Check {
    ACLFilledChecklist *cl;
    bool fastMode;                 // fastCheck(): no lookups possible
    // symbolic per leaf
    uint8_t verdict[NLEAF], need[NLEAF], immediate[NLEAF], failStop[NLEAF];
    // progress
    uint8_t done[NLEAF];
    int pending;                   // leaf whose lookup is in flight, or -1
    unsigned answered;
    aclMatchCode code; int kind; bool implicit;
    // oracle
    aclMatchCode stopCode;
};
static Check checks[NCHK];
static unsigned maxNeed = 1;       // bounds of the symbolic leaf behaviour in this entry
static bool allowStop, allowImmediate;

static Check &checkOf(const ACLChecklist *cl)
{
    for (auto &c: checks)
        if (c.cl == cl) return c;
    vf_assert(0, "ACL evaluated for an unknown checklist");
    return checks[0];
}

static void makeSymbolic(Check &c)
{
    for (int i = 0; i < NLEAF; ++i) {
        c.verdict[i] = (uint8_t)vf_range(0, allowStop ? 2 : 1, "verdict");
        c.need[i] = (uint8_t)vf_range(0, maxNeed, "lookups_needed");
        c.immediate[i] = allowImmediate ? (uint8_t)vf_range(0, 1, "lookup_completes_in_starter") : 0;
        c.failStop[i] = (uint8_t)vf_range(0, 1, "slow_acl_in_fast_check_stops");
        c.done[i] = 0;
    }
    c.pending = -1; c.answered = 0; c.cl = nullptr;
}

// ---------------------------------------------------------------- the synthetic leaf ACL
class SynAcl: public Acl::Node
{
    MEMPROXY_CLASS(SynAcl);
public:
    explicit SynAcl(int i): idx(i) {}
    char const *typeString() const override { return "synthetic"; }
    void parse() override {}
    SBufList dump() const override { return SBufList(); }
    bool empty() const override { return false; }
    static void StartLookup(ACLFilledChecklist &cl, const Acl::Node &acl);
    int idx;
private:
    int match(ACLChecklist *cl) override;
};

void SynAcl::StartLookup(ACLFilledChecklist &cl, const Acl::Node &acl)
{
    Check &c = checkOf(&cl);
    const int i = static_cast<const SynAcl &>(acl).idx;
    vf_assert(c.pending < 0, "one lookup at a time per checklist");
    if (c.immediate[i]) {
        ++c.done[i];
        cl.resumeNonBlockingCheck();       // answered from a cache: completes before the starter returns
        vf_reach("lookup-in-starter");
    } else
        c.pending = i;                      // the harness completes it later
}

int SynAcl::match(ACLChecklist *cl)
{
    Check &c = checkOf(cl);
    while (c.done[idx] < c.need[idx]) {
        const uint8_t doneBefore = c.done[idx];
        if (cl->goAsync(StartLookup, *this))
            return -1;                      // suspended; matched again after resumeNonBlockingCheck()
        if (c.done[idx] == doneBefore) {    // no lookup was started: not allowed to go async (fast check)
            vf_assert(c.fastMode, "goAsync() refuses only fast checks");
            vf_reach("slow-acl-in-fast-check");
            if (!c.failStop[idx])
                return 0;                   // like the DNS-based ACLs: "cannot tell" counts as a mismatch
            if (cl->keepMatching())
                cl->markFinished(ACCESS_DUNNO, "slow ACL in a fast check");   // like external/proxy_auth ACLs
            return -1;
        }
        // else the lookup completed inside the starter (goAsync() says "did not go async"): look again
    }
    if (c.verdict[idx] == 2) {
        if (cl->keepMatching())
            cl->markFinished(ACCESS_AUTH_REQUIRED, "synthetic exceptional verdict");
        return -1;
    }
    return c.verdict[idx] ? 1 : 0;
}

// ---------------------------------------------------------------- oracle: first match over the text's structure
static Verdict refLine(const Check &c, const Line &l);
static Verdict refLeaf(Check &c, int i)
{
    if (c.fastMode && c.need[i] > 0) {
        if (!c.failStop[i]) return MISMATCH;
        c.stopCode = ACCESS_DUNNO; return STOP;
    }
    if (c.verdict[i] == 2) { c.stopCode = ACCESS_AUTH_REQUIRED; return STOP; }
    return c.verdict[i] ? MATCH : MISMATCH;
}
static Verdict refGroup(Check &c, const Group &g)
{
    for (int k = 0; k < g.nlines; ++k) {
        if (g.allOf) {                      // all-of: lines are alternatives, the ACLs of a line must all match
            const Verdict v = refLine(c, g.lines[k]);
            if (v != MISMATCH) return v;
        } else {                            // any-of: any ACL of any line
            for (int j = 0; j < g.lines[k].n; ++j) {
                Line one; one.n = 1; one.t[0] = g.lines[k].t[j];
                const Verdict v = refLine(c, one);
                if (v != MISMATCH) return v;
            }
        }
    }
    return MISMATCH;
}
static Verdict refLine(const Check &cc, const Line &l)   // conjunction, left to right, negations applied
{
    Check &c = const_cast<Check &>(cc);
    for (int j = 0; j < l.n; ++j) {
        Verdict v = l.t[j].group ? refGroup(c, groups[l.t[j].id]) : refLeaf(c, l.t[j].id);
        if (v == STOP) return STOP;
        if (l.t[j].neg) v = (v == MATCH) ? MISMATCH : MATCH;
        if (v == MISMATCH) return MISMATCH;
    }
    return MATCH;
}
struct Expected { aclMatchCode code; int kind; bool implicit; };
static Expected reference(Check &c, const bool haveList)
{
    if (haveList) {
        for (int r = 0; r < nrules; ++r) {
            const Verdict v = refLine(c, rules[r].line);
            if (v == STOP) { vf_reach("stopped"); return {c.stopCode, 0, false}; }
            if (v == MATCH) { vf_reach("rule-matched"); return {rules[r].allow ? ACCESS_ALLOWED : ACCESS_DENIED, rules[r].kind, false}; }
        }
        if (nrules) { vf_reach("no-rule-matched"); return {rules[nrules - 1].allow ? ACCESS_DENIED : ACCESS_ALLOWED, 0, true}; }
    }
    vf_reach("empty-list");
    return {ACCESS_DUNNO, 0, true};
}

// ---------------------------------------------------------------- building both views from the text
static SynAcl *leaves[NLEAF];
static Acl::Node *groupNodes[NGROUP];
static acl_access accessList;              // RefCount<Acl::Tree>, as in SquidConfig::accessList

static void registerAcl(const char *name, Acl::Node *a)
{
    if (!Config.namedAcls) Config.namedAcls = new Acl::NamedAcls;
    Config.namedAcls->emplace(SBuf(name), a);
}

// splits `text` (one line, no ';') into cfgTok[]; returns the number of tokens
static unsigned tokenize(const char *b, const char *e)
{
    cfgCount = cfgNext = 0;
    while (b < e) {
        while (b < e && *b == ' ') ++b;
        if (b >= e) break;
        const char *s = b;
        while (b < e && *b != ' ') ++b;
        char *t = (char *)xmalloc(b - s + 1);
        memcpy(t, s, b - s); t[b - s] = 0;
        cfgTok[cfgCount++] = t;
    }
    return cfgCount;
}

static Line refParseLine(unsigned from)
{
    Line l; l.n = 0;
    for (unsigned k = from; k < cfgCount; ++k) {
        const char *t = cfgTok[k];
        Term x; x.neg = (*t == '!'); if (x.neg) ++t;
        x.group = (*t >= 'G'); x.id = x.group ? *t - 'G' : *t - 'a';
        if (*t >= 'a') { x.group = false; x.id = *t - 'a'; }
        l.t[l.n++] = x;
    }
    return l;
}

static void build(const char *text, const bool withRules)
{
    vf_quiet();
    for (int i = 0; i < NLEAF; ++i) {
        const char nm[2] = {(char)('a' + i), 0};
        leaves[i] = new SynAcl(i);
        leaves[i]->context(SBuf(nm), "acl synthetic");
        registerAcl(nm, leaves[i]);
    }
    Acl::Tree *tree = nullptr;
    if (withRules) {
        tree = new Acl::Tree;
        tree->context(SBuf("http_access"), "http_access");
    }
    const char *p = text;
    while (*p) {
        const char *e = p; while (*e && *e != ';') ++e;
        if (tokenize(p, e)) {
            const char *kw = cfgTok[0];
            if (!strcmp(kw, "rule")) {
                Rule &r = rules[nrules];
                r.line = refParseLine(1);
                r.allow = vf_bool("rule_allows");
                r.kind = (int)vf_range(0, 3, "rule_kind");
                ++nrules;
                // as aclParseAccessLine() does (but a rule without ACLs is kept, not skipped)
                Acl::AndNode *rule = new Acl::AndNode;
                rule->context(SBuf("http_access#"), "http_access");
                cfgNext = 1;
                rule->lineParse();
                tree->add(rule, Acl::Answer(r.allow ? ACCESS_ALLOWED : ACCESS_DENIED, r.kind));
            } else {
                const bool allOf = !strcmp(kw, "all");
                const int g = cfgTok[1][0] - 'G';
                Group &G = groups[g];
                G.used = true; G.allOf = allOf;
                G.lines[G.nlines++] = refParseLine(2);
                // as Acl::Node::ParseNamed() does for a new / an already known ACL name
                if (!groupNodes[g]) {
                    groupNodes[g] = allOf ? static_cast<Acl::Node *>(new Acl::AllOf) : static_cast<Acl::Node *>(new Acl::AnyOf);
                    groupNodes[g]->context(SBuf(cfgTok[1]), "acl group");
                    cfgNext = 2;
                    groupNodes[g]->parse();
                    registerAcl(cfgTok[1], groupNodes[g]);
                } else {
                    vf_assert(Acl::Node::FindByName(SBuf(cfgTok[1])) == groupNodes[g], "named ACL is found again");
                    cfgNext = 2;
                    groupNodes[g]->parse();
                }
            }
        }
        p = *e ? e + 1 : e;
    }
    accessList = tree;
}

// ---------------------------------------------------------------- drivers
class Caller
{
    CBDATA_CLASS(Caller);
public:
    explicit Caller(int i): id(i) {}
    int id;
};
CBDATA_CLASS_INIT(Caller);

static void Answered(Acl::Answer a, void *data)
{
    Check &c = checks[static_cast<Caller *>(data)->id];
    ++c.answered;
    c.code = a.code; c.kind = a.kind; c.implicit = a.implicit;
}

static void compare(Check &c, const aclMatchCode code, const int kind, const bool implicit, const bool haveList)
{
    const Expected e = reference(c, haveList);
    vf_observe("code", (uint64_t)code); vf_observe("kind", (uint64_t)kind); vf_observe("implicit", implicit);
    vf_assert(code == e.code, "the decision is the action of the first matching rule / the opposite of the last rule's action / the exceptional verdict / DUNNO for an empty list");
    vf_assert(kind == e.kind, "the answer carries the matching rule's action kind");
    if (haveList && nrules)   // (without rules the answer is DUNNO either way; the flag differs between the code paths)
        vf_assert(implicit == e.implicit, "the answer is marked implicit iff no rule matched");
}

// nchk concurrent non-blocking checks on the same rule list; lookups complete in any order
static void nonBlocking(const unsigned nchk, const bool haveList)
{
    Caller *callers[NCHK];
    for (unsigned k = 0; k < nchk; ++k) {
        makeSymbolic(checks[k]);
        checks[k].fastMode = false;
        callers[k] = new Caller((int)k);
    }
    for (unsigned k = 0; k < nchk; ++k) {
        auto p = ACLFilledChecklist::Make(haveList ? &accessList : nullptr, nullptr);
        checks[k].cl = p.get();
        ACLFilledChecklist::NonBlockingCheck(std::move(p), Answered, callers[k]);
    }
    for (unsigned step = 0; step < 64; ++step) {
        unsigned pend[NCHK], np = 0;
        for (unsigned k = 0; k < nchk; ++k)
            if (checks[k].pending >= 0) {
                vf_assert(!checks[k].answered, "no answer while a lookup is in flight");
                pend[np++] = k;
            }
        if (!np) break;
        Check &c = checks[np == 1 ? pend[0] : pend[vf_choose(np, "which_lookup_completes")]];
        if (np > 1) vf_reach("two-lookups-in-flight");
        ++c.done[c.pending];
        c.pending = -1;
        vf_reach("resumed");
        c.cl->resumeNonBlockingCheck();
    }
    for (unsigned k = 0; k < nchk; ++k) {
        Check &c = checks[k];
        vf_assert(c.pending < 0 && c.answered == 1, "every check calls back exactly once");
        compare(c, c.code, c.kind, c.implicit, haveList);
        delete callers[k];
    }
    WITNESS_POINT();
}

// fastCheck() on a stack checklist, twice (sequential reuse)
static void fast(const bool haveList)
{
    Check &c = checks[0];
    makeSymbolic(c);
    c.fastMode = true;
    ACLFilledChecklist ch(haveList ? &accessList : nullptr, nullptr);
    c.cl = &ch;
    for (int round = 0; round < 2; ++round) {
        const Acl::Answer &a = ch.fastCheck();
        vf_assert(c.pending < 0, "a fast check never starts a lookup");
        compare(c, a.code, a.kind, a.implicit, haveList);
    }
    c.cl = nullptr;
    WITNESS_POINT();
}

// ---------------------------------------------------------------- shapes
// (arrays of char arrays, not of pointers: clang turns constant pointer tables into relative lookup tables and
// llvm.load.relative is not modelled by the engine)
static const char RULES[][80] = {
    "rule a",
    "rule !a b;rule c",
    "rule a !b;rule !c d;rule e",
    "rule;rule a",
    "rule a;rule",
    "rule a b c d",
    "rule !a !b !c;rule a;rule b",
    "rule a;rule !a;rule b;rule !b;rule c;rule a b",
    "rule a b;rule a !b;rule !a b;rule !a !b",
#ifdef VF_THOROUGH
    "rule a !b c;rule !d e !f;rule b d",
    "rule !a;rule !b;rule !c;rule !d;rule !e;rule f",
    "rule a b;rule c d;rule e f;rule !a !c !e",
#endif
};
static const char GROUPS[][80] = {
    "all G a b;rule G;rule c",
    "all G a b;all G c;rule !G;rule d",
    "any H a !b;rule H c;rule !H",
    "any H a;any H b c;rule !H d;rule H",
    "all G a !b;any H G c;rule H;rule !c",
    "any H a b;all G H !c;all G d;rule G;rule H",
#ifdef VF_THOROUGH
    "all G a b;all G !a !b;any H G c;all I H !d;rule !I e;rule I",
    "any H !a !b;all G H c;rule G d;rule !G !d;rule H",
#endif
};
static const char SMALL[][80] = {
    "rule a !b;rule c",
    "all G a b;rule !G;rule c",
    "any H a b;rule H c",
};
static const char MODES[][80] = {
    "rule a !b;rule c",
    "all G a b;rule !G;rule c",
    "any H a b;rule H c",
#ifdef VF_THOROUGH
    "all G a b;all G c;rule !G;rule G d",
    "any H a !b;all G H c;rule !G;rule H",
#endif
};
#define COUNT(a) (sizeof(a) / sizeof((a)[0]))
#define PICK(a) (a)[vf_choose(COUNT(a), "shape")]

// plain rules: negations, 0..4 ACLs per rule, 1..6 rules, repeated ACLs; every subset of the leaves slow
#ifdef VF_THOROUGH
#define LOOKUPS 2   // thorough: a leaf may need two successive lookups in c44_rules/c44_groups, too
#else
#define LOOKUPS 1
#endif
extern "C" void c44_rules(void) { maxNeed = LOOKUPS; build(PICK(RULES), true); nonBlocking(1, true); }
// all-of / any-of groups, nested and negated
extern "C" void c44_groups(void) { maxNeed = LOOKUPS; build(PICK(GROUPS), true); nonBlocking(1, true); }
// every leaf behaviour: exceptional verdict, 0..2 lookups, lookups completing inside the starter
extern "C" void c44_modes(void) { maxNeed = 2; allowStop = allowImmediate = true; build(PICK(MODES), true); nonBlocking(1, true); }
// two concurrent checks on one tree, lookups completing in any order
extern "C" void c44_concurrent(void) { build(PICK(SMALL), true); nonBlocking(2, true); }
// fastCheck() over the same shapes; slow leaves cannot look anything up
extern "C" void c44_fast_rules(void) { allowStop = true; build(PICK(RULES), true); fast(true); }
extern "C" void c44_fast_groups(void) { allowStop = true; build(PICK(GROUPS), true); fast(true); }
// no list at all / a list without rules
extern "C" void c44_empty(void)
{
    const bool haveList = vf_choose(2, "have_list");
    build("", haveList);
    if (vf_choose(2, "fast")) fast(haveList); else nonBlocking(1, haveList);
}
