// C59: timed events fire in order and never after cancellation.
// The real EventScheduler (src/event.cc: schedule/cancel/find/timeRemaining/checkEvents through the public
// eventAdd/eventDelete/eventFind wrappers and EventScheduler::GetInstance()), the real AsyncCallQueue (events are
// delivered as AsyncCalls) and, in the c59_loop* entries, the real EventLoop::runOnce() are driven by a sequence of
// operations {schedule, cancel, move the clock, run}.
//
// Symbolic: per schedule the delay `when` (k * 0.5 s, k symbolic) and the weight (symbolic int 0/1), per cancel the
// victim, per clock step the amount ((j-1) * 0.5 s, j symbolic: the clock may also step BACK by 0.5 s or stand still).
// Doubles are derived from small symbolic integers (the engine case-splits int->double), so every double is concrete
// on a path while the solver still decides over all listed values. The kind of each operation is a structural choice
// (vf_choose).
//
// Oracle (ghost record per event, no copy of the list algorithm): whenever a handler runs, its event must be
// scheduled, not cancelled, not fired before, due (due <= current_dtime), and no other pending event may precede it in
// (due time, submission order). "Due time" is the timestamp documented in EventScheduler::schedule():
// current_dtime + when for when > 0 and 0 ("immediately") for when == 0.
// After every operation eventFind() must report exactly the pending events (cancelling leaves all others scheduled)
// and timeRemaining()/checkEvents() must return IDLE / 0 / the rounded-up milliseconds to the earliest pending event.
// A batch (one checkEvents) ends early only after a heavy (weight != 0) event and dequeues nothing after one.
// At the end the clock jumps far ahead and the queue is drained: every event that was not cancelled fires exactly once.
#include "squid.h"
#include "event.h"
#include "EventLoop.h"
#include "AsyncEngine.h"
#include "base/AsyncCallQueue.h"
#include "time/gadgets.h"
#include "common.h"

#ifndef NEV
#define NEV 4              // capacity of the ghost table (largest number of schedule operations on a path)
#endif

// ---- environment stubs
static unsigned traps;
void debug_trap(const char *) { ++traps; }                    // tools.cc is not linked; eventDelete() of an absent event calls it
void fatal(const char *) { vf_assert(0, "fatal() reached"); } // only reachable from EventLoop error paths
void fatal_dump(const char *) { vf_assert(0, "fatal_dump() reached"); }

// ---- ghost state
struct Ev { bool scheduled, cancelled; unsigned fired; double due; int weight; EVH *func; };
static Ev ev[NEV];
static unsigned nev;
static unsigned batch[NEV], nbatch;                            // events fired since the last resetBatch()

static bool pending(const Ev &e) { return e.scheduled && !e.cancelled && !e.fired; }

static void onFire(void *arg)
{
    Ev *e = static_cast<Ev *>(arg);
    vf_assert(e >= ev && e < ev + NEV && e->scheduled, "only scheduled events fire");
    vf_assert(!e->cancelled, "a cancelled event never fires");
    vf_assert(e->fired == 0, "an event fires at most once");
    vf_assert(e->due <= current_dtime, "no event fires before its due time");
    for (unsigned i = 0; i < nev; ++i) {
        const Ev &p = ev[i];
        if (&p == e || !pending(p))
            continue;
        // p precedes e iff earlier due time, or equal due time and submitted earlier (smaller index)
        vf_assert(!(p.due < e->due || (p.due == e->due && &p < e)), "events fire in due-time order, equal times in scheduling order");
    }
    e->fired = 1;
    batch[nbatch++] = static_cast<unsigned>(e - ev);
}
// two handlers, so that events differ in func as well as in arg
static void handlerA(void *arg) { onFire(arg); }
static void handlerB(void *arg) { onFire(arg); }

// what timeRemaining() must say, from the ghost state alone
static int expectedRemaining()
{
    bool any = false; double first = 0;
    for (unsigned i = 0; i < nev; ++i)
        if (pending(ev[i]) && (!any || ev[i].due < first)) { any = true; first = ev[i].due; }
    if (!any)
        return AsyncEngine::EVENT_IDLE;
    if (first <= current_dtime)
        return 0;
    const double msd = 1000 * (first - current_dtime);
    long ms = static_cast<long>(msd);
    if (static_cast<double>(ms) < msd)
        ++ms;                                                  // round up: never wake up before the event is due
    return ms < 1 ? 1 : static_cast<int>(ms);
}

static void checkQueueView()
{
    for (unsigned i = 0; i < nev; ++i)
        vf_assert(eventFind(ev[i].func, &ev[i]) == (pending(ev[i]) ? 1 : 0), "exactly the pending events are scheduled (cancel/fire remove one event and leave all others)");
    vf_assert(EventScheduler::GetInstance()->timeRemaining() == expectedRemaining(), "timeRemaining() = idle / 0 / rounded-up ms to the earliest pending event");
}

// ---- operations
static void opSchedule(const unsigned maxK, EVH *func)
{
    Ev &e = ev[nev];
    const unsigned k = (unsigned)vf_concretize(vf_range(0, maxK, "when_halves"));
    const double when = k * 0.5;
    e.weight = (int)vf_range(0, 1, "weight");
    e.func = func;
    e.due = when > 0 ? current_dtime + when : 0;               // the documented timestamp
    e.scheduled = true;
    ++nev;
    eventAdd("c59", e.func, &e, when, e.weight, false);
}

static void opCancel()
{
    const unsigned i = (unsigned)vf_concretize(vf_range(0, nev - 1, "victim"));
    const unsigned trapsBefore = traps;
    const bool was = pending(ev[i]);
    eventDelete(ev[i].func, &ev[i]);
    if (was) {
        ev[i].cancelled = true;
        vf_assert(traps == trapsBefore, "cancelling a pending event finds it");
        vf_reach("cancelled");
    } else
        vf_assert(traps == trapsBefore + 1, "cancelling an absent event is reported and changes nothing");
}

static void opClock()
{
    const unsigned j = (unsigned)vf_concretize(vf_range(0, 3, "clock_step"));
    current_dtime += ((int)j - 1) * 0.5;                        // -0.5, 0, +0.5, +1
}

// one EventScheduler::checkEvents() + AsyncCallQueue::fire(), as EventLoop::runOnce() does for a non-primary engine
static int opBatch()
{
    nbatch = 0;
    const int r = EventScheduler::GetInstance()->checkEvents(0);
    vf_assert(nbatch == 0, "checkEvents() only queues calls");
    AsyncCallQueue::Instance().fire();
    vf_assert(r == expectedRemaining(), "checkEvents() returns idle / 0 / rounded-up ms to the earliest pending event");
    for (unsigned n = 0; n + 1 < nbatch; ++n)
        vf_assert(ev[batch[n]].weight == 0, "nothing is dequeued after a heavy event in the same batch");
    if (r == 0) {
        vf_assert(nbatch > 0 && ev[batch[nbatch - 1]].weight != 0, "a batch leaves due events behind only after a heavy event");
        vf_reach("heavy-stop");
    }
    if (nbatch > 1) vf_reach("batch-of-several");
    if (nbatch) vf_reach("fired");
    return r;
}

static void drainAndCheck()
{
    current_dtime += 100;
    for (unsigned n = 0; n <= NEV; ++n) {
        if (opBatch() == AsyncEngine::EVENT_IDLE)
            break;
    }
    vf_assert(EventScheduler::GetInstance()->timeRemaining() == AsyncEngine::EVENT_IDLE, "the queue drains");
    for (unsigned i = 0; i < nev; ++i) {
        vf_assert(ev[i].fired == (ev[i].cancelled ? 0u : 1u), "every event that was not cancelled fires exactly once; cancelled ones never");
        vf_observe("fired", ev[i].fired);
    }
    vf_observe("nev", nev);
    vf_reach("done");
    WITNESS_POINT();
}

static void start()
{
    vf_quiet();
    current_dtime = 10.0;
    checkQueueView();
}

// free sequences of `len` operations
static void sequence(const unsigned len, const unsigned maxEv, const unsigned maxK)
{
    start();
    for (unsigned s = 0; s < len; ++s) {
        switch (vf_choose(4, "op")) {
        case 0: if (nev >= maxEv) return; opSchedule(maxK, (nev & 1) ? handlerB : handlerA); break;
        case 1: if (!nev) return; opCancel(); break;
        case 2: opClock(); break;
        default: if (!nev) return; opBatch(); break;
        }
        checkQueueView();
    }
    drainAndCheck();
}

// `n` schedules (optionally one clock step before the last), then optionally one cancel, then clock step and run
static void scheduleThenRun(const unsigned n, const unsigned maxK, const bool clockBetween)
{
    start();
    for (unsigned i = 0; i < n; ++i) {
        if (clockBetween && i + 1 == n && vf_choose(2, "clock_between")) opClock();
        opSchedule(maxK, (nev & 1) ? handlerB : handlerA);
    }
    checkQueueView();
    if (vf_choose(2, "cancel")) { opCancel(); checkQueueView(); }
    opClock(); checkQueueView();
    opBatch(); checkQueueView();
    drainAndCheck();
}

#ifdef VF_THOROUGH
extern "C" void c59_ops(void) { sequence(5, 3, 2); }
extern "C" void c59_batches(void) { scheduleThenRun(4, 2, false); }
#else
extern "C" void c59_ops(void) { sequence(4, 3, 2); }
extern "C" void c59_batches(void) { scheduleThenRun(3, 2, false); }
#endif

// ---- sub-millisecond distances: timeRemaining() converts seconds to whole milliseconds, rounding UP, and must say 0
// only when the event is really due. Events due in k x 0.1 ms (k symbolic in 1..12), the clock advancing by
// j x 0.1 ms (j symbolic in 0..14) twice, a run after each step: nothing may fire before its due time (asserted in the
// handler), and the reported wait must be the rounded-up distance (asserted by checkQueueView/opBatch).
static void fineGrained(const unsigned nEvents)
{
    start();
    for (unsigned i = 0; i < nEvents; ++i) {
        Ev &e = ev[nev];
        const unsigned k = (unsigned)vf_concretize(vf_range(1, 12, "when_tenth_ms"));
        const double when = k * 0.0001;
        e.weight = (int)vf_range(0, 1, "weight");
        e.func = handlerA;
        e.due = current_dtime + when;
        e.scheduled = true;
        ++nev;
        eventAdd("c59", e.func, &e, when, e.weight, false);
    }
    checkQueueView();
    for (unsigned step = 0; step < 2; ++step) {
        const unsigned j = (unsigned)vf_concretize(vf_range(0, 14, "clock_tenth_ms"));
        current_dtime += j * 0.0001;
        checkQueueView();
        opBatch();
        checkQueueView();
    }
    drainAndCheck();
}
#ifdef VF_THOROUGH
extern "C" void c59_fine(void) { fineGrained(2); }
#else
extern "C" void c59_fine(void) { fineGrained(1); }
#endif

// ---- eventDelete(func, nullptr): "cancel every event of this handler"
static void cancelAllOf(const unsigned n)
{
    start();
    for (unsigned i = 0; i < n; ++i)
        opSchedule(2, vf_concretize(vf_range(0, 1, "handler")) ? handlerB : handlerA);
    checkQueueView();
    EVH *victim = vf_choose(2, "cancel_handler") ? handlerB : handlerA;
    // (EventScheduler::cancel(func, nullptr) used to skip the entry that followed a deleted one, so of two adjacent
    // events of the victim handler only the first was cancelled; repaired in /repo by the 'fix: eventDelete(func,
    // nullptr) skipped ...' commit. Queues with adjacent victim events are therefore included.)
    const unsigned trapsBefore = traps;
    eventDelete(victim, nullptr);
    vf_assert(traps == trapsBefore, "cancel-all never reports a missing event");
    for (unsigned i = 0; i < nev; ++i)
        if (ev[i].func == victim && pending(ev[i])) { ev[i].cancelled = true; vf_reach("cancelled"); }
    checkQueueView();
    current_dtime += 0.5; checkQueueView();
    opBatch(); checkQueueView();
    drainAndCheck();
}
#ifdef VF_THOROUGH
extern "C" void c59_cancel_all(void) { cancelAllOf(4); }
#else
extern "C" void c59_cancel_all(void) { cancelAllOf(3); }
#endif

// ---- through the real main loop: EventLoop::runOnce() with the scheduler as an ordinary engine and a primary
// engine (stand-in for the comm engine) that records the timeout it is asked to wait for.
struct WaitingEngine: public AsyncEngine {
    int lastTimeout = -99; unsigned calls = 0;
    int checkEvents(int timeout) override { lastTimeout = timeout; ++calls; return EVENT_IDLE; }
};

static void loopSequence(const unsigned len, const unsigned maxEv, const unsigned maxK)
{
    start();
    EventLoop loop;
    WaitingEngine waiter;
    loop.registerEngine(EventScheduler::GetInstance());
    loop.registerEngine(&waiter);
    loop.setPrimaryEngine(&waiter);
    bool ran = false;
    for (unsigned s = 0; s < len; ++s) {
        switch (vf_choose(4, "op")) {
        case 0: if (nev >= maxEv) return; opSchedule(maxK, (nev & 1) ? handlerB : handlerA); break;
        case 1: if (!nev) return; opCancel(); break;
        case 2: opClock(); break;
        default: {
            if (!nev) return;
            nbatch = 0;
            const unsigned callsBefore = waiter.calls;
            loop.runOnce();
            // one iteration of the main loop delivers every due event, heavy or not (it re-checks the engines while
            // calls are being dispatched) ...
            for (unsigned i = 0; i < nev; ++i)
                vf_assert(!(pending(ev[i]) && ev[i].due <= current_dtime), "one main-loop iteration fires every due event");
            // ... and then waits (in the primary engine) no longer than until the earliest pending event
            vf_assert(waiter.calls == callsBefore + 1, "the primary engine is checked once per iteration");
            const int rem = expectedRemaining();
            // (it may wait less: after a heavy event the delay stays 0 for the rest of the iteration)
            vf_assert(waiter.lastTimeout >= 0 && waiter.lastTimeout <= (rem < 0 || rem > EVENT_LOOP_TIMEOUT ? EVENT_LOOP_TIMEOUT : rem), "the loop waits no longer than until the earliest pending event is due, at most EVENT_LOOP_TIMEOUT");
            if (nbatch) vf_reach("fired");
            if (nbatch > 1) vf_reach("batch-of-several");
            ran = true;
            break;
        }
        }
        checkQueueView();
    }
    if (ran) vf_reach("loop-ran");
    drainAndCheck();
}
#ifdef VF_THOROUGH
extern "C" void c59_loop(void) { loopSequence(5, 3, 2); }
#else
extern "C" void c59_loop(void) { loopSequence(4, 3, 2); }
#endif
