// C30: URI parsing is canonical and validates authority.
//
// Real code: AnyP::Uri::parse (absolute-URI branch and the CONNECT branch with parseHost/parsePort), AnyP::Uri::host,
// absolute()/authority()/absolutePath(), AnyP::UriScheme, Ip::Address (numeric hosts), Parser::Tokenizer, SBuf.
//
// Every entry is a concrete URI skeleton whose '\x01' bytes are fully symbolic (any byte value, NUL included); the
// request method is symbolic over the 38 methods parse() does not single out (c30_method: all 41 non-CONNECT methods;
// CONNECT has its own families). For every input:
//   * a reference splitter written here (independent of Squid: first '/', '?', '#', whitespace or NUL ends the
//     authority, userinfo ends at the last '@', "[...]" or a single ':' separates the port) locates the port text;
//   * if Squid accepts: host has no upper-case letter, is not empty, has no empty label (numeric hosts: canonical IP
//     text instead); port is in 1..65535 and equals the decimal value of the whole port text, or the scheme default
//     when no port is written;
//   * if the port text has a non-digit or denotes a value outside 1..65535: Squid must reject;
//   * the canonical form (absolute(), or authority(true) for CONNECT) must re-parse to the same scheme, host, port,
//     path (see pathsAgree() for what "same path" means when the canonical form percent-encodes the path).
#include "http1.h"
#include "anyp/Uri.h"
#include "anyp/UriScheme.h"
#include "http/RequestMethod.h"
#include "ip/tools.h"
#include "C30_netmodel.h"

int Ip::EnableIpv6 = IPV6_ON;          // ip/tools.cc (socket probing) is not linked: IPv6 enabled

// ------------------------------------------------------------------------------------------------ reference
static bool isWs(uint8_t c) { return c == ' ' || (c >= 9 && c <= 13); }
static bool isDigit(uint8_t c) { return c >= '0' && c <= '9'; }

struct PortText {
    bool written, empty, numeric, inRange; unsigned value;   // numeric: all digits; inRange/value: decimal value in 1..65535
    bool atoiLenient;                                        // not a valid port text, but atoi() would turn it into 1..65535
};
static PortText classifyPort(const uint8_t *p, unsigned n)
{
    PortText r = { true, n == 0, n > 0, false, 0, false };
    uint64_t v = 0;                                   // saturates: once >= 10^12 the value stays out of range whatever follows
    for (unsigned i = 0; i < n; ++i) {
        if (!isDigit(p[i])) { r.numeric = false; break; }
        if (v < 1000000000000ull) v = v * 10 + (p[i] - '0');
    }
    if (r.numeric) { r.inRange = v >= 1 && v <= 65535; r.value = r.inRange ? (unsigned)v : 0; }
    if (n && !(r.numeric && r.inRange)) {
        // what (int)strtol(text, nullptr, 10) yields: optional sign, leading digits, the rest ignored, truncation to 32 bits
        unsigned i = 0; bool neg = false;
        if (p[0] == '+' || p[0] == '-') { neg = p[0] == '-'; i = 1; }
        uint64_t a = 0; unsigned nd = 0;
        for (; i < n && isDigit(p[i]); ++i, ++nd) if (a < 1000000000000ull) a = a * 10 + (p[i] - '0');
        const int32_t asInt = (int32_t)(uint32_t)(neg ? 0 - a : a);
        r.atoiLenient = nd > 0 && nd <= 12 && asInt >= 1 && asInt <= 65535;
    }
    return r;
}
// authority of "scheme://AUTH..." starting at a[0]; returns the port text
static PortText splitAuthority(const uint8_t *a, unsigned n)
{
    unsigned end = 0;
    while (end < n && a[end] != '/' && a[end] != '?' && a[end] != '#' && a[end] != 0 && !isWs(a[end])) ++end;
    unsigned start = 0;
    for (unsigned i = 0; i < end; ++i) if (a[i] == '@') start = i + 1;
    PortText none = { false, false, false, false, 0, false };
    if (start < end && a[start] == '[') {
        unsigned i = start + 1;
        while (i < end && a[i] != ']') ++i;       // host
        if (i < end) ++i;                          // ']'
        while (i < end && a[i] != ':') ++i;       // Squid skips anything between ']' and ':'
        if (i >= end) return none;
        return classifyPort(a + i + 1, end - i - 1);
    }
    unsigned colons = 0, last = 0;
    for (unsigned i = start; i < end; ++i) if (a[i] == ':') { ++colons; last = i; }
    if (colons != 1) return none;                  // none, or an unbracketed IPv6 address (RFC 2732 leniency): all host
    return classifyPort(a + last + 1, end - last - 1);
}
static bool bracketedAuthority(const uint8_t *a, unsigned n)    // host part (after the last '@') starts with '['
{
    unsigned end = 0;
    while (end < n && a[end] != '/' && a[end] != '?' && a[end] != '#' && a[end] != 0 && !isWs(a[end])) ++end;
    unsigned start = 0;
    for (unsigned i = 0; i < end; ++i) if (a[i] == '@') start = i + 1;
    return start < end && a[start] == '[';
}
static unsigned refDefaultPort(const AnyP::ProtocolType p)
{
    switch (p) {
    case AnyP::PROTO_HTTP: return 80;
    case AnyP::PROTO_HTTPS: return 443;
    case AnyP::PROTO_FTP: return 21;
    case AnyP::PROTO_COAP: case AnyP::PROTO_COAPS: return 5683;
    case AnyP::PROTO_WAIS: return 210;
    case AnyP::PROTO_WHOIS: return 43;
    default: return 0;
    }
}

// ------------------------------------------------------------------------------------------------ checks
static void checkHost(const AnyP::Uri &u)
{
    const char *h = u.host();
    const size_t n = strlen(h);
    for (size_t i = 0; i < n; ++i) vf_assert(!(h[i] >= 'A' && h[i] <= 'Z'), "accepted host is lower-case");
    vf_assert(n > 0, "accepted host is not empty");
    if (!u.hostIsNumeric()) {
        vf_assert(h[0] != '.' && h[n - 1] != '.', "accepted host has no empty first/last label");
        for (size_t i = 0; i + 1 < n; ++i) vf_assert(!(h[i] == '.' && h[i + 1] == '.'), "accepted host has no empty inner label");
    }
}
static bool onlyBracketedNames = false, onlyEncodedPaths = false; // set by the known-finding entries only
static bool pathBytesSurviveCanonicalForm(const SBuf &p)
{
    // the bytes absolute() leaves alone (RFC 3986 pchar and '/'), i.e. AnyP::Uri's PathChars
    static const char keep[] = "/:@-._~%!$&'()*+,;=";
    for (SBuf::size_type i = 0; i < p.length(); ++i) {
        const char c = p[i];
        if ((c >= 'a' && c <= 'z') || (c >= 'A' && c <= 'Z') || (c >= '0' && c <= '9')) continue;
        if (c && strchr(keep, c)) continue;
        return false;
    }
    return true;
}
static void pathsAgree(const AnyP::Uri &u, const AnyP::Uri &again)
{
    if (onlyEncodedPaths) vf_assume(!pathBytesSurviveCanonicalForm(u.path()));
    if (pathBytesSurviveCanonicalForm(u.path()))
        vf_assert(sbufEq(again.path(), u.path()), "re-parsed path equals the path");
    else if (onlyEncodedPaths)
        vf_assert(sbufEq(again.path(), u.path()), "re-parsed path equals the path"); // KNOWN FINDING C30-path-reencoded
    else {
        // KNOWN FINDING C30-path-reencoded (known_findings.json; strict assertion only in c30_known_encoded_path): absolute() percent-encodes every path byte outside pchar|'/' -- including the
        // query delimiter '?', '#', '"', '<', bytes >= 0x80 ... -- so for such paths the re-parsed path is the
        // ENCODED text ("/a?b" -> "/a%3Fb"), not "the same path". For this class only stability of the canonical
        // form is asserted.
        vf_assert(sbufEq(again.path(), u.absolutePath()), "re-parsed path equals the canonical (encoded) path");
        vf_reach("encoded-path");
    }
    vf_assert(sbufEq(again.absolutePath(), u.absolutePath()), "canonical path is stable");
}

static void checkUri(const Http::MethodType mt, const uint8_t *in, const unsigned n, const unsigned authorityAt)
{
    const PortText pt = splitAuthority(in + authorityAt, n - authorityAt);
    // (The non-CONNECT port used to go through atoi(): '+80', '80abc', 4294967376 were accepted. Repaired in /repo by the
    // 'fix: URI port was converted with atoi() ...' commit, so every port text is examined here.)
    const HttpRequestMethod method(mt);
    const SBuf raw(reinterpret_cast<const char *>(in), n);
    AnyP::Uri u;
    const bool ok = u.parse(method, raw);
    vf_observe("ok", ok);
    if (pt.written && !pt.empty && (!pt.numeric || !pt.inRange))
        vf_assert(!ok, "a URI with a non-numeric or out-of-range port is rejected");
    if (!ok) { vf_reach("rejected"); WITNESS_POINT(); return; }

    vf_observe("port", u.port().value_or(0));
    vf_observe("host", sbufHash(SBuf(u.host())));
    vf_observe("path", sbufHash(u.path()));
    if (u.getScheme() == AnyP::PROTO_URN || (n == 1 && in[0] == '*')) { vf_reach("other"); WITNESS_POINT(); return; }   // urn: and OPTIONS * have no authority

    // (An empty final host, e.g. 'http://./x' or 'http://:80/', used to be accepted; repaired in /repo by the
    // 'fix: URIs whose host becomes empty ...' commit. checkHost() below asserts a non-empty host.)
    // KNOWN FINDING C30-bracketed-names (known_findings.json): for a host that starts with '[' the brackets are stripped
    // whatever is inside (and a missing ']' is tolerated); if the content is not an IP address it becomes the host name
    // as is, e.g. "http://[a:80]/" -> host "a:80", "http://[:.a/" -> host ":.a". absolute() prints such hosts without
    // brackets, so the canonical form re-parses to another host/port or is rejected. The class is examined only by the
    // entry c30_known_bracketed_names and skipped by all others.
    const bool bracketedName = bracketedAuthority(in + authorityAt, n - authorityAt) && !u.hostIsNumeric();
    if (onlyBracketedNames) vf_assume(bracketedName);
    else if (bracketedName) { vf_reach("bracketed-name"); WITNESS_POINT(); return; }
    checkHost(u);
    vf_assert(u.port().has_value() && *u.port() >= 1, "accepted URI has a port in 1..65535");
    const unsigned dflt = refDefaultPort(u.getScheme());
    if (pt.written && !pt.empty)
        vf_assert(*u.port() == pt.value, "port equals the decimal port written in the URI");
    else
        vf_assert(*u.port() == dflt, "without a written port the scheme default is used");

    // ---- canonical form re-parses to the same components
    const SBuf canon = u.absolute();
    AnyP::Uri again;
    vf_assert(again.parse(method, canon), "the canonical form is accepted");
    vf_assert(again.getScheme() == (AnyP::ProtocolType)u.getScheme() && sbufEq(again.getScheme().image(), u.getScheme().image()), "same scheme");
    vf_assert(strcmp(again.host(), u.host()) == 0, "same host");
    vf_assert(again.port() == u.port(), "same port");
    pathsAgree(u, again);
    vf_assert(sbufEq(again.absolute(), canon), "the canonical form is a fixed point");
    vf_reach("accepted");
    WITNESS_POINT();
}

// any method that AnyP::Uri::parse() does not single out (38 of the 41 non-CONNECT methods): costs no path split
static Http::MethodType ordinaryMethod()
{
    const unsigned m = vf_range(Http::METHOD_NONE + 1, Http::METHOD_ENUM_END - 1, "method");
    vf_assume(m != Http::METHOD_CONNECT && m != Http::METHOD_OPTIONS && m != Http::METHOD_TRACE);
    return (Http::MethodType)m;
}
static void configure(const bool symbolicCheckHostnames)
{
    http1Config(0, 65536, 65536);
    Config.onoff.check_hostnames = symbolicCheckHostnames ? (int)vf_concretize(vf_bool("check_hostnames")) : 0;   // default off
    Config.uri_whitespace = URI_WHITESPACE_STRIP;                                                                     // default
}

#define URL_FAMILY(fn, chk, lit, authorityAt) static void fn(void) { \
    configure(chk); uint8_t in[sizeof(lit)]; const unsigned n = VF_FILL(in, lit, "b"); checkUri(ordinaryMethod(), in, n, authorityAt); }
#ifdef VF_THOROUGH
#define T(quick, thorough) thorough
#else
#define T(quick, thorough) quick
#endif

// host bytes (may turn into ':', '@', '[', '/', '.', upper case ...), check_hostnames off and on
URL_FAMILY(c30_host_head, false, T("http://\x01\x01.a/", "http://\x01\x01\x01.a/"), 7)
URL_FAMILY(c30_host_tail, false, "http://A\x01\x01/x", 7)
URL_FAMILY(c30_host_checked, true, "http://B\x01.a/", 7)
// port text
URL_FAMILY(c30_port, false, "https://h.a:\x01\x01/", 8)
URL_FAMILY(c30_port_end, false, "http://h.a:8\x01\x01", 7)
// ports around 65535 and around 2^32+80
URL_FAMILY(c30_port_limit, false, T("http://h.a:6553\x01/", "http://h.a:655\x01\x01/"), 7)
URL_FAMILY(c30_port_huge, false, "http://h.a:42949673\x01\x01/", 7)
// bracketed IPv6, IPv4 text
URL_FAMILY(c30_ipv6, false, T("http://[fc00::\x01]\x01" "8/", "http://[fc00::\x01\x01]\x01" "8/"), 7)
URL_FAMILY(c30_ipv4, false, "http://10.0.0.\x01\x01/", 7)
// userinfo (ftp keeps it in the canonical form)
URL_FAMILY(c30_userinfo, false, "ftp://u\x01p@h.a\x01/", 6)
// path and query bytes
URL_FAMILY(c30_path, false, "http://h.a/\x01\x01", 7)
// everything after "http://" symbolic
URL_FAMILY(c30_any, false, T("http://\x01\x01", "http://\x01\x01\x01"), 7)

// every method except CONNECT (OPTIONS and TRACE take the '*' branch test first)
static void c30_method(void)
{
    configure(false);
    static const char lit[] = "http://h.a\x01";
    uint8_t in[sizeof(lit)]; const unsigned n = VF_FILL(in, lit, "b");
    const unsigned m = vf_range(Http::METHOD_NONE + 1, Http::METHOD_ENUM_END - 1, "method");
    vf_assume(m != Http::METHOD_CONNECT);
    checkUri((Http::MethodType)m, in, n, 7);
}

// schemes: known ones (default ports), mixed case, unknown (accepted only with an explicit port)
static void c30_scheme(void)
{
    configure(false);
    const unsigned which = (unsigned)vf_concretize(vf_range(0, 8, "scheme"));
    static const char *volatile names[9] = { "http", "https", "ftp", "coap", "coaps", "wais", "whois", "HtTp", "foo" };   // volatile: no llvm.load.relative
    const char *s = names[which];
    uint8_t in[40]; unsigned n = 0;
    while (*s) in[n++] = (uint8_t)*s++;
    in[n++] = ':'; in[n++] = '/'; in[n++] = '/';
    const unsigned authorityAt = n;
    in[n++] = 'h';
    if (vf_concretize(vf_bool("explicitPort"))) { in[n++] = ':'; in[n++] = '8'; }
    in[n++] = vf_nondet_u8("b");
    checkUri(ordinaryMethod(), in, n, authorityAt);
}

// ------------------------------------------------------------------------------------------------ CONNECT host:port
static void checkConnect(const uint8_t *in, const unsigned n)
{
    const HttpRequestMethod method(Http::METHOD_CONNECT);
    const SBuf raw(reinterpret_cast<const char *>(in), n);
    AnyP::Uri u;
    const bool ok = u.parse(method, raw);
    vf_observe("ok", ok);
    // reference: the port is whatever follows the last ':'
    int last = -1;
    for (unsigned i = 0; i < n; ++i) if (in[i] == ':') last = (int)i;
    const PortText pt = last < 0 ? PortText{ false, false, false, false, 0, false } : classifyPort(in + last + 1, n - last - 1);
    if (!pt.written || pt.empty || !pt.numeric || !pt.inRange)
        vf_assert(!ok, "CONNECT target without a numeric in-range port is rejected");
    if (!ok) { vf_reach("rejected"); WITNESS_POINT(); return; }
    vf_observe("port", u.port().value_or(0));
    vf_observe("host", sbufHash(SBuf(u.host())));
    checkHost(u);
    vf_assert(u.port().has_value() && *u.port() == pt.value && pt.value >= 1, "CONNECT port equals the decimal port written");
    const SBuf canon = u.authority(true);
    AnyP::Uri again;
    vf_assert(again.parse(method, canon), "the canonical authority is accepted");
    vf_assert(strcmp(again.host(), u.host()) == 0 && again.port() == u.port(), "same host and port");
    vf_reach("accepted");
    WITNESS_POINT();
}
#define CONNECT_FAMILY(fn, chk, lit) static void fn(void) { \
    configure(chk); uint8_t in[sizeof(lit)]; const unsigned n = VF_FILL(in, lit, "b"); checkConnect(in, n); }
CONNECT_FAMILY(c30_connect_host, false, T("\x01\x01.a:443", "\x01\x01\x01.a:443"))
CONNECT_FAMILY(c30_connect_port, false, T("h.a:\x01\x01\x01", "h.a:\x01\x01\x01\x01"))
CONNECT_FAMILY(c30_connect_port_limit, false, T("h.a:6553\x01", "h.a:655\x01\x01"))
CONNECT_FAMILY(c30_connect_ipv6, false, T("[fc00::\x01]\x01" "443", "[fc00::\x01\x01]\x01" "44\x01"))
CONNECT_FAMILY(c30_connect_any, false, T("\x01\x01\x01\x01", "\x01\x01\x01\x01\x01"))

// ------------------------------------------------------------------------------------------------ entries (groups of families; the family is chosen per path)
#define PICK(n) const unsigned f = (unsigned)vf_concretize(vf_range(0, (n) - 1, "family"))
extern "C" void c30_e_host(void) { PICK(3); if (f == 0) c30_host_head(); else if (f == 1) c30_host_tail(); else c30_host_checked(); }
extern "C" void c30_e_port(void) { PICK(3); if (f == 0) c30_port(); else if (f == 1) c30_port_limit(); else c30_port_huge(); }
extern "C" void c30_e_port_end(void) { c30_port_end(); }
extern "C" void c30_e_ip(void) { PICK(2); if (f == 0) c30_ipv6(); else c30_ipv4(); }
extern "C" void c30_e_userinfo(void) { c30_userinfo(); }
extern "C" void c30_e_scheme_method(void) { PICK(2); if (f == 0) c30_scheme(); else c30_method(); }
extern "C" void c30_e_path(void) { c30_path(); }
extern "C" void c30_e_any(void) { c30_any(); }
extern "C" void c30_e_connect(void) { PICK(4); if (f == 0) c30_connect_host(); else if (f == 1) c30_connect_port(); else if (f == 2) c30_connect_port_limit(); else c30_connect_ipv6(); }
extern "C" void c30_e_connect_any(void) { c30_connect_any(); }

// ------------------------------------------------------------------------------------------------ known findings (see known_findings.json)
extern "C" void c30_known_bracketed_names(void) { onlyBracketedNames = true; c30_ipv6(); }
extern "C" void c30_known_encoded_path(void) { onlyEncodedPaths = true; c30_path(); }
