// C39 (kernel): the SNMP listener tolerates arbitrary datagrams - decode side.
// Real code: lib/snmplib/snmp_api.c (snmp_parse), snmp_msg.c (snmp_msg_Decode), snmp_pdu.c (snmp_pdu_create/decode/free),
// snmp_vars.c (snmp_var_DecodeVarBind/new/free), asn1.c (asn_parse_*), coexistance.c (snmp_coexist_V2toV1).
// The harness does what snmpHandleUdp()/snmpDecodePacket() (src/snmp_core.cc) do with a received datagram:
//   zero-filled receive buffer, datagram at its start, snmp_pdu_create(0), snmp_parse(), then - as after a permitting
//   snmp_access check - snmp_coexist_V2toV1(), walk over every decoded variable, snmp_free_pdu(), xfree(community).
// Symbolic: the datagram octets. Oracle: no out-of-bounds / use-after-free / double free / abort anywhere (engine memory
// checks), termination (instruction budget), and the decoder's own post-conditions that its callers rely on.
// Receive buffer model: snmpHandleUdp() reads at most SNMP_REQUEST_SIZE-1 octets into a zeroed SNMP_REQUEST_SIZE buffer.
// The decoder looks at up to 5 octets behind the end of the data before comparing lengths (asn_parse_header/int/string/
// objid read the type and length octets first), which stays inside that buffer as long as the datagram is at most
// SNMP_REQUEST_SIZE-1-PAD octets long. So: heap block of exactly len+1+PAD octets, the last 1+PAD of them zero. Any access
// behind that block would be out of bounds in Squid, too (for a datagram of SNMP_REQUEST_SIZE-1-PAD octets).
#include "squid.h"
#include "common.h"
#include "snmp.h"
#include "snmp_core.h"
#include <cstring>
#include <cstdlib>

#define PAD 5

static void quietHook(int, char *, ...) {}          // Squid installs snmpSnmplibDebug (a debugs() call) here
extern "C" void (*snmplib_debug_hook)(int, char *, ...);
static void quiet() { vf_quiet(); snmplib_debug_hook = quietHook; }

// ---- case-split device (adds NO assumption; same idea as in C37_dns.cc): BER length octets decide the decoder's pointer
// arithmetic; the harness walks the datagram along the positions at which the decoder reads lengths and forks over their
// values (a value that cannot fit the datagram stays symbolic: the decoder rejects it after one comparison).
static int conc(const int v) { return (int)(int64_t)vf_concretize((uint64_t)(int64_t)v); }
// splits the length field at b[off..]; returns the header size (1 + length octets) and the length, or -1 if the decoder stops
static int splitLength(unsigned char *b, const unsigned n, const unsigned off, unsigned &len)
{
    if (off >= n) return -1;                              // behind the datagram: the buffer's zero padding, nothing to split
    if (!(b[off] & 0x80)) {
        if (b[off] > n) return -1;
        len = b[off] = (unsigned char)vf_concretize(b[off]);
        return 1;
    }
    if (b[off] < 0x81 || b[off] > 0x84) return -1;
    const unsigned k = (b[off] = (unsigned char)vf_concretize(b[off])) & 0x7F;
    if (off + k >= n) return -1;
    for (unsigned i = 1; i < k; ++i) { if (b[off + i] != 0) return -1; b[off + i] = 0; }   // (higher octets: non-zero = far too long)
    if (b[off + k] > n) return -1;
    len = b[off + k] = (unsigned char)vf_concretize(b[off + k]);
    return 1 + (int)k;
}
// one TLV at off: returns the offset of its content (enter) and sets end to the offset behind it (skip)
static int splitTlv(unsigned char *b, const unsigned n, const unsigned off, unsigned &end)
{
    unsigned len = 0;
    const int h = conc(splitLength(b, n, off + 1, len));
    if (h < 0) return -1;
    end = off + 1 + h + len;
    return (int)(off + 1 + h);
}
// KNOWN-FINDING candidate (not a property violation, a C-language nicety): asn_parse_int()/asn_parse_unsigned_int() decode a
// negative INTEGER with "value = -1; value = (value << 8) | octet" - a left shift of a negative int, undefined in C
// (lib/snmplib/asn1.c:161,217). Every compiler in use yields the intended result, but the native UBSan build used for
// differential replay aborts there. Entries that are replayed natively therefore leave negative INTEGERs out (assumed
// below, at the positions the decoder reads as integers); c39_snmp_negint covers them in the interpreter only.
static bool gAllowNegative = false;
static void intAt(const unsigned char *b, const unsigned n, const int content, const unsigned end)
{
    if (!gAllowNegative && content >= 0 && (unsigned)content < end && (unsigned)content < n) vf_assume(!(b[content] & 0x80));
}
static void splitMessage(unsigned char *b, const unsigned n)
{
    unsigned end = 0;
    int off = splitTlv(b, n, 0, end);                       // message SEQUENCE
    if (off < 0 || end > n) return;
    for (int i = 0; i < 2; ++i) {                           // version, community
        const int c = splitTlv(b, n, off, end);
        if (c < 0 || end > n) return;
        if (i == 0) intAt(b, n, c, end);
        off = (int)end;
    }
    const unsigned pduAt = (unsigned)off;
    off = splitTlv(b, n, pduAt, end);                       // PDU header
    if (off < 0 || end > n) return;
    const bool trap = b[pduAt] == 0xA4;
    for (int i = 0; i < (trap ? 5 : 3); ++i) {              // request-id, error-status, error-index | enterprise, agent, 3 integers
        const int c = splitTlv(b, n, off, end);
        if (c < 0 || end > n) return;
        if (!trap || i >= 2) intAt(b, n, c, end);
        off = (int)end;
    }
    off = splitTlv(b, n, off, end);                         // variable-bindings SEQUENCE
    if (off < 0 || end > n) return;
    const unsigned listEnd = end;
    while ((unsigned)off < listEnd) {
        unsigned bindEnd = 0;
        off = splitTlv(b, n, off, bindEnd);                 // one binding
        if (off < 0 || bindEnd > n) return;
        if (splitTlv(b, n, off, end) < 0 || end > n) return;    // name
        off = (int)end;
        const unsigned valueAt = (unsigned)off;
        const int c = splitTlv(b, n, off, end);                // value
        if (c < 0 || end > n) return;
        if (b[valueAt] == 0x02 || (b[valueAt] >= 0x41 && b[valueAt] <= 0x43)) intAt(b, n, c, end);
        off = (int)bindEnd;
    }
}

// what snmpDecodePacket() and the agent code do with a datagram
static void receive(unsigned char *bytes, const unsigned len)
{
    splitMessage(bytes, len);
    unsigned char *buf = (unsigned char *)calloc(len + 1 + PAD, 1);     // memset(buf, 0, ...); recvfrom(..., sizeof(buf)-1)
    memcpy(buf, bytes, len);

    struct snmp_session session;
    memset(&session, 0, sizeof(session));
    struct snmp_pdu *PDU = snmp_pdu_create(0);
    session.Version = SNMP_VERSION_1;
    u_char *Community = snmp_parse(&session, PDU, buf, (int)len);
    vf_observe("parsed", Community != nullptr);
    if (Community) {
        // post-conditions the callers rely on
        unsigned l = 0;
        while (l < 128 && Community[l]) ++l;
        vf_assert(l < 128 && (int)l == session.community_len, "community is a NUL-terminated string of the reported length");
        unsigned sum = 0, count = 0;
        for (struct variable_list *v = PDU->variables; v; v = v->next_variable) {
            vf_assert(v->name != nullptr && v->name_length >= 0 && v->name_length <= MAX_NAME_LEN, "variable name within MAX_NAME_LEN");
            for (int i = 0; i < v->name_length; ++i) sum += v->name[i];            // snmpAgentResponse()/snmpTreeGet() read the name
            if (v->val.string && v->val_len > 0)
                for (int i = 0; i < v->val_len; ++i) sum += v->val.string[i];      // and the value octets
            ++count;
        }
        vf_observe("vars", count);
        vf_observe("sum", sum);
        const int coexist = snmp_coexist_V2toV1(PDU);
        vf_observe("coexist", coexist);
        vf_observe("command", PDU->command);
        snmp_free_pdu(PDU);
        xfree(Community);
        if (count) vf_reach("parsed_vars"); else vf_reach("parsed_novars");
    } else {
        snmp_free_pdu(PDU);
        vf_reach("rejected");
    }
    free(buf);
    WITNESS_POINT();
}

// template expansion: 0x01 = a fresh fully symbolic octet, 0x02 = the octet 0x01, 0x03 <count> <octet> = <count> copies of <octet>
static unsigned fill(unsigned char *out, const char *tmpl, const unsigned len, const char *name)
{
    unsigned n = 0;
    for (unsigned i = 0; i < len; ++i) {
        if (tmpl[i] == '\x03') { for (unsigned r = 0; r < (unsigned char)tmpl[i + 1]; ++r) out[n++] = (unsigned char)tmpl[i + 2]; i += 2; continue; }
        out[n++] = tmpl[i] == '\x01' ? vf_nondet_u8(name) : tmpl[i] == '\x02' ? 1 : (unsigned char)tmpl[i];
    }
    return n;
}
struct Tmpl { const char *s; unsigned n; };
#define T(lit) {lit, sizeof(lit) - 1}
// datagram lengths explored: minLen..maxTrunc (truncations around the symbolic octets) and the full template
static void family(const Tmpl *tmpls, const unsigned count, const unsigned minLen, const unsigned maxTrunc)
{
    quiet();
    const unsigned k = (unsigned)vf_concretize(vf_range(0, count - 1, "template"));
    unsigned char b[320];
    const unsigned full = fill(b, tmpls[k].s, tmpls[k].n, "byte");
    unsigned n = (unsigned)vf_concretize(vf_range(minLen, maxTrunc + 1, "len"));
    if (n > maxTrunc || n > full) n = full;
    receive(b, n);
}

// every datagram of 0..NANY octets
extern "C" void c39_snmp_any(void)
{
    quiet();
#ifdef VF_THOROUGH
    enum { NANY = 7 };
#else
    enum { NANY = 5 };
#endif
    unsigned char b[NANY + 1];
    const unsigned n = (unsigned)vf_concretize(vf_range(0, NANY, "len"));
    for (unsigned i = 0; i < n; ++i) b[i] = vf_nondet_u8("byte");
    receive(b, n);
}

// A well-formed GET for 1.3.6.1.4.1.3495.1.1.1.0 (26 + 18 octets); \x01 = fully symbolic octet, \x02 = the octet 0x01:
//   30 29  02 01 00  04 06 "public"  A0 1C  02 01 05  02 01 00  02 01 00  30 11  30 0F  06 0B 2B 06 01 04 01 9B 27 01 01 01 00  05 00
#define MSG_HEAD  "\x30\x29\x02\x02\x00\x04\x06public"
#define PDU_HEAD  "\xA0\x1C\x02\x02\x05\x02\x02\x00\x02\x02\x00"
#define VARS      "\x30\x11\x30\x0F\x06\x0B\x2B\x06\x02\x04\x02\x9B\x27\x02\x02\x02\x00\x05\x00"

// message header, version, community: types and lengths symbolic
extern "C" void c39_snmp_header(void)
{
    static const Tmpl t[] = {
        T("\x01\x01\x02\x02\x00\x04\x06public" PDU_HEAD VARS),                 // outer type and length
        T("\x30\x29\x01\x01\x00\x04\x06public" PDU_HEAD VARS),                 // version type and length
        T("\x30\x29\x02\x02\x01\x01\x06public" PDU_HEAD VARS),                 // version value, community type
        T("\x30\x29\x02\x02\x00\x04\x01pu\x01lic" PDU_HEAD VARS),              // community length, an octet in it (NUL!)
        T("\x30\x81\x01\x02\x02\x00\x04\x81\x01public" PDU_HEAD VARS),         // long-form lengths
        T("\x30\x81\xA6\x02\x02\x00\x04\x81\x01\x03\x82" "c" PDU_HEAD VARS),       // community of up to 130 octets (Squid's buffer: 128)
        T("\x30\x2D\x02\x02\x00\x04\x84\x01\x01\x00\x06public" PDU_HEAD VARS),   // community with a 4-octet long-form length whose two high octets are symbolic (lengths >= 2^31 included)
#ifdef VF_THOROUGH
        T("\x30\x01\x01\x02\x02\x00\x04\x06public" PDU_HEAD VARS),
        T("\x30\x29\x02\x01\x01\x01\x04\x06public" PDU_HEAD VARS),
        T("\x30\x29\x02\x02\x00\x04\x01\x01\x01" "blic" PDU_HEAD VARS),
#endif
    };
    family(t, sizeof(t) / sizeof(*t), 0, 16);
}

// PDU header and its integers (request id, error status/index; GETBULK; v1 TRAP layout)
extern "C" void c39_snmp_pdu(void)
{
    static const Tmpl t[] = {
        T(MSG_HEAD "\x01\x01\x02\x02\x05\x02\x02\x00\x02\x02\x00" VARS),       // PDU type (command) and length
        T(MSG_HEAD "\xA0\x1C\x01\x01\x05\x02\x02\x00\x02\x02\x00" VARS),       // request id type, length
        T(MSG_HEAD "\xA0\x1C\x02\x02\x05\x02\x01\x01\x02\x02\x00" VARS),       // error status length, value (sign bit)
        T(MSG_HEAD "\xA5\x1C\x02\x02\x05\x02\x02\x00\x02\x01\x01" VARS),       // GETBULK max-repetitions
        T("\x30\x2F\x02\x02\x00\x04\x06public" "\xA4\x22" "\x06\x01\x2B" "\x40\x04\x7F\x00\x00\x02" "\x02\x02\x01" "\x02\x02\x00" "\x43\x01\x01" "\x30\x0E\x30\x0C\x06\x08\x2B\x06\x02\x04\x02\x9B\x27\x02\x05\x00"),   // TRAP: enterprise OID length, time length/value
#ifdef VF_THOROUGH
        T(MSG_HEAD "\xA0\x01\x02\x01\x01\x02\x02\x00\x02\x02\x00" VARS),
        T("\x30\x2F\x02\x02\x00\x04\x06public" "\xA4\x22" "\x06\x01\x01" "\x40\x01\x7F\x00\x00\x02" "\x02\x02\x01" "\x02\x02\x00" "\x43\x02\x01" "\x30\x0E\x30\x0C\x06\x08\x2B\x06\x02\x04\x02\x9B\x27\x02\x05\x00"),
#endif
    };
    family(t, sizeof(t) / sizeof(*t), 13, 27);
}

// variable bindings: list/binding headers, object identifier, value of every type
extern "C" void c39_snmp_vars(void)
{
    static const Tmpl t[] = {
        T(MSG_HEAD PDU_HEAD "\x01\x01\x30\x0F\x06\x0B\x2B\x06\x02\x04\x02\x9B\x27\x02\x02\x02\x00\x05\x00"),        // list type, length
        T(MSG_HEAD PDU_HEAD "\x30\x11\x01\x01\x06\x0B\x2B\x06\x02\x04\x02\x9B\x27\x02\x02\x02\x00\x05\x00"),        // binding type, length
        T(MSG_HEAD PDU_HEAD "\x30\x11\x30\x0F\x01\x01\x2B\x06\x02\x04\x02\x9B\x27\x02\x02\x02\x00\x05\x00"),        // name type, length
        T(MSG_HEAD PDU_HEAD "\x30\x11\x30\x0F\x06\x0B\x01\x06\x02\x04\x02\x9B\x01\x02\x02\x02\x00\x05\x00"),        // first sub-identifier, a continuation octet
        T(MSG_HEAD PDU_HEAD "\x30\x11\x30\x0F\x06\x0B\x2B\x06\x02\x04\x02\x9B\x27\x02\x02\x02\x00\x01\x01"),        // value type, length
        T(MSG_HEAD PDU_HEAD "\x30\x11\x30\x0F\x06\x09\x2B\x06\x02\x04\x02\x9B\x27\x02\x02\x01\x01\x01\x01"),        // value type, length, 2 content octets
        T(MSG_HEAD PDU_HEAD "\x30\x11\x30\x06\x06\x02\x2B\x06\x01\x00" "\x30\x07\x06\x02\x2B\x06\x01\x01\x01"),     // two bindings
        T("\x30\x65\x02\x02\x00\x04\x06public" "\xA0\x58\x02\x02\x05\x02\x02\x00\x02\x02\x00" "\x30\x4D\x30\x4B\x06\x01\x2B\x03\x46\x05\x05\x00"),   // a name of up to 71 sub-identifiers (MAX_NAME_LEN is 64)
        T("\x30\x2B\x02\x02\x00\x04\x06public" "\xA0\x1E\x02\x02\x05\x02\x02\x00\x02\x02\x00" "\x30\x13\x30\x11\x06\x09\x2B\x06\x02\x04\x02\x9B\x27\x02\x02\x04\x84\x01\x01\x00\x00"),   // OCTET STRING value with a 4-octet long-form length, two high octets symbolic
#ifdef VF_THOROUGH
        T(MSG_HEAD PDU_HEAD "\x30\x11\x30\x0F\x06\x08\x2B\x06\x02\x04\x02\x9B\x27\x02\x01\x01\x01\x01\x01"),
        T(MSG_HEAD PDU_HEAD "\x30\x11\x30\x0F\x06\x01\x01\x01\x01\x04\x02\x9B\x27\x02\x02\x02\x00\x05\x00"),
        T(MSG_HEAD PDU_HEAD "\x30\x01\x30\x01\x06\x01\x2B\x06\x02\x04\x02\x9B\x27\x02\x02\x02\x00\x05\x00"),
#endif
    };
    family(t, sizeof(t) / sizeof(*t), 24, 43);
}

// negative INTEGERs at every position that is decoded as an integer (interpreter only, see gAllowNegative)
extern "C" void c39_snmp_negint(void)
{
    static const Tmpl t[] = {
        T("\x30\x29\x02\x02\x01\x04\x06public" PDU_HEAD VARS),                                                      // version
        T(MSG_HEAD "\xA0\x1C\x02\x02\x01\x02\x02\x01\x02\x02\x01" VARS),                                                // request id, error status, error index
        T(MSG_HEAD "\xA5\x1C\x02\x02\x05\x02\x02\x01\x02\x02\x01" VARS),                                                // GETBULK non-repeaters, max-repetitions
        T("\x30\x2F\x02\x02\x00\x04\x06public" "\xA4\x22" "\x06\x02\x2B" "\x40\x04\x7F\x00\x00\x02" "\x02\x02\x01" "\x02\x02\x01" "\x43\x02\x01" "\x30\x0E\x30\x0C\x06\x08\x2B\x06\x02\x04\x02\x9B\x27\x02\x05\x00"),   // TRAP integers
        T(MSG_HEAD PDU_HEAD "\x30\x11\x30\x0F\x06\x09\x2B\x06\x02\x04\x02\x9B\x27\x02\x02\x01\x02\x01\x01"),             // value: type symbolic, 2 content octets
    };
    gAllowNegative = true;
    family(t, sizeof(t) / sizeof(*t), 40, 39);
}

// KNOWN FINDING (known_findings.json, C39-snmp-maxlen-overread): a datagram of the maximum receivable size,
// SNMP_REQUEST_SIZE-1 = 4095 octets, whose last binding's value header ends with the datagram: the decoder reads the type and
// length octets of an object before comparing against the remaining length (asn_parse_header/asn_parse_length), here 1-3
// octets behind snmpHandleUdp()'s static 4096-octet buffer. Strict oracle (no padding beyond what Squid has): the real buffer
// discipline with the real sizes - 4096 zeroed octets, 4095 received. Every other entry excludes this class through its
// buffer model (datagram + 6 zero octets, i.e. datagrams of at most 4090 octets).
extern "C" void c39_known_maxlen_overread(void)
{
    quiet();
    enum { SZ = SNMP_REQUEST_SIZE, LEN = SNMP_REQUEST_SIZE - 1 };
    unsigned char *buf = (unsigned char *)calloc(SZ, 1);
    unsigned n = 0;
    // 30 82 0F FB | 02 01 00 | 04 06 public | A0 82 0F EC | 02 01 05  02 01 00  02 01 00 | 30 82 0F DF | bindings...
    static const unsigned char head[] = {0x30, 0x82, 0x0F, 0xFB, 0x02, 0x01, 0x00, 0x04, 0x06, 'p', 'u', 'b', 'l', 'i', 'c',
                                         0xA0, 0x82, 0x0F, 0xEC, 0x02, 0x01, 0x05, 0x02, 0x01, 0x00, 0x02, 0x01, 0x00, 0x30, 0x82, 0x0F, 0xDF
                                        };
    memcpy(buf, head, sizeof(head)); n = sizeof(head);
    // 407 bindings of 10 octets: 30 08 06 04 2B 06 01 04 05 00
    static const unsigned char bind[] = {0x30, 0x08, 0x06, 0x04, 0x2B, 0x06, 0x01, 0x04, 0x05, 0x00};
    while (n + sizeof(bind) + 8 <= LEN) { memcpy(buf + n, bind, sizeof(bind)); n += sizeof(bind); }
    // last binding fills the rest: 30 LL 06 01 2B <value type> <value length octet: symbolic> ...
    const unsigned rest = LEN - n;
    buf[n++] = 0x30; buf[n++] = (unsigned char)(rest - 2); buf[n++] = 0x06; buf[n++] = (unsigned char)(rest - 6);
    while (n < LEN - 2) buf[n++] = 0x2B;
    buf[n++] = 0x04;                                  // value: OCTET STRING
    const unsigned char lengthOctet = vf_nondet_u8("lengthoctet");
    vf_assume(lengthOctet >= 0x81 && lengthOctet <= 0x84);   // long-form length: 1-4 length octets follow - behind the datagram
    buf[n++] = lengthOctet;
    vf_assert(n == LEN, "harness: datagram is 4095 octets");
    struct snmp_session session;
    memset(&session, 0, sizeof(session));
    struct snmp_pdu *PDU = snmp_pdu_create(0);
    u_char *Community = snmp_parse(&session, PDU, buf, LEN);
    snmp_free_pdu(PDU);
    if (Community) xfree(Community);
    free(buf);
    WITNESS_POINT();
}
