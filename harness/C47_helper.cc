// C47 (kernel): helper replies reach the request that asked.
//
// Real code: src/helper.cc as a whole translation unit (#include): Helper::Client::openSessions() starts one helper
// session (process creation stubbed), helperSubmit()/Enqueue()/helperDispatch() hand out the channel IDs, and
// helperHandleRead() -> Helper::Session::popRequest() -> helperReturnBuffer() -> Helper::Client::callBack() take the reply
// bytes apart; Helper::Reply::accumulate()/finalize() (src/helper/Reply.cc) build the reply handed to the callback.
// The harness plays the helper process: it puts reply bytes into the buffer Squid armed with comm_read() and calls
// helperHandleRead() as the comm layer would, once per read.
//
// Symbolic: the digits of the channel-ID field of every reply line, one payload byte per reply, where the byte stream
// is cut into reads (every cut position; thorough: every pair), which IDs are outstanding (1,2 | 9,10 | 1,12 | 5,50).
//
// Oracle (written from the helper protocol, squid.conf "url_rewrite_children ... concurrency=": "channel-ID SP response LF"):
// a reference splitter cuts the whole stream at LF, reads the decimal channel-ID in front of the first space of each line,
// and says: a line whose ID is that of an outstanding request answers that request (and only the first such line does);
// any other line answers nobody. Asserted after every read and at the end:
//   * every callback invocation carries the payload of a line whose channel-ID is that callback's request ID;
//   * no request is called back twice; a request is called back iff the reference found a complete line for it;
//   * with concurrency 0, replies are handed to the requests in the order the requests were submitted.
#include "squid.h"
#include <sstream>
#include <functional>
#include <chrono>
#include <atomic>
#include <iostream>
#include <string>
#include <vector>
#include <list>
#include <map>
#include <queue>
#include <unordered_map>
#include <memory>
#include <algorithm>
#include "debug/Stream.h"
#include "SquidString.h"
#include "sbuf/SBuf.h"
#include "base/RefCount.h"
#include "base/TextException.h"
#define private public
#define protected public
#include "helper.cc"      // the real translation unit (static helperHandleRead/helperDispatch/... included)
#undef private
#undef protected
#include "common.h"
#include "globals.h"
#include "mem/Allocator.h"
#include "mem/Pool.h"

// ---------------------------------------------------------------------------------------------- environment
int shutting_down = 0, reconfiguring = 0, starting_up = 0;   // globals.cc is not linked
// time/gadgets.cc is not linked (it defines the clock globals that harness/common/stubs.cc provides); same formula, statistics only
int tvSubMsec(struct timeval t1, struct timeval t2) { return (t2.tv_sec - t1.tv_sec) * 1000 + (t2.tv_usec - t1.tv_usec) / 1000; }
fde *fde::Table = nullptr;                  // fde.cc is not linked; the harness provides a small table

#ifdef VF_BITCODE
// libstdc++.so's out-of-line red-black tree primitives (std::map requestsIndex); no bitcode exists for them. Modelled as an
// unbalanced binary search tree: same linking as libstdc++'s tree.cc without the recolouring/rotations (balance and colour
// are unobservable through std::map). Weak, so that an engine-provided model would take precedence.
namespace std {
typedef _Rb_tree_node_base Node;
__attribute__((weak)) void _Rb_tree_insert_and_rebalance(const bool left, Node *x, Node *p, Node &header) throw()
{
    x->_M_parent = p; x->_M_left = nullptr; x->_M_right = nullptr; x->_M_color = _S_red;
    if (left) {
        p->_M_left = x; // also makes leftmost = x when p is the header
        if (p == &header) { header._M_parent = x; header._M_right = x; }
        else if (p == header._M_left) header._M_left = x;
    } else {
        p->_M_right = x;
        if (p == header._M_right) header._M_right = x;
    }
}
__attribute__((weak)) Node *_Rb_tree_rebalance_for_erase(Node *const z, Node &header) throw()
{
    Node *&root = header._M_parent, *&leftmost = header._M_left, *&rightmost = header._M_right;
    Node *y = z, *x = nullptr;
    if (!y->_M_left) x = y->_M_right;
    else if (!y->_M_right) x = y->_M_left;
    else { y = y->_M_right; while (y->_M_left) y = y->_M_left; x = y->_M_right; }
    if (y != z) { // z has two children: its successor y takes its place
        z->_M_left->_M_parent = y; y->_M_left = z->_M_left;
        if (y != z->_M_right) {
            if (x) x->_M_parent = y->_M_parent;
            y->_M_parent->_M_left = x;
            y->_M_right = z->_M_right; z->_M_right->_M_parent = y;
        }
        if (root == z) root = y;
        else if (z->_M_parent->_M_left == z) z->_M_parent->_M_left = y;
        else z->_M_parent->_M_right = y;
        y->_M_parent = z->_M_parent;
    } else {
        if (x) x->_M_parent = y->_M_parent;
        if (root == z) root = x;
        else if (z->_M_parent->_M_left == z) z->_M_parent->_M_left = x;
        else z->_M_parent->_M_right = x;
        if (leftmost == z) { if (!z->_M_right) leftmost = z->_M_parent; else { Node *m = x; while (m->_M_left) m = m->_M_left; leftmost = m; } }
        if (rightmost == z) { if (!z->_M_left) rightmost = z->_M_parent; else { Node *m = x; while (m->_M_right) m = m->_M_right; rightmost = m; } }
    }
    return z;
}
__attribute__((weak)) Node *_Rb_tree_increment(Node *x) throw()
{
    if (x->_M_right) { x = x->_M_right; while (x->_M_left) x = x->_M_left; return x; }
    Node *y = x->_M_parent;
    while (x == y->_M_right) { x = y; y = y->_M_parent; }
    if (x->_M_right != y) x = y;
    return x;
}
__attribute__((weak)) const Node *_Rb_tree_increment(const Node *x) throw() { return _Rb_tree_increment(const_cast<Node *>(x)); }
__attribute__((weak)) Node *_Rb_tree_decrement(Node *x) throw()
{
    if (x->_M_color == _S_red && x->_M_parent->_M_parent == x) return x->_M_right; // header: end() - 1 = rightmost
    if (x->_M_left) { Node *y = x->_M_left; while (y->_M_right) y = y->_M_right; return y; }
    Node *y = x->_M_parent;
    while (x == y->_M_left) { x = y; y = y->_M_parent; }
    return y;
}
__attribute__((weak)) const Node *_Rb_tree_decrement(const Node *x) throw() { return _Rb_tree_decrement(const_cast<Node *>(x)); }
}
#endif

// cbdata.cc allocates through memory pools: a pool here is the plain heap
struct PlainPool: public Mem::Allocator {
    PlainPool(const char *l, size_t sz): Mem::Allocator(l, sz) {}
    size_t getStats(Mem::PoolStats &) override { return 0; }
    bool idleTrigger(int) const override { return false; }
    void clean(time_t) override {}
    void *allocate() override { return xcalloc(1, objectSize); }
    void deallocate(void *p) override { xfree(p); }
};
MemPools::MemPools() {}
MemPools &MemPools::GetInstance() { static MemPools *p = new MemPools; return *p; }
Mem::Allocator *MemPools::create(const char *label, size_t sz) { return new PlainPool(label, sz); }

// process creation: one "helper process" with a read and a write descriptor
pid_t ipcCreate(int, const char *, const char *const[], const char *, Ip::Address &, int *rfd, int *wfd, void **hIpc)
{
    *rfd = 5; *wfd = 6; *hIpc = nullptr;
    return 4711;
}
void fd_note(int, const char *) {}
int commSetNonBlocking(int) { return 0; }
void comm_add_close_handler(int, AsyncCall::Pointer &) {}
void commSetConnTimeout(const Comm::ConnectionPointer &, time_t, AsyncCall::Pointer &) {}
static unsigned closedFds;
void _comm_close(int fd, char const *, int) { if (fd >= 0 && fd < 8) fde::Table[fd].flags.close_request = true; ++closedFds; }
// writes to the helper succeed and are discarded (the harness is the helper; it knows what was asked)
static unsigned writesStarted;
void Comm::Write(const Comm::ConnectionPointer &, const char *, int, AsyncCall::Pointer &, FREE *) { ++writesStarted; }
// comm_read(): remember where Squid wants the next bytes
// (the pending call is kept: like the comm layer's, it holds the cbdata reference that keeps the session valid)
static char *armedBuf; static int armedSize; static bool armed; static AsyncCall::Pointer armedCall;
void comm_read_base(const Comm::ConnectionPointer &, char *buf, int len, AsyncCall::Pointer &call) { armedBuf = buf; armedSize = len; armed = true; armedCall = call; }

// ---------------------------------------------------------------------------------------------- the requests
#define NREQ 2
#define MAXSTREAM 24
struct Asker {                     // the callback data of one request (a cbdata-protected object in Squid)
    CBDATA_CLASS(Asker);
public:
    Asker() {}
    unsigned calls = 0;
    uint64_t id = 0;               // channel ID the request got (concurrent helpers)
    char got[8]; unsigned gotLen = 0; int result = -1;
};
CBDATA_CLASS_INIT(Asker);
static Asker *askers[NREQ];
static unsigned callOrder[NREQ * 2], nCalls;

static void replyCallback(void *data, const Helper::Reply &reply)
{
    Asker *a = static_cast<Asker *>(data);
    unsigned who = NREQ;
    for (unsigned k = 0; k < NREQ; ++k) if (askers[k] == a) who = k;
    vf_assert(who < NREQ, "callback data is one of the submitted requests");
    ++a->calls;
    if (nCalls < NREQ * 2) callOrder[nCalls] = who;
    ++nCalls;
    a->result = reply.result;
    const MemBuf &o = reply.other();
    a->gotLen = o.contentSize();
    for (unsigned i = 0; i < a->gotLen && i < sizeof(a->got); ++i) a->got[i] = o.content()[i];
}

static Helper::Client::Pointer hlp;
static Helper::Session *srv;

static void startHelper(const unsigned concurrency)
{
    vf_quiet();
    static fde table[8];
    fde::Table = table;
    hlp = Helper::Client::Make("c47");
    wordlist *cmd = nullptr;
    wordlistAdd(&cmd, "/bin/helper");
    hlp->cmdline = cmd;
    hlp->childs.n_max = 1; hlp->childs.n_startup = 1; hlp->childs.n_idle = 1;
    hlp->childs.concurrency = concurrency;
    hlp->childs.queue_size = 4;
    hlp->openSessions();
    vf_assert(hlp->childs.n_running == 1 && hlp->servers.head, "harness: one helper session started");
    srv = static_cast<Helper::Session *>(hlp->servers.head->data);
    vf_assert(armed && armedBuf == srv->rbuf, "harness: the session armed its first read");
}

// the helper process writes len bytes; Squid's comm layer delivers them in one read
static void helperWrites(const uint8_t *p, const unsigned len)
{
    vf_assert(armed, "harness: a read is armed while the session is open");
    vf_assert((int)len <= armedSize, "harness: the bytes fit into the armed read");
    memcpy(armedBuf, p, len);
    char *buf = armedBuf;
    armed = false;
    AsyncCall::Pointer firing = armedCall;   // the call being dialed stays alive while its handler runs
    armedCall = nullptr;
    helperHandleRead(srv->readPipe, buf, len, Comm::OK, 0, srv);
    firing = nullptr;
}

// ---------------------------------------------------------------------------------------------- reference
struct RefLine { uint64_t id; bool idOk; unsigned payloadAt, payloadLen; bool complete; };
// cuts stream[0..n) into LF-terminated lines "1*DIGIT SP payload"; returns the number of lines (the last may be incomplete)
static unsigned refSplit(const uint8_t *s, const unsigned n, RefLine *out, const unsigned maxLines)
{
    unsigned nl = 0, p = 0;
    while (p < n && nl < maxLines) {
        RefLine &l = out[nl++];
        unsigned e = p;
        while (e < n && s[e] != '\n') ++e;
        l.complete = e < n;
        uint64_t v = 0; unsigned q = p;
        while (q < e && s[q] >= '0' && s[q] <= '9') { v = v * 10 + (s[q] - '0'); ++q; }
        l.idOk = q > p && q < e && s[q] == ' ';
        l.id = v;
        l.payloadAt = q + 1; l.payloadLen = l.idOk ? e - (q + 1) : 0;
        p = e + 1;
    }
    return nl;
}

// (no longer used for an exclusion; kept for the reach label) does a read boundary at stream position c (the read ends with byte c-1) fall
// inside or right behind the channel-ID digits of a line, before its separating space, while that digit prefix or the line's
// complete channel-ID names a request that is still outstanding when the line starts?
static bool splitsLiveChannelId(const uint8_t *st, const unsigned n, const unsigned c, const RefLine *lines, const uint64_t *ids, const int *answeredBy)
{
    if (c == 0 || c >= n) return false;
    unsigned ls = 0, li = 0;                       // start and index of the line that byte c-1 belongs to (LF positions are concrete)
    for (unsigned i = 0; i < c; ++i) if (st[i] == '\n') { ls = i + 1; ++li; }
    if (ls == c) return false;                      // the read ends with a complete line
    uint64_t prefix = 0;
    for (unsigned i = ls; i < c; ++i) {
        if (!(st[i] >= '0' && st[i] <= '9')) return false;   // the separator (or payload) has arrived: the ID is complete
        prefix = prefix * 10 + (st[i] - '0');
    }
    for (unsigned k = 0; k < NREQ; ++k) {
        const bool outstanding = answeredBy[k] < 0 || answeredBy[k] >= (int)li;
        if (outstanding && (ids[k] == prefix || ids[k] == lines[li].id)) return true;
    }
    return false;
}

// ---------------------------------------------------------------------------------------------- concurrent helpers
// Two requests outstanding on one session with channel IDs (idA, idB); the helper answers with two lines whose channel-ID
// digits are symbolic, i.e. in either order, with a duplicated ID, with an unknown ID ...
static void concurrent(const uint64_t idA, const uint64_t idB, const unsigned idDigits1, const unsigned idDigits2, const char *idPrefix1 = nullptr)
{
    startHelper(16);
    const uint64_t ids[NREQ] = {idA, idB};
    for (unsigned k = 0; k < NREQ; ++k) {
        askers[k] = new Asker;
        askers[k]->id = ids[k];
        // channel IDs are "++srv->nextRequestId": earlier requests on this session have been answered already
        srv->nextRequestId = ids[k] - 1;
        helperSubmit(hlp, k == 0 ? "A\n" : "B\n", replyCallback, askers[k]);
    }
    vf_assert(srv->stats.pending == NREQ && srv->requests.size() == NREQ, "harness: both requests dispatched to the session");
    vf_assert(srv->requests.front()->request.Id == idA && srv->requests.back()->request.Id == idB, "harness: requests carry the intended channel IDs");

    // the reply stream: two lines "<digits> SP 'r' <byte> LF"
    uint8_t st[MAXSTREAM]; unsigned n = 0;
    uint8_t tag[2];
    const unsigned nd[2] = {idDigits1, idDigits2};
    for (unsigned r = 0; r < 2; ++r) {
        if (r == 0 && idPrefix1) for (const char *c = idPrefix1; *c; ++c) st[n++] = (uint8_t)*c;   // concrete leading digits of the first line's channel-ID
        for (unsigned d = 0; d < nd[r]; ++d) { const uint8_t c = vf_nondet_u8("digit"); vf_assume(c >= '0' && c <= '9'); st[n++] = c; }
        st[n++] = ' ';
        st[n++] = 'r';
        tag[r] = vf_nondet_u8("payload"); vf_assume(tag[r] >= 'a' && tag[r] <= 'z');   // not a result code, not key=value, no whitespace
        st[n++] = tag[r];
        st[n++] = '\n';
    }
    RefLine lines[4];
    const unsigned nl = refSplit(st, n, lines, 4);
    vf_assert(nl == 2 && lines[0].complete && lines[1].complete && lines[0].idOk && lines[1].idOk, "harness: the stream is two well-formed lines");
    // which line answers which request, per the reference
    int answeredBy[NREQ];
    for (unsigned k = 0; k < NREQ; ++k) {
        answeredBy[k] = -1;
        for (unsigned l = 0; l < nl; ++l) if (answeredBy[k] < 0 && lines[l].id == ids[k]) answeredBy[k] = (int)l;
    }

    // delivery: cut into up to three reads
    const unsigned c1 = (unsigned)vf_concretize(vf_range(1, n, "cut1"));
#ifdef VF_THOROUGH
    const unsigned c2 = (unsigned)vf_concretize(vf_range(c1, n, "cut2"));
#else
    const unsigned c2 = n;
#endif
    // (helperHandleRead() used to call srv->popRequest(i) with the channel-ID digits seen so far even when the read had ended
    // inside or right behind the digits: reads "1" | "4 rb LF" answered request 1 with "14 rb", reads "12" | " rh LF" answered
    // request 12 with "12 rh". Repaired in /repo by the 'fix: helper reply dispatched by a partially received channel-ID'
    // commit, so deliveries with such a read boundary are part of what is checked.)
    const unsigned cuts[3] = {c1, c2, n};
    unsigned delivered = 0;
    for (unsigned k = 0; k < 3 && srv->flags.closing == false; ++k) {
        if (cuts[k] == delivered) continue;
        helperWrites(st + delivered, cuts[k] - delivered);
        delivered = cuts[k];
        for (unsigned q = 0; q < NREQ; ++q) {
            vf_assert(askers[q]->calls <= 1, "no request is called back twice");
            if (askers[q]->calls) {
                vf_assert(answeredBy[q] >= 0, "a request is called back only if some reply line carries its channel ID");
                if (answeredBy[q] >= 0) {
                    const RefLine &l = lines[answeredBy[q]];
                    vf_assert(l.payloadAt + l.payloadLen < delivered, "a request is not called back before its reply line has arrived completely");
                    bool same = askers[q]->gotLen == l.payloadLen;
                    for (unsigned i = 0; same && i < l.payloadLen; ++i) if ((uint8_t)askers[q]->got[i] != st[l.payloadAt + i]) same = false;
                    vf_assert(same, "the reply handed to a request is the payload of the line that carries its channel ID");
                }
            }
        }
    }
    vf_assert(!srv->flags.closing, "a well-formed reply stream does not make Squid drop the helper");
    for (unsigned q = 0; q < NREQ; ++q)
        vf_assert((askers[q]->calls == 1) == (answeredBy[q] >= 0), "after the whole stream: called back iff a reply line carried the channel ID");
    vf_observe("callsA", askers[0]->calls); vf_observe("callsB", askers[1]->calls); vf_observe("pending", srv->stats.pending);
    const unsigned answered = (answeredBy[0] >= 0) + (answeredBy[1] >= 0);
    vf_reach(answered == 2 ? (answeredBy[0] < answeredBy[1] ? "both-in-order" : "both-swapped") : answered == 1 ? "one-unknown-or-duplicate" : "none");
    WITNESS_POINT();
}

extern "C" void c47_ids_1_2(void) { concurrent(1, 2, 1, 1); }
extern "C" void c47_ids_9_10(void) { concurrent(9, 10, (unsigned)vf_concretize(vf_range(1, 2, "nd1")), (unsigned)vf_concretize(vf_range(1, 2, "nd2"))); }
extern "C" void c47_ids_1_12(void) { concurrent(1, 12, (unsigned)vf_concretize(vf_range(1, 2, "nd1")), (unsigned)vf_concretize(vf_range(1, 2, "nd2"))); }
// channel-IDs beyond 32 bits: "42949672dd" = 4294967200..4294967299 (2^32 + 1 = 4294967297 is congruent to 1 modulo 2^32):
// (a) a reply carrying such an ID answers nobody when requests 1 and 2 are outstanding; (b) a request whose own channel ID is
// 2^32 + 1 (the ID counter is 64 bits wide) is answered by the line that carries exactly that ID
extern "C" void c47_wide_reply_id(void) { concurrent(1, 2, 2, 1, "42949672"); }
extern "C" void c47_big_request_id(void) { concurrent(4294967297ULL, 2, 2, 1, "42949672"); }
extern "C" void c47_ids_5_50(void) { concurrent(5, 50, (unsigned)vf_concretize(vf_range(1, 2, "nd1")), (unsigned)vf_concretize(vf_range(1, 2, "nd2"))); }

// ---------------------------------------------------------------------------------------------- non-concurrent helpers
// concurrency=0: one request at a time per session, the next one is dispatched when the reply arrived; replies have no channel
// field and go to the requests in submission order
extern "C" void c47_serial(void)
{
    startHelper(0);
    for (unsigned k = 0; k < NREQ; ++k) {
        askers[k] = new Asker;
        helperSubmit(hlp, k == 0 ? "A\n" : "B\n", replyCallback, askers[k]);
    }
    vf_assert(srv->stats.pending == 1 && hlp->stats.queue_size == 1, "harness: one request dispatched, one queued");
    uint8_t st[MAXSTREAM]; unsigned n = 0;
    uint8_t tag[2];
    for (unsigned r = 0; r < 2; ++r) {
        st[n++] = 'r';
        tag[r] = vf_nondet_u8("payload"); vf_assume(tag[r] >= 'a' && tag[r] <= 'z');
        st[n++] = tag[r];
        if (vf_concretize(vf_bool("crlf"))) st[n++] = '\r';
        st[n++] = '\n';
    }
    const unsigned c1 = (unsigned)vf_concretize(vf_range(1, n, "cut1"));
    const unsigned c2 = (unsigned)vf_concretize(vf_range(c1, n, "cut2"));
    const unsigned cuts[3] = {c1, c2, n};
    unsigned delivered = 0;
    for (unsigned k = 0; k < 3 && !srv->flags.closing; ++k) {
        if (cuts[k] == delivered) continue;
        helperWrites(st + delivered, cuts[k] - delivered);
        delivered = cuts[k];
        vf_assert(askers[1]->calls == 0 || askers[0]->calls == 1, "the second request is not answered before the first");
    }
    vf_assert(!srv->flags.closing, "replies to outstanding requests do not make Squid drop the helper");
    vf_assert(nCalls == 2 && callOrder[0] == 0 && callOrder[1] == 1, "replies are applied in request order, each request once");
    for (unsigned q = 0; q < NREQ; ++q) {
        // (when a read boundary separates CR from LF the CR stays at the end of the reply: which reply it is remains unambiguous)
        const bool trailingCr = askers[q]->gotLen == 3 && askers[q]->got[2] == '\r';
        vf_assert((askers[q]->gotLen == 2 || trailingCr) && askers[q]->got[0] == 'r' && (uint8_t)askers[q]->got[1] == tag[q], "each request gets its own reply line");
        if (trailingCr) vf_reach("cr-kept");
    }
    vf_observe("calls", nCalls);
    vf_reach("in-order");
    WITNESS_POINT();
}
