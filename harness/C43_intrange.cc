// C43: integer-range ACL (ACLIntRange::parse over real xatos/xatol/xatoll, ACLIntRange::match) against the union of the listed ranges.
#include "squid.h"
#include "acl/IntRange.h"
#include "ConfigParser.h"
#include "cache_cf.h"
#include "common.h"

#define NTOK 2

int opt_parse_cfg_only = 0;      // globals.cc is not linked

// ---- configuration environment (ConfigParser.cc and cache_cf.cc are not linked)
static char *cfgTok[NTOK + 1];
static unsigned cfgNext = 0, cfgCount = 0;
char *ConfigParser::strtokFile() { return cfgNext < cfgCount ? cfgTok[cfgNext++] : nullptr; }
struct VfConfigRejected {};
void self_destruct(void) { throw VfConfigRejected(); }   // the real one logs and exits: configuration rejected

// a decimal number with fully symbolic digits (leading zeros allowed); returns its value.
// shapes: D (0..9), DDD (0..999), 655DD (65500..65599: crosses the 16-bit limit); thorough adds DDDDD (0..99999) for single-token lists
static unsigned symbolicNumber(char *&out, const char *shapeName, unsigned maxShape)
{
    const unsigned shape = (unsigned)vf_concretize(vf_range(0, maxShape, shapeName));
    unsigned v = 0, n = shape == 0 ? 1 : shape == 1 ? 3 : shape == 2 ? 2 : 5;
    if (shape == 2) { *out++ = '6'; *out++ = '5'; *out++ = '5'; v = 655; }
    for (unsigned i = 0; i < n; ++i) {
        const unsigned char c = vf_nondet_u8("digit");
        vf_assume(c >= '0' && c <= '9');
        *out++ = (char)c;
        v = v * 10 + (c - '0');
    }
    return v;
}

extern "C" void c43_int_ranges(void)
{
    vf_quiet();
    cfgCount = (unsigned)vf_concretize(vf_range(1, NTOK, "ntokens"));
    unsigned lo[NTOK], hi[NTOK];
#ifdef VF_THOROUGH
    const unsigned maxShape = cfgCount == 1 ? 3 : 2;   // single-token lists also take 5-digit numbers
#else
    const unsigned maxShape = 2;
#endif
    bool valid = true;
    for (unsigned t = 0; t < cfgCount; ++t) {
        char *s = (char *)xmalloc(12), *p = s;
        lo[t] = symbolicNumber(p, "loshape", maxShape);
        if (vf_concretize(vf_range(0, 1, "isrange"))) { *p++ = '-'; hi[t] = symbolicNumber(p, "hishape", maxShape); }
        else hi[t] = lo[t];
        *p = 0;
        cfgTok[t] = s;
        if (lo[t] > 65535 || hi[t] > 65535 || hi[t] < lo[t]) valid = false;
    }
    cfgNext = 0;
    ACLIntRange *acl = new ACLIntRange;
    bool rejected = false;
    try { acl->parse(); } catch (const VfConfigRejected &) { rejected = true; }
    vf_observe("rejected", rejected);
    vf_assert(rejected == !valid, "a list is rejected iff some value exceeds 65535 or a range is reversed");
    if (rejected) { vf_reach("rejected"); return; }
    vf_assert(!acl->empty(), "parsed ranges are kept");
    const int probe = (int)vf_range(0, 65537, "probe") - 1;     // -1..65536, decided by the solver
    bool expect = false;
    for (unsigned t = 0; t < cfgCount; ++t) expect = expect || (probe >= (int)lo[t] && probe <= (int)hi[t]);
    const bool got = acl->match(probe);
    vf_observe("got", got);
    vf_assert(got == expect, "match(n) iff n lies in the union of the listed ranges");
    vf_reach("accepted");
    delete acl;
    WITNESS_POINT();
}
