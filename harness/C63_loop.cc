// C63 (kernel): forwarding loops and Max-Forwards are honoured.
//
// (V) Via loop detection: a request header block whose Via field(s) have symbolic bytes is parsed by the real HttpHeader::parse()
//     and handed to the real clientInterpretRequestHeaders() (src/client_side_request.cc, #included below), which sets
//     request->flags.loopDetected from strListIsSubstr(getList(Via), ThisCache2). clientReplyContext::processMiss() answers a
//     request with that flag with 403 instead of calling FwdState::Start() (read off, not executed: see the spec's gap).
//     Oracle: refVia(): the Via value split into list elements at top-level commas (commas inside comments do not split), each
//     element = received-protocol RWS received-by [RWS comment]; the element "names this Squid" when its received-by is this
//     Squid's unique host name (host names compare case-insensitively).
//     Asserted: some element names this Squid => flags.loopDetected.
// (M) Max-Forwards: a block with 'Max-Forwards:' + symbolic value bytes; the "answer locally" predicates exactly as
//     clientProcessRequest() (OPTIONS) and clientGetMoreData() (TRACE) evaluate them -- method && header.getInt64(Max-Forwards) == 0,
//     the real HttpHeader::getInt64()/httpHeaderParseOffset() -- and the real HttpStateData::httpBuildRequestHeader().
//     Oracle: the value as RFC 9110 7.6.2 defines it (1*DIGIT after trimming OWS), in plain integer arithmetic.
//     Asserted for TRACE and OPTIONS: value 0 => answered locally (not forwarded); value v > 0 => not answered locally and the
//     upstream header has exactly one Max-Forwards field whose value is the decimal v-1. Other methods: Max-Forwards is not relayed
//     ("pass only on TRACE or OPTIONS"); invalid values carry no obligation (RFC: MAY ignore).
#include "C04_fwd.h"
#define private public
#define protected public
#include "client_side_request.h"
#undef private
#undef protected
#include "client_side_request.cc"   // the real translation unit (static clientInterpretRequestHeaders())

#ifdef VF_THOROUGH
#define T(q, t) t
#else
#define T(q, t) q
#endif
// logging stub: debugObj() dumps the looping request at level 1 (src/debug/debug.cc is replaced by harness/common/stubs.cc)
void debugObj(int, int, const char *, void *, ObjPackMethod) {}

#define B "\x01"    /* blockPut(): any byte except NUL, CR, LF, DQUOTE */
#define MYHOST "squid.example"

// ---- (V)
struct RefVia { bool loose, exact; };
static bool isRws(const uint8_t c) { return c == ' ' || c == '\t'; }
static RefVia refVia(const uint8_t *v, const unsigned n)
{
    RefVia r = {false, false};
    static const char host[] = MYHOST, tail[] = " (squid)";
    const unsigned hl = sizeof(host) - 1, tl = sizeof(tail) - 1;
    unsigned s = 0;
    while (s <= n) {
        unsigned e = s, depth = 0;
        for (; e < n; ++e) {                                   // element end: a comma outside comments
            if (v[e] == '(') ++depth;
            else if (v[e] == ')' && depth) --depth;
            else if (v[e] == '\\' && depth && e + 1 < n) ++e;   // quoted-pair inside a comment
            else if (v[e] == ',' && !depth) break;
        }
        unsigned a = s, b = e < n ? e : n;
        while (a < b && isRws(v[a])) ++a;
        while (a < b && isRws(v[b - 1])) --b;
        unsigned p = a;
        bool protoOk = true;                                   // received-protocol: a token, not (part of) a comment
        while (p < b && !isRws(v[p])) { if (v[p] == '(' || v[p] == ')') protoOk = false; ++p; }
        unsigned q = p;
        while (q < b && isRws(v[q])) ++q;                      // RWS
        unsigned x = q;
        while (x < b && !isRws(v[x]) && v[x] != '(') ++x;      // received-by
        bool portOk = x - q == hl;                             // received-by = uri-host [ ":" port ]
        if (x - q > hl + 1 && v[q + hl] == ':') {
            portOk = true;
            for (unsigned i = q + hl + 1; i < x; ++i) if (!((uint8_t)(v[i] - '0') < 10)) portOk = false;
        }
        if (protoOk && p > a && q > p && x - q >= hl && portOk && refEqNoCase(v + q, (const uint8_t *)host, hl)) {
            r.loose = true;
            bool same = x - q == hl && v[q - 1] == ' ' && b - x >= tl;   // Squid's own spelling: SP host SP "(squid)"
            for (unsigned i = 0; same && i < hl; ++i) same = v[q + i] == (uint8_t)host[i];
            for (unsigned i = 0; same && i < tl; ++i) same = v[x + i] == (uint8_t)tail[i];
            if (same) r.exact = true;
        }
        s = e + 1;
    }
    return r;
}

static HttpRequest *parsedRequest(const Block &k, const Http::MethodType m)
{
    HttpRequest *req = rawRequest(m);
    req->url.scheme_.theScheme_ = AnyP::PROTO_HTTP;             // http:// URL (maybeCacheable()); UriScheme::Init() tables are not needed
    const int ok = blockParse(k, req->header);
    vf_assert(ok == 1, "harness: the client block is a well-formed header block");
    req->HttpRequest::hdrCacheInit();
    return req;
}

static bool onlyViaSpelling = false; // set by c63_known_via_spelling only
static void via(const char *via1, const char *via2)
{
    fwdConfig(1);
    static Block k;
    k.n = 0;
    blockPut(k, "Host: o.example\r\nVia:");
    const unsigned s1 = blockPut(k, via1), n1 = k.n - s1;
    blockPut(k, "\r\nAccept: a/b\r\n");
    unsigned s2 = 0, n2 = 0;
    if (via2) { blockPut(k, "Via:"); s2 = blockPut(k, via2); n2 = k.n - s2; blockPut(k, "\r\n"); }

    // the reference reads the field values as the list they form together (RFC 9110 5.3: field lines combine with ", ")
    static uint8_t joined[FWD_MAXN];
    unsigned jn = 0;
    for (unsigned i = 0; i < n1; ++i) joined[jn++] = k.b[s1 + i];
    if (via2) { joined[jn++] = ','; for (unsigned i = 0; i < n2; ++i) joined[jn++] = k.b[s2 + i]; }
    const RefVia ref = refVia(joined, jn);
    // KNOWN FINDING C63-via-spelling (known_findings.json): loop detection is a case-sensitive substring search for
    // " <unique_hostname> (<appname>)" in the Via value (client_side_request.cc: strListIsSubstr(&s, ThisCache2, ',')). A Via element
    // that names this Squid but is not spelled exactly as this Squid writes it -- host name in another letter case, HTAB instead of
    // SP before it, comment removed or changed by an intermediary (RFC 9110 7.6.3 allows removing comments), a port appended -- is not
    // recognised, and the request is forwarded again. The class is examined, with the same strict assertion, by its own entry
    // (c63_known_via_spelling), whose violations are listed in known_findings.json; every other entry excludes exactly this class.
    vf_assume((ref.loose && !ref.exact) == onlyViaSpelling);

    HttpRequest *req = parsedRequest(k, Http::METHOD_GET);
    ClientHttpRequest *http = rawObject<ClientHttpRequest>();
    *const_cast<HttpRequest **>(&http->request) = req;
    clientInterpretRequestHeaders(http);

    vf_observe("loose", ref.loose); vf_observe("loop", req->flags.loopDetected);
    if (ref.loose) vf_assert(req->flags.loopDetected, "a request whose Via names this Squid is flagged as a forwarding loop");
    reachIf(req->flags.loopDetected, "loop", "no-loop");
    reachIf(ref.loose, "names-this-squid");
    WITNESS_POINT();
}

#define OWN "1.1 " MYHOST " (squid)"
static const struct { const char *v1, *v2; } ViaFamilies[] = {
    // 0 own element last; separator bytes, one byte of the host name, the byte before the comment
    {T(" 1.0 fred" B B "1.1 " B "quid.example" B "(squid)", " 1.0 fred" B B "1.1 " B "quid.exampl" B B "(squid)"), nullptr},
    // 1 own element first; what follows it, and a comment with a comma in the other element
    {T(" " OWN B B "1.0 fred (a" B "b)", " " OWN B B "1.0 fred " B "a" B "b)"), nullptr},
    // 2 the received-protocol and the byte in front of the host name
    {T(" " B B "1" B MYHOST " (squid)", " " B B "1" B MYHOST B "(squid)"), nullptr},
    // 3 two Via fields, own element in the second; a byte of its comment and its last byte
    {" 1.0 fred", T(" 1.1 " MYHOST " (squi" B B, " 1.1 " MYHOST B "(squi" B B)},
    // 4 own element inside the first of two fields, symbolic neighbours
    {" 1.0 a," B OWN B, " 1.1 b"},
    // 5 a comment of another element mentions this Squid (not a received-by): a byte decides whether the comment is open
    {" 1.0 fred " B "x, " OWN ")" B, nullptr},
};
static void viaFamily(const unsigned first, const unsigned count)
{
    const unsigned f = first + (unsigned)vf_concretize(vf_range(0, count - 1, "family"));
    via(ViaFamilies[f].v1, ViaFamilies[f].v2);
}
extern "C" void c63_via_position(void) { viaFamily(0, 2); }
extern "C" void c63_via_spelling(void) { viaFamily(2, 2); }
extern "C" void c63_via_context(void) { viaFamily(4, 2); }

// KNOWN FINDING (known_findings.json, C63-via-spelling): Via elements naming this Squid in another spelling than Squid's own
extern "C" void c63_known_via_spelling(void)
{
    onlyViaSpelling = true;
    static const struct { const char *v1, *v2; } k[] = {
        {" 1.0 fred" B B "1.1 " B "quid.example" B "(squid)", nullptr},   // letter case of the host name, HTAB/other byte before the comment
        {" 1.0 fred, 1.1 " MYHOST B B, nullptr},                          // comment removed, port appended (':' digit)
        {" 1.0 fred", " 1.1 " MYHOST " (squi" B B},                       // comment changed
        {" 1.0 fred," B "1.1" B MYHOST " (squid)", nullptr},              // HTAB instead of SP before the host name
    };
    const unsigned f = (unsigned)vf_concretize(vf_range(0, 3, "family"));
    via(k[f].v1, k[f].v2);
}

// ---- (M)
static void maxForwards(const char *value)
{
    fwdConfig(1);
    static Block k;
    k.n = 0;
    blockPut(k, "Host: o.example\r\nMax-Forwards:");
    const unsigned vs = blockPut(k, value);
    unsigned ve = k.n;
    blockPut(k, "\r\n");
    const unsigned mi = (unsigned)vf_concretize(vf_range(0, 2, "method"));
    static const Http::MethodType methods[] = {Http::METHOD_TRACE, Http::METHOD_OPTIONS, Http::METHOD_GET};
    const Http::MethodType m = methods[mi];
    HttpRequest *req = parsedRequest(k, m);

    // the two "answer locally" predicates, as written in clientProcessRequest() and clientGetMoreData()
    const bool mustReplyToOptions = (req->method == Http::METHOD_OPTIONS) && (req->header.getInt64(Http::HdrType::MAX_FORWARDS) == 0);
    const bool traceReply = (req->method == Http::METHOD_TRACE) && (req->header.getInt64(Http::HdrType::MAX_FORWARDS) == 0);
    const bool answeredLocally = mustReplyToOptions || traceReply;

    Http::StateFlags flags;
    flags.toOrigin = true;
    flags.keepalive = true;
    HttpHeader out(hoRequest);
    HttpStateData::httpBuildRequestHeader(req, nullptr, AccessLogEntryPointer(), &out, nullptr, flags);

    // reference: 1*DIGIT after trimming OWS
    unsigned a = vs, b = ve;
    while (a < b && refOws(k.b[a])) ++a;
    while (a < b && refOws(k.b[b - 1])) --b;
    bool valid = a < b;
    uint64_t v = 0;
    for (unsigned i = a; i < b; ++i) { if ((uint8_t)(k.b[i] - '0') < 10) v = v * 10 + (k.b[i] - '0'); else valid = false; }
    const unsigned mf = countName(out, "Max-Forwards");
    vf_observe("valid", valid); vf_observe("v", valid ? v : 0); vf_observe("local", answeredLocally); vf_observe("mf", mf);
    if (m == Http::METHOD_GET) {
        vf_assert(mf == 0, "Max-Forwards is relayed only on TRACE and OPTIONS");
        vf_reach("get");
    } else if (valid) {
        if (v == 0) {
            vf_assert(answeredLocally, "TRACE/OPTIONS with Max-Forwards: 0 is answered by Squid, not forwarded");
            vf_assert(mf == 0, "a zero Max-Forwards is never sent upstream");
            vf_reach("zero-answered");
        } else {
            vf_assert(!answeredLocally, "TRACE/OPTIONS with Max-Forwards > 0 is forwarded");
            vf_assert(mf == 1, "the forwarded request carries one Max-Forwards");
            bool ok = false;
            uint64_t sent = 0;
            if (const HttpHeaderEntry *e = findName(out, "Max-Forwards")) {
                ok = e->value.size() >= 1 && e->value.size() <= 18;
                for (size_t i = 0; ok && i < e->value.size(); ++i) {
                    const uint8_t c = (uint8_t)e->value[i];
                    if ((uint8_t)(c - '0') < 10) sent = sent * 10 + (c - '0'); else ok = false;
                }
            }
            vf_assert(ok && sent == v - 1, "the forwarded Max-Forwards is the received value minus one");
            vf_reach("decremented");
        }
    } else
        vf_reach("invalid-value");
    WITNESS_POINT();
}
// value bytes: d = symbolic digit; b = any byte (but NUL, CR, LF, DQUOTE)
extern "C" void c63_mf_digits(void)
{
    static const char *const v[] = {" \x03", " \x03\x03", " \x03\x03\x03"};
    maxForwards(v[vf_concretize(vf_range(0, T(1, 2), "digits"))]);
}
extern "C" void c63_mf_any(void) { maxForwards(T(B B, B B B)); }
