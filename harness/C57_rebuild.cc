// C57: Rock::Rebuild indexes only intact entries from any disk image.
//
// What runs: the real RockRebuild.cc (included below, so that its file-local LoadingEntry/LoadingSlot/LoadingParts are
// reachable), the real Rock::SwapDir (constructed by its real constructor; entryLimitActual/slotLimitActual/
// noteFreeMapSlice/inodeMapPath/freeSlotsPath are the real RockSwapDir.cc), the real Ipc::StoreMap, ReadWriteLock,
// Ipc::Mem::PageStack (free-slot index), MemBuf, StoreEntry, AsyncJob/IndependentRunner constructors.
// The harness mirrors the three set-up steps that need a configured Squid (SwapDirRr::create, SwapDir::init,
// Rebuild::Start/start: segment creation, map/freeSlots attachment, buf.init, parts = new LoadingParts) and then calls
// the real Rock::Rebuild::loadingSteps() and validationSteps() (opt_foreground_rebuild=1, opt_store_doublecheck=1).
//
// Symbolic: the "db file" = NSLOT slots of 56 bytes (40-byte DbCellHeader + 16 payload bytes). Per slot: key (one of the
// candidate keys), firstSlot, nextSlot, payloadSize, entrySize, version -- each in a range slightly wider than what
// DbCellHeader::sane() accepts (so empty/zeroed, malformed, dangling, self-referencing, duplicated and conflicting
// slots are all included) --, the first payload byte (decides "zeroed metadata"), and whether the slot is truncated
// (short read of a symbolic number of bytes < header size). The swap-metadata parser (storeRebuildParseEntry) is a stub
// with a symbolic verdict, a symbolic stored key (one of the candidates) and a symbolic stored swap_file_sz.
//
// Oracle, after loading + validation: no assertion/exception escaped (engine); for every candidate key that
// openForReading() accepts: the slice chain stays inside the slot table, is acyclic, ends, none of its slots is in the
// chain of another readable entry or in the free-slot index, every slice size is the payload size in that slot's db
// header, and the sizes add up to the entry size (anchor swap_file_sz).
#include "squid.h"
#include <sstream>
#include <functional>
#include <chrono>
#include <atomic>
#include <iostream>
#include <string>
#include <vector>
#include <list>
#include <map>
#include <set>
#include <unordered_map>
#include <memory>
#include <algorithm>
#include <new>
#include <unistd.h>
#include "ipc/mem/Segment.h"
#include "store/Controller.h"
#include "StatCounters.h"
#include "SquidConfig.h"
#include "MemBuf.h"
#include "Store.h"
#include "store_rebuild.h"

// the only two libc/IO touch points of loadOneSlot(): lseek() (redirected here) and storeRebuildLoadEntry() (below)
static int64_t c57_seekPos = -1;
static off_t c57_lseek(int, off_t off, int) { c57_seekPos = off; return off; }
#define lseek c57_lseek
#include "fs/rock/RockRebuild.cc"      // the real translation unit (compiled with -fno-access-control, see the spec)
#undef lseek
#include "common.h"

// ---------------------------------------------------------------- environment (same stubs as C55_storemap.cc)
StatCounters statCounter;
int opt_store_doublecheck = 1;   // squid -S: validateOneSlot() runs for every slot
int opt_foreground_rebuild = 1;  // no "pause after 50 ms" logic (wall-clock independent)
namespace Store { Controller &Root() { static char fake[sizeof(void *) * 4]; return *reinterpret_cast<Controller *>(fake); } }
bool Store::Controller::markedForDeletion(const cache_key *) const { return false; } // nothing is being deleted while indexing

struct SegRec { char name[64]; void *mem; off_t size; };
static SegRec segs[16]; static int nsegs;
Ipc::Mem::Segment::Segment(const char *const id): theFD(-1), theName(id), theMem(nullptr), theSize(0), theReserved(0), doUnlink(false) {}
Ipc::Mem::Segment::~Segment() {}
SBuf Ipc::Mem::Segment::Name(const SBuf &prefix, const char *suffix) { SBuf result = prefix; result.append("_"); result.append(suffix); return result; }
void Ipc::Mem::Segment::create(const off_t aSize)
{
    SegRec &r = segs[nsegs++];
    strncpy(r.name, theName.termedBuf(), sizeof(r.name) - 1);
    r.mem = xcalloc(1, aSize); r.size = aSize;
    theMem = r.mem; theSize = aSize; theReserved = 0;
}
void Ipc::Mem::Segment::open(const bool)
{
    for (int i = 0; i < nsegs; ++i)
        if (!strcmp(segs[i].name, theName.termedBuf())) { theMem = segs[i].mem; theSize = segs[i].size; theReserved = 0; return; }
    fatal("harness: no such segment");
}
void *Ipc::Mem::Segment::reserve(size_t chunkSize)
{
    assert(static_cast<off_t>(chunkSize) <= theSize - theReserved);
    void *result = reinterpret_cast<char *>(theMem) + theReserved;
    theReserved += chunkSize;
    return result;
}

// ---------------------------------------------------------------- the db image
#define MAXSLOT 4
#define PAYLOAD 16                                              // payload bytes per slot
static const int SLOTSZ = sizeof(Rock::DbCellHeader) + PAYLOAD; // 56
static const int FD = 3;
static unsigned NSLOT, NKEY;
static unsigned char image[MAXSLOT * (sizeof(Rock::DbCellHeader) + PAYLOAD)];
static Rock::DbCellHeader disk[MAXSLOT];   // ghost copy of what was written into the image
static bool truncated[MAXSLOT];
static uint32_t shortLen[MAXSLOT];
// key names: 1, 2, and a third key that collides with the first in the 3- and 4-entry maps (name = (k0+k1) % limit)
static const uint64_t KEYS[3][2] = {{1, 0}, {2, 0}, {13, 0}};
static const cache_key *K(const unsigned i) { return reinterpret_cast<const cache_key *>(KEYS[i]); }
static unsigned pickKey(const char *name) { return (unsigned)vf_concretize(vf_range(0, NKEY - 1, name)); }
static int32_t rangeS(const int lo, const int hi, const char *name) { return (int32_t)vf_range(0, hi - lo, name) + lo; }

// read(2) from the image at the position of the last lseek(): everything up to the end of the file that fits, or,
// for a truncated/partially written slot, a short read of fewer bytes than a slot header
bool storeRebuildLoadEntry(int fd, int, MemBuf &buf, StoreRebuildData &)
{
    const int64_t pos = c57_seekPos - Rock::SwapDir::HeaderSize;
    vf_assert(fd == FD && pos >= 0 && pos % SLOTSZ == 0 && pos / SLOTSZ < NSLOT, "harness: slot reads start at slot boundaries inside the db");
    const unsigned slot = pos / SLOTSZ;
    int64_t n = (int64_t)NSLOT * SLOTSZ - pos;
    if (n > buf.spaceSize()) n = buf.spaceSize();
    memcpy(buf.space(), image + pos, n);
    buf.appended(truncated[slot] ? shortLen[slot] : n);
    return true;
}

// swap metadata parser: symbolic verdict; on success the stored key is one of the candidates and the stored size obeys
// the real function's contract (expectedSize known => swap_file_sz == expectedSize, else any value incl. 0 = unknown)
static unsigned metaKey;
bool storeRebuildParseEntry(MemBuf &, StoreEntry &tmpe, cache_key *key, StoreRebuildData &, uint64_t expectedSize)
{
    tmpe.key = nullptr;
    if (!vf_bool("meta_ok")) return false;
    metaKey = pickKey("meta_key");
    memcpy(key, KEYS[metaKey], SQUID_MD5_DIGEST_LENGTH);
    tmpe.key = key;
    tmpe.swap_file_sz = expectedSize > 0 ? expectedSize : vf_range(0, 2 * PAYLOAD + 2, "meta_sz");
    tmpe.flags = vf_nondet_u16("meta_flags") & ~(1 << KEY_PRIVATE);
    tmpe.timestamp = 1; tmpe.lastref = 1; tmpe.expires = 1; tmpe.lastModified(1);
    return true;
}

static void buildImage()
{
    memset(image, 0, sizeof(image));
    for (unsigned s = 0; s < NSLOT; ++s) {
        Rock::DbCellHeader &h = disk[s];
        const unsigned k = pickKey("key");
        h.key[0] = KEYS[k][0]; h.key[1] = KEYS[k][1];
        h.firstSlot = rangeS(-1, NSLOT, "firstSlot");
        h.nextSlot = rangeS(-2, NSLOT, "nextSlot");
        h.payloadSize = vf_range(0, PAYLOAD + 1, "payloadSize");
        h.entrySize = vf_range(0, 2 * PAYLOAD + 2, "entrySize");
        h.version = vf_range(0, 2, "version");
        memcpy(image + s * SLOTSZ, &h, sizeof(h));
        image[s * SLOTSZ + sizeof(h)] = vf_nondet_u8("payload0"); // rest of the payload is zero: metadata "zeroed" iff this is 0
        truncated[s] = vf_bool("truncated");
        shortLen[s] = truncated[s] ? vf_range(0, sizeof(h) - 1, "shortLen") : 0;
    }
}

// ---------------------------------------------------------------- the check
static void rebuild(const unsigned nslot, const unsigned nkey)
{
    vf_quiet();
    NSLOT = nslot; NKEY = nkey;
    Config.paranoid_hit_validation = std::chrono::nanoseconds(0);
    buildImage();

    // configuration: cache_dir rock d <size giving exactly NSLOT slots> slot-size=56
    Rock::SwapDir *sd = new Rock::SwapDir;
    sd->path = xstrdup("d"); sd->filePath = xstrdup("d/rock"); sd->index = 0;
    sd->slotSize = SLOTSZ;
    sd->max_size = Rock::SwapDir::HeaderSize + (uint64_t)NSLOT * SLOTSZ;
    // SwapDirRr::create()
    Rock::Rebuild::Stats::Init(*sd);
    const int64_t capacity = sd->slotLimitActual();
    vf_assert(capacity == NSLOT, "harness: db has NSLOT slots");
    Rock::SwapDir::DirMap::Init(sd->inodeMapPath(), capacity);
    Ipc::Mem::PageStack::Config cfg; cfg.poolId = Ipc::Mem::PageStack::IdForSwapDirSpace(0); cfg.pageSize = 0; cfg.capacity = capacity; cfg.createFull = false;
    shm_new(Ipc::Mem::PageStack)(sd->freeSlotsPath(), cfg);
    // SwapDir::init()
    sd->freeSlots = shm_old(Ipc::Mem::PageStack)(sd->freeSlotsPath());
    sd->map = new Rock::SwapDir::DirMap(sd->inodeMapPath());
    sd->map->cleaner = sd;
    // Rebuild::Start() + start() minus file_open/xread of the db header
    const auto stats = shm_old(Rock::Rebuild::Stats)(Rock::Rebuild::Stats::Path(sd->path).c_str());
    Rock::Rebuild *rb = ::new (xcalloc(1, sizeof(Rock::Rebuild))) Rock::Rebuild(sd, stats);
    vf_assert(rb->dbSlotLimit == NSLOT && rb->dbEntryLimit == NSLOT && rb->dbSlotSize == SLOTSZ && !rb->resuming, "harness: rebuild sized from the cache_dir");
    rb->fd = FD;
    rb->buf.init(SM_PAGE_SIZE, SM_PAGE_SIZE);
    rb->dbOffset = Rock::SwapDir::HeaderSize + rb->loadingPos * rb->dbSlotSize;
    rb->parts = new Rock::LoadingParts(*sd, rb->resuming);

    rb->loadingSteps();
    vf_assert(rb->doneLoading(), "loading visits every slot");
    rb->validationSteps();
    vf_assert(rb->doneValidating(), "validation visits every entry and slot");

    // ---- oracle
    bool inFree[MAXSLOT] = {false, false, false, false};
    Ipc::Mem::PageId page;
    unsigned nfree = 0;
    while (sd->freeSlots->pop(page)) {
        vf_assert(page.number >= 1 && page.number <= NSLOT, "free-slot index holds only slots of this db");
        vf_assert(!inFree[page.number - 1], "slot listed free twice");
        inFree[page.number - 1] = true;
        vf_assert(++nfree <= NSLOT, "harness: free-slot index is finite");
    }
    int owner[MAXSLOT] = {-1, -1, -1, -1};
    unsigned readable = 0;
    for (unsigned k = 0; k < NKEY; ++k) {
        sfileno fileno = -1;
        const Ipc::StoreMap::Anchor *a = sd->map->openForReading(K(k), fileno);
        if (!a) continue;
        ++readable;
        uint64_t total = 0; unsigned steps = 0;
        Ipc::StoreMapSliceId id = a->start;
        vf_assert(id >= 0, "readable entry has a slot chain");
        while (id >= 0) {
            vf_assert(id < (int)NSLOT, "chain stays inside the slot table");
            vf_assert(++steps <= NSLOT, "chain is acyclic");
            vf_assert(owner[id] < 0, "slot used by two readable entries (or twice by one)");
            owner[id] = fileno;
            vf_assert(!inFree[id], "slot of a readable entry is also in the free-slot index");
            vf_assert(!truncated[id], "truncated slot in the chain of a readable entry");
            const Ipc::StoreMap::Slice &slice = sd->map->readableSlice(fileno, id);
            vf_assert(slice.size == disk[id].payloadSize && slice.size > 0, "slice size is the payload size recorded in the slot header");
            total += slice.size;
            id = slice.next;
        }
        vf_assert(total == a->basics.swap_file_sz, "payload sizes add up to the entry size");
        vf_observe("total", total);
        sd->map->closeForReading(fileno);
    }
    vf_observe("readable", readable);
    vf_observe("nfree", nfree);
    vf_reach(readable == 0 ? "none-readable" : readable == 1 ? "one-readable" : "two-readable");
    WITNESS_POINT();
}
extern "C" void c57_3slots_2keys(void) { rebuild(3, 2); }
extern "C" void c57_3slots_collide(void) { rebuild(3, 3); }
extern "C" void c57_2slots(void) { rebuild(2, 2); }
extern "C" void c57_4slots_2keys(void) { rebuild(4, 2); }
