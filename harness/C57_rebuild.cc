// C57: Rock::Rebuild indexes only intact entries from any disk image.
//
// What runs: the real RockRebuild.cc (included below, so that its file-local LoadingEntry/LoadingSlot/LoadingParts are
// reachable), the real Rock::SwapDir (constructed by its real constructor; entryLimitActual/slotLimitActual/
// noteFreeMapSlice/inodeMapPath/freeSlotsPath are the real RockSwapDir.cc), the real Ipc::StoreMap, ReadWriteLock,
// Ipc::Mem::PageStack (free-slot index), MemBuf, StoreEntry, AsyncJob/IndependentRunner constructors.
// The harness mirrors the three set-up steps that need a configured Squid (SwapDirRr::create, SwapDir::init,
// Rebuild::Start/start: segment creation, map/freeSlots attachment, buf.init, parts = new LoadingParts) and then calls
// the real Rock::Rebuild::loadingSteps() and validationSteps() (opt_foreground_rebuild=1, opt_store_doublecheck=1).
//
// Symbolic: the "db file" = NSLOT slots of 56 bytes (40-byte DbCellHeader + 16 payload bytes). Per slot: key (one of the
// candidate keys), firstSlot, nextSlot, payloadSize, entrySize, version -- each in a range slightly wider than what
// DbCellHeader::sane() accepts (so empty/zeroed, malformed, dangling, self-referencing, duplicated and conflicting
// slots are all included) --, the first payload byte (decides "zeroed metadata"), and whether the slot is truncated
// (short read of a symbolic number of bytes < header size). The swap-metadata parser (storeRebuildParseEntry) is a stub
// with a symbolic verdict, a symbolic stored key (one of the candidates) and a symbolic stored swap_file_sz.
//
// Oracle, after loading + validation: no assertion/exception escaped (engine); for every candidate key that
// openForReading() accepts: the slice chain stays inside the slot table, is acyclic, ends, none of its slots is in the
// chain of another readable entry or in the free-slot index, every slice size is the payload size in that slot's db
// header, and the sizes add up to the entry size (anchor swap_file_sz).
#include "squid.h"
#include <sstream>
#include <functional>
#include <chrono>
#include <atomic>
#include <iostream>
#include <string>
#include <vector>
#include <list>
#include <map>
#include <set>
#include <unordered_map>
#include <memory>
#include <algorithm>
#include <new>
#include <unistd.h>
#include "ipc/mem/Segment.h"
#include "store/Controller.h"
#include "StatCounters.h"
#include "SquidConfig.h"
#include "MemBuf.h"
#include "Store.h"
#include "store_rebuild.h"

// the only two libc/IO touch points of loadOneSlot(): lseek() (redirected here) and storeRebuildLoadEntry() (below)
static int64_t c57_seekPos = -1;
static off_t c57_lseek(int, off_t off, int) { c57_seekPos = off; return off; }
#define lseek c57_lseek
#include "fs/rock/RockRebuild.cc"      // the real translation unit (compiled with -fno-access-control, see the spec)
#undef lseek
#include "common.h"

// ---------------------------------------------------------------- environment (same stubs as C55_storemap.cc)
StatCounters statCounter;
// base/TextException.cc is not linked: finalizeOrFree() calls ex.what() (only to log it), and the real what() formats its
// text through std::ostringstream and an unordered_multimap cache, which the engine does not model. Message text is
// outside the claim; throwing/catching is unaffected (constructor, type and base class are the real header's).
TextException::TextException(SBuf message, const SourceLocation &location): TextException(message.c_str(), location) {}
TextException::~TextException() throw() {}
std::ostream &TextException::print(std::ostream &os) const { return os; }
const char *TextException::what() const throw() { return "exception"; }
std::ostream &operator <<(std::ostream &os, const TextException &) { return os; }
std::ostream &CurrentException(std::ostream &os) { return os; }
std::ostream &CurrentExceptionExtra(std::ostream &os) { return os; }
int opt_store_doublecheck = 1;   // squid -S: validateOneSlot() runs for every slot
int opt_foreground_rebuild = 1;  // no "pause after 50 ms" logic (wall-clock independent)
namespace Store { Controller &Root() { alignas(16) static char fake[sizeof(Controller)]; return *reinterpret_cast<Controller *>(fake); } }
bool Store::Controller::markedForDeletion(const cache_key *) const { return false; } // nothing is being deleted while indexing

struct SegRec { char name[64]; void *mem; off_t size; };
static SegRec segs[16]; static int nsegs;
Ipc::Mem::Segment::Segment(const char *const id): theFD(-1), theName(id), theMem(nullptr), theSize(0), theReserved(0), doUnlink(false) {}
Ipc::Mem::Segment::~Segment() {}
SBuf Ipc::Mem::Segment::Name(const SBuf &prefix, const char *suffix) { SBuf result = prefix; result.append("_"); result.append(suffix); return result; }
void Ipc::Mem::Segment::create(const off_t aSize)
{
    SegRec &r = segs[nsegs++];
    strncpy(r.name, theName.termedBuf(), sizeof(r.name) - 1);
    r.mem = xcalloc(1, aSize); r.size = aSize;
    theMem = r.mem; theSize = aSize; theReserved = 0;
}
void Ipc::Mem::Segment::open(const bool)
{
    for (int i = 0; i < nsegs; ++i)
        if (!strcmp(segs[i].name, theName.termedBuf())) { theMem = segs[i].mem; theSize = segs[i].size; theReserved = 0; return; }
    fatal("harness: no such segment");
}
void *Ipc::Mem::Segment::reserve(size_t chunkSize)
{
    assert(static_cast<off_t>(chunkSize) <= theSize - theReserved);
    void *result = reinterpret_cast<char *>(theMem) + theReserved;
    theReserved += chunkSize;
    return result;
}

#ifdef VF_BITCODE
// libstdc++ out-of-line pieces reached only by the AsyncJob/IndependentRunner constructors registering the job
// (AllJobs() is an unordered_set, TheRunners a std::set). Any bucket count is functionally correct, so the model grows
// when the load would exceed 1; the tree insert links the node without rebalancing (colour is unobservable).
namespace std {
void _Rb_tree_insert_and_rebalance(const bool left, _Rb_tree_node_base *x, _Rb_tree_node_base *p, _Rb_tree_node_base &header) throw()
{
    x->_M_parent = p; x->_M_left = nullptr; x->_M_right = nullptr; x->_M_color = _S_red;
    if (left) {
        p->_M_left = x; // also makes leftmost = x when p is the header
        if (p == &header) { header._M_parent = x; header._M_right = x; }
        else if (p == header._M_left) header._M_left = x;
    } else {
        p->_M_right = x;
        if (p == header._M_right) header._M_right = x;
    }
}
namespace __detail {
size_t _Prime_rehash_policy::_M_next_bkt(size_t n) const { return n < 13 ? 13 : 2 * n + 1; }
pair<bool, size_t> _Prime_rehash_policy::_M_need_rehash(size_t nBkt, size_t nElt, size_t nIns) const
{ return nElt + nIns > nBkt ? make_pair(true, _M_next_bkt(nElt + nIns)) : make_pair(false, (size_t)0); }
}
}
#endif

// ---------------------------------------------------------------- the db image
#define MAXSLOT 4
#define PAYLOAD 16                                              // payload bytes per slot
static const int SLOTSZ = sizeof(Rock::DbCellHeader) + PAYLOAD; // 56
static const int FD = 3;
static unsigned NSLOT, NKEY;
static bool SANE_ONLY; // every slot header passes DbCellHeader::sane() (or is empty), no truncation: the chain/size/duplicate logic only
static unsigned char image[MAXSLOT * (sizeof(Rock::DbCellHeader) + PAYLOAD)];
static Rock::DbCellHeader disk[MAXSLOT];   // ghost copy of what was written into the image
static bool truncated[MAXSLOT];
static uint32_t shortLen[MAXSLOT];
// key names: 1, 2, and a third key that collides with the first in the 3- and 4-entry maps (name = (k0+k1) % limit)
static const uint64_t KEYS[3][2] = {{1, 0}, {2, 0}, {13, 0}};
static const cache_key *K(const unsigned i) { return reinterpret_cast<const cache_key *>(KEYS[i]); }
static unsigned pickKey(const char *name) { return (unsigned)vf_concretize(vf_range(0, NKEY - 1, name)); }
static int32_t rangeS(const int lo, const int hi, const char *name) { return (int32_t)vf_range(0, hi - lo, name) + lo; }

// read(2) from the image at the position of the last lseek(): everything up to the end of the file that fits, or,
// for a truncated/partially written slot, a short read of fewer bytes than a slot header
bool storeRebuildLoadEntry(int fd, int, MemBuf &buf, StoreRebuildData &)
{
    const int64_t pos = c57_seekPos - Rock::SwapDir::HeaderSize;
    vf_assert(fd == FD && pos >= 0 && pos % SLOTSZ == 0 && pos / SLOTSZ < NSLOT, "harness: slot reads start at slot boundaries inside the db");
    const unsigned slot = pos / SLOTSZ;
    int64_t n = (int64_t)NSLOT * SLOTSZ - pos;
    if (n > buf.spaceSize()) n = buf.spaceSize();
    memcpy(buf.space(), image + pos, n);
    buf.appended(truncated[slot] ? shortLen[slot] : n);
    return true;
}

// swap metadata parser: symbolic verdict; on success the stored key is one of the candidates and the stored size obeys
// the real function's contract (expectedSize known => swap_file_sz == expectedSize, else any value incl. 0 = unknown)
bool storeRebuildParseEntry(MemBuf &, StoreEntry &tmpe, cache_key *key, StoreRebuildData &, uint64_t expectedSize)
{
    tmpe.key = nullptr;
    if (!vf_bool("meta_ok")) return false;
    if (SANE_ONLY) memcpy(key, disk[c57_seekPos >= 0 ? (c57_seekPos - Rock::SwapDir::HeaderSize) / SLOTSZ : 0].key, SQUID_MD5_DIGEST_LENGTH); // the slot header's key
    else memcpy(key, KEYS[pickKey("meta_key")], SQUID_MD5_DIGEST_LENGTH);
    tmpe.key = key;
    tmpe.swap_file_sz = expectedSize > 0 ? expectedSize : vf_range(0, 2 * PAYLOAD + 2, "meta_sz");
    tmpe.flags = vf_nondet_u16("meta_flags") & ~(1 << KEY_PRIVATE);
    tmpe.timestamp = 1; tmpe.lastref = 1; tmpe.expires = 1; tmpe.lastModified(1);
    return true;
}

static unsigned keyOf[MAXSLOT];
static bool onlyCrossLink = false; // set by c57_known_cross_entry_link only
static bool KNOWN_IMAGE = false;   // the known-finding entry's small image family (see buildImage)
// would loadOneSlot() hand this slot to useNewSlot()? (what DbCellHeader::sane() demands, for a completely read slot)
static bool loadable(const unsigned s)
{
    const Rock::DbCellHeader &h = disk[s];
    return !truncated[s] & (h.firstSlot >= 0) & (h.firstSlot < (int)NSLOT) & (h.nextSlot >= -1) & (h.nextSlot < (int)NSLOT) &
           (h.version > 0) & (h.payloadSize > 0) & (h.payloadSize <= PAYLOAD);
}
static void buildImage()
{
    memset(image, 0, sizeof(image));
    for (unsigned s = 0; s < NSLOT; ++s) {
        Rock::DbCellHeader &h = disk[s];
        // known-finding family: slot0 = key B, slots 1 and 2 = key A (the victim's slot is loaded first)
        const unsigned k = KNOWN_IMAGE ? (s == 0 ? 1 : 0) : pickKey("key");
        h.key[0] = KEYS[k][0]; h.key[1] = KEYS[k][1];
        h.firstSlot = SANE_ONLY ? rangeS(0, NSLOT - 1, "firstSlot") : rangeS(-1, NSLOT, "firstSlot");
        h.nextSlot = SANE_ONLY ? rangeS(-1, NSLOT - 1, "nextSlot") : rangeS(-2, NSLOT, "nextSlot");
        h.payloadSize = SANE_ONLY ? vf_range(1, PAYLOAD, "payloadSize") : vf_range(0, PAYLOAD + 1, "payloadSize");
        h.entrySize = vf_range(0, 2 * PAYLOAD + 2, "entrySize");
        h.version = SANE_ONLY ? 1 : vf_range(0, 2, "version");
        memcpy(image + s * SLOTSZ, &h, sizeof(h));
        image[s * SLOTSZ + sizeof(h)] = SANE_ONLY ? 1 : vf_nondet_u8("payload0"); // rest of the payload is zero: metadata "zeroed" iff this is 0
        truncated[s] = SANE_ONLY ? false : vf_bool("truncated");
        shortLen[s] = truncated[s] ? vf_range(0, sizeof(h) - 1, "shortLen") : 0;
        keyOf[s] = k;
    }
    // KNOWN FINDING (known_findings.json, C57-cross-entry-link*): cross-entry chain links. finalizeOrThrow() follows
    // nextSlot links into a slot that was mapped for a *different* entry which is not finalized yet (slot.mapped() &&
    // !slot.finalized() is all it checks; LoadingSlot does not record for which entry a slot was mapped).
    // The thief becomes readable with the foreign slot in its chain; when the victim is validated it is freed, so its
    // slot enters the free-slot index while still in the thief's chain; the thief's own unreachable slot stays
    // mapped-but-unfinalized and, with squid -S, validateOneSlot()'s Must() escapes and kills the rebuild; and if the
    // thief is freed in between (a later duplicate slot), the stolen slot is pushed to the free-slot index twice
    // (assertion in PageStack). The class: a loadable slot (not truncated, header sane) whose nextSlot names a loadable
    // slot whose header key belongs to a different entry (anchor). It is examined by its own entry
    // (c57_known_cross_entry_link), whose violations are listed in known_findings.json; every other entry excludes
    // exactly this class.
    bool crossLink = false;
    for (unsigned a = 0; a < NSLOT; ++a)
        for (unsigned b = 0; b < NSLOT; ++b)
            crossLink |= loadable(a) & loadable(b) & (disk[a].nextSlot == (int)b) & (KEYS[keyOf[a]][0] % NSLOT != KEYS[keyOf[b]][0] % NSLOT);
    vf_assume(crossLink == onlyCrossLink);
}

// ---------------------------------------------------------------- the check
static void rebuild(const unsigned nslot, const unsigned nkey, const bool saneOnly = false)
{
    vf_quiet();
    NSLOT = nslot; NKEY = nkey; SANE_ONLY = saneOnly;
    Config.paranoid_hit_validation = std::chrono::nanoseconds(0);
    buildImage();

    // configuration: cache_dir rock d <size giving exactly NSLOT slots> slot-size=56
    Rock::SwapDir *sd = new Rock::SwapDir;
    sd->path = xstrdup("d"); sd->filePath = xstrdup("d/rock"); sd->index = 0;
    sd->slotSize = SLOTSZ;
    sd->max_size = Rock::SwapDir::HeaderSize + (uint64_t)NSLOT * SLOTSZ;
    // SwapDirRr::create()
    Rock::Rebuild::Stats::Init(*sd);
    const int64_t capacity = sd->slotLimitActual();
    vf_assert(capacity == NSLOT, "harness: db has NSLOT slots");
    Rock::SwapDir::DirMap::Init(sd->inodeMapPath(), capacity);
    Ipc::Mem::PageStack::Config cfg; cfg.poolId = Ipc::Mem::PageStack::IdForSwapDirSpace(0); cfg.pageSize = 0; cfg.capacity = capacity; cfg.createFull = false;
    shm_new(Ipc::Mem::PageStack)(sd->freeSlotsPath(), cfg);
    // SwapDir::init()
    sd->freeSlots = shm_old(Ipc::Mem::PageStack)(sd->freeSlotsPath());
    sd->map = new Rock::SwapDir::DirMap(sd->inodeMapPath());
    sd->map->cleaner = sd;
    // Rebuild::Start() + start() minus file_open/xread of the db header
    const auto stats = shm_old(Rock::Rebuild::Stats)(Rock::Rebuild::Stats::Path(sd->path).c_str());
    Rock::Rebuild *rb = ::new (xcalloc(1, sizeof(Rock::Rebuild))) Rock::Rebuild(sd, stats);
    vf_assert(rb->dbSlotLimit == NSLOT && rb->dbEntryLimit == NSLOT && rb->dbSlotSize == SLOTSZ && !rb->resuming, "harness: rebuild sized from the cache_dir");
    rb->fd = FD;
    rb->buf.init(SM_PAGE_SIZE, SM_PAGE_SIZE);
    rb->dbOffset = Rock::SwapDir::HeaderSize + rb->loadingPos * rb->dbSlotSize;
    rb->parts = new Rock::LoadingParts(*sd, rb->resuming);

    bool escaped = false;
    try {
        rb->loadingSteps();
        vf_assert(rb->doneLoading(), "loading visits every slot");
        rb->validationSteps();
        vf_assert(rb->doneValidating(), "validation visits every entry and slot");
    } catch (...) {
        escaped = true; // Rebuild::callException() rethrows: an exception leaving a step kills Squid
    }

    // ---- oracle
    // the chain of every finalized (complete) entry, with slot ids case-split (vf_concretize) so that what follows is concrete
    struct Chain { bool complete = false, leavesTable = false, cyclic = false; unsigned n = 0; int ids[MAXSLOT]; } chain[MAXSLOT];
    for (unsigned f = 0; f < NSLOT; ++f) {
        const Ipc::StoreMap::Anchor &a = sd->map->peekAtEntry(f);
        Chain &c = chain[f];
        c.complete = !a.empty() && !a.writing();
        if (!c.complete) continue;
        for (int id = (int32_t)vf_concretize((uint32_t)a.start.load()); id >= 0; id = (int32_t)vf_concretize((uint32_t)sd->map->sliceAt(id).next.load())) {
            if (id >= (int)NSLOT) { c.leavesTable = true; break; }
            if (c.n == NSLOT) { c.cyclic = true; break; }
            c.ids[c.n++] = id;
        }
    }
    // ghost: does a finalized entry's chain contain a slot whose db header belongs to another entry? (every slot the
    // rebuild adds to entry f has a header key that maps to f, so a foreign slot can only come from a nextSlot link)
    bool crossLinked = false;
    for (unsigned f = 0; f < NSLOT; ++f)
        for (unsigned i = 0; chain[f].complete && i < chain[f].n; ++i)
            if (sd->map->fileNoByKey(reinterpret_cast<const cache_key *>(disk[chain[f].ids[i]].key)) != (sfileno)f) crossLinked = true;
    vf_assert(!crossLinked, "chain of a finalized entry contains a slot that belongs to another entry");
    vf_assert(!escaped, "an exception escapes the rebuild steps");

    bool inFree[MAXSLOT] = {false, false, false, false};
    unsigned nfree = 0;
    for (;;) {
        Ipc::Mem::PageId page;
        if (!sd->freeSlots->pop(page)) break;
        vf_assert(page.number >= 1 && page.number <= NSLOT, "free-slot index holds only slots of this db");
        vf_assert(!inFree[page.number - 1], "slot listed free twice");
        inFree[page.number - 1] = true;
        vf_assert(++nfree <= NSLOT, "harness: free-slot index is finite");
    }
    int owner[MAXSLOT] = {-1, -1, -1, -1};
    unsigned readable = 0;
    for (unsigned k = 0; k < NKEY; ++k) {
        sfileno fileno = -1;
        const Ipc::StoreMap::Anchor *a = sd->map->openForReading(K(k), fileno);
        if (!a) continue;
        ++readable;
        vf_assert(fileno >= 0 && fileno < (int)NSLOT && chain[fileno].complete, "harness: readable entries are finalized entries");
        const Chain &c = chain[fileno];
        vf_assert(!c.leavesTable, "chain stays inside the slot table");
        vf_assert(!c.cyclic, "chain is acyclic");
        vf_assert(c.n > 0, "readable entry has a slot chain");
        uint64_t total = 0;
        for (unsigned i = 0; i < c.n; ++i) {
            const int id = c.ids[i];
            vf_assert(owner[id] < 0, "slot used by two readable entries (or twice by one)");
            owner[id] = fileno;
            vf_assert(!inFree[id], "slot of a readable entry is also in the free-slot index");
            vf_assert(!truncated[id], "truncated slot in the chain of a readable entry");
            const Ipc::StoreMap::Slice &slice = sd->map->readableSlice(fileno, id);
            vf_assert(slice.size == disk[id].payloadSize && slice.size > 0, "slice size is the payload size recorded in the slot header");
            vf_assert(slice.size <= PAYLOAD, "slice is larger than the payload area of a slot");
            vf_assert(disk[id].key[0] == disk[c.ids[0]].key[0] && disk[id].key[1] == disk[c.ids[0]].key[1], "chain mixes slots written for different keys");
            total += slice.size;
        }
        vf_assert(total == a->basics.swap_file_sz, "payload sizes add up to the entry size");
        vf_observe("total", total);
        sd->map->closeForReading(fileno);
    }
    vf_observe("readable", readable);
    vf_observe("nfree", nfree);
    vf_reach(readable == 0 ? "none-readable" : readable == 1 ? "one-readable" : "two-readable");
    WITNESS_POINT();
}
// KNOWN FINDING (known_findings.json, C57-cross-entry-link*): N=3 sane slots, slot0 written for key B, slots 1 and 2 for
// key A; firstSlot, nextSlot, payloadSize, entrySize of every slot and the metadata verdict/size symbolic, restricted to
// images with a cross-entry nextSlot link. Strict oracle (nothing excluded besides the restriction to the class).
extern "C" void c57_known_cross_entry_link(void) { onlyCrossLink = true; KNOWN_IMAGE = true; rebuild(3, 2, true); }
extern "C" void c57_3slots_2keys(void) { rebuild(3, 2); }
extern "C" void c57_2slots(void) { rebuild(2, 2); }
extern "C" void c57_3slots_sane(void) { rebuild(3, 2, true); }
extern "C" void c57_3slots_collide_sane(void) { rebuild(3, 3, true); }
extern "C" void c57_4slots_1key(void) { rebuild(4, 1, true); }
