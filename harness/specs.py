# Harness specifications: which real /repo sources are encoded, entries per tier, bounds, stubs, what lies outside.
SBUF = ["src/sbuf/SBuf.cc", "src/sbuf/MemBlob.cc", "src/sbuf/Stats.cc", "src/base/CharacterSet.cc", "src/base/TextException.cc",
        "src/base/Here.cc", "src/base/Assure.cc"]
TOK = SBUF + ["src/parser/Tokenizer.cc"]

SPECS = {}

SPECS["C27"] = dict(
    harness="C27_int.cc",
    units=TOK + ["src/HttpHeaderTools.cc"],
    o0_units=["src/parser/Tokenizer.cc", "src/HttpHeaderTools.cc"],
    ub=True, ub_files=["parser/Tokenizer.cc", "HttpHeaderTools.cc"],
    entries=dict(
        quick=[
            dict(name="c27_int64_small", bounds="<=3 fully symbolic bytes, base in {0,8,10,16}, allowSign in {0,1}, limit in [0,4]", reach=["ok", "fail"]),
            dict(name="c27_int64_boundary", bounds="sign in {none,-,+}, base in {8,10,16}: concrete prefix of INT64_MAX/base digits + 3 symbolic bytes", reach=["ok", "fail"]),
            dict(name="c27_offset", bounds="httpHeaderParseOffset: (a) <=3 symbolic bytes, (b) '[-]922337203685477580' + 2 symbolic bytes + NUL", reach=["ok", "fail"]),
            dict(name="c27_int64_wrap", bounds="sign in {none,-}, base in {8,10,16}: numbers with one digit more than INT64_MAX has in the base: 2 symbolic leading bytes + zeros + 1 symbolic last byte (22/20/17 digits)", reach=["ok", "fail"]),
        ],
        thorough=[
            dict(name="c27_int64_small", bounds="<=4 fully symbolic bytes, base in {0,8,10,16}, allowSign in {0,1}, limit in [0,5]", reach=["ok", "fail"]),
            dict(name="c27_int64_boundary", bounds="sign in {none,-,+}, base in {8,10,16}: concrete prefix + 4 symbolic bytes", reach=["ok", "fail"]),
            dict(name="c27_offset", bounds="httpHeaderParseOffset: (a) <=4 symbolic bytes, (b) boundary prefix + 3 symbolic bytes", reach=["ok", "fail"]),
            dict(name="c27_int64_wrap", bounds="as quick", reach=["ok", "fail"]),
        ]),
    timeout=dict(quick=240, thorough=1500),
    stubs=["libc strtoll/tolower/isdigit models (glibc semantics, C locale)", "debugs() disabled"],
    outside="digit strings longer than the stated families; non-C locales; httpHeaderParseInt (atoi-based, int result) is outside: it is not a 64-bit parser",
)

SPECS["C36"] = dict(
    harness="C36_base64.cc", units=[],
    entries=dict(
        quick=[dict(name="c36_roundtrip", bounds="all inputs of 0..9 bytes (fully symbolic), encoder fed in two pieces at every split point", reach=["done"], sample_every=3),
               dict(name="c36_decode_arbitrary", bounds="all encodings of 1..5 arbitrary bytes; output buffer of exactly BASE64_DECODE_LENGTH", reach=["accepted", "rejected"]),
               dict(name="c36_decode_stream", bounds="one decode context fed by two base64_decode_update() calls of 1..3 arbitrary bytes each (at most 4 in total), each call writing into a heap block of exactly BASE64_DECODE_LENGTH(chunk length) bytes", reach=["accepted", "rejected"])],
        thorough=[dict(name="c36_roundtrip", bounds="all inputs of 0..12 bytes", reach=["done"], sample_every=3),
                  dict(name="c36_decode_stream", bounds="as quick with at most 5 bytes in total", reach=["accepted", "rejected"]),
                  dict(name="c36_decode_arbitrary", bounds="all encodings of 1..6 arbitrary bytes", reach=["accepted", "rejected"])]),
    timeout=dict(quick=240, thorough=1500),
    stubs=["HAVE_NETTLE_BASE64_H forced to 0 in the harness TU: the bundled lib/base64.cc is what is encoded (this build links libnettle instead, a binary that cannot be encoded)"],
    outside="inputs longer than the bounds; libnettle's implementation used by this particular build; Auth::Basic::Config::decode (user/password split) not yet encoded",
)
SPECS["C31"] = dict(
    harness="C31_pct.cc", units=TOK + ["src/anyp/Uri.cc", "lib/rfc1738.cc"],
    entries=dict(
        quick=[dict(name="c31_uri_roundtrip", bounds="all byte strings of 0..3 bytes; ignore set in {unreserved, empty, all-but-%}", reach=["done"]),
               dict(name="c31_uri_decode_arbitrary", bounds="all inputs of 0..4 bytes", reach=["accepted", "rejected"]),
               dict(name="c31_rfc1738_roundtrip", bounds="all NUL-free strings of 0..2 bytes, 4 flag sets that escape '%', static buffer reuse after a call with one of {\"\", \"a\", \"%\"}", reach=["done"]),
               dict(name="c31_rfc1738_unescape_arbitrary", bounds="all NUL-free strings of 0..4 bytes in an exact-size heap buffer", reach=["done"])],
        thorough=[dict(name="c31_uri_roundtrip", bounds="0..4 bytes", reach=["done"]),
                  dict(name="c31_uri_decode_arbitrary", bounds="0..5 bytes", reach=["accepted", "rejected"]),
                  dict(name="c31_rfc1738_roundtrip", bounds="0..2 bytes, 4 flag sets, static buffer reuse after a call with \"\" or any one NUL-free byte", reach=["done"]),
                  dict(name="c31_rfc1738_unescape_arbitrary", bounds="0..5 bytes", reach=["done"])]),
    timeout=dict(quick=300, thorough=1800),
    stubs=["vsnprintf model for %%%02X", "memAllocBuf rounding as mem/old_api.cc"],
    outside="longer strings; ignore sets containing '%' (caller contract); RFC1738_ESCAPE_NOPERCENT (input declared already escaped)",
)
SPECS["C32"] = dict(
    harness="C32_html.cc", units=SBUF + ["src/html/Quoting.cc"],
    entries=dict(
        quick=[dict(name="c32_html_quote", bounds="two consecutive calls (static buffer reuse/growth): first one of {\"\", \"a\", \"<\", \"\\x0b\", \"\\x80\"}, then every NUL-free string of 0..1 bytes", reach=["done"]),
               dict(name="c32_html_context", bounds="one call on every string of 0..3 symbolic bytes over 17 class representatives {a < > \" ' & ; # 0x0b 0x7f 0x80 0xbf 0xc2 0xe2 0xf0 0xf4 0xff} (each class in every context of neighbours: metacharacters after UTF-8 lead/continuation bytes etc.)", reach=["done"], sample_every=97)],
        thorough=[dict(name="c32_html_quote", bounds="as quick, and the second string may continue with one of \"a\", \"<\", \"\\x80\" after its symbolic byte (2-byte strings)", reach=["done"]),
                  dict(name="c32_html_context", bounds="as quick with strings of 0..4 bytes", reach=["done"], sample_every=997)]),
    timeout=dict(quick=240, thorough=1500),
    stubs=["vsnprintf model for &#%d;"],
    outside="strings longer than the bound",
)
SPECS["C52"] = dict(
    harness="C52_math.cc", units=[], o0_units=["HARNESS"], ub=True, ub_files=["SquidMath.h"],
    entries=dict(
        quick=[dict(name="c52_less", bounds="Less<A,B> for all 64 pairs of {u,}int{8,16,32,64}_t, arguments fully symbolic (entire value range)", reach=["done"]),
               dict(name="c52_sums", bounds="34 instantiations of NaturalSum/SetToNaturalSumOrMax/IncreaseSum (2 and 3 arguments), arguments fully symbolic", reach=["done"])],
        thorough=[dict(name="c52_less", bounds="same (already the entire value range)", reach=["done"]),
                  dict(name="c52_sums", bounds="same (already the entire value range)", reach=["done"])]),
    timeout=dict(quick=240, thorough=900),
    stubs=[],
    outside="instantiations other than the listed ones; Math::intPercent and friends (floating point)",
)

SPECS["C50"] = dict(
    harness="C50_sets.cc", units=TOK,
    entries=dict(
        quick=[dict(name="c50_sets", bounds="A = every range [lo, lo+d], lo in 0..255, d in 0..2, built two ways; B a fixed 5-range set touching bytes 0 and 255; union, both differences, complement, double complement, remove; probe byte fully symbolic", reach=["done"], sample_every=37),
               dict(name="c50_tokenizer", bounds="input of 0..4 fully symbolic bytes; set in {ALPHA, {0,255,'.',DIGIT}, its complement}; prefix/suffix with limit in {0..5, npos}; skipAll, skipOne, skipAllTrailing, skipOneTrailing, token", reach=["done"], sample_every=11)],
        thorough=[dict(name="c50_sets", bounds="same as quick (already every range position)", reach=["done"], sample_every=37),
                  dict(name="c50_tokenizer", bounds="input of 0..6 fully symbolic bytes; same sets and operations; limit in {0..7, npos}", reach=["done"], sample_every=31)]),
    timeout=dict(quick=300, thorough=1800),
    stubs=["debugs() disabled"],
    outside="ranges wider than 3 bytes other than the predefined sets; inputs longer than the bound; Tokenizer::int64 (decided under C27) and skip(SBuf)/skipSuffix (string matching, not set semantics)",
)

SPECS["C41"] = dict(
    harness="C41_domain.cc", units=TOK + ["src/anyp/Uri.cc", "lib/rfc1738.cc", "lib/util.cc", "lib/Splay.cc"],
    entries=dict(
        quick=[dict(name="c41_two_values", bounds="1..2 configured values of 1..2 bytes over {a,b,.} (optional leading dot), host of 1..3 bytes over {a,B,.}; all names well-formed (non-empty labels, single dots, no trailing dot, host without leading dot); both insertion orders are covered because the values are symbolic", reach=["match", "nomatch"], sample_every=13),
               dict(name="c41_hyphen", bounds="1..2 configured values of 1..2 bytes over {a,-,.} (optional leading dot), host of 1..3 bytes over {a,-,.}; well-formed as above ('-' sorts below '.', every other host-name character above it: the splay ordering has to treat the label separator specially)", reach=["match", "nomatch"], sample_every=101),
               dict(name="c41_history", bounds="as c41_hyphen, preceded by a lookup of another host of 1..2 bytes over {a,-,.} on the same ACL object (the splay tree is reorganised by every lookup); both answers checked", reach=["match", "nomatch"], sample_every=997)],
        thorough=[dict(name="c41_history", bounds="as quick", reach=["match", "nomatch"], sample_every=997),
                  dict(name="c41_hyphen", bounds="as quick with values of 1..3 bytes", reach=["match", "nomatch"], sample_every=101),
                  dict(name="c41_two_long_values", bounds="1..2 values of 1..3 bytes, host of 1..3 bytes; same alphabets and well-formedness", reach=["match", "nomatch"], sample_every=101)]),
    timeout=dict(quick=300, thorough=1800),
    stubs=["ConfigParser::strtokFile hands out the harness's values (ConfigParser.cc is not linked)", "libc strcasecmp/tolower/strlen models (C locale)", "debugs() disabled"],
    outside="longer names and lists; characters other than {a,b,B,-,.}; malformed names (empty labels, trailing dot, host with leading dot); the mdnHonorWildcards/mdnRejectSubsubDomains flags (not used by ACLDomainData)",
)

SPECS["C43"] = dict(
    harness="C43_intrange.cc", units=TOK + ["src/acl/IntRange.cc", "src/Parsing.cc"],
    o0_units=["src/acl/IntRange.cc", "src/Parsing.cc"], ub=True, ub_files=["acl/IntRange.cc", "Parsing.cc", "base/Range.h"],
    entries=dict(
        quick=[dict(name="c43_int_ranges", bounds="1..2 tokens, each 'N' or 'N-M'; N, M decimal numbers with fully symbolic digits of shape D, DDD or 655DD (values 0..999 and 65500..65599, which straddles the 16-bit limit; leading zeros allowed); probe fully symbolic in -1..65536", reach=["accepted", "rejected"], sample_every=3)],
        thorough=[dict(name="c43_int_ranges", bounds="as quick, plus single-token lists whose numbers have 5 fully symbolic digits (every value 0..99999)", reach=["accepted", "rejected"], sample_every=11)]),
    timeout=dict(quick=300, thorough=1800),
    stubs=["ConfigParser::strtokFile hands out the harness's tokens", "self_destruct() throws (the real one exits): the configuration is rejected", "libc strtoll/strchr models", "debugs() disabled"],
    outside="lists longer than the bound; tokens that are not digits with at most one '-' (rejected by xatoll's trailing-garbage test, not examined here); probes outside -1..65536 (ACLIntRange::match computes i+1 in int)",
)

# ---- further specs live one file per property in harness/specs.d/<id>.py; each defines SPEC (a dict as above) and may use SBUF/TOK
import os as _os, glob as _glob
for _f in sorted(_glob.glob(_os.path.join(_os.path.dirname(_os.path.abspath(__file__)), "specs.d", "C*.py"))):
    _ns = dict(SBUF=SBUF, TOK=TOK)
    try:
        exec(compile(open(_f).read(), _f, "exec"), _ns)
        SPECS[_os.path.basename(_f)[:-3]] = _ns["SPEC"]
    except Exception as _e:   # a broken spec file must not take the other checks down with it
        import sys as _sys
        print("specs: cannot load %s: %s" % (_f, _e), file=_sys.stderr)
