# Harness specifications: which real /repo sources are encoded, entries per tier, bounds, stubs, what lies outside.
SBUF = ["src/sbuf/SBuf.cc", "src/sbuf/MemBlob.cc", "src/sbuf/Stats.cc", "src/base/CharacterSet.cc", "src/base/TextException.cc",
        "src/base/Here.cc", "src/base/Assure.cc"]
TOK = SBUF + ["src/parser/Tokenizer.cc"]

SPECS = {}

SPECS["C27"] = dict(
    harness="C27_int.cc",
    units=TOK + ["src/HttpHeaderTools.cc"],
    o0_units=["src/parser/Tokenizer.cc", "src/HttpHeaderTools.cc"],
    ub=True, ub_files=["parser/Tokenizer.cc", "HttpHeaderTools.cc"],
    entries=dict(
        quick=[
            dict(name="c27_int64_small", bounds="<=3 fully symbolic bytes, base in {0,8,10,16}, allowSign in {0,1}, limit in [0,4]", reach=["ok", "fail"]),
            dict(name="c27_int64_boundary", bounds="sign in {none,-,+}, base in {8,10,16}: concrete prefix of INT64_MAX/base digits + 3 symbolic bytes", reach=["ok", "fail"]),
            dict(name="c27_offset", bounds="httpHeaderParseOffset: (a) <=3 symbolic bytes, (b) '[-]922337203685477580' + 2 symbolic bytes + NUL", reach=["ok", "fail"]),
        ],
        thorough=[
            dict(name="c27_int64_small", bounds="<=4 fully symbolic bytes, base in {0,8,10,16}, allowSign in {0,1}, limit in [0,5]", reach=["ok", "fail"]),
            dict(name="c27_int64_boundary", bounds="sign in {none,-,+}, base in {8,10,16}: concrete prefix + 4 symbolic bytes", reach=["ok", "fail"]),
            dict(name="c27_offset", bounds="httpHeaderParseOffset: (a) <=4 symbolic bytes, (b) boundary prefix + 3 symbolic bytes", reach=["ok", "fail"]),
        ]),
    timeout=dict(quick=240, thorough=1500),
    stubs=["libc strtoll/tolower/isdigit models (glibc semantics, C locale)", "debugs() disabled"],
    outside="digit strings longer than the stated families; non-C locales; httpHeaderParseInt (atoi-based, int result) is outside: it is not a 64-bit parser",
)

SPECS["C36"] = dict(
    harness="C36_base64.cc", units=[],
    entries=dict(
        quick=[dict(name="c36_roundtrip", bounds="all inputs of 0..9 bytes (fully symbolic), encoder fed in two pieces at every split point", reach=["done"], sample_every=3),
               dict(name="c36_decode_arbitrary", bounds="all encodings of 1..5 arbitrary bytes; output buffer of exactly BASE64_DECODE_LENGTH", reach=["accepted", "rejected"])],
        thorough=[dict(name="c36_roundtrip", bounds="all inputs of 0..12 bytes", reach=["done"], sample_every=3),
                  dict(name="c36_decode_arbitrary", bounds="all encodings of 1..6 arbitrary bytes", reach=["accepted", "rejected"])]),
    timeout=dict(quick=240, thorough=1500),
    stubs=["HAVE_NETTLE_BASE64_H forced to 0 in the harness TU: the bundled lib/base64.cc is what is encoded (this build links libnettle instead, a binary that cannot be encoded)"],
    outside="inputs longer than the bounds; libnettle's implementation used by this particular build; Auth::Basic::Config::decode (user/password split) not yet encoded",
)
SPECS["C31"] = dict(
    harness="C31_pct.cc", units=TOK + ["src/anyp/Uri.cc", "lib/rfc1738.cc"],
    entries=dict(
        quick=[dict(name="c31_uri_roundtrip", bounds="all byte strings of 0..3 bytes; ignore set in {unreserved, empty, all-but-%}", reach=["done"]),
               dict(name="c31_uri_decode_arbitrary", bounds="all inputs of 0..4 bytes", reach=["accepted", "rejected"]),
               dict(name="c31_rfc1738_roundtrip", bounds="all NUL-free strings of 0..2 bytes, 4 flag sets that escape '%', static buffer reuse after a call with one of {\"\", \"a\", \"%\"}", reach=["done"]),
               dict(name="c31_rfc1738_unescape_arbitrary", bounds="all NUL-free strings of 0..4 bytes in an exact-size heap buffer", reach=["done"])],
        thorough=[dict(name="c31_uri_roundtrip", bounds="0..4 bytes", reach=["done"]),
                  dict(name="c31_uri_decode_arbitrary", bounds="0..5 bytes", reach=["accepted", "rejected"]),
                  dict(name="c31_rfc1738_roundtrip", bounds="0..3 bytes", reach=["done"]),
                  dict(name="c31_rfc1738_unescape_arbitrary", bounds="0..5 bytes", reach=["done"])]),
    timeout=dict(quick=300, thorough=1800),
    stubs=["vsnprintf model for %%%02X", "memAllocBuf rounding as mem/old_api.cc"],
    outside="longer strings; ignore sets containing '%' (caller contract); RFC1738_ESCAPE_NOPERCENT (input declared already escaped)",
)
SPECS["C32"] = dict(
    harness="C32_html.cc", units=SBUF + ["src/html/Quoting.cc"],
    entries=dict(
        quick=[dict(name="c32_html_quote", bounds="two consecutive calls (static buffer reuse/growth): first one of {\"\", \"a\", \"<\", \"\\x0b\", \"\\x80\"}, then every NUL-free string of 0..1 bytes", reach=["done"])],
        thorough=[dict(name="c32_html_quote", bounds="two consecutive calls: first one of the same 5 strings, then every NUL-free string of 0..2 bytes", reach=["done"])]),
    timeout=dict(quick=240, thorough=1500),
    stubs=["vsnprintf model for &#%d;"],
    outside="strings longer than the bound",
)
SPECS["C52"] = dict(
    harness="C52_math.cc", units=[], o0_units=["HARNESS"], ub=True, ub_files=["SquidMath.h"],
    entries=dict(
        quick=[dict(name="c52_less", bounds="Less<A,B> for all 64 pairs of {u,}int{8,16,32,64}_t, arguments fully symbolic (entire value range)", reach=["done"]),
               dict(name="c52_sums", bounds="34 instantiations of NaturalSum/SetToNaturalSumOrMax/IncreaseSum (2 and 3 arguments), arguments fully symbolic", reach=["done"])],
        thorough=[dict(name="c52_less", bounds="same (already the entire value range)", reach=["done"]),
                  dict(name="c52_sums", bounds="same (already the entire value range)", reach=["done"])]),
    timeout=dict(quick=240, thorough=900),
    stubs=[],
    outside="instantiations other than the listed ones; Math::intPercent and friends (floating point)",
)
