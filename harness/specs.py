# Harness specifications: which real /repo sources are encoded, entries per tier, bounds, stubs, what lies outside.
SBUF = ["src/sbuf/SBuf.cc", "src/sbuf/MemBlob.cc", "src/sbuf/Stats.cc", "src/base/CharacterSet.cc", "src/base/TextException.cc",
        "src/base/Here.cc", "src/base/Assure.cc"]
TOK = SBUF + ["src/parser/Tokenizer.cc"]

SPECS = {}

SPECS["C27"] = dict(
    harness="C27_int.cc",
    units=TOK + ["src/HttpHeaderTools.cc"],
    o0_units=["src/parser/Tokenizer.cc", "src/HttpHeaderTools.cc"],
    ub=True, ub_files=["parser/Tokenizer.cc", "HttpHeaderTools.cc"],
    entries=dict(
        quick=[
            dict(name="c27_int64_small", bounds="<=3 fully symbolic bytes, base in {0,8,10,16}, allowSign in {0,1}, limit in [0,4]", reach=["ok", "fail"]),
            dict(name="c27_int64_boundary", bounds="sign in {none,-,+}, base in {8,10,16}: concrete prefix of INT64_MAX/base digits + 3 symbolic bytes", reach=["ok", "fail"]),
            dict(name="c27_offset", bounds="httpHeaderParseOffset: (a) <=3 symbolic bytes, (b) '[-]922337203685477580' + 2 symbolic bytes + NUL", reach=["ok", "fail"]),
        ],
        thorough=[
            dict(name="c27_int64_small", bounds="<=4 fully symbolic bytes, base in {0,8,10,16}, allowSign in {0,1}, limit in [0,5]", reach=["ok", "fail"]),
            dict(name="c27_int64_boundary", bounds="sign in {none,-,+}, base in {8,10,16}: concrete prefix + 4 symbolic bytes", reach=["ok", "fail"]),
            dict(name="c27_offset", bounds="httpHeaderParseOffset: (a) <=4 symbolic bytes, (b) boundary prefix + 3 symbolic bytes", reach=["ok", "fail"]),
        ]),
    timeout=dict(quick=240, thorough=1500),
    stubs=["libc strtoll/tolower/isdigit models (glibc semantics, C locale)", "debugs() disabled"],
    outside="digit strings longer than the stated families; non-C locales; httpHeaderParseInt (atoi-based, int result) is outside: it is not a 64-bit parser",
)
