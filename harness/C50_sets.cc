// C50: CharacterSet set algebra and Tokenizer run consumption against reference predicates.
#include "squid.h"
#include "base/CharacterSet.h"
#include "parser/Tokenizer.h"
#include "sbuf/SBuf.h"
#include "common.h"

#ifdef VF_THOROUGH
#define MAXN 6
#else
#define MAXN 4
#endif

// ---- reference predicates (written without CharacterSet)
static bool inB(unsigned c) { return c == 0 || c == 0xff || (c >= '0' && c <= '9') || c == 'a' || c == 'z'; }

extern "C" void c50_sets(void)
{
    vf_quiet();
    // A = [lo, lo+d] built by the range constructor or by add()/addRange(); B = fixed set touching both ends of the byte range
    const unsigned lo = (unsigned)vf_concretize(vf_range(0, 255, "lo"));
    const unsigned d = (unsigned)vf_concretize(vf_range(0, 2, "d"));
    vf_assume(lo + d <= 255);
    const unsigned hi = lo + d;
    const unsigned how = (unsigned)vf_concretize(vf_range(0, 1, "how"));
    CharacterSet A("A", "");
    if (how == 0) A = CharacterSet("A", (unsigned char)lo, (unsigned char)hi);
    else { A.add((unsigned char)hi); A.addRange((unsigned char)lo, (unsigned char)hi); }
    const CharacterSet B("B", {{0, 0}, {0xff, 0xff}, {'0', '9'}, {'a', 'a'}, {'z', 'z'}});
    const CharacterSet U = A + B, AmB = A - B, BmA = B - A, nA = A.complement("nA"), nnA = nA.complement();
    CharacterSet R = U; R.remove((unsigned char)lo);
    const unsigned p = vf_nondet_u8("probe");            // every probe byte, decided by the solver
    const bool a = p >= lo && p <= hi, b = inB(p);
    vf_assert(A[p] == a, "range membership");
    vf_assert(B[p] == b, "list-of-ranges membership");
    vf_assert(U[p] == (a || b), "union");
    vf_assert(AmB[p] == (a && !b), "difference A-B");
    vf_assert(BmA[p] == (b && !a), "difference B-A");
    vf_assert(nA[p] == !a, "complement");
    vf_assert(nnA[p] == a, "double complement");
    vf_assert(R[p] == ((a || b) && p != lo), "remove");
    vf_assert((nnA == A) && (nA != A), "equality");
    vf_assert(A.isEmpty() == false, "isEmpty");
    vf_observe("inU", U[p]);
    vf_reach("done");
    WITNESS_POINT();
}

// ---- tokenizer
static bool pAlpha(unsigned char c) { return ((c | 0x20) >= 'a' && (c | 0x20) <= 'z'); }
static bool pEdge(unsigned char c) { return c == 0 || c == 0xff || c == '.' || (c >= '0' && c <= '9'); }
static bool pNotEdge(unsigned char c) { return !pEdge(c); }
typedef bool (*Pred)(unsigned char);

static void sameBytes(const SBuf &s, const unsigned char *ref, unsigned n, const char *what)
{
    vf_assert(s.length() == n, what);
    for (unsigned i = 0; i < n && i < s.length(); ++i) vf_assert((unsigned char)s[i] == ref[i], what);
}

extern "C" void c50_tokenizer(void)
{
    vf_quiet();
    static const CharacterSet edge("edge", {{0, 0}, {0xff, 0xff}, {'.', '.'}, {'0', '9'}});
    static const CharacterSet notEdge = edge.complement("notEdge");
    const unsigned which = (unsigned)vf_concretize(vf_range(0, 2, "set"));
    const CharacterSet &set = which == 0 ? CharacterSet::ALPHA : which == 1 ? edge : notEdge;
    const Pred in = which == 0 ? pAlpha : which == 1 ? pEdge : pNotEdge;
    const unsigned n = (unsigned)vf_concretize(vf_range(0, MAXN, "len"));
    unsigned char buf[MAXN + 1];
    for (unsigned i = 0; i < n; ++i) buf[i] = vf_nondet_u8("byte");
    const unsigned op = (unsigned)vf_concretize(vf_range(0, 6, "op"));
    // limit: 0..MAXN+1 or npos (only prefix/suffix take one)
    SBuf::size_type limit = SBuf::npos;
    if (op <= 1) { const unsigned l = (unsigned)vf_concretize(vf_range(0, MAXN + 2, "limit")); limit = l == MAXN + 2 ? SBuf::npos : l; }
    const unsigned cap = limit == SBuf::npos || limit > n ? n : limit;
    unsigned lead = 0; while (lead < n && in(buf[lead])) ++lead;           // maximal leading run
    unsigned trail = 0; while (trail < n && in(buf[n - 1 - trail])) ++trail; // maximal trailing run
    Parser::Tokenizer tk(SBuf((const char *)buf, n));
    SBuf tok("unchanged");
    switch (op) {
    case 0: { // prefix
        const unsigned m = lead < cap ? lead : cap;
        const bool r = tk.prefix(tok, set, limit);
        vf_assert(r == (m > 0), "prefix succeeds iff a non-empty run exists within the limit");
        if (r) sameBytes(tok, buf, m, "prefix returns the maximal (limited) run");
        sameBytes(tk.remaining(), buf + (r ? m : 0), n - (r ? m : 0), "prefix leaves the rest unchanged");
        vf_assert(tk.parsedSize() == (r ? m : 0), "prefix parsedSize");
        break; }
    case 1: { // suffix
        const unsigned m = trail < cap ? trail : cap;
        const bool r = tk.suffix(tok, set, limit);
        vf_assert(r == (m > 0), "suffix succeeds iff a non-empty trailing run exists within the limit");
        if (r) sameBytes(tok, buf + n - m, m, "suffix returns the maximal (limited) trailing run");
        sameBytes(tk.remaining(), buf, n - (r ? m : 0), "suffix leaves the rest unchanged");
        vf_assert(tk.parsedSize() == (r ? m : 0), "suffix parsedSize");
        break; }
    case 2: { // skipAll
        const SBuf::size_type r = tk.skipAll(set);
        vf_assert(r == lead, "skipAll consumes the maximal run");
        sameBytes(tk.remaining(), buf + lead, n - lead, "skipAll leaves the rest unchanged");
        break; }
    case 3: { // skipOne
        const bool r = tk.skipOne(set);
        vf_assert(r == (lead > 0), "skipOne");
        sameBytes(tk.remaining(), buf + (r ? 1 : 0), n - (r ? 1 : 0), "skipOne leaves the rest unchanged");
        break; }
    case 4: { // skipAllTrailing
        const SBuf::size_type r = tk.skipAllTrailing(set);
        vf_assert(r == trail, "skipAllTrailing consumes the maximal trailing run");
        sameBytes(tk.remaining(), buf, n - trail, "skipAllTrailing leaves the rest unchanged");
        break; }
    case 5: { // skipOneTrailing
        const bool r = tk.skipOneTrailing(set);
        vf_assert(r == (trail > 0), "skipOneTrailing");
        sameBytes(tk.remaining(), buf, n - (r ? 1 : 0), "skipOneTrailing leaves the rest unchanged");
        break; }
    default: { // token(): the set is the delimiter set
        unsigned j = lead; while (j < n && !in(buf[j])) ++j;
        const bool expect = j < n;   // a token must be followed by a delimiter
        unsigned k = j; while (k < n && in(buf[k])) ++k;
        const bool r = tk.token(tok, set);
        vf_assert(r == expect, "token succeeds iff a delimited token exists");
        if (r) {
            sameBytes(tok, buf + lead, j - lead, "token returns the bytes between delimiter runs");
            sameBytes(tk.remaining(), buf + k, n - k, "token consumes the surrounding delimiter runs only");
            vf_assert(tk.parsedSize() == k, "token parsedSize");
        } else {
            sameBytes(tk.remaining(), buf, n, "failed token leaves the input unchanged");
            vf_assert(tk.parsedSize() == 0, "failed token parsedSize");
        }
        break; }
    }
    vf_observe("op", op);
    vf_observe("remaining", tk.remaining().length());
    vf_reach("done");
    WITNESS_POINT();
}
