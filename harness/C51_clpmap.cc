// C51: ClpMap (capacity / lifetime / LRU-priority map) against a list-based reference model.
// Real base/ClpMap.h, instantiated as ClpMap<Key, Val, ValMemory>: ClpMap needs Key::length(), so the key is a small harness type
// (an id 1..3 with a per-key length; std::hash<Key> has only two values, so keys 1 and 3 share a bucket) and the value carries
// its own accounted size. Every operation of a sequence is applied to the map and to the reference; after every step get()
// results, memoryUsed(), memLimit(), entries() and the complete traversal order (most recently used first) are compared.
// Case-split: opcode and key of every operation. Symbolic: the values; per entry (see Params) the TTLs / clock advances, or the key
// lengths / value sizes (any 64-bit value: huge ones overflow the accounting) / capacities.
// Reference semantics where the header is silent: add() always forgets the previous value of the key, even when the new one is
// rejected (as tests/testClpMap.cc testNegativeTtl demands); victims are taken strictly from the LRU end, expired or not.
#include "squid.h"
#include "base/ClpMap.h"
#include "common.h"

struct Key {
    uint8_t id = 0;
    uint32_t len = 0;
    size_t length() const { return len; }
    bool operator==(const Key &o) const { return id == o.id; }
};
namespace std { template <> struct hash<Key> { size_t operator()(const Key &k) const noexcept { return k.id & 1; } }; }
struct Val { int v; uint64_t size; };
static uint64_t ValMemory(const Val &v) { return v.size; }
typedef ClpMap<Key, Val, ValMemory> Map;

#ifdef VF_BITCODE
// libstdc++.so internals of std::list / std::unordered_map that have no bitcode: same effect as libstdc++-v3/src/c++98/list.cc and
// src/c++11/hashtable_c++0x.cc for max_load_factor 1.0 (bucket counts beyond 13 are "next odd number" instead of "next prime":
// they only affect the distribution over buckets, never the contents)
namespace std { namespace __detail {
void _List_node_base::_M_transfer(_List_node_base *const first, _List_node_base *const last) noexcept
{
    if (this == last) return;
    last->_M_prev->_M_next = this; first->_M_prev->_M_next = last; this->_M_prev->_M_next = first;
    _List_node_base *const tmp = this->_M_prev;
    this->_M_prev = last->_M_prev; last->_M_prev = first->_M_prev; first->_M_prev = tmp;
}
size_t _Prime_rehash_policy::_M_next_bkt(size_t n) const
{
    static const unsigned char fast[] = {2, 2, 2, 3, 5, 5, 7, 7, 11, 11, 11, 11, 13, 13};
    if (n == 0) return 1;
    const size_t r = n < sizeof(fast) ? fast[n] : (n | 1);
    _M_next_resize = r;
    return r;
}
pair<bool, size_t> _Prime_rehash_policy::_M_need_rehash(size_t nBkt, size_t nElt, size_t nIns) const
{
    if (nElt + nIns <= _M_next_resize) return {false, 0};
    const size_t minBkts = nElt + nIns > (_M_next_resize ? 0u : 11u) ? nElt + nIns : 11;
    if (minBkts >= nBkt) return {true, _M_next_bkt(minBkts + 1 > nBkt * 2 ? minBkts + 1 : nBkt * 2)};
    _M_next_resize = nBkt;
    return {false, 0};
}
} }
#endif

// ---------------------------------------------------------------- reference model: a recency-ordered array, [0] = most recently used
static const unsigned NKEYS = 3;
static const uint64_t OVERHEAD = sizeof(Map::Entry) + sizeof(std::pair<const Key, Map::EntriesIterator>); // what ClpMap accounts per entry besides key and value
static const time_t TMAX = std::numeric_limits<time_t>::max();
struct RefEntry { uint8_t id; int v; time_t expires; uint64_t mem; };
struct Ref {
    RefEntry e[NKEYS]; unsigned n = 0;
    uint64_t limit = 0, used = 0;
    void removeAt(unsigned i) { used -= e[i].mem; for (unsigned j = i; j + 1 < n; ++j) e[j] = e[j + 1]; --n; }
    // the entry of a key if it is still fresh (then it becomes the most recently used); an expired one is dropped
    RefEntry *find(uint8_t id, time_t now) {
        for (unsigned i = 0; i < n; ++i) if (e[i].id == id) {
            if (e[i].expires < now) { removeAt(i); vf_reach("expired"); return nullptr; }
            const RefEntry x = e[i]; for (unsigned j = i; j > 0; --j) e[j] = e[j - 1]; e[0] = x;
            return &e[0];
        }
        return nullptr;
    }
    void del(uint8_t id, time_t now) { if (find(id, now)) removeAt(0); }
    bool add(uint8_t id, uint32_t keyLen, int v, uint64_t size, int ttl, time_t now) {
        if (limit == 0) return false;
        del(id, now);                                  // the previous value of the key is forgotten even if the new one is rejected
        if (ttl < 0) return false;
        const uint64_t fixed = keyLen + OVERHEAD;      // < 2^33
        if (size > UINT64_MAX - fixed) return false;   // the accounted size does not fit 64 bits
        const uint64_t need = fixed + size;
        if (need > limit) return false;
        while (limit - used < need) { removeAt(n - 1); vf_reach("purged-for-add"); } // only least recently used entries make room
        for (unsigned j = n; j > 0; --j) e[j] = e[j - 1];
        ++n;
        e[0] = RefEntry{id, v, ttl > TMAX - now ? TMAX : now + ttl, need};
        used += need;
        return true;
    }
    void setLimit(uint64_t l) { while (used > l) { removeAt(n - 1); vf_reach("purged-for-limit"); } limit = l; }
};

static unsigned pick(unsigned n, const char *name) { return (unsigned)vf_concretize(vf_range(0, n - 1, name)); }

static void compare(const Map &m, const Ref &r)
{
    vf_assert(m.memLimit() == r.limit, "memLimit() is the configured capacity");
    vf_assert(m.memoryUsed() == r.used, "memoryUsed() is the sum over the reference's entries");
    vf_assert(m.memoryUsed() <= m.memLimit(), "accounted memory never exceeds the capacity");
    vf_assert(m.freeMem() == r.limit - r.used, "freeMem()");
    vf_assert(m.entries() == r.n, "the map stores exactly the reference's entries");
    unsigned i = 0;
    for (auto it = m.cbegin(); it != m.cend() && i < r.n; ++it, ++i)
        vf_assert(it->key.id == r.e[i].id && it->value.v == r.e[i].v && it->memCounted == r.e[i].mem && it->expires == r.e[i].expires,
                  "traversal: same entries in the same recency order (so only least recently used entries were purged)");
    vf_observe("entries", m.entries());
}

#ifdef VF_THOROUGH
#define N_LRU 5
#define N_TTL 4
#define N_SIZES 2
#define DEL_KEYS 1 /* 5-step sequences: del() only for key 1 */
#else
#define DEL_KEYS 3
#define N_LRU 4
#define N_TTL 3
#define N_SIZES 2
#endif

// what is symbolic and what is case-split differs per entry
struct Params {
    bool symbolicSizes;   // key lengths (8 bit), value sizes (8 bit, or 2^64-1 minus 8 bit: overflows the accounting) and capacities (16 bit)
                          // symbolic; else concrete sizes (entry k accounts 3+5k+8 bytes + overhead) and capacities from a list
    bool symbolicTime;    // TTL: any 16-bit signed value or INT_MAX; clock advance: any 16-bit value; clock starts at 1000 or up to 65535 s before
                          // the end of time_t; else no expiry
    unsigned nkeys, nops;
};

static uint64_t anyCapacity(const Params &p, const Key *keys, const bool initial)
{
    if (p.symbolicSizes) return vf_nondet_u16("capacity");
    const uint64_t e0 = keys[0].len + OVERHEAD + 8, e1 = keys[1].len + OVERHEAD + 8, e2 = keys[2].len + OVERHEAD + 8;
    // room for: one small entry but not the two smallest / any two but not all three / everything / (later) nothing / exactly the smallest entry
    const uint64_t caps[] = {e0 + e1 - 1, e0 + e1 + e2 - 1, UINT64_MAX, 0, e0};
    return caps[pick(!initial ? 5 : p.symbolicTime ? 2 : 3, "capacity")];
}

static void clpSequence(const Params p)
{
    vf_quiet();
    Key keys[NKEYS];
    for (unsigned k = 0; k < NKEYS; ++k) { keys[k].id = k + 1; keys[k].len = 3 + 5 * k + (p.symbolicSizes && k == 0 ? vf_nondet_u8("keyLength") : 0); }
    squid_curtime = 1000;
    if (p.symbolicTime && vf_bool("lateStart")) squid_curtime = TMAX - vf_nondet_u16("beforeTheEndOfTime"); // expiry times saturate
    const uint64_t cap0 = anyCapacity(p, keys, true);
    Map m(cap0);
    Ref r; r.limit = cap0;
    compare(m, r);
    for (unsigned step = 0; step < p.nops; ++step) {
        const bool last = step + 1 == p.nops;
        // the last operation is one whose effect depends on the recency order (get/del/clock change nothing compare() could see later)
        static const unsigned lruOps[] = {0, 1, 2, 3}, ttlOps[] = {0, 1, 4}, lastOps[] = {0, 3};
        const unsigned op = p.symbolicTime ? ttlOps[pick(3, "op")] : last ? lastOps[pick(2, "op")] : lruOps[pick(4, "op")];
        const time_t now = squid_curtime;
        if (op == 0) { // add
            const unsigned variant = pick(p.nkeys + (p.symbolicSizes || p.symbolicTime ? 0 : 1), "key"); // the extra variant: key 1 with a larger value
            const Key &k = keys[variant % p.nkeys];
            uint64_t size = variant < p.nkeys ? 8 : 40;
            if (p.symbolicSizes) { size = vf_nondet_u8("valueSize"); if (vf_bool("hugeValue")) size = UINT64_MAX - size; }
            const Val v = {(int)vf_nondet_u32("value"), size};
            int ttl = 1000000;
            if (p.symbolicTime) ttl = vf_bool("ttlMax") ? std::numeric_limits<int>::max() : (int)(int16_t)vf_nondet_u16("ttl");
            const bool got = m.add(k, v, ttl), want = r.add(k.id, k.len, v.v, v.size, ttl, now);
            vf_assert(got == want, "add() succeeds iff the capacity is not 0, the TTL is not negative and the entry can fit");
            if (vf_concretize(got)) vf_reach("added"); else vf_reach("rejected");
        } else if (op == 1) { // get
            const Key &k = keys[pick(p.nkeys, "key")];
            const Val *got = m.get(k); const RefEntry *want = r.find(k.id, now);
            vf_assert((got != nullptr) == (want != nullptr), "get() finds exactly the fresh entries of the reference");
            if (got && want) vf_assert(got->v == want->v, "get() returns the value added last for the key");
            if (got) vf_reach("hit"); else vf_reach("miss");
        } else if (op == 2) { // del
            const Key &k = keys[pick(DEL_KEYS, "key")];
            m.del(k); r.del(k.id, now);
        } else if (op == 3) { // capacity change
            const uint64_t cap = anyCapacity(p, keys, false);
            m.setMemLimit(cap); r.setLimit(cap);
            vf_reach("relimit");
        } else { // the clock advances
            const time_t dt = vf_nondet_u16("seconds"); vf_assume(dt <= TMAX - squid_curtime);
            squid_curtime += dt;
        }
        compare(m, r);
    }
    vf_reach("done");
    WITNESS_POINT();
}

// capacity/LRU: concrete sizes, capacities from a list, no expiry
extern "C" void c51_lru(void) { clpSequence(Params{false, false, 3, N_LRU}); }
// lifetime: concrete sizes, symbolic TTLs and clock, two keys, capacity for one entry or unlimited, operations add/get/clock
extern "C" void c51_ttl(void) { clpSequence(Params{false, true, 2, N_TTL}); }
// accounting: symbolic key lengths, value sizes and capacities, no expiry
extern "C" void c51_sizes(void) { clpSequence(Params{true, false, 3, N_SIZES}); }
