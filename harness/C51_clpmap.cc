// C51: ClpMap (capacity / lifetime / LRU-priority map) against a list-based reference model.
// Real base/ClpMap.h, instantiated as ClpMap<Key, Val, ValMemory>: ClpMap needs Key::length(), so the key is a small harness type
// (an id 1..3 with a per-key length; std::hash<Key> has only two values, so keys 1 and 3 share a bucket) and the value carries
// its own accounted size. Every operation of a sequence is applied to the map and to the reference; after every step get()
// results, memoryUsed(), memLimit(), entries() and the complete traversal order (most recently used first) are compared.
// Symbolic: key lengths, value sizes (any 64-bit value: huge ones overflow the accounting), values, TTLs (any int), clock
// advances, capacities. Case-split: opcode and key of every operation.
// Reference semantics where the header is silent: add() always forgets the previous value of the key, even when the new one is
// rejected (as tests/testClpMap.cc testNegativeTtl demands); victims are taken strictly from the LRU end, expired or not.
#include "squid.h"
#include "base/ClpMap.h"
#include "common.h"

struct Key {
    uint8_t id = 0;
    uint32_t len = 0;
    size_t length() const { return len; }
    bool operator==(const Key &o) const { return id == o.id; }
};
namespace std { template <> struct hash<Key> { size_t operator()(const Key &k) const noexcept { return k.id & 1; } }; }
struct Val { int v; uint64_t size; };
static uint64_t ValMemory(const Val &v) { return v.size; }
typedef ClpMap<Key, Val, ValMemory> Map;

#ifdef VF_BITCODE
// libstdc++.so internals of std::list / std::unordered_map that have no bitcode: same effect as libstdc++-v3/src/c++98/list.cc and
// src/c++11/hashtable_c++0x.cc for max_load_factor 1.0 (bucket counts beyond 13 are "next odd number" instead of "next prime":
// they only affect the distribution over buckets, never the contents)
namespace std { namespace __detail {
void _List_node_base::_M_transfer(_List_node_base *const first, _List_node_base *const last) noexcept
{
    if (this == last) return;
    last->_M_prev->_M_next = this; first->_M_prev->_M_next = last; this->_M_prev->_M_next = first;
    _List_node_base *const tmp = this->_M_prev;
    this->_M_prev = last->_M_prev; last->_M_prev = first->_M_prev; first->_M_prev = tmp;
}
size_t _Prime_rehash_policy::_M_next_bkt(size_t n) const
{
    static const unsigned char fast[] = {2, 2, 2, 3, 5, 5, 7, 7, 11, 11, 11, 11, 13, 13};
    if (n == 0) return 1;
    const size_t r = n < sizeof(fast) ? fast[n] : (n | 1);
    _M_next_resize = r;
    return r;
}
pair<bool, size_t> _Prime_rehash_policy::_M_need_rehash(size_t nBkt, size_t nElt, size_t nIns) const
{
    if (nElt + nIns <= _M_next_resize) return {false, 0};
    const size_t minBkts = nElt + nIns > (_M_next_resize ? 0u : 11u) ? nElt + nIns : 11;
    if (minBkts >= nBkt) return {true, _M_next_bkt(minBkts + 1 > nBkt * 2 ? minBkts + 1 : nBkt * 2)};
    _M_next_resize = nBkt;
    return {false, 0};
}
} }
#endif

// ---------------------------------------------------------------- reference model: a recency-ordered array, [0] = most recently used
static const unsigned NKEYS = 3;
struct RefEntry { uint8_t id; int v; __int128 expires; uint64_t mem; };
struct Ref {
    RefEntry e[NKEYS]; unsigned n = 0;
    uint64_t limit = 0, used = 0;
    void removeAt(unsigned i) { used -= e[i].mem; for (unsigned j = i; j + 1 < n; ++j) e[j] = e[j + 1]; --n; }
    // the entry of a key if it is still fresh (then it becomes the most recently used); an expired one is dropped
    RefEntry *find(uint8_t id, __int128 now) {
        for (unsigned i = 0; i < n; ++i) if (e[i].id == id) {
            if (e[i].expires < now) { removeAt(i); vf_reach("expired"); return nullptr; }
            const RefEntry x = e[i]; for (unsigned j = i; j > 0; --j) e[j] = e[j - 1]; e[0] = x;
            return &e[0];
        }
        return nullptr;
    }
    void del(uint8_t id, __int128 now) { if (find(id, now)) removeAt(0); }
    bool add(uint8_t id, uint32_t keyLen, int v, uint64_t size, int ttl, __int128 now) {
        if (limit == 0) return false;
        del(id, now);
        if (ttl < 0) return false;
        const __int128 need = (__int128)keyLen + sizeof(Map::Entry) + size + sizeof(std::pair<const Key, Map::EntriesIterator>);
        if (need > (__int128)UINT64_MAX || need > (__int128)limit) return false;
        while (limit - used < (uint64_t)need) { removeAt(n - 1); vf_reach("purged-for-add"); } // only least recently used entries make room
        for (unsigned j = n; j > 0; --j) e[j] = e[j - 1];
        ++n;
        const __int128 tmax = std::numeric_limits<time_t>::max();
        e[0] = RefEntry{id, v, now + ttl > tmax ? tmax : now + ttl, (uint64_t)need};
        used += (uint64_t)need;
        return true;
    }
    void setLimit(uint64_t l) { while (used > l) { removeAt(n - 1); vf_reach("purged-for-limit"); } limit = l; }
};

#ifdef VF_THOROUGH
#define NOPS 5
#else
#define NOPS 4
#endif

static unsigned pick(unsigned n, const char *name) { return (unsigned)vf_concretize(vf_range(0, n - 1, name)); }

static void compare(const Map &m, const Ref &r)
{
    vf_assert(m.memLimit() == r.limit, "memLimit() is the configured capacity");
    vf_assert(m.memoryUsed() == r.used, "memoryUsed() is the sum over the reference's entries");
    vf_assert(m.memoryUsed() <= m.memLimit(), "accounted memory never exceeds the capacity");
    vf_assert(m.freeMem() == r.limit - r.used, "freeMem()");
    vf_assert(m.entries() == r.n, "the map stores exactly the reference's entries");
    unsigned i = 0;
    for (auto it = m.cbegin(); it != m.cend() && i < r.n; ++it, ++i)
        vf_assert(it->key.id == r.e[i].id && it->value.v == r.e[i].v && it->memCounted == r.e[i].mem && (__int128)it->expires == r.e[i].expires,
                  "traversal: same entries in the same recency order (so only least recently used entries were purged)");
    vf_observe("entries", m.entries());
}

static void clpSequence(const bool symbolicSizes)
{
    vf_quiet();
    // per-key lengths and the clock start
    Key keys[NKEYS];
    for (unsigned k = 0; k < NKEYS; ++k) { keys[k].id = k + 1; keys[k].len = symbolicSizes ? vf_nondet_u32("keyLength") : 3 + 5 * k; }
    const uint64_t start = vf_nondet_u64("clockStart"); vf_assume(start <= (uint64_t)std::numeric_limits<time_t>::max());
    squid_curtime = (time_t)start;
    const uint64_t cap0 = vf_nondet_u64("capacity");
    Map m(cap0);
    Ref r; r.limit = cap0;
    compare(m, r);
    for (unsigned step = 0; step < NOPS; ++step) {
        const unsigned op = pick(5, "op");
        const __int128 now = squid_curtime;
        if (op == 0) { // add
            const Key &k = keys[pick(NKEYS, "key")];
            const Val v = {(int)vf_nondet_u32("value"), symbolicSizes ? vf_nondet_u64("valueSize") : (uint64_t)(8 + 32 * pick(2, "valueSize"))};
            const int ttl = (int)vf_nondet_u32("ttl");
            const bool got = m.add(k, v, ttl), want = r.add(k.id, k.len, v.v, v.size, ttl, now);
            vf_assert(got == want, "add() succeeds iff the capacity is not 0, the TTL is not negative and the entry can fit");
            vf_reach(got ? "added" : "rejected");
        } else if (op == 1) { // get
            const Key &k = keys[pick(NKEYS, "key")];
            const Val *got = m.get(k); const RefEntry *want = r.find(k.id, now);
            vf_assert((got != nullptr) == (want != nullptr), "get() finds exactly the fresh entries of the reference");
            if (got && want) vf_assert(got->v == want->v, "get() returns the value added last for the key");
            vf_reach(got ? "hit" : "miss");
        } else if (op == 2) { // del
            const Key &k = keys[pick(NKEYS, "key")];
            m.del(k); r.del(k.id, now);
        } else if (op == 3) { // capacity change
            const uint64_t cap = vf_nondet_u64("capacity");
            m.setMemLimit(cap); r.setLimit(cap);
            vf_reach("relimit");
        } else { // the clock advances
            const uint64_t dt = vf_nondet_u32("seconds"); vf_assume((uint64_t)squid_curtime + dt <= (uint64_t)std::numeric_limits<time_t>::max());
            squid_curtime += (time_t)dt;
        }
        compare(m, r);
    }
    vf_reach("done");
    WITNESS_POINT();
}
extern "C" void c51_symbolic(void) { clpSequence(true); }
extern "C" void c51_sized(void) { clpSequence(false); }
