// C09 (kernel): adversarial HTTP peers cannot cause memory errors or crashes -- the byte-facing layer.
//
// What runs: the REAL Http1::RequestParser, Http1::ResponseParser, Http1::TeChunkedParser, AnyP::Uri::parse (through
// HttpRequest::FromUrlXXX), HttpHeader::parse and the per-field parsers behind HttpRequest/HttpReply::parseHeader
// (Content-Length interpreter, HttpHdrCc, HttpHdrRange, HttpHdrContRange, HttpHdrSc, Time::ParseRfc1123, Connection
// list scanning), on really constructed HttpRequest/HttpReply objects, driven the way their callers drive them:
//   Client  = ConnStateData::parseRequests/parseHttpRequest + Http1::Server::parseOneRequest/buildHttpRequest +
//             clientProcessRequest (framing part) + ConnStateData::handleChunkedRequestBody  (client_side.cc, Http1Server.cc)
//   Server  = HttpStateData::processReply/processReplyHeader/handle1xx/decodeAndWriteReplyBody (http.cc)
// i.e. append the bytes read to inBuf; parse; inBuf = remaining(); wait for more / turn the verdict into "error reply
// and close" / build the message object / parse the next pipelined message or the chunked body from what is left.
// The control skeleton of those callers is re-stated here (the callers themselves need the whole proxy); every parsing
// step in it is the real code.
//
// Symbolic: the bytes marked \x01 (any of the 256 values) and \x02 (any value; case-split per hex digit, see sizeByte())
// of each family's skeleton, short fully symbolic streams, relaxed_header_parser, small header-size limits.
// Every stream is delivered in one piece, split in two right before the first and right after the last symbolic byte
// (thorough: at every position from two bytes before the first to four bytes after the last), and byte by byte.
//
// Oracle: none of its own. The assertions are the engine's: no out-of-bounds / use-after-free / double free access, no
// assert()/Must()/fatal()/abort() reached other than a Must() that the real caller catches as a parse error (the chunked
// parser's callers wrap it in try/catch), no exception escaping, termination within the instruction budget -- plus the
// asserts that the re-stated callers themselves make at these points (listed where they appear).
#include "squid.h"
#include <sstream>
#include <functional>
#include <chrono>
#include <atomic>
#include <iostream>
#include <string>
#include <vector>
#include <list>
#include <map>
#include <unordered_map>
#include <memory>
#include <algorithm>
#include "http1.h"
#include "http/one/RequestParser.h"
#include "http/one/ResponseParser.h"
#include "http/one/TeChunkedParser.h"
#include "HttpRequest.h"
#include "HttpReply.h"
#include "MasterXaction.h"
#include "anyp/UriScheme.h"
#include "MemBuf.h"
#include "StatHist.h"
#include "HierarchyLogEntry.h"
#include "globals.h"
#include "ip/tools.h"
#include "C30_netmodel.h"   // numeric-only getaddrinfo()/freeaddrinfo()/inet_ntop() models of the C30 harness (interpreted build only)

// ---------------------------------------------------------------------------------------------- environment stubs
int Ip::EnableIpv6 = IPV6_ON;            // ip/tools.cc (socket probing) is not linked
const char *null_string = nullptr;       // globals.cc is not linked
void StatHist::enumInit(unsigned int) {} // per-header statistics histograms (StatHist.cc not linked)
void StatHist::count(double) {}
// HttpRequest has a HierarchyLogEntry member; its constructor lives in log/access_log.cc / peer_select.cc (not linked).
// Same initial values, minus the peer-selection bookkeeping that nothing here reads.
ping_data::ping_data(): n_sent(0), n_recv(0), n_replies_expected(0), timeout(0), timedout(0), w_rtt(0), p_rtt(0) { start.tv_sec = 0; start.tv_usec = 0; stop.tv_sec = 0; stop.tv_usec = 0; }
HierarchyLogEntry::HierarchyLogEntry(): code(HIER_NONE), cd_lookup(LOOKUP_NONE), n_choices(0), n_ichoices(0), peer_reply_status(Http::scNone), tcpServer(nullptr), bodyBytesRead(-1) { host[0] = 0; cd_host[0] = 0; }

#ifdef VF_BITCODE
// libstdc++.so's out-of-line bucket-count policy of std::unordered_map (LookupTable<> of HttpHdrCc/HttpHdrSc); no bitcode exists
// for it. Same contract; the bucket count is unobservable through find()/operator[].
namespace std { namespace __detail {
size_t _Prime_rehash_policy::_M_next_bkt(size_t n) const
{
    static const size_t primes[] = {2, 3, 5, 7, 11, 13, 17, 19, 23, 29, 31, 37, 41, 47, 53, 59, 67, 79, 97, 127, 257, 521, 1031, 2053, 4099};
    size_t r = primes[sizeof(primes) / sizeof(*primes) - 1];
    for (size_t p : primes) if (p >= n) { r = p; break; }
    _M_next_resize = (size_t)((double)r * (double)_M_max_load_factor);
    return r;
}
pair<bool, size_t> _Prime_rehash_policy::_M_need_rehash(size_t nBkt, size_t nElt, size_t nIns) const
{
    if (nElt + nIns > _M_next_resize) {
        const double minBkts = (double)(nElt + nIns) / (double)_M_max_load_factor;
        if (minBkts >= (double)nBkt) {
            const size_t want = (size_t)minBkts + 1;
            return make_pair(true, _M_next_bkt(want > nBkt * 2 ? want : nBkt * 2));
        }
        _M_next_resize = (size_t)((double)nBkt * (double)_M_max_load_factor);
    }
    return make_pair(false, (size_t)0);
}
} }
// Hash of LookupTable's unordered_map: a constant in the interpreted build (any function that maps equal keys to equal values
// is a correct hash; the real xor/multiply/modulo hash of a name with symbolic bytes is a 64-bit remainder problem per lookup).
// The native replay build links the real src/sbuf/Algorithms.cc.
#include "sbuf/Algorithms.h"
std::size_t CaseInsensitiveSBufHash::operator()(const SBuf &) const noexcept { return 0; }
// timegm() (Time::ParseRfc1123): not in engine/models/libc.c. Proleptic Gregorian day count, no range errors for int fields;
// the native replay build uses glibc's.
#include <time.h>
extern "C" time_t timegm(struct tm *tm)
{
    int64_t y = (int64_t)tm->tm_year + 1900;
    int64_t m = tm->tm_mon;
    y += m / 12; m %= 12;
    if (m < 0) { m += 12; --y; }
    const int64_t yy = m < 2 ? y - 1 : y;
    const int64_t era = (yy >= 0 ? yy : yy - 399) / 400;
    const int64_t yoe = yy - era * 400;
    const int64_t mp = (m + 10) % 12;
    const int64_t doy = (153 * mp + 2) / 5 + tm->tm_mday - 1;
    const int64_t doe = yoe * 365 + yoe / 4 - yoe / 100 + doy;
    const int64_t days = era * 146097 + doe - 719468;
    return (time_t)(days * 86400 + (int64_t)tm->tm_hour * 3600 + (int64_t)tm->tm_min * 60 + tm->tm_sec);
}
#endif

#ifdef VF_THOROUGH
#define T(quick, thorough) thorough
#else
#define T(quick, thorough) quick
#endif
#define MAXIN 160

// ---------------------------------------------------------------------------------------------- the client side
// One client connection. Mirrors ConnStateData::parseRequests(): parse requests from inBuf while there are bytes that are
// not body bytes; a parsing/validation error becomes an error reply and the end of reading (flags.readMore = false).
struct Client {
    SBuf inBuf;
    Http1::RequestParserPointer parser_;
    Http1::TeChunkedParser *bodyParser = nullptr;   // non-nil while a chunked request body is being received
    MemBuf bodyBuf;                                 // stands for BodyPipe::theBuf (capacity = bodyCap)
    bool readMore = true, identityBody = false, tunnel = false;
    bool preserving;                                // ConnStateData::preservingClientData_ (on_unsupported_protocol)
    bool intercepted;                               // the listening port intercepts (port->flags.natIntercept)
    unsigned nOk = 0, nErr = 0, nBodyDone = 0, nBodyBad = 0, bodyBytes = 0;

    Client(const unsigned bodyCap, const bool preserve, const bool intercept): preserving(preserve), intercepted(intercept) { bodyBuf.init(bodyCap + 1, bodyCap + 1); }
    ~Client() { delete bodyParser; bodyBuf.clean(); }

    void error() { ++nErr; readMore = false; }      // setReplyError()/quitAfterError(): error page, then close

    void read(const uint8_t *p, const unsigned len)  // ConnStateData::afterClientRead() after Server::doClientRead() appended the bytes
    {
        inBuf.append(reinterpret_cast<const char *>(p), len);
        if (bodyParser && !handleRequestBodyData())  // ConnStateData::handleReadData()
            return;
        parseRequests();
    }

    void parseRequests()
    {
        while (!inBuf.isEmpty() && !bodyParser && !identityBody && !tunnel && readMore) {
            // Http::One::Server::parseOneRequest()
            if (!parser_ || !parser_->needsMoreData())
                parser_ = new Http1::RequestParser(preserving);
            if (!parseHttpRequest()) {
                // "not enough request data": ConnStateData does Must(inBuf.length() < Config.maxRequestHeaderSize) here; a failure
                // ends the connection job (exception caught by the job machinery), i.e. a close
                if (readMore && inBuf.length() >= Config.maxRequestHeaderSize) { vf_reach("caller-must-close"); readMore = false; }
                break;
            }
        }
    }

    // ConnStateData::parseHttpRequest() followed by Http::One::Server::processParsedRequest(); false = need more data
    bool parseHttpRequest()
    {
        Http1::RequestParser &hp = *parser_;
        const bool parsedOk = hp.parse(inBuf);
        inBuf = hp.remaining();           // "sync the buffers after parsing"
        if (hp.needsMoreData())
            return false;
        if (!parsedOk) {
            if (!inBuf.isEmpty())         // "assume that remaining leftovers belong to this bad request"
                inBuf.consume(inBuf.length());
            (void)inBuf.c_str();          // buildHttpRequest(): requestErrorBytes
            error();
            return true;
        }
        if (hp.method() == Http::METHOD_PRI && hp.messageProtocol() < Http::ProtocolVersion(2, 0)) { error(); return true; }
        if (hp.method() == Http::METHOD_NONE) { error(); return true; }
        // set url: an intercepting port builds the URL of an origin-form target from the Host field
        // (prepareTransparentURL()/buildUrlFromHost()), a forward-proxy port takes the request-target as it is
        char *uri = nullptr;
        if (intercepted && !(!hp.requestUri().isEmpty() && hp.requestUri()[0] != '/')) {
            static const SBuf scheme("http");                       // AnyP::UriScheme(conn->transferProtocol.protocol).image()
            if (const char *host = hp.getHostHeaderField()) {
                const int url_sz = scheme.length() + strlen(host) + hp.requestUri().length() + 32;
                uri = static_cast<char *>(xcalloc(url_sz, 1));
                snprintf(uri, url_sz, SQUIDSBUFPH "://%s" SQUIDSBUFPH, SQUIDSBUFPRINT(scheme), host, SQUIDSBUFPRINT(hp.requestUri()));
            } else {
                static const char ipbuf[MAX_IPSTRLEN] = "127.0.0.1";  // clientConnection->local
                const int url_sz = sizeof(ipbuf) + hp.requestUri().length() + 32;
                uri = static_cast<char *>(xcalloc(url_sz, 1));
                snprintf(uri, url_sz, SQUIDSBUFPH "://%s:%d" SQUIDSBUFPH, SQUIDSBUFPRINT(scheme), ipbuf, 3128, SQUIDSBUFPRINT(hp.requestUri()));
            }
        }
        if (!uri) {
            const int url_sz = hp.requestUri().length() + Config.appendDomainLen + 5;
            uri = (char *)xcalloc(url_sz, 1);
            SBufToCstring(uri, hp.requestUri());
        }

        // Http::One::Server::buildHttpRequest()
        const auto mx = MasterXaction::MakePortful(nullptr);
        HttpRequest::Pointer request = HttpRequest::FromUrlXXX(uri, mx, hp.method());
        xfree(uri);
        if (!request) { vf_reach("uri-rejected"); error(); return true; }
        if ((hp.messageProtocol().major == 0 && hp.messageProtocol().minor != 9) || hp.messageProtocol().major > 1) { error(); return true; }
        if (hp.messageProtocol().major >= 1 && !request->parseHeader(hp)) { vf_reach("request-header-rejected"); error(); return true; }
        if (request->header.has(Http::HdrType::HOST))
            request->header.updateOrAddStr(Http::HdrType::HOST, request->url.authority());

        // clientProcessRequest(): the part that looks at what the peer sent
        const AnyP::ProtocolVersion &http_ver = hp.messageProtocol();
        vf_assert(request->http_ver.protocol == http_ver.protocol, "clientProcessRequest: assert(request->http_ver.protocol == http_ver.protocol)");
        request->http_ver.major = http_ver.major;
        request->http_ver.minor = http_ver.minor;
        const bool mustReplyToOptions = request->method == Http::METHOD_OPTIONS && request->header.getInt64(Http::HdrType::MAX_FORWARDS) == 0;
        if (!urlCheckRequest(request.getRaw()) || mustReplyToOptions) { error(); return true; }
        if (request->checkEntityFraming() != Http::scNone) { vf_reach("framing-rejected"); error(); return true; }
        (void)request->persistent();      // clientSetKeepaliveFlag()
        ++nOk;
        if (request->method == Http::METHOD_CONNECT) { tunnel = true; return true; }   // the tunnel takes the connection over
        if (request->header.chunked()) {
            bodyParser = new Http1::TeChunkedParser;   // ConnStateData::expectRequestBody(-1)
            handleRequestBodyData();
        } else if (request->content_length > 0)
            identityBody = true;          // the following bytes are copied to the BodyPipe uninterpreted; not continued here
        return true;
    }

    // ConnStateData::handleRequestBodyData() (chunked branch) + abortChunkedRequestBody(); false = connection given up
    bool handleRequestBodyData()
    {
        for (;;) {
            bool wantsSpace = false;
            if (!handleChunkedRequestBody(wantsSpace)) {
                ++nBodyBad;
                delete bodyParser; bodyParser = nullptr;   // finishDechunkingRequest(false)
                readMore = false;                          // comm_reset_close()
                return false;
            }
            // the BodyPipe consumer drains the buffer and ConnStateData::noteMoreBodySpaceAvailable() re-enters the parser
            if (!bodyParser || !wantsSpace || inBuf.isEmpty())
                return true;
        }
    }

    bool handleChunkedRequestBody(bool &wantsSpace)
    {
        try { // "the parser will throw on errors"
            if (inBuf.isEmpty())
                return true;
            bodyParser->setPayloadBuffer(&bodyBuf);      // BodyPipeCheckout
            const bool parsed = bodyParser->parse(inBuf);
            inBuf = bodyParser->remaining();             // "sync buffers"
            const bool hasContent = bodyBuf.hasContent();
            bodyBytes += bodyBuf.contentSize();
            bodyBuf.consume(bodyBuf.contentSize());      // consumer side of the pipe
            if (parsed) {
                delete bodyParser; bodyParser = nullptr; // finishDechunkingRequest(true)
                ++nBodyDone;
                return true;
            }
            wantsSpace = bodyParser->needsMoreSpace();
            Must(!wantsSpace || hasContent);             // "if parser needs more space and we can consume nothing, we will stall"
        } catch (...) {
            return false;                                // ERR_INVALID_REQ
        }
        return true;
    }
};

// ---------------------------------------------------------------------------------------------- the server side
// One server connection carrying one transaction. Mirrors HttpStateData::readReply()/processReply().
struct Server {
    SBuf inBuf;
    Http1::ResponseParserPointer hp;
    Http1::TeChunkedParser *httpChunkDecoder = nullptr;
    HttpReply::Pointer reply;
    bool eof = false, headersParsed = false, chunked = false, lastChunk = false, done = false;
    unsigned n1xx = 0, nOk = 0, nBad = 0, nBodyBad = 0, bodyBytes = 0;

    ~Server() { delete httpChunkDecoder; }

    void read(const uint8_t *p, const unsigned len)   // HttpStateData::readReply(): len == 0 is the end of the stream
    {
        if (done) return;
        if (len) inBuf.append(reinterpret_cast<const char *>(p), len);
        else eof = true;
        processReply();
    }

    void processReply()
    {
        while (!headersParsed) {
            const bool got1xx = processReplyHeader();
            if (got1xx)
                continue;                  // handle1xx() ... proceedAfter1xx() -> processReply()
            if (done)
                return;
            if (!headersParsed) {          // continueAfterParsingHeader()
                if (eof) { ++nBad; done = true; }   // ERR_ZERO_SIZE_OBJECT / ERR_READ_ERROR
                return;                    // wait for more data
            }
            if (reply->sline.status() == Http::scInvalidHeader && reply->sline.version != Http::ProtocolVersion(0, 9)) { ++nBad; done = true; return; }
        }
        processReplyBody();
    }

    // HttpStateData::processReplyHeader(); true = a 1xx control message was taken off the stream
    bool processReplyHeader()
    {
        if (!inBuf.length())
            return false;
        if (hp == nullptr)
            hp = new Http1::ResponseParser;
        const bool parsedOk = hp->parse(inBuf);
        (void)hp->messageStatus();        // request->hier.peer_reply_status
        inBuf = hp->remaining();          // "sync the buffers after parsing"
        if (hp->needsMoreData()) {
            if (eof)
                vf_assert(!parsedOk, "HttpStateData::processReplyHeader: assert(!parsedOk) at a premature EOF");
            else
                return false;             // "Incomplete response, waiting for end of response headers"
        }
        if (!parsedOk) {
            headersParsed = true;
            reply = new HttpReply;
            vf_assert(!hp->needsMoreData() || eof, "HttpStateData::processReplyHeader: assert(!hp->needsMoreData() || eof)");
            const auto scode = hp->needsMoreData() ? Http::scInvalidHeader : hp->parseStatusCode;
            reply->sline.set(Http::ProtocolVersion(), scode);
            return false;
        }
        const auto newrep = HttpReply::Pointer::Make();
        newrep->sline.set(hp->messageProtocol(), hp->messageStatus());
        if (!newrep->parseHeader(*hp)) {
            newrep->sline.set(hp->messageProtocol(), Http::scInvalidHeader);
            vf_reach("reply-header-rejected");
        }
        hp = nullptr;                     // "done with Parser, now process using the HttpReply"
        if (newrep->sline.version.protocol == AnyP::PROTO_HTTP && Http::Is1xx(newrep->sline.status())) {
            ++n1xx;
            if (newrep->sline.status() == Http::scSwitchingProtocols) { done = true; return false; }   // the tunnel takes over
            return true;
        }
        chunked = false;
        if (newrep->sline.version.protocol == AnyP::PROTO_HTTP && newrep->header.chunked()) {
            chunked = true;
            httpChunkDecoder = new Http1::TeChunkedParser;
        }
        reply = newrep;
        headersParsed = true;
        (void)reply->persistent();        // keepaliveAccounting()
        (void)reply->date;                // checkDateSkew()
        ++nOk;
        return false;
    }

    void processReplyBody()
    {
        if (done) return;
        if (chunked) {
            if (!decodeAndWriteReplyBody()) { ++nBodyBad; done = true; return; }
            if (lastChunk) done = true;   // COMPLETE_*: leftovers make the connection non-persistent; they are not parsed
        } else {
            bodyBytes += inBuf.length();  // writeReplyBody(): identity body, copied uninterpreted
            inBuf.consume(inBuf.length());
        }
        if (eof) done = true;
    }

    bool decodeAndWriteReplyBody()
    {
        vf_assert(httpChunkDecoder != nullptr, "HttpStateData::decodeAndWriteReplyBody: assert(httpChunkDecoder)");
        try {
            MemBuf decodedData;
            decodedData.init();
            httpChunkDecoder->setPayloadBuffer(&decodedData);
            const bool doneParsing = httpChunkDecoder->parse(inBuf);
            inBuf = httpChunkDecoder->remaining();   // "sync buffers after parse"
            bodyBytes += decodedData.contentSize();  // addVirginReplyBody()
            if (doneParsing)
                lastChunk = true;
            return true;
        } catch (...) {
        }
        return false;
    }
};

// ---------------------------------------------------------------------------------------------- delivery
// cuts[0..ncuts) = non-decreasing ends of the delivered segments, cuts[ncuts-1] == n; an empty segment produces no read event
template <class Conn> static void deliver(Conn &c, const uint8_t *in, const uint8_t *cuts, const unsigned ncuts)
{
    unsigned delivered = 0;
    for (unsigned k = 0; k < ncuts; ++k) {
        if (cuts[k] == delivered) continue;
        c.read(in + delivered, cuts[k] - delivered);
        delivered = cuts[k];
    }
}
// run(cuts, ncuts) for: one piece; two pieces split at every s in [lo, hi] (quick: only at lo and hi); byte by byte
template <class F> static void forAllSegmentations(const unsigned n, unsigned lo, unsigned hi, F run)
{
    uint8_t cuts[MAXIN];
    cuts[0] = n; run(cuts, 1);
    if (lo < 1) lo = 1;
    if (n < 2) hi = 0; else if (hi > n - 1) hi = n - 1;
    for (unsigned s = lo; s <= hi; ++s) {
#ifndef VF_THOROUGH
        if (s != lo && s != hi && n > 8) continue;   // short (fully symbolic) streams: every position
#endif
        cuts[0] = s; cuts[1] = n; run(cuts, 2);
    }
    for (unsigned i = 0; i < n; ++i) cuts[i] = i + 1;
    if (n > 2) run(cuts, n);
}

// A stream: skeleton bytes with symbolic bytes; [symLo, symHi] = positions of the first and last symbolic byte
struct Stream { uint8_t b[MAXIN]; unsigned n, symLo, symHi; };

// '\x02' = a fully symbolic byte at a position the chunk-size parser can see: each of the 22 hex-digit characters gets its own
// path with a concrete byte (so the chunk size, and with it every copy length, is concrete on that path); the 234 other
// values stay one fully symbolic class. Every byte value is covered either way.
static uint8_t sizeByte()
{
    const uint8_t c = vf_nondet_u8("b");
    const bool hex = (c >= '0' && c <= '9') || (c >= 'a' && c <= 'f') || (c >= 'A' && c <= 'F');
    return hex ? (uint8_t)vf_concretize(c) : c;
}
static void fill(Stream &s, const char *tmpl, const unsigned tlen)
{
    vf_assert(tlen <= MAXIN, "harness: stream fits");
    s.n = tlen; s.symLo = tlen; s.symHi = 0;
    for (unsigned i = 0; i < tlen; ++i) {
        if (tmpl[i] == '\x01' || tmpl[i] == '\x02') {
            s.b[i] = tmpl[i] == '\x01' ? vf_nondet_u8("b") : sizeByte();
            if (i < s.symLo) s.symLo = i;
            s.symHi = i;
        } else
            s.b[i] = (uint8_t)tmpl[i];
    }
    if (s.symLo > s.symHi) { s.symLo = 0; s.symHi = tlen; }
}
static void window(const Stream &s, unsigned &lo, unsigned &hi)
{
#ifdef VF_THOROUGH
    lo = s.symLo > 2 ? s.symLo - 2 : 1; hi = s.symHi + 4;   // every read boundary from two bytes before the first to four bytes after the last symbolic byte
#else
    lo = s.symLo; hi = s.symHi + 1;   // a read boundary right before the first and right after the last symbolic byte
#endif
}

static void configure(const int relaxed, const size_t maxReq, const size_t maxReply)
{
    http1Config(relaxed, maxReq, maxReply);
    AnyP::UriScheme::Init();   // main(): "needs to be before arg parsing"
}

// relaxed_header_parser: 0 = off, 1 = on (default), -1 = on with warnings (differs from 1 only in debugs() levels).
// allModes entries (start-line, limit and fully symbolic streams): quick {0,1}, thorough {-1,0,1}; the others: quick 1, thorough {0,1}.
static int relaxedSetting(const bool allModes = true)
{
#ifdef VF_THOROUGH
    return allModes ? (int)vf_concretize(vf_range(0, 2, "relaxed")) - 1 : (int)vf_concretize(vf_range(0, 1, "relaxed"));
#else
    return allModes ? (int)vf_concretize(vf_range(0, 1, "relaxed")) : 1;
#endif
}

static void clientStream(const Stream &s, const unsigned bodyCap, const bool intercepted = true)
{
    unsigned lo, hi; window(s, lo, hi);
    bool first = true;
    forAllSegmentations(s.n, lo, hi, [&](const uint8_t *cuts, const unsigned ncuts) {
        Client c(bodyCap, /* preserving: a superset of the non-preserving code (parse() additionally records parsed bytes) */ true, intercepted);
        deliver(c, s.b, cuts, ncuts);
        if (first) {
            first = false;
            vf_observe("ok", c.nOk); vf_observe("err", c.nErr); vf_observe("left", c.inBuf.length());
            vf_observe("bodyDone", c.nBodyDone); vf_observe("bodyBad", c.nBodyBad); vf_observe("bodyBytes", c.bodyBytes);
            vf_reach(c.nOk ? "request-accepted" : c.nErr ? "request-refused" : "request-incomplete");
            if (c.nBodyDone) vf_reach("body-done");
            if (c.nBodyBad) vf_reach("body-bad");
            if (c.nOk > 1) vf_reach("pipelined");
        }
    });
    WITNESS_POINT();
}

static void serverStream(const Stream &s)
{
    unsigned lo, hi; window(s, lo, hi);
    bool first = true;
    forAllSegmentations(s.n, lo, hi, [&](const uint8_t *cuts, const unsigned ncuts) {
        Server c;
        deliver(c, s.b, cuts, ncuts);
        const bool waiting = !c.done;
        c.read(nullptr, 0);   // the peer closes: every stream is also examined as a truncated one
        if (first) {
            first = false;
            vf_observe("ok", c.nOk); vf_observe("bad", c.nBad); vf_observe("1xx", c.n1xx); vf_observe("left", c.inBuf.length());
            vf_observe("bodyBad", c.nBodyBad); vf_observe("bodyBytes", c.bodyBytes); vf_observe("lastChunk", c.lastChunk);
            vf_reach(c.nOk ? "reply-accepted" : "reply-refused");
            if (c.n1xx) vf_reach("1xx");
            if (c.lastChunk) vf_reach("body-done");
            if (c.nBodyBad) vf_reach("body-bad");
            if (waiting) vf_reach("truncated");
        }
    });
    WITNESS_POINT();
}

// ---------------------------------------------------------------------------------------------- families
struct Tmpl { const char *s; unsigned n; };
#define L(lit) {lit, sizeof(lit) - 1}
static void clientFamilies(const Tmpl *t, const unsigned count, const bool allModes, const unsigned bodyCap = 65536, const bool intercepted = true)
{
    configure(relaxedSetting(allModes), 65536, 65536);
    const Tmpl &f = t[count > 1 ? vf_concretize(vf_range(0, count - 1, "skeleton")) : 0];
    static Stream s; fill(s, f.s, f.n);
    clientStream(s, bodyCap, intercepted);
}
static void serverFamilies(const Tmpl *t, const unsigned count, const bool allModes)
{
    configure(relaxedSetting(allModes), 65536, 65536);
    const Tmpl &f = t[count > 1 ? vf_concretize(vf_range(0, count - 1, "skeleton")) : 0];
    static Stream s; fill(s, f.s, f.n);
    serverStream(s);
}
#define CLIENT2(fn, ...) static void fn(void) { static const Tmpl t[] = {__VA_ARGS__}; clientFamilies(t, sizeof(t) / sizeof(*t), true); }
#define CLIENT(fn, ...) static void fn(void) { static const Tmpl t[] = {__VA_ARGS__}; clientFamilies(t, sizeof(t) / sizeof(*t), false); }
#define CLIENT_CAP(fn, cap, ...) static void fn(void) { static const Tmpl t[] = {__VA_ARGS__}; clientFamilies(t, sizeof(t) / sizeof(*t), false, cap); }
#define CLIENT_FWD(fn, ...) static void fn(void) { static const Tmpl t[] = {__VA_ARGS__}; clientFamilies(t, sizeof(t) / sizeof(*t), false, 65536, false); }
#define SERVER2(fn, ...) static void fn(void) { static const Tmpl t[] = {__VA_ARGS__}; serverFamilies(t, sizeof(t) / sizeof(*t), true); }
#define SERVER(fn, ...) static void fn(void) { static const Tmpl t[] = {__VA_ARGS__}; serverFamilies(t, sizeof(t) / sizeof(*t), false); }

// ---- requests
// request-line: both delimiters and a target byte; everything after the version; the version token (HTTP/0.9 included);
// thorough: leading garbage and the terminator, method bytes
CLIENT2(f_req_line,
       L("GET\x01\x01\x01HTTP/1.1\r\n\r\n"),
       L("GET / HTTP/1.1\x01\x01\x01"),
       L("GET /\x01HTTP/\x01.\x01\r\n\r\n")
#ifdef VF_THOROUGH
       , L("\x01\x01GET / HTTP/1.0\r\n\x01\n"),
       L("\x01\x01T / HTTP/1.1\r\nH: v\r\n\r\n")
#endif
       )
// request-target: the whole host and the port of an absolute URI, CONNECT authority; thorough: bracketed IPv6, userinfo,
// origin-form path with a Host field
CLIENT(f_req_target,
       L("GET http://\x01\x01/ HTTP/1.1\r\n\r\n"),
       L("GET http://h.a:\x01\x01/ HTTP/1.1\r\n\r\n"),
       L("CONNECT \x01\x01:44\x01 HTTP/1.1\r\n\r\n")
#ifdef VF_THOROUGH
       , L("GET http://[fc00::\x01]\x01" "8/ HTTP/1.1\r\n\r\n"),
       L("GET ftp://u\x01p@h.a\x01/ HTTP/1.1\r\n\r\n"),
       L("GET /\x01\x01 HTTP/1.0\r\nHost: a\x01\r\n\r\n")
#endif
       )
// a short fully symbolic request-target on a forward-proxy port
CLIENT_FWD(f_req_target_any,
       L(T("GET \x01\x01\x01 HTTP/1.1\r\n\r\n", "GET \x01\x01\x01\x01 HTTP/1.1\r\n\r\n")))
// header block structure: colon, a whole (possibly empty or blank) value and its line end, folding, terminator
CLIENT(f_req_hdr,
       L("GET / HTTP/1.1\r\nHost\x01:v\r\nX: y\r\n\r\n"),
       L("GET / HTTP/1.1\r\nA:\x01\x01X: y\r\n\r\n"),
       L("GET / HTTP/1.1\r\nA: b\r\n\x01\x01\r\nX: y\r\n\r\n"),
       L("GET / HTTP/1.1\r\nX: y\r\n\x01\x01\r\n"))
// field values that HttpRequest::parseHeader() interprets: framing, Range, Cache-Control, Connection, Max-Forwards
CLIENT(f_req_fields,
       L(T("POST / HTTP/1.1\r\nContent-Length: 1\x01\r\nContent-Length:\x01" "1\r\n\r\n",
           "POST / HTTP/1.1\r\nContent-Length: \x01\x01\r\nContent-Length:\x01" "1\r\n\r\n")),
       L(T("GET / HTTP/1.1\r\nRange: bytes=\x01-\x01\r\n\r\n",
           "GET / HTTP/1.1\r\nRange: bytes=\x01\x01-\x01\r\n\r\n")),
       L("GET / HTTP/1.1\r\nCache-Control: max-age=\x01,\x01\r\n\r\n"))
CLIENT(f_req_fields2,
       L("OPTIONS * HTTP/1.1\r\nMax-Forwards: \x01\r\nConnection:\x01" "close\r\n\r\n"),
       L(T("POST / HTTP/1.\x01\r\nTransfer-Encoding:\x01" "chunked\r\n\r\n0\r\n\r\n",
           "POST / HTTP/1.\x01\r\nTransfer-Encoding:\x01" "chunked\x01\r\n\r\n0\r\n\r\n")))
// chunked request body behind a fixed head; output space of 1 or 3 bytes so that the parser is re-entered for lack of space
#define RQ "POST / HTTP/1.1\r\nTransfer-Encoding: chunked\r\n\r\n"
CLIENT_CAP(f_req_chunked, T(1, (vf_concretize(vf_range(0, 1, "cap")) ? 3 : 1)),
       L(RQ "\x02" "2\r\nab\r\n0\r\n\r\n"),
       L(RQ "2\x02\r\nab\r\n0\r\n\r\n"),
       L(RQ "1;\x01\x01\x01\r\nX\r\n0\r\n\r\n"),
       L(RQ "2\r\nXY\x01\x01" "0\r\n\r\n"),
       L(RQ "1\r\nX\r\n0\r\n\x01\x01\x01"))
// two pipelined requests with symbolic bytes around the boundary
CLIENT(f_req_pipeline,
       L("GET / HTTP/1.1\r\n\x01\n\x01" "ET / HTTP/1.1\r\n\r\n"),
       L(RQ "0\r\n\r\n\x01\x01T / HTTP/1.0\r\n\r\n"))

// request_header_max_size close to the message size
static void f_req_limit(void)
{
    const unsigned lim = vf_range(8, 44, "maxRequestHeaderSize");
    configure(relaxedSetting(), lim, 65536);
    static const char lit[] = T("GET /abcdefgh HTTP/1.1\r\nHost: x\r\n\x01\n", "GET /abcdefgh HTTP/1.1\x01\nHost: x\r\n\x01\n");
    static Stream s; fill(s, lit, sizeof(lit) - 1);
    clientStream(s, 65536);
}

// short fully symbolic request streams
#define NREQ T(3, 4)
static void f_req_any(void)
{
    configure(relaxedSetting(), 65536, 65536);
    static Stream s;
    s.n = (unsigned)vf_concretize(vf_range(0, NREQ, "len"));
    for (unsigned i = 0; i < s.n; ++i) s.b[i] = vf_nondet_u8("b");
    s.symLo = 0; s.symHi = s.n;
    clientStream(s, 65536);
}

// ---- replies
#define RP "HTTP/1.1 200 OK\r\n"
// status-line: status bytes, delimiters, minor version, reason, damaged magic (HTTP/0.9), ICY
SERVER2(f_rep_line,
       L("HTTP/1.1 \x01\x01\x01 OK\r\n\r\n"),
       L("HTTP/1.\x01\x01" "200\x01OK\x01\n\r\n"),
       L("HTTP/1.0 404 \x01\x01\x01\n\r\n"),
       L("\x01TTP\x01" "1\x01" "1 200 OK\r\n\r\n"),
       L("ICY\x01" "40\x01\x01" "\r\n\r\n"))
// header block structure
SERVER(f_rep_hdr,
       L(RP "Host\x01:v\r\nX: y\r\n\r\n"),
       L(RP "A:\x01\x01X: y\r\n\r\n"),
       L(RP "A: b\r\n\x01\x01\r\nX: y\r\n\r\n"),
       L("HTTP/1.1 200 OK\x01\nA: b\x01\x01\r\n\x01\n"))
// field values that HttpReply::parseHeader() interprets
SERVER(f_rep_fields,
       L(T(RP "Content-Length: 1\x01\r\nContent-Length:\x01" "1\r\n\r\nab",
           RP "Content-Length: \x01\x01\r\nContent-Length:\x01" "1\r\n\r\nab")),
       L(RP "Cache-Control: max-age=\x01,\x01\r\n\r\n"),
       L(T("HTTP/1.1 206 Partial Content\r\nContent-Range: bytes \x01-1/\x01\r\n\r\n",
           "HTTP/1.1 206 Partial Content\r\nContent-Range: bytes \x01-\x01/\x01\r\n\r\n")))
SERVER(f_rep_fields2,
       L(RP "Surrogate-Control: max-age=\x01;\x01\r\n\r\n"),
       L(T(RP "Connection:\x01" "close\r\nContent-Type: a/b\x01\r\n\r\n",
           RP "Connection:\x01" "close\r\nContent-Type: a/b\x01\x01\r\n\r\n")))
// dates: a byte of each element of the three date formats Time::ParseRfc1123() accepts, and a short free-form value
SERVER(f_rep_dates,
       L(RP "Date: Sun, 06 Nov 1994 08:49:\x01\x01 GMT\r\n\r\n"),
       L(T(RP "Expires: \x01\x01\r\n\r\n",
           RP "Expires: \x01\x01\x01\r\n\r\n")),
       L(RP "Last-Modified: Sunday, 06-Nov-94 08:\x01\x01:37 GMT\r\n\r\n"))
// 1xx control messages in front of the final reply
SERVER(f_rep_1xx,
       L("HTTP/1.1 1\x01\x01 C\r\n\r\n" RP "\r\n"),
       L("HTTP/1.1 100 Continue\r\n\x01\nHTTP/1.\x01 200 OK\r\n\r\n"))
// chunked reply body behind a fixed head
#define RC RP "Transfer-Encoding: chunked\r\n\r\n"
SERVER(f_rep_chunked,
       L(RC "\x02" "2\r\nab\r\n0\r\n\r\n"),
       L(RC "2\x02\r\nab\r\n0\r\n\r\n"),
       L(RC "1;\x01\x01\x01\r\nX\r\n0\r\n\r\n"),
       L(RC "2\r\nXY\x01\x01" "0\r\n\r\n"),
       L(RC "1\r\nX\r\n0\r\n\x01\x01\x01"))
SERVER(f_rep_chunked2,
       L(RC "1;a=\"\x01\x01\x01\"\r\nX\r\n0\r\n\r\n"),
       L(RC "1\r\nX\r\n\x02\r\n\r\n"),
       L(RC "\x01" "fffffffffffffff\x01\r\nX"),
       L(RP "Transfer-Encoding:\x01" "chunked\x01\r\n\r\n0\r\n\r\n"))

// reply_header_max_size close to the message size
static void f_rep_limit(void)
{
    const unsigned lim = vf_range(8, 44, "maxReplyHeaderSize");
    configure(relaxedSetting(), 65536, lim);
    static const char lit[] = T("HTTP/1.1 200 OK\r\nServer: abcdefg\r\n\x01\n", "HTTP/1.1 200 OK\x01\nServer: abcdefg\r\n\x01\n");
    static Stream s; fill(s, lit, sizeof(lit) - 1);
    serverStream(s);
}

// short fully symbolic reply streams
#define NREP T(5, 6)
static void f_rep_any(void)
{
    configure(relaxedSetting(), 65536, 65536);
    static Stream s;
    s.n = (unsigned)vf_concretize(vf_range(0, NREP, "len"));
    for (unsigned i = 0; i < s.n; ++i) s.b[i] = vf_nondet_u8("b");
    s.symLo = 0; s.symHi = s.n;
    serverStream(s);
}

// short fully symbolic chunked bodies (the head has been parsed already)
#define NCHUNK T(1, 2)
static void f_chunk_any(void)
{
    configure(relaxedSetting(false), 65536, 65536);
    static Stream s;
    static const char head[] = RC;
    unsigned n = sizeof(head) - 1;
    memcpy(s.b, head, n);
    const unsigned k = (unsigned)vf_concretize(vf_range(1, NCHUNK, "len"));
    s.symLo = n;
    for (unsigned i = 0; i < k; ++i) s.b[n++] = sizeByte();
    s.n = n; s.symHi = n;
    serverStream(s);
}

// ---------------------------------------------------------------------------------------------- entries
// A few families per entry (fewer engine start-ups and native replay binaries); the family is a case split.
typedef void Family(void);
static void pick(Family *const *f, const unsigned n) { f[n > 1 ? vf_concretize(vf_range(0, n - 1, "family")) : 0](); }
#define ENTRY(name, ...) extern "C" void name(void) { static Family *const f[] = {__VA_ARGS__}; pick(f, sizeof(f) / sizeof(*f)); }
ENTRY(c09_req_any, f_req_any, f_req_target_any)
ENTRY(c09_req_line, f_req_line)
ENTRY(c09_req_target, f_req_target)
ENTRY(c09_req_hdr, f_req_hdr, f_req_pipeline)
ENTRY(c09_req_fields, f_req_fields, f_req_fields2)
ENTRY(c09_req_body, f_req_chunked, f_req_limit)
ENTRY(c09_rep_any, f_rep_any, f_chunk_any)
ENTRY(c09_rep_line, f_rep_line, f_rep_1xx, f_rep_limit)
ENTRY(c09_rep_hdr, f_rep_hdr, f_rep_dates)
ENTRY(c09_rep_fields, f_rep_fields, f_rep_fields2)
ENTRY(c09_rep_chunked, f_rep_chunked, f_rep_chunked2)

// A Host field value around the size of the 1024-byte static buffer getHostHeaderField() copies it into (intercepting port): 1021..1026
// value bytes, all 'a' except the last, which is symbolic; delivered in one piece
extern "C" void c09_req_long_host(void)
{
    configure(relaxedSetting(false), 65536, 65536);
    static uint8_t in[1200];
    unsigned n = 0;
    for (const char *c = "GET / HTTP/1.1\r\nHost: "; *c; ++c) in[n++] = (uint8_t)*c;
    const unsigned len = 1021 + (unsigned)vf_concretize(vf_range(0, 5, "hostLength"));
    for (unsigned i = 0; i + 1 < len; ++i) in[n++] = 'a';
    in[n++] = vf_nondet_u8("b");
    for (const char *c = "\r\n\r\n"; *c; ++c) in[n++] = (uint8_t)*c;
    Client c(65536, true, true);
    c.read(in, n);
    vf_observe("ok", c.nOk); vf_observe("err", c.nErr); vf_observe("left", c.inBuf.length());
    vf_reach(c.nOk ? "request-accepted" : c.nErr ? "request-refused" : "request-incomplete");
    WITNESS_POINT();
}
