// C28: Range canonicalisation preserves the requested byte set.
// Real code: HttpHdrRange::ParseCreate -> parseInit -> strListGetItem / HttpHdrRangeSpec::parseInit (httpHeaderParseOffset),
// then HttpHdrRange::canonize(clen) -> HttpHdrRangeSpec::canonize (Range<>::intersection/size) -> merge.
// Symbolic: bytes of the Range field value (skeleton families + short fully symbolic values), the representation
// length clen in [0, 2^63), a probe byte position p in [0, 2^63); in c28_canon the parsed spec fields themselves.
// Oracle: (1) an independent reference parser of "bytes=" #( first "-" [last] | "-" suffix ) giving the requested
// (first,last,suffix) triples in 128-bit arithmetic; (2) the probe formulation of set equality:
//   p in union(canonical specs)  <=>  p < clen and p in some requested spec,   for the symbolic p,
// plus: every canonical spec is non-empty and inside [0,clen); canonize() reports "valid" iff a spec survived.
// Signed-overflow/shift queries are enabled in HttpHdrRange.cc and base/Range.h (spec: ub=True).
// One input class is a recorded finding (known_findings.json, C28-lenient-spec): it is examined, with the strict assertion, by
// its own entry c28_known_lenient_spec and excluded by vf_assume everywhere else.
#include "squid.h"
#include "common.h"
#include "HttpHeaderRange.h"
#include "SquidString.h"
#include <cstring>

typedef __int128 I128;
static const int64_t MAX63 = INT64_MAX;
#define MAXSPECS 4

// what one byte-range-spec asks for; last < 0: open ended; first < 0: suffix of `suffix` bytes
struct Req { I128 first, last, suffix; };          // as the reference parser reads it (128-bit: no overflow whatever the digits)
struct Req64 { int64_t first, end, suffix; };     // the same once known to fit 63 bits; end = last + 1 (exclusive), -1: open ended

static bool isCSpace(unsigned char c) { return c == ' ' || (c >= 9 && c <= 13); }   // C isspace(): what strtoll() skips
static bool isWs(unsigned char c) { return isCSpace(c); }                             // whitespace around list items, as Squid's lists define it
static bool isDig(unsigned char c) { return c >= '0' && c <= '9'; }

// 1*DIGIT at s[i..e): value (saturating far above 2^63) and the index after the digits; false if no digit
static bool refDigits(const unsigned char *s, unsigned &i, const unsigned e, I128 &v)
{
    const unsigned b = i;
    v = 0;
    for (; i < e && isDig(s[i]); ++i)
        if (v < ((I128)1 << 80)) v = v * 10 + (s[i] - '0');
    return i > b;
}

// strict byte-range-spec / suffix-byte-range-spec over exactly s[b..e)
enum Cls { STRICT_OK, INVALID, LENIENT_ONLY };
static bool refStrict(const unsigned char *s, const unsigned b, const unsigned e, Req &r)
{
    unsigned i = b;
    r.first = r.last = r.suffix = -1;
    if (i < e && s[i] == '-') {
        ++i;
        return refDigits(s, i, e, r.suffix) && i == e && r.suffix <= MAX63;
    }
    if (!refDigits(s, i, e, r.first) || r.first > MAX63) return false;
    if (i >= e || s[i] != '-') return false;
    ++i;
    if (i == e) return true;                                  // "first-"
    if (!refDigits(s, i, e, r.last) || i != e || r.last > MAX63) return false;
    return r.last >= r.first;                                 // RFC 7233: last-byte-pos < first-byte-pos is invalid
}

// The tolerant reading of a number that C's strtoll() gives: isspace*, optional sign, 1*DIGIT; whatever follows is not looked at.
static bool lenientNumber(const unsigned char *s, unsigned i, I128 &v)
{
    while (isCSpace(s[i])) ++i;
    bool neg = false;
    if (s[i] == '-') { neg = true; ++i; } else if (s[i] == '+') ++i;
    unsigned e = i; while (isDig(s[e])) ++e;
    if (!refDigits(s, i, e, v)) return false;
    if (neg) v = -v;
    return v >= 0 && v <= MAX63;
}
// Is there *some* tolerant reading of s[b..e) as a range spec (number prefixes, junk after numbers ignored)?
// Used only to delimit the KNOWN-FINDING candidate class below; s is NUL-terminated.
static bool refLenient(const unsigned char *s, const unsigned b, unsigned e)
{
    I128 a, l;
    if (e - b < 2) return false;
    if (s[b] == '-') return lenientNumber(s, b + 1, a);
    unsigned d = b; while (d < e && s[d] != '-') ++d;
    if (d == e) return false;
    if (!lenientNumber(s, b, a)) return false;
    if (d + 1 == e) return true;
    return lenientNumber(s, d + 1, l) && l >= a;
}

// list syntax: items separated by ',' with optional whitespace; a comma inside a quoted-string does not separate
struct RefHeader { bool someInvalid, someLenientOnly; unsigned n; Req req[MAXSPECS]; };
static RefHeader reference(const unsigned char *s /* after "bytes=" */, const unsigned len)
{
    RefHeader h; h.someInvalid = h.someLenientOnly = false; h.n = 0;
    unsigned i = 0;
    for (;;) {
        while (i < len && (isWs(s[i]) || s[i] == ',')) ++i;
        if (i >= len) break;
        const unsigned b = i;
        bool quoted = false;
        for (; i < len; ++i) {
            if (s[i] == '"') quoted = !quoted;
            else if (quoted && s[i] == '\\') { if (i + 1 < len) ++i; }
            else if (!quoted && s[i] == ',') break;
        }
        unsigned e = i;
        while (e > b && isWs(s[e - 1])) --e;
        Req r;
        if (refStrict(s, b, e, r)) { if (h.n < MAXSPECS) h.req[h.n] = r; ++h.n; }
        else if (refLenient(s, b, e)) h.someLenientOnly = true;
        else h.someInvalid = true;
    }
    return h;
}

// all quantities are in [0,2^63): sums are computed in uint64_t and cannot wrap
static bool reqContains(const Req64 &r, const uint64_t clen, const uint64_t p)
{
    const bool inSuffix = p + (uint64_t)r.suffix >= clen;         // one of the last `suffix` bytes
    const bool inRange = (p >= (uint64_t)r.first) & ((r.end < 0) | (p < (uint64_t)r.end));
    return (p < clen) & (r.first < 0 ? inSuffix : inRange);      // (r.first < 0, r.end < 0 are structure: concrete per path)
}

// ---- canonicalise the parsed/constructed header and compare with the requested byte set
// Decided in two steps so that the common case needs no reasoning about the probe: (1) "exact": the canonical list is, in
// order, each satisfiable spec clipped to [0,clen) (that is what Squid does while range merging is compiled out); exact
// implies the three properties below by construction of lo/hi. (2) only if some input can make the list differ from that
// (a changed canonize()/merge()), the properties themselves are asserted through the symbolic probe position p:
//   p in union(canonical)  <=>  p < clen and p in some requested spec.
static void checkCanon(HttpHdrRange *hr, const Req64 *req, const unsigned n)
{
    const uint64_t clen = vf_nondet_u64("clen");
    vf_assume(clen <= (uint64_t)MAX63);   // Http::Stream::buildRangeHeader() refuses ranges when the length is unknown (< 0)
    (void)hr->willBeComplex();                                    // called on every parsed Range header; arithmetic checked only
    const int valid = hr->canonize((int64_t)clen);
    vf_observe("valid", valid); vf_observe("nspecs", hr->specs.size());
    vf_assert((valid != 0) == (hr->begin() != hr->end()), "canonize() reports valid iff some range is left");
    // reference: clip every requested spec; lo < hi <= clen iff satisfiable
    bool exact = true;
    unsigned c = 0;
    const unsigned nc = hr->specs.size();
    for (unsigned k = 0; k < n; ++k) {
        const Req64 &r = req[k];
        int64_t lo, hi;   // all quantities are in [0,2^63]
        if (r.first < 0) { lo = r.suffix < (int64_t)clen ? (int64_t)clen - r.suffix : 0; hi = (int64_t)clen; }
        else { lo = r.first; hi = (r.end < 0 || (int64_t)clen < r.end) ? (int64_t)clen : r.end; }
        if (lo < hi) {                                           // satisfiable (symbolic: one path per satisfiability pattern)
            if (c < nc) {
                const int64_t off = hr->specs[c]->offset, l = hr->specs[c]->length;
                exact = exact & (off == lo) & ((uint64_t)off + (uint64_t)l == (uint64_t)hi);
            }
            ++c;
        }
    }
    exact = exact & (c == nc);
    if (!exact) {
        vf_reach("inexact");
        const uint64_t p = vf_nondet_u64("probe");
        vf_assume(p <= (uint64_t)MAX63);
        bool inCanon = false, wellFormed = true, inReq = false;
        for (unsigned k = 0; k < nc; ++k) {
            const int64_t off = hr->specs[k]->offset, l = hr->specs[k]->length;
            const bool ok = (l > 0) & (off >= 0) & ((uint64_t)off <= clen) & ((uint64_t)l <= clen - (uint64_t)off);
            wellFormed = wellFormed & ok;
            inCanon = inCanon | (ok & (p >= (uint64_t)off) & (p - (uint64_t)off < (uint64_t)l));
        }
        for (unsigned k = 0; k < n; ++k) inReq = inReq | reqContains(req[k], clen, p);
        vf_assert(wellFormed, "every canonical range is non-empty and lies within the representation");
        vf_assert(inCanon == inReq, "canonical ranges cover exactly the requested bytes of the representation");
    }
    if (valid) { (void)hr->isComplex(); vf_reach("satisfiable"); } else vf_reach("unsatisfiable");
}

static bool onlyLenientSpec = false;    // set by c28_known_lenient_spec only
// ---- parse `text` (NUL-free) as the value of a Range header
static void checkHeader(const unsigned char *text, const unsigned len, const bool bytesPrefixOk, const bool thenCanonize)
{
    vf_quiet();
    for (unsigned i = 6; i < len; ++i) vf_assume(text[i] != 0);   // a header field value cannot contain NUL (rejected by the message parser)
    const RefHeader ref = reference(text + 6, len - 6);
    // KNOWN FINDING (known_findings.json, C28-lenient-spec): HttpHdrRangeSpec::parseInit reads its numbers with strtoll() and
    // never looks at what follows them, so syntactically invalid specs such as "1x-2", "+1-2", "1- 2", "-5x", "1-2-3" are accepted
    // (as 1-2, -5, ...) instead of making Squid ignore the header. That class (some item is not a valid spec but has a tolerant
    // reading) is examined by c28_known_lenient_spec only; every other entry excludes exactly it.
    vf_assume(ref.someLenientOnly == onlyLenientSpec);
    String value;
    value.assign(reinterpret_cast<const char *>(text), (int)len);
    HttpHdrRange *hr = HttpHdrRange::ParseCreate(&value);
    const bool expectAccept = bytesPrefixOk && !ref.someInvalid && !ref.someLenientOnly && ref.n > 0;
    vf_observe("accepted", hr != nullptr);
    vf_assert((hr != nullptr) == expectAccept, "header accepted iff it is 'bytes=' + a non-empty list of valid specs (any invalid spec: ignored entirely)");
    if (!hr) { vf_reach("ignored"); WITNESS_POINT(); return; }
    if (onlyLenientSpec) { delete hr; return; }                   // the known entry keeps the strict assertion above and nothing else
    vf_assert(hr->specs.size() == ref.n && ref.n <= MAXSPECS, "one parsed spec per listed spec");
    Req64 req[MAXSPECS];
    for (unsigned k = 0; k < ref.n; ++k) {
        const HttpHdrRangeSpec *s = hr->specs[k];
        // (equal to the reference's reading by the assertions below; the 64-bit copy keeps the canonicalisation queries narrow)
        req[k].first = s->offset; req[k].suffix = s->offset < 0 ? s->length : -1;
        req[k].end = (s->offset < 0 || s->length < 0) ? -1 : (int64_t)((uint64_t)s->offset + (uint64_t)s->length);
        const Req &r = ref.req[k];
        vf_observe("offset", (uint64_t)s->offset); vf_observe("length", (uint64_t)s->length);
        if (r.first < 0)
            vf_assert(s->offset == -1 && (I128)s->length == r.suffix, "suffix spec parsed exactly");
        else if (r.last < 0)
            vf_assert((I128)s->offset == r.first && s->length == -1, "open-ended spec parsed exactly");
        else
            // last-byte-pos 2^63-1 is read as 2^63-2 (parseInit() clips it so that last+1 fits; no representation has that byte)
            vf_assert((I128)s->offset == r.first && (I128)s->length == (r.last == MAX63 ? r.last - 1 : r.last) - r.first + 1, "first-last spec parsed exactly");
    }
    vf_reach("accepted");
    if (thenCanonize) checkCanon(hr, req, ref.n);    // end to end; the other families stop here: c28_canon* cover every spec parseInit() can produce
    delete hr;
    WITNESS_POINT();
}

#define FAMILY(fn, lit, e2e) extern "C" void fn(void) { \
    static const char t[] = lit; unsigned char in[sizeof(t)]; \
    for (unsigned i = 0; i < sizeof(t); ++i) in[i] = t[i] == '\x01' ? vf_nondet_u8("b") : (unsigned char)t[i]; \
    checkHeader(in, sizeof(t) - 1, true, e2e); }

#ifdef VF_THOROUGH
#define T(quick, thorough) thorough
#else
#define T(quick, thorough) quick
#endif
// one spec, every byte but the dash symbolic (digits, second dash, whitespace, signs, junk)
FAMILY(c28_one, "bytes=\x01\x01-\x01", false)
// the same end to end (parse, then canonicalise against every clen)
FAMILY(c28_e2e, T("bytes=\x01-\x01", "bytes=\x01\x01-\x01"), true)
FAMILY(c28_e2e_suffix, T("bytes=-\x01\x01", "bytes=-\x01\x01,\x01-"), true)
// suffix / open forms and what follows them
FAMILY(c28_suffix, "bytes=-\x01\x01,\x01-", false)
// two specs: an invalid one anywhere makes the whole header ignored; separators and whitespace symbolic
FAMILY(c28_list, T("bytes=1-3\x01\x01" "5-\x01", "bytes=\x01-3\x01\x01" "5-\x01"), false)
FAMILY(c28_ws, T("bytes=\x01" "0-1\x01,\x01-4", "bytes=\x01" "0-1\x01,\x01-4\x01"), false)
// 63-bit extremes: digits around INT64_MAX in first, last and suffix position
FAMILY(c28_big_last, "bytes=\x01-922337203685477580\x01\x01", false)
FAMILY(c28_big_first, "bytes=922337203685477580\x01-\x01", false)
FAMILY(c28_big_both, "bytes=922337203685477580\x01-922337203685477580\x01", false)
FAMILY(c28_big_suffix, "bytes=-922337203685477580\x01\x01", false)
#ifdef VF_THOROUGH
FAMILY(c28_list3, "bytes=\x01-\x01,-\x01\x01" "\x01-", false)
FAMILY(c28_quote, "bytes=1-2\x01\x01\x01\x01" "3-4", false)
#endif
#define NANY T(3, 4)

// short fully symbolic field values, including the "bytes=" prefix check
extern "C" void c28_any(void)
{
    const unsigned n = (unsigned)vf_concretize(vf_range(0, NANY, "len"));
    unsigned char in[6 + NANY + 1];
    memcpy(in, "bytes=", 6);
    for (unsigned i = 0; i < n; ++i) in[6 + i] = vf_nondet_u8("b");
    in[6 + n] = 0;
    checkHeader(in, 6 + n, true, false);
}
extern "C" void c28_prefix(void)
{
    static const char t[] = "bytes=0-1";
    unsigned char in[sizeof(t)];
    memcpy(in, t, sizeof(t));
    const unsigned k = (unsigned)vf_concretize(vf_range(0, 5, "pos"));
    in[k] = vf_nondet_u8("b");
    vf_assume(in[k] != 0);
    const unsigned char c = in[k], want = (unsigned char)t[k];
    const bool same = c == want || (want != '=' && (c == want - 32));    // range unit is case-insensitive in Squid (and RFC 7233)
    checkHeader(in, sizeof(t) - 1, same, false);
}

// ---- canonicalisation over the whole 63-bit value range: the specs parseInit() can produce, built directly
static void canonFamily(const unsigned n)
{
    vf_quiet();
    HttpHdrRange *hr = new HttpHdrRange;
    Req64 req[MAXSPECS];
    for (unsigned k = 0; k < n; ++k) {
        const unsigned kind = (unsigned)vf_concretize(vf_range(0, 2, "kind"));
        const int64_t a = (int64_t)vf_nondet_u64("a");
        vf_assume(a >= 0);
        HttpHdrRangeSpec *s = new HttpHdrRangeSpec;
        req[k].first = req[k].end = req[k].suffix = -1;
        if (kind == 0) {            // first-last as parseInit() leaves it: length = min(last, 2^63-2) - first + 1 (0 only for first = last = 2^63-1)
            const int64_t len = (int64_t)vf_nondet_u64("len");
            vf_assume(len <= MAX63 - a && (len >= 1 || (len == 0 && a == MAX63)));
            s->offset = a; s->length = len;
            req[k].first = a; req[k].end = (int64_t)((uint64_t)a + (uint64_t)len);
        } else if (kind == 1) {     // first-
            s->offset = a; req[k].first = a;
        } else {                    // -suffix
            s->length = a; req[k].suffix = a;
        }
        hr->specs.push_back(s);
    }
    checkCanon(hr, req, n);
    delete hr;
    WITNESS_POINT();
}
// list handling (dropping unsatisfiable specs, keeping order) with 1..3 specs from a concrete menu against every clen
extern "C" void c28_canon_list(void)
{
    vf_quiet();
    static const Req64 menu[] = { {2, 5, -1}, {4, -1, -1}, {-1, -1, 3}, {7, INT64_MAX, -1}, {0, 1, -1}, {-1, -1, 0} };
    const unsigned n = (unsigned)vf_concretize(vf_range(1, T(2, 3), "nspecs"));
    HttpHdrRange *hr = new HttpHdrRange;
    Req64 req[MAXSPECS];
    for (unsigned k = 0; k < n; ++k) {
        req[k] = menu[vf_concretize(vf_range(0, T(3, 5), "spec"))];
        HttpHdrRangeSpec *s = new HttpHdrRangeSpec;
        if (req[k].first >= 0) s->offset = req[k].first;
        s->length = req[k].first < 0 ? req[k].suffix : req[k].end < 0 ? -1 : req[k].end - req[k].first;
        hr->specs.push_back(s);
    }
    checkCanon(hr, req, n);
    delete hr;
    WITNESS_POINT();
}
extern "C" void c28_canon1(void) { canonFamily(1); }
extern "C" void c28_canon2(void) { canonFamily(2); }
extern "C" void c28_canon3(void) { canonFamily(3); }

// KNOWN FINDING (known_findings.json, C28-lenient-spec): specs with a strtoll()-tolerant reading only
FAMILY(c28_known_lenient_spec_, "bytes=1\x01-2\x01", false)
extern "C" void c28_known_lenient_spec(void) { onlyLenientSpec = true; c28_known_lenient_spec_(); }
