# Properties not claimed, with the reason (see DESIGN.md section 5).
NA = {
 "C06": "TunnelStateData is nothing but comm read/write callbacks on two live sockets; there is no input->output kernel separable from the asynchronous I/O engine that a bounded symbolic execution could encode",
 "C08": "a property of whole-process histories against the kernel's descriptor table; no bounded function computes it and the event loop/comm layer cannot be encoded",
 "C16": "needs process kills between real disk writes of asynchronous DiskIO; only the rebuild side is encodable (decided under C57)",
 "C17": "two process lifetimes and real swap.state/rock files; outside what symbolic execution of a unit can reach",
 "C18": "concurrency between client transactions in the event loop and between worker processes; no synchronous kernel",
 "C19": "multiple processes, diskers and UDS IPC; the shared-memory primitives it rests on are decided under C53-C56",
 "C45": "requires squid.conf parsing and a running transaction; the decision procedure itself is decided under C44",
 "C46": "helper processes, credential cache TTLs and connection state over time; the credential decoding kernel is decided under C36",
 "C60": "ModXact is an asynchronous job over comm I/O and BodyPipes with no synchronous kernel",
}
