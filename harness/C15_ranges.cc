// C15 (kernel): range responses contain exactly the requested bytes.
//
// Real code: Http::Stream::buildRangeHeader / prepareReply / getNextRangeOffset / lengthToSend / canPackMoreRanges / packRange /
// noteSentBodyBytes (src/http/Stream.cc), ClientHttpRequest::prepPartialResponseGeneration / mRangeCLen / rangeBoundaryStr,
// clientPackRangeHdr / clientPackTermBound (src/client_side.cc), HttpHdrRange::canonize / isComplex / offsetLimitExceeded,
// HttpHdrRangeIter (src/HttpHdrRange.cc), httpHeaderAddContRange / httpHdrContRangeSet / HttpHdrContRange packing,
// HttpReply::pack, MemBuf.
//
// The harness plays the two neighbours of Http::Stream in the client stream:
//  * the store side (clientReplyContext + store_client): the stored 200 reply with Content-Length clen, the first body buffer
//    (offset 0, as processReplyAccessResult() delivers it) and then, for every offset Http::Stream::pullData() would ask for
//    (getNextRangeOffset()), a buffer that starts exactly there; buffer lengths are symbolic;
//  * the connection side: what sendStartOfMessage()/sendBody() hand to ConnStateData::write() is appended to out[]
//    (those two functions and writeComplete()/socketState() are mirrored, see deliver()/roundTrip(): they need a live
//    ConnStateData job).
// c15_single/c15_multi/c15_big: the request's range specs are built as HttpHdrRangeSpec::parseInit() leaves them (first-last,
// first-, -suffix; numbers symbolic, case-split so that the generated header text is concrete), the object bytes are symbolic.
// Oracle: the text of the response is parsed by the harness (status, Content-Range, Content-Length, multipart boundaries)
// and compared with the object: every part's bytes are object[a..b] for the a-b/clen its Content-Range states, the parts
// together are exactly the satisfiable requested bytes, Content-Length is the body length actually sent; a 200 carries the
// whole object; nothing satisfiable => no 206.
// c15_arith: one canonical spec with fully symbolic 62-bit offset/length/clen: the (object offset, length) pieces emitted
// over up to 3 buffers of symbolic length are contiguous from spec.offset, never beyond spec end, and every pull asks for
// the first byte still missing.
#include "squid.h"
#include <sstream>
#include <functional>
#include <chrono>
#include <atomic>
#include <iostream>
#include <string>
#include <vector>
#include <list>
#include <map>
#include <unordered_map>
#include <memory>
#include <algorithm>
#include <optional>
#include "debug/Stream.h"
#include "SquidString.h"
#include "sbuf/SBuf.h"
#include "base/RefCount.h"
#include "base/TextException.h"
#include "MemBuf.h"
#define private public
#define protected public
#include "http/Stream.h"
#include "client_side_request.h"
#include "HttpRequest.h"
#include "HttpReply.h"
#include "HttpHeaderRange.h"
#include "HttpHdrContRange.h"
#include "Store.h"
#include "MemObject.h"
#include "AccessLogEntry.h"
#undef private
#undef protected
#include "MasterXaction.h"
#include "mem/Allocator.h"
#include "mem/Pool.h"
#include "PingData.h"
#include "StatHist.h"
#include "SquidConfig.h"
#include "common.h"

// ---------------------------------------------------------------- environment stubs
ping_data::ping_data(): n_sent(0), n_recv(0), n_replies_expected(0), timeout(0), timedout(0), w_rtt(0), p_rtt(0)
{
    start.tv_sec = 0; start.tv_usec = 0; stop.tv_sec = 0; stop.tv_usec = 0;
}
void StatHist::enumInit(unsigned int) {}
void StatHist::count(double) {}
const char *null_string = "";                   // globals.cc is not linked
const char *visible_appname_string = "squid";
const char *StoreEntry::getMD5Text() const { return "0123456789ABCDEF0123456789ABCDEF"; } // store.cc is not linked (boundary text)
void fatal(const char *) { vf_assert(0, "fatal() reached"); }
// cbdata.cc (new MemBuf) allocates through memory pools: a pool here is the plain heap
struct PlainPool: public Mem::Allocator {
    PlainPool(const char *l, size_t sz): Mem::Allocator(l, sz) {}
    size_t getStats(Mem::PoolStats &) override { return 0; }
    bool idleTrigger(int) const override { return false; }
    void clean(time_t) override {}
    void *allocate() override { return xcalloc(1, objectSize); }
    void deallocate(void *p) override { xfree(p); }
};
MemPools::MemPools() {}
MemPools &MemPools::GetInstance() { static MemPools *p = new MemPools; return *p; }
Mem::Allocator *MemPools::create(const char *label, size_t sz) { return new PlainPool(label, sz); }

template <class T> static inline T *rawObject() { return static_cast<T *>(xcalloc(1, sizeof(T))); }

#define WIN 8          // object bytes that exist as symbolic data: positions base .. base+WIN-1
#define OUTMAX 1024

struct ReqSpec { int kind; int64_t first, last, suffix; }; // kind 0: first-last, 1: first-, 2: -suffix (as the client wrote it)

struct World {
    int64_t base, clen;             // the object is clen bytes long; bytes base..clen-1 are win[0..]
    uint8_t win[WIN];
    uint8_t head[4];                // stands for object bytes 0.. when base > 0 (never sent: all specs lie in the window)
    HttpRequest *request;
    HttpReply *stored, *rep;
    ClientHttpRequest *http;
    Http::Stream *stream;
    uint8_t out[OUTMAX];
    unsigned outLen, writes;

    void setup(const int64_t aBase, const unsigned winLen, const bool hit, const int64_t offsetLimit)
    {
        vf_quiet();
        base = aBase; clen = aBase + winLen; outLen = writes = 0;
        for (unsigned i = 0; i < winLen; ++i) win[i] = vf_nondet_u8("object");
        for (unsigned i = 0; i < 4; ++i) head[i] = vf_nondet_u8("objectHead");
        request = new HttpRequest(MasterXaction::MakePortful(nullptr));
        request->lock();
        request->range = new HttpHdrRange;
        request->rangeOffsetLimit = offsetLimit; // what getRangeOffsetLimit() computes from range_offset_limit once per request
        stored = makeReply();
        rep = makeReply();           // clientReplyContext::buildReplyHeader() works on a clone of the stored reply
        StoreEntry *entry = rawObject<StoreEntry>();
        MemObject *mem = rawObject<MemObject>();
        mem->reply_ = stored;
        entry->mem_obj = mem;
        AccessLogEntry *al = rawObject<AccessLogEntry>();
        al->cache.code.oldType = hit ? LOG_TCP_HIT : LOG_TCP_MISS;
        http = rawObject<ClientHttpRequest>();
        *const_cast<HttpRequest **>(&http->request) = request;
        memcpy(const_cast<AccessLogEntry::Pointer *>(&http->al), &al, sizeof(al)); // raw pointer, never locked
        http->entry_ = entry;
        stream = new Http::Stream(nullptr, http);
        stream->lock();
    }
    HttpReply *makeReply() const
    {
        HttpReply *r = new HttpReply;
        r->lock();
        r->sline.set(Http::ProtocolVersion(1, 1), Http::scOkay);
        r->header.putStr(Http::HdrType::CONTENT_TYPE, "text/plain");
        r->header.putInt64(Http::HdrType::CONTENT_LENGTH, clen);
        r->content_length = clen;
        return r;
    }
    void addSpec(const ReqSpec &s)
    {
        HttpHdrRangeSpec *spec = new HttpHdrRangeSpec; // both fields UnknownPosition
        if (s.kind == 0) { spec->offset = s.first; spec->length = s.last + 1 - s.first; }
        else if (s.kind == 1) spec->offset = s.first;
        else spec->length = s.suffix;
        request->range->specs.push_back(spec);
    }
    uint8_t objectByte(const int64_t pos) const { return win[pos - base]; }

    // ---- connection side
    void write(const char *p, const size_t n)
    {
        vf_assert(outLen + n <= OUTMAX, "harness: out[] large enough");
        for (size_t i = 0; i < n; ++i) out[outLen++] = (uint8_t)p[i];
        ++writes;
    }
    // Http::Stream::sendStartOfMessage() / sendBody() without delay pools, chunking and the ConnStateData::write() call
    void deliver(const bool first, StoreIOBuffer bodyData)
    {
        if (first) {
            stream->prepareReply(rep);
            MemBuf *mb = rep->pack();
            http->out.headers_sz = mb->contentSize();
            if (bodyData.data && bodyData.length) {
                if (stream->multipartRangeRequest())
                    stream->packRange(bodyData, mb);
                else {
                    const size_t length = stream->lengthToSend(bodyData.range());
                    stream->noteSentBodyBytes(length);
                    mb->append(bodyData.data, length);
                }
            }
            write(mb->content(), mb->contentSize());
            delete mb;
            return;
        }
        if (!stream->multipartRangeRequest()) {
            const size_t length = stream->lengthToSend(bodyData.range());
            stream->noteSentBodyBytes(length);
            write(bodyData.data, length);
            return;
        }
        MemBuf mb;
        mb.init();
        stream->packRange(bodyData, &mb);
        if (mb.contentSize()) write(mb.content(), mb.contentSize());
        mb.clean();
    }
    // store side + writeComplete()/socketState()/pullData(): returns true when the stream reports completion
    bool roundTrip(const unsigned maxBuf, const unsigned maxRounds)
    {
        int64_t off = 0;
        for (unsigned round = 0; round < maxRounds; ++round) {
            const int64_t avail = clen - off;
            const unsigned hi = avail < (int64_t)maxBuf ? (unsigned)avail : maxBuf;
            // the first buffer may be empty (headers only); later ones carry at least one byte unless the object has ended
            const unsigned len = (unsigned)vf_concretize(vf_range(round == 0 || !hi ? 0 : 1, hi, "bufLen"));
            StoreIOBuffer bodyData;
            bodyData.offset = off;
            bodyData.length = len;
            bodyData.data = reinterpret_cast<char *>(off >= base ? win + (off - base) : head + off);
            if (off < base) vf_assert(off + len <= 4, "harness: head[] large enough");
            deliver(round == 0, bodyData);
            // writeComplete() -> socketState()
            if (request->range) {
                if (!stream->canPackMoreRanges()) return true;
            } else if (http->out.offset >= clen)
                return true; // clientReplyStatus(): the whole object has been sent
            if (round > 0 && !len) return false; // store hit the end of the object without the stream completing
            if (base && !request->range) return false; // a 200 for an object that is not materialised: headers only
            off = stream->getNextRangeOffset(); // pullData()
            vf_assert(off >= 0 && off <= clen, "pullData() asks for an offset inside the object");
        }
        return false;
    }
};

// ---------------------------------------------------------------- response text parser (headers are concrete on every path)
struct Resp {
    int status;
    unsigned hdrEnd;                 // index of the first body byte
    bool hasCL, hasCR, multipart;
    int64_t contentLength, a, b, total;
    char boundary[80];
};
static bool litAt(const uint8_t *p, const unsigned n, const unsigned at, const char *lit)
{
    for (unsigned i = 0; lit[i]; ++i) if (at + i >= n || p[at + i] != (uint8_t)lit[i]) return false;
    return true;
}
static bool number(const uint8_t *p, const unsigned n, unsigned &at, int64_t &v)
{
    const unsigned b = at;
    __int128 acc = 0;
    for (; at < n && p[at] >= '0' && p[at] <= '9'; ++at) { acc = acc * 10 + (p[at] - '0'); if (acc > INT64_MAX) return false; }
    v = (int64_t)acc;
    return at > b;
}
// "bytes a-b/total" at p[at..]; leaves at after the total
static bool contRange(const uint8_t *p, const unsigned n, unsigned &at, int64_t &a, int64_t &b, int64_t &total)
{
    if (!litAt(p, n, at, "bytes ")) return false;
    at += 6;
    if (!number(p, n, at, a) || !litAt(p, n, at, "-")) return false;
    ++at;
    if (!number(p, n, at, b) || !litAt(p, n, at, "/")) return false;
    ++at;
    return number(p, n, at, total);
}
// header lines from p[at..] up to and including the empty line; fills the fields it knows
static bool headerBlock(const uint8_t *p, const unsigned n, unsigned &at, Resp &r)
{
    for (;;) {
        if (litAt(p, n, at, "\r\n")) { at += 2; return true; }
        if (litAt(p, n, at, "Content-Length: ")) { at += 16; if (r.hasCL || !number(p, n, at, r.contentLength)) return false; r.hasCL = true; }
        else if (litAt(p, n, at, "Content-Range: ")) { at += 15; if (r.hasCR || !contRange(p, n, at, r.a, r.b, r.total)) return false; r.hasCR = true; }
        else if (litAt(p, n, at, "Content-Type: multipart/byteranges; boundary=\"")) {
            at += 46;
            unsigned k = 0;
            for (; at < n && p[at] != '"' && k + 1 < sizeof(r.boundary); ++at) r.boundary[k++] = (char)p[at];
            r.boundary[k] = 0;
            r.multipart = true;
        }
        while (at < n && p[at] != '\n') ++at; // rest of the line
        if (at >= n) return false;
        ++at;
    }
}
static bool parseHead(const uint8_t *p, const unsigned n, Resp &r)
{
    r.status = 0; r.hasCL = r.hasCR = r.multipart = false; r.contentLength = r.a = r.b = r.total = -1; r.boundary[0] = 0;
    if (!litAt(p, n, 0, "HTTP/1.1 ")) return false;
    unsigned at = 9;
    int64_t st;
    if (!number(p, n, at, st)) return false;
    r.status = (int)st;
    while (at < n && p[at] != '\n') ++at;
    ++at;
    if (!headerBlock(p, n, at, r)) return false;
    r.hdrEnd = at;
    return true;
}

// ---------------------------------------------------------------- oracle
// satisfiable slice of one requested spec (RFC 9110 14.1.2); false if unsatisfiable
static bool satisfiable(const ReqSpec &s, const int64_t clen, int64_t &a, int64_t &b)
{
    if (s.kind == 2) { if (s.suffix <= 0 || clen == 0) return false; a = s.suffix >= clen ? 0 : clen - s.suffix; b = clen - 1; return true; }
    if (s.first >= clen) return false;
    a = s.first;
    b = (s.kind == 1 || s.last >= clen) ? clen - 1 : s.last;
    return true;
}
static unsigned maskOf(const World &w, const int64_t a, const int64_t b) // bytes a..b as a bit set over the window
{
    unsigned m = 0;
    for (int64_t p = a; p <= b; ++p) m |= 1u << (unsigned)(p - w.base);
    return m;
}

static void checkResponse(World &w, const ReqSpec *specs, const unsigned nspecs, const bool complete)
{
    unsigned want = 0; // the satisfiable requested bytes
    for (unsigned i = 0; i < nspecs; ++i) { int64_t a, b; if (satisfiable(specs[i], w.clen, a, b)) want |= maskOf(w, a, b); }
    Resp r;
    vf_assert(parseHead(w.out, w.outLen, r), "response header block is well-formed");
    vf_observe("status", r.status); vf_observe("outLen", w.outLen);
    vf_assert(r.status == 200 || r.status == 206, "a Range request on a 200 object is answered with 200 or 206");
    vf_assert(r.hasCL, "response declares its length");
    const uint8_t *body = w.out + r.hdrEnd;
    const unsigned bodyLen = w.outLen - r.hdrEnd;
    if (r.status == 200) {
        vf_assert(!r.hasCR && !r.multipart, "a 200 response has no Content-Range");
        vf_assert(r.contentLength == w.clen, "a 200 response declares the whole representation");
        if (w.base == 0) { // (with base > 0 the whole object is not materialised)
            vf_assert(complete, "the stream completes");
            vf_assert(bodyLen == w.clen, "a 200 response carries the whole representation");
            for (unsigned i = 0; i < bodyLen; ++i) vf_assert(body[i] == w.objectByte(i), "a 200 response carries the representation's bytes");
        }
        vf_reach(want ? "200-full" : "200-unsatisfiable");
        return;
    }
    vf_assert(want != 0, "206 only when something is satisfiable");
    vf_assert(complete, "the stream completes");
    vf_assert(r.contentLength == bodyLen, "Content-Length of the 206 equals the body bytes sent");
    unsigned got = 0;
    if (!r.multipart) {
        vf_assert(r.hasCR, "single-part 206 has Content-Range");
        vf_assert(r.total == w.clen && r.a >= w.base && r.a <= r.b && r.b < w.clen, "Content-Range lies inside the representation and states its length");
        vf_assert(bodyLen == r.b - r.a + 1, "body length equals the Content-Range size");
        for (unsigned i = 0; i < bodyLen; ++i) vf_assert(body[i] == w.objectByte(r.a + i), "body bytes are the stated slice");
        got = maskOf(w, r.a, r.b);
        vf_reach("206-single");
    } else {
        vf_assert(!r.hasCR, "multipart 206 has no top-level Content-Range");
        const unsigned bl = (unsigned)strlen(r.boundary);
        vf_assert(bl > 0, "boundary present");
        unsigned at = 0, parts = 0;
        for (;;) {
            vf_assert(litAt(body, bodyLen, at, "\r\n--") && litAt(body, bodyLen, at + 4, r.boundary), "part delimiter");
            at += 4 + bl;
            if (litAt(body, bodyLen, at, "--\r\n")) { at += 4; break; }
            vf_assert(litAt(body, bodyLen, at, "\r\n"), "part delimiter line end");
            at += 2;
            Resp ph;
            ph.hasCL = ph.hasCR = ph.multipart = false; ph.a = ph.b = ph.total = -1;
            vf_assert(headerBlock(body, bodyLen, at, ph) && ph.hasCR, "part has a header block with Content-Range");
            vf_assert(ph.total == w.clen && ph.a >= w.base && ph.a <= ph.b && ph.b < w.clen, "part Content-Range lies inside the representation and states its length");
            const int64_t plen = ph.b - ph.a + 1;
            vf_assert(at + plen <= bodyLen, "part data present");
            for (int64_t i = 0; i < plen; ++i) vf_assert(body[at + i] == w.objectByte(ph.a + i), "part bytes are the stated slice");
            at += plen;
            got |= maskOf(w, ph.a, ph.b);
            ++parts;
        }
        vf_assert(at == bodyLen, "nothing follows the closing delimiter");
        vf_assert(parts >= 2, "multipart/byteranges is used for several parts");
        vf_reach("206-multi");
    }
    vf_assert(got == want, "the parts are exactly the satisfiable requested bytes");
}

// ---------------------------------------------------------------- entries
// a requested spec with numbers base+0..base+hi (suffix lengths 0..hi), every shape
static ReqSpec symbolicSpec(const int64_t base, const unsigned hi)
{
    ReqSpec s;
    s.kind = (int)vf_concretize(vf_range(0, 2, "specKind"));
    s.first = s.last = s.suffix = -1;
    if (s.kind == 2) s.suffix = (int64_t)vf_concretize(vf_range(0, hi, "suffixLen"));
    else {
        const unsigned f = (unsigned)vf_concretize(vf_range(0, hi, "firstPos"));
        s.first = base + f;
        if (s.kind == 0) s.last = base + (int64_t)vf_concretize(vf_range(f, hi, "lastPos")); // parseInit() rejects last < first
    }
    return s;
}
static void rangeResponse(const int64_t base, const unsigned nspecs, const unsigned winLo, const unsigned winHi, const unsigned numHi, const unsigned maxBuf, const unsigned nLimits = 3)
{
    World w;
    const unsigned winLen = (unsigned)vf_concretize(vf_range(winLo, winHi, "objectLen"));
    // cached or not; range_offset_limit for this request: 0 (default: misses are not served partially), none (-1), or a
    // limit equal to the window start (first offsets up to it are fetched whole)
    const bool hit = vf_concretize(vf_range(0, 1, "hit"));
    const unsigned lim = hit ? 0 : nLimits == 1 ? 1 : (unsigned)vf_concretize(vf_range(0, nLimits - 1, "offsetLimit"));
    w.setup(base, winLen, hit, lim == 0 ? 0 : lim == 1 ? -1 : base + 1);
    ReqSpec specs[2];
    for (unsigned i = 0; i < nspecs; ++i) { specs[i] = symbolicSpec(base, numHi); w.addSpec(specs[i]); }
    if (base) { // the whole object is not materialised: only requests Squid can answer partially
        unsigned cover = 0; int64_t a, b, prevEnd = -1; bool ordered = true;
        for (unsigned i = 0; i < nspecs; ++i) if (satisfiable(specs[i], w.clen, a, b)) { ordered = ordered && a > prevEnd; prevEnd = b; cover |= 1; }
        vf_assume(cover && ordered && (hit || lim));
    }
    const bool complete = w.roundTrip(maxBuf, 2 * WIN + 4);
    checkResponse(w, specs, nspecs, complete);
    WITNESS_POINT();
}
#ifdef VF_THOROUGH
extern "C" void c15_single(void) { rangeResponse(0, 1, 1, 6, 7, 3); }
extern "C" void c15_multi(void) { rangeResponse(0, 2, 5, 5, 5, 3); }
#else
extern "C" void c15_single(void) { rangeResponse(0, 1, 1, 5, 6, 3); }
extern "C" void c15_multi(void) { rangeResponse(0, 2, 4, 4, 3, 3, 1); }
#endif
// offsets around 2^31, 2^32 and beyond: the window is the last 4 bytes of the object
extern "C" void c15_big(void)
{
#ifdef VF_THOROUGH
    static const int64_t bases[4] = {(1LL << 31) - 2, (1LL << 32) - 2, (1LL << 32) + 4094, (1LL << 62) - 4};
    const int64_t base = bases[vf_concretize(vf_range(0, 3, "base"))];
    const unsigned n = (unsigned)vf_concretize(vf_range(1, 2, "nspecs"));
    rangeResponse(base, n, 4, 4, 4, 3);
#else
    static const int64_t bases[3] = {(1LL << 31) - 2, (1LL << 32) - 2, (1LL << 62) - 4};
    const int64_t base = bases[vf_concretize(vf_range(0, 2, "base"))];
    const unsigned n = (unsigned)vf_concretize(vf_range(1, 2, "nspecs"));
    rangeResponse(base, n, 4, 4, 3, 4, 2);
#endif
}

// ---- arithmetic kernel with fully symbolic positions: one canonical spec; one delivery step from an arbitrary point of the
// transfer (induction over the number of buffers: the step is shown to re-establish the state it starts from)
//   state after `sent` bytes of the range: range_iter.debt == len - sent, out.offset == off + sent (established by
//   prepPartialResponseGeneration() for sent == 0, kept by every step as asserted below)
extern "C" void c15_arith(void)
{
    World w;
    w.setup(0, 0, true, 0);
    // range position and size: boundary values (case split); how far the transfer has got and the buffer length: symbolic
#ifdef VF_THOROUGH
    static const int64_t offs[] = {0, 1, 4095, 4096, (1LL << 31) - 1, 1LL << 31, (1LL << 32) - 1, 1LL << 32, (1LL << 62) - 9000};
    static const int64_t lens[] = {1, 2, 4095, 4096, 4097, 8192, (1LL << 31) + 1, (1LL << 32) + 4096};
#else
    static const int64_t offs[] = {0, (1LL << 32) - 1, (1LL << 62) - 9000};
    static const int64_t lens[] = {1, 4097, (1LL << 32) + 4096};
#endif
    const int64_t off = offs[vf_concretize(vf_range(0, sizeof(offs) / sizeof(*offs) - 1, "specOffsetIdx"))];
    const int64_t len = lens[vf_concretize(vf_range(0, sizeof(lens) / sizeof(*lens) - 1, "specLengthIdx"))];
    const int64_t clen = off + len + (int64_t)vf_concretize(vf_range(0, 1, "tail")); // the range ends at or one byte before the end
    w.clen = clen;
    HttpHdrRangeSpec *spec = new HttpHdrRangeSpec;
    spec->offset = off; spec->length = len;
    w.request->range->specs.push_back(spec);
    const int64_t declared = w.http->prepPartialResponseGeneration();
    vf_assert(declared == len, "single-part 206 declares the range length");
    vf_assert(w.http->range_iter.debt() == len && w.http->out.offset == off, "initial state: nothing sent");
    HttpHdrContRange cr;
    httpHdrContRangeSet(&cr, *spec, clen);
    vf_assert(cr.spec.offset == off && cr.spec.length == len && cr.elength == clen, "Content-Range states the range and the representation length");
    // an arbitrary reachable point: `sent` bytes of the range are out, at least one is missing
    const bool firstBuffer = vf_concretize(vf_range(0, 1, "firstBuffer"));
    // up to 8192 bytes after the start of the range, or up to 8192 bytes before its end (symbolic distance)
    const int64_t dist = (int64_t)vf_range(0, 8192, "distance");
    const int64_t sent = firstBuffer ? 0 : vf_concretize(vf_range(0, 1, "nearEnd")) ? len - 1 - dist : dist;
    vf_assume(sent >= 0 && sent < len);
    w.http->range_iter.debt(len - sent);
    w.http->out.offset = off + sent;
    const int64_t pos = off + sent;  // next object byte the client must get
    const int64_t rest = len - sent;
    // the buffer: the first one starts at object offset 0 whatever the range is; later ones where pullData() asked
    int64_t ask = 0;
    if (!firstBuffer) {
        ask = w.stream->getNextRangeOffset();
        vf_assert(ask == pos, "pullData() asks for the first missing byte");
    }
    const uint64_t blen = vf_range(firstBuffer ? 0 : 1, 4096, "bufLen");
    vf_assume((int64_t)blen <= clen - ask);
    StoreIOBuffer bodyData;
    bodyData.offset = ask; bodyData.length = blen; bodyData.data = reinterpret_cast<char *>(w.head);
    const size_t n = w.stream->lengthToSend(bodyData.range());
    w.stream->noteSentBodyBytes(n);
    // the piece sent is object[ask, ask+n)
    if (ask == pos) vf_assert(n == (blen < (uint64_t)rest ? blen : (uint64_t)rest), "a buffer that starts at the missing position is used up to the end of the range");
    else vf_assert(n == 0, "bytes are sent only from the first missing position");
    vf_assert(w.http->range_iter.debt() == rest - (int64_t)n && w.http->out.offset == pos + (int64_t)n, "state after the step: debt and offset account for the bytes sent");
    const bool complete = !w.stream->canPackMoreRanges();
    vf_assert(complete == ((int64_t)n == rest), "the stream completes exactly when the whole range has been sent");
    if (!complete) vf_assert(w.stream->getNextRangeOffset() == pos + (int64_t)n, "pullData() then asks for the first missing byte");
    vf_reach(complete ? "complete" : "in-progress");
    WITNESS_POINT();
}
