// C55: Ipc::StoreMap exposes only complete (or appending), stable entries under every interleaving.
// Modelled threads ("kids") run small programs on one real StoreMap (3 anchors, 3 slices) built in ordinary memory
// (Ipc::Mem::Segment is replaced by a name -> heap block registry; everything else is the real StoreMap.cc and
// ReadWriteLock.cc). Programs: write an entry under a key (1..2 slices, optionally startAppending, close or abort),
// read an entry by key (open, check key/completeness, walk the slice chain, close), delete by key.
// Slice ids are handed out by a ghost allocator (as MemStore/Rock do with a PageStack) and come back through the
// StoreMapCleaner callback. Ghost state records who writes which anchor, the generation of each written entry, which
// generation owns each slice, which generations are being read and which were deleted.
#include "squid.h"
#include <sstream>
#include <functional>
#include <chrono>
#include <atomic>
#include <iostream>
#include "debug/Stream.h"
#include "SquidString.h"
#include "sbuf/SBuf.h"
#include "base/RefCount.h"
#include "base/TextException.h"
#include "ipc/mem/Segment.h"
#define private public
#define protected public
#include "ipc/StoreMap.h"
#undef private
#undef protected
#include "ipc/mem/Segment.h"
#include "SquidConfig.h"
#include "StatCounters.h"
#include "store/Controller.h"
#include "Store.h"
#include "common.h"

// ---------------------------------------------------------------- environment
StatCounters statCounter;
namespace Store { Controller &Root() { static char fake[sizeof(void *) * 4]; return *reinterpret_cast<Controller *>(fake); } }
bool Store::Controller::markedForDeletion(const cache_key *) const { return false; } // no transient deletion marks in this model

struct SegRec { char name[64]; void *mem; off_t size; };
static SegRec segs[8]; static int nsegs;
Ipc::Mem::Segment::Segment(const char *const id): theFD(-1), theName(id), theMem(nullptr), theSize(0), theReserved(0), doUnlink(false) {}
Ipc::Mem::Segment::~Segment() {}
SBuf Ipc::Mem::Segment::Name(const SBuf &prefix, const char *suffix) { SBuf result = prefix; result.append("_"); result.append(suffix); return result; }
void Ipc::Mem::Segment::create(const off_t aSize)
{
    SegRec &r = segs[nsegs++];
    strncpy(r.name, theName.termedBuf(), sizeof(r.name) - 1);
    r.mem = xcalloc(1, aSize); r.size = aSize;
    theMem = r.mem; theSize = aSize; theReserved = 0;
}
void Ipc::Mem::Segment::open(const bool)
{
    for (int i = 0; i < nsegs; ++i)
        if (!strcmp(segs[i].name, theName.termedBuf())) { theMem = segs[i].mem; theSize = segs[i].size; theReserved = 0; return; }
    fatal("harness: no such segment");
}
void *Ipc::Mem::Segment::reserve(size_t chunkSize)
{
    assert(static_cast<off_t>(chunkSize) <= theSize - theReserved);
    void *result = reinterpret_cast<char *>(theMem) + theReserved;
    theReserved += chunkSize;
    return result;
}

// ---------------------------------------------------------------- ghost state
#define NANCH 3
#define NSLICE 3
#define MAXGEN 16
static Ipc::StoreMap *map;
static int writerOf[NANCH];        // 0 = none, else thread id + 1
static int appendingGen[NANCH];    // generation being appended at this anchor (0 = none)
static int genOf[NANCH];           // generation of the entry most recently opened for writing at this anchor
static int sliceGen[NSLICE];       // generation owning the slice (0 = free)
static int readers[MAXGEN];        // number of readers holding an entry of this generation
static bool deleted[MAXGEN];       // a delete request for this generation's key completed after the generation became readable
static int nextGen = 1;
static uint64_t keyOfGen[MAXGEN];

struct Cleaner: public Ipc::StoreMapCleaner {
    void noteFreeMapSlice(const Ipc::StoreMapSliceId id) override {
        vf_assert(id >= 0 && id < NSLICE, "freed slice id is valid");
        if (sliceGen[id]) {
            vf_assert(readers[sliceGen[id]] == 0, "slice of an entry freed while a reader holds that entry");
            sliceGen[id] = 0;
        }
    }
};
static int allocSlice(const int gen)
{
    for (int i = 0; i < NSLICE; ++i) if (!sliceGen[i]) { sliceGen[i] = gen; return i; }
    return -1;
}

static const uint64_t KEYS[3][2] = {{1, 0}, {4, 0}, {2, 0}}; // names: 1, 1 (collision), 2 (entryLimit 3)
static const cache_key *K(const unsigned i) { return reinterpret_cast<const cache_key *>(KEYS[i]); }

// ---------------------------------------------------------------- programs
static void writeEntry(const int me, const unsigned k)
{
    sfileno fileno = -1;
    Ipc::StoreMap::Anchor *a = map->openForWriting(K(k), fileno);
    if (!a) return;
    vf_assert(fileno >= 0 && fileno < NANCH, "valid anchor index");
    vf_assert(writerOf[fileno] == 0, "two writers hold the same entry");
    writerOf[fileno] = me + 1;
    const int gen = nextGen++; vf_assume(gen < MAXGEN);
    genOf[fileno] = gen; keyOfGen[gen] = KEYS[k][0];
    memcpy(a->key, KEYS[k], sizeof(a->key)); // what Anchor::setKey() does (its Store::Root() lookup is stubbed away)
    const unsigned shape = vf_choose(4, "wshape"); // bit0: second slice, bit1: startAppending after the first slice
    const int s1 = allocSlice(gen);
    bool failed = s1 < 0;
    if (!failed) {
        map->writeableSlice(fileno, s1).size = 10;
        a->start = s1;
        if (shape & 2) { appendingGen[fileno] = gen; map->startAppending(fileno); }
        if (shape & 1) {
            const int s2 = allocSlice(gen);
            if (s2 < 0) failed = true;
            else { map->writeableSlice(fileno, s2).size = 5; map->writeableSlice(fileno, s1).next = s2; }
        }
        a->basics.swap_file_sz = 0; // unknown size: hit validation has nothing to compare
    }
    vf_yield();
    writerOf[fileno] = 0; appendingGen[fileno] = 0; // released before the first atomic step of the close
    if (failed || vf_choose(2, "wend") == 1) map->abortWriting(fileno);
    else map->closeForWriting(fileno);
}

static void readEntry(const unsigned k)
{
    bool deletedBefore[MAXGEN];
    for (int g = 0; g < MAXGEN; ++g) deletedBefore[g] = deleted[g];
    sfileno fileno = -1;
    const Ipc::StoreMap::Anchor *a = map->openForReading(K(k), fileno);
    if (!a) return;
    vf_assert(fileno >= 0 && fileno < NANCH, "valid anchor index");
    const int gen = genOf[fileno];
    vf_assert(gen > 0 && keyOfGen[gen] == KEYS[k][0], "reader opened an entry that was written under the requested key");
    vf_assert(a->key[0] == KEYS[k][0] && a->key[1] == KEYS[k][1], "opened anchor carries the requested key");
    vf_assert(writerOf[fileno] == 0 || appendingGen[fileno] == gen, "reader opened an entry that is neither complete nor being appended");
    vf_assert(!deletedBefore[gen], "an entry deleted before this open started was opened");
    ++readers[gen];
    vf_yield();
    // walk the chain: every slice must (still) belong to this entry
    int steps = 0;
    for (Ipc::StoreMapSliceId id = a->start; id >= 0; id = map->readableSlice(fileno, id).next) {
        vf_assert(id < NSLICE, "chain stays inside the slice table");
        vf_assert(sliceGen[id] == gen, "slice of a held entry was freed or reused");
        vf_assert(++steps <= NSLICE, "chain is acyclic");
    }
    --readers[gen];
    if (vf_choose(2, "rend") == 1) map->closeForReadingAndFreeIdle(fileno);
    else map->closeForReading(fileno);
}

static void deleteEntry(const unsigned k)
{
    // generations readable under this key when the request starts
    bool target[MAXGEN];
    for (int g = 0; g < MAXGEN; ++g) target[g] = false;
    for (int f = 0; f < NANCH; ++f) if (genOf[f] && keyOfGen[genOf[f]] == KEYS[k][0] && writerOf[f] == 0) target[genOf[f]] = true;
    map->freeEntryByKey(K(k));
    for (int g = 0; g < MAXGEN; ++g) if (target[g]) deleted[g] = true;
}

static unsigned NKEYS = 3; static unsigned NPROG; static int FIXED0 = -1, FIXED1 = -1; // first program of kid 0 / kid 1 (-1 = any)
static int FIXALL = -1;               // >= 0: every kid's program is fixed: digit t of FIXALL (base 3) is kid t's program, and all use key A
static void kid(void *arg)
{
    const int me = (int)(uintptr_t)arg;
    for (unsigned i = 0; i < NPROG; ++i) {
        const unsigned what = FIXALL >= 0 ? (unsigned)((FIXALL / (me == 0 ? 1 : me == 1 ? 3 : 9)) % 3) : (me == 0 && i == 0 && FIXED0 >= 0) ? (unsigned)FIXED0 : (me == 1 && i == 0 && FIXED1 >= 0) ? (unsigned)FIXED1 : vf_choose(3, "program");
        const unsigned k = FIXALL >= 0 ? 0 : vf_choose(NKEYS, "key");
        if (what == 0) writeEntry(me, k);
        else if (what == 1) readEntry(k);
        else deleteEntry(k);
    }
}

static void run(const unsigned nt, const unsigned nprog, const bool preWrite, const int fixed0 = -1, const int fixed1 = -1)
{
    FIXED0 = fixed0; FIXED1 = fixed1;
    vf_quiet();
    Config.paranoid_hit_validation = std::chrono::nanoseconds(0);
    const SBuf path("m");
    Ipc::StoreMap::Init(path, NSLICE);
    map = new Ipc::StoreMap(path);
    map->cleaner = new Cleaner;
    NPROG = 1;
    if (preWrite) { // start from a map that already holds a complete two-slice entry under key 0
        sfileno fileno = -1;
        Ipc::StoreMap::Anchor *a = map->openForWriting(K(0), fileno);
        vf_assert(a != nullptr, "empty map accepts a writer");
        const int gen = nextGen++; genOf[fileno] = gen; keyOfGen[gen] = KEYS[0][0];
        memcpy(a->key, KEYS[0], sizeof(a->key));
        const int s1 = allocSlice(gen), s2 = allocSlice(gen);
        map->writeableSlice(fileno, s1).size = 10; map->writeableSlice(fileno, s2).size = 5; map->writeableSlice(fileno, s1).next = s2;
        a->start = s1;
        map->closeForWriting(fileno);
    }
    NPROG = nprog;
    for (unsigned t = 0; t < nt; ++t) vf_spawn(kid, (void *)(uintptr_t)t);
    vf_join();
    // everything released: every anchor is idle and can be written again
    for (int f = 0; f < NANCH; ++f) {
        const Ipc::StoreMap::Anchor &a = map->peekAtEntry(f);
        vf_assert(a.lock.readers == 0 && !a.lock.writing && !a.lock.appending, "anchor lock idle after all kids finished");
    }
    for (int g = 0; g < MAXGEN; ++g) vf_assert(readers[g] == 0, "harness: no ghost readers left");
    vf_reach("done");
    WITNESS_POINT();
}
// three kids with fixed programs on key A (0 = write, 1 = read, 2 = delete; kid t = digit t base 3)
extern "C" void c55_3kids_rdr(void) { FIXALL = 1 + 2 * 3 + 1 * 9; run(3, 1, true); }
extern "C" void c55_3kids_wrd(void) { FIXALL = 0 + 1 * 3 + 2 * 9; run(3, 1, true); }
extern "C" void c55_3kids_wrr(void) { FIXALL = 0 + 1 * 3 + 1 * 9; run(3, 1, true); }
extern "C" void c55_3kids_wwr(void) { FIXALL = 0 + 0 * 3 + 1 * 9; run(3, 1, true); }
// kid 0's program is fixed per entry (w = write, r = read, d = delete) so that the entries run in parallel; the union covers every choice
extern "C" void c55_2kids_ww(void) { run(2, 1, true, 0, 0); }
extern "C" void c55_2kids_ww_ab(void) { NKEYS = 2; run(2, 1, true, 0, 0); }   // keys A and B only (both map to the same anchor)
extern "C" void c55_2kids_empty_ww_ab(void) { NKEYS = 2; run(2, 1, false, 0, 0); }
extern "C" void c55_2kids_wr(void) { run(2, 1, true, 0, 1); }
extern "C" void c55_2kids_wd(void) { run(2, 1, true, 0, 2); }
extern "C" void c55_2kids_r(void) { run(2, 1, true, 1); }
extern "C" void c55_2kids_d(void) { run(2, 1, true, 2); }
extern "C" void c55_2kids_empty_ww(void) { run(2, 1, false, 0, 0); }
extern "C" void c55_2kids_empty_wr(void) { run(2, 1, false, 0, 1); }
extern "C" void c55_2kids_empty_wd(void) { run(2, 1, false, 0, 2); }
extern "C" void c55_2kids_empty_r(void) { run(2, 1, false, 1); }
extern "C" void c55_3kids_w(void) { run(3, 1, true, 0); }
extern "C" void c55_3kids_r(void) { run(3, 1, true, 1); }
extern "C" void c55_3kids_d(void) { run(3, 1, true, 2); }
extern "C" void c55_2x2_w(void) { run(2, 2, true, 0); }
extern "C" void c55_2x2_r(void) { run(2, 2, true, 1); }
extern "C" void c55_2x2_d(void) { run(2, 2, true, 2); }
