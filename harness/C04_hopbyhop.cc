// C04 (kernel): hop-by-hop and proxy credential headers are not relayed.
//
// Request direction: a client header block with symbolic bytes is parsed by the real HttpHeader::parse() into request->header
// and handed to the real HttpStateData::httpBuildRequestHeader() (src/http.cc: getList(Connection), the loop over
// copyOneHeaderFromClientsideRequestToUpstreamRequest(), addVia, X-Forwarded-For, Host, httpFixupAuthentication(), Cache-Control,
// Squid's own Connection and Transfer-Encoding, httpHdrMangleList) with symbolic Http::StateFlags and cache_peer login mode.
// Reply direction: the block is parsed as an origin reply header and (a) handed to the real clientReplyContext::buildReplyHeader()
// for a cache miss being relayed (second TU harness/C04_reply.cc, which #includes src/client_side_reply.cc), (b) given to
// HttpHeader::removeHopByHopEntries() alone (what Http::One::Server::writeControlMsgAndCall() applies to 1xx messages).
//
// Symbolic: the value bytes of the Connection field(s) (any byte except NUL, CR, LF, DQUOTE: separators, OWS, empty elements,
// case, garbage), the name bytes of one extension field (any tchar), the flags. Concrete: the other client fields -- one of
// every standard hop-by-hop field, Proxy-Authorization, Transfer-Encoding, and two end-to-end fields.
//
// Oracle: refListHas() (C04_fwd.h), a direct RFC 9110 5.6.1 list membership test on the raw Connection value bytes, and the
// property's own list of hop-by-hop names; the outgoing header is inspected by field-name text.
//   (L) a client field whose name is an element of a received Connection value is not in the outgoing header
//   (H) no Keep-Alive, TE, Trailer, Upgrade, Proxy-Connection, Proxy-Authenticate field is in the outgoing header (Proxy-Authenticate
//       reaches the client only from a cache_peer with login=PASS/PASSTHRU, never from an origin); Connection appears only as
//       Squid's own single "keep-alive"/"close" (not at all after removeHopByHopEntries() alone)
//   (T) Transfer-Encoding appears in the outgoing message only as Squid's own single "chunked": in a request only when Squid
//       chunks the body, in a reply only towards an HTTP/1.1 client
//   (P) next hop is an origin server => no Proxy-Authorization field, and (unless the cache_peer is configured login=PROXYPASS)
//       no outgoing field carries the client's proxy credentials
//   (E) guard against a vacuous/over-eager filter: an end-to-end field that no Connection element names (even under Squid's
//       more liberal reading of whitespace) is relayed exactly once
#include "C04_fwd.h"

#ifdef VF_THOROUGH
#define T(q, t) t
#else
#define T(q, t) q
#endif

static const char *const HopByHop[] = {"Keep-Alive", "TE", "Trailer", "Upgrade", "Proxy-Connection", "Proxy-Authenticate", nullptr};
#define CLIENT_CRED "Basic Y2xpZW50OnNlY3JldA=="

// Squid's strListGetItem() also treats CR, LF, VT, FF as list whitespace; used only by guard (E)
static inline unsigned lenientWs(const uint8_t c) { return (c == ' ') | ((uint8_t)(c - 9) < 5); }
static inline unsigned mentions(const uint8_t *v, const unsigned n, const char *name)
{
    // name occurs (case-insensitively) as a substring of v with nothing but list whitespace/commas/ends around it
    const unsigned nl = strlen(name);
    unsigned found = 0;
    for (unsigned a = 0; a + nl <= n; ++a) {
        unsigned ok = refEqNoCase(v + a, (const uint8_t *)name, nl);
        if (a > 0) ok &= lenientWs(v[a - 1]) | (v[a - 1] == ',');
        if (a + nl < n) ok &= lenientWs(v[a + nl]) | (v[a + nl] == ',');
        found |= ok;
    }
    return found;
}

struct HdrIn {
    Block k;
    unsigned cs[2], cn[2], nconn;    // Connection value(s): start, length (untrimmed, as on the wire)
    unsigned xs, xl;                 // extension field name
};

// the client (or origin) header block: Connection line(s) from the family template, the extension field, then the fixed fields
// whitespace put between every field name of the block and its colon ("" = none): replies only -- HttpHeader::parse() tolerates it in
// replies (and removes it), rejects it in requests
static const char *colonWs = "";
static void putName(HdrIn &c, const char *name) { blockPut(c.k, name); blockPut(c.k, colonWs); blockPut(c.k, ":"); }
static void buildBlock(HdrIn &c, const char *conn1, const char *conn2, const char *xname, const bool reply)
{
    c.k.n = 0;
    c.nconn = 0;
    blockPut(c.k, reply ? "Server: s\r\n" : "User-Agent: u\r\n");
    putName(c, "Connection");
    c.cs[0] = blockPut(c.k, conn1); c.cn[0] = c.k.n - c.cs[0]; c.nconn = 1;
    blockPut(c.k, "\r\n");
    c.xs = blockPut(c.k, xname); c.xl = c.k.n - c.xs;
    blockPut(c.k, colonWs); blockPut(c.k, ": ext\r\n");
    putName(c, "Keep-Alive"); blockPut(c.k, " timeout=5\r\n");
    putName(c, "TE"); blockPut(c.k, " trailers\r\n");
    putName(c, "Trailer"); blockPut(c.k, " X-T\r\n");
    putName(c, "Upgrade"); blockPut(c.k, " h2c\r\n");
    putName(c, "Proxy-Connection"); blockPut(c.k, " keep-alive\r\n");
    putName(c, "Proxy-Authenticate"); blockPut(c.k, " Basic realm=p\r\n");
    if (!reply) blockPut(c.k, "Proxy-Authorization: " CLIENT_CRED "\r\n");
    putName(c, "Transfer-Encoding"); blockPut(c.k, " gzip, chunked\r\n");
    if (conn2) {
        putName(c, "Connection");
        c.cs[1] = blockPut(c.k, conn2); c.cn[1] = c.k.n - c.cs[1]; c.nconn = 2;
        blockPut(c.k, "\r\n");
    }
    blockPut(c.k, "Accept: a/b\r\nX-Keep: k\r\n");
}

static unsigned listed(const HdrIn &c, const uint8_t *name, const unsigned nl)
{
    unsigned l = 0;
    for (unsigned i = 0; i < c.nconn; ++i) l |= refListHas(c.k.b + c.cs[i], c.cn[i], name, nl);
    return l;
}
static unsigned listed(const HdrIn &c, const char *name) { return listed(c, (const uint8_t *)name, strlen(name)); }
static unsigned mentioned(const HdrIn &c, const char *name)
{
    unsigned l = 0;
    for (unsigned i = 0; i < c.nconn; ++i) l |= mentions(c.k.b + c.cs[i], c.cn[i], name);
    return l;
}

// (L) for the extension field and the two end-to-end fields, (E) for the end-to-end fields
static void checkListedAndKept(const HdrIn &c, const HttpHeader &out)
{
    const uint8_t *xn = c.k.b + c.xs;
    const unsigned xListed = listed(c, xn, c.xl);
    const unsigned xOut = countName(out, xn, c.xl);
    vf_observe("xListed", xListed); vf_observe("xOut", xOut);
    vf_assert(!(xListed && xOut), "an extension field named in a received Connection header is not relayed");
    vf_assert(!(listed(c, "Accept") && countName(out, "Accept")), "a registered end-to-end field named in Connection is not relayed");
    vf_assert(!(listed(c, "X-Keep") && countName(out, "X-Keep")), "an end-to-end extension field named in Connection is not relayed");
    if (!mentioned(c, "Accept")) vf_assert(countName(out, "Accept") == 1, "guard: an end-to-end field not named in Connection is relayed once");
    if (!mentioned(c, "X-Keep")) vf_assert(countName(out, "X-Keep") == 1, "guard: an end-to-end extension field not named in Connection is relayed once");
    reachIf(xListed, "listed-dropped");
    reachIf(!xListed && xOut, "unlisted-kept");
}

static const char *const Logins[] = {nullptr, "PASS", "PASSTHRU", "PROXYPASS", "user:pw", "*:pw"};

// allFlags: every Http::StateFlags member and the cache_peer login mode symbolic (used with a concrete Connection value);
// otherwise a direct connection to the origin with symbolic keepalive/chunked_request (the list families)
static void request(const char *conn1, const char *conn2, const char *xname, const bool allFlags)
{
    fwdConfig(1);
    static HdrIn c;
    buildBlock(c, conn1, conn2, xname, false);
    // Via is rebuilt by Squid itself from the received Via list (HttpHeader::addVia()): "Connection: via" is outside the claim
    if (c.xl == 3) vf_assume(!refEqNoCase(c.k.b + c.xs, (const uint8_t *)"via", 3));

    HttpRequest *req = rawRequest(Http::METHOD_POST);
    const int ok = blockParse(c.k, req->header);
    vf_assert(ok == 1, "harness: the client block is a well-formed header block");

    Http::StateFlags flags;
    unsigned login = 0;
    if (allFlags) {
        symbolicFlags(flags);
        login = (unsigned)vf_concretize(vf_range(0, 5, "peer_login"));
    } else {
        flags.toOrigin = true;
        flags.keepalive = vf_bool("keepalive");
        flags.chunked_request = vf_bool("chunked_request");
    }
    vf_assume(flags.peering || login == 0);                // HttpRequest::prepForPeering()/prepForDirect(): login only with a cache_peer
    req->peer_login = const_cast<char *>(Logins[login]);
    CachePeer *peer = flags.peering ? rawObject<CachePeer>() : nullptr;   // only tested for null

    HttpHeader out(hoRequest);
    HttpStateData::httpBuildRequestHeader(req, nullptr, AccessLogEntryPointer(), &out, peer, flags);

    checkListedAndKept(c, out);
    // (H)
    for (unsigned i = 0; HopByHop[i]; ++i)
        vf_assert(countName(out, HopByHop[i]) == 0, "no standard hop-by-hop field of the client is relayed");
    vf_assert(countName(out, "Connection") == 1, "exactly one Connection field is sent");
    const HttpHeaderEntry *conn = findName(out, "Connection");
    vf_assert(conn && valueIs(conn, flags.keepalive ? "keep-alive" : "close"), "the Connection field sent is Squid's own, not the client's");
    // (T)
    const unsigned te = countName(out, "Transfer-Encoding");
    vf_observe("te", te);
    vf_assert(te == (flags.chunked_request ? 1u : 0u), "Transfer-Encoding is sent only when Squid chunks the request body");
    if (te) vf_assert(valueIs(findName(out, "Transfer-Encoding"), "chunked"), "the Transfer-Encoding sent is Squid's own 'chunked'");
    // (P)
    const unsigned pa = countName(out, "Proxy-Authorization");
    vf_observe("pa", pa);
    if (flags.toOrigin) {
        vf_assert(pa == 0, "no Proxy-Authorization field is sent to an origin server");
        if (login != 3)
            for (const auto e : out.entries)
                if (e) vf_assert(!valueIs(e, CLIENT_CRED), "the client's proxy credentials are not sent to an origin server in any field");
        vf_reach("to-origin");
    } else {
        reachIf(pa, "peer-credentials-passed", "peer-no-credentials");
    }
    WITNESS_POINT();
}

static void reply(const char *conn1, const char *conn2, const char *xname)
{
    fwdConfig(1);
    static HdrIn c;
    buildBlock(c, conn1, conn2, xname, true);
    HttpHeader h(hoReply);
    const int ok = blockParse(c.k, h);
    vf_assert(ok == 1, "harness: the origin block is a well-formed header block");

    h.removeHopByHopEntries();

    checkListedAndKept(c, h);
    for (unsigned i = 0; HopByHop[i]; ++i) {
        if (strcmp(HopByHop[i], "Proxy-Authenticate") == 0) continue;   // removed by buildReplyHeader() itself (gap, see scope_note)
        vf_assert(countName(h, HopByHop[i]) == 0, "no standard hop-by-hop field of the origin survives");
    }
    vf_assert(countName(h, "Connection") == 0, "the origin's Connection field does not survive");
    vf_assert(countName(h, "Transfer-Encoding") == 0, "the origin's Transfer-Encoding does not survive");
    vf_assert(!h.has(Http::HdrType::CONNECTION) && !h.has(Http::HdrType::TRANSFER_ENCODING) && !h.has(Http::HdrType::KEEP_ALIVE) &&
              !h.has(Http::HdrType::UPGRADE) && !h.has(Http::HdrType::TE) && !h.has(Http::HdrType::TRAILER) && !h.has(Http::HdrType::PROXY_CONNECTION),
              "the header's presence mask agrees (later has() tests see no hop-by-hop field)");
    vf_assert(countName(h, "Server") == 1, "guard: other fields survive");
    WITNESS_POINT();
}

// Reply direction, whole function: the real clientReplyContext::buildReplyHeader() (harness/C04_reply.cc) on a miss being relayed.
HttpHeader *c04BuildReplyHeader(const char *block, size_t len, const char *peerLogin, int status, bool proxyKeepalive, bool http11);

static void replyBuild(const char *conn1, const char *conn2, const char *xname)
{
    fwdConfig(1);
    Config.onoff.client_pconns = 1;                        // squid.conf defaults
    Config.onoff.error_pconns = 1;
    static HdrIn c;
    buildBlock(c, conn1, conn2, xname, true);
    blockPut(c.k, "Date: Thu, 01 Jan 2026 00:00:00 GMT\r\n");   // (without a Date field buildReplyHeader() adds one from the clock)
    static char buf[FWD_MAXN + 1];
    for (unsigned i = 0; i < c.k.n; ++i) buf[i] = (char)c.k.b[i];
    buf[c.k.n] = 0;
    const unsigned login = (unsigned)vf_concretize(vf_range(0, T(2, 3), "peer_login"));   // none, PASS, PASSTHRU (thorough: PROXYPASS)
    const bool keep = vf_bool("proxyKeepalive");
    const bool http11 = vf_bool("http11");
    const HttpHeader *h = c04BuildReplyHeader(buf, c.k.n, Logins[login], 200, keep, http11);
    vf_assert(h != nullptr, "harness: the origin block is a well-formed header block");

    checkListedAndKept(c, *h);
    // Proxy-Authenticate comes from the next hop's proxy authentication; it reaches the client only when the next hop is a cache_peer
    // whose credentials Squid passes through (login=PASS/PASSTHRU), never from an origin server
    const bool passThrough = login == 1 || login == 2;
    for (unsigned i = 0; HopByHop[i]; ++i) {
        if (passThrough && strcmp(HopByHop[i], "Proxy-Authenticate") == 0) continue;
        vf_assert(countName(*h, HopByHop[i]) == 0, "no standard hop-by-hop field of the origin is relayed to the client");
    }
    vf_assert(countName(*h, "Connection") == 1, "exactly one Connection field is sent to the client");
    const HttpHeaderEntry *conn = findName(*h, "Connection");
    vf_assert(conn && (valueIs(conn, "keep-alive") || valueIs(conn, "close")), "the Connection field sent is Squid's own, not the origin's");
    // (the origin's Transfer-Encoding made HttpHeader::parse() drop its Content-Length: the body size is unknown, so Squid chunks the
    // reply itself when the client speaks HTTP/1.1)
    const unsigned te = countName(*h, "Transfer-Encoding");
    vf_observe("te", te);
    vf_assert(te <= 1 && (te == 0 || valueIs(findName(*h, "Transfer-Encoding"), "chunked")), "Transfer-Encoding reaches the client only as Squid's own single 'chunked'");
    vf_assert(te == 0 || http11, "an HTTP/1.0 client is not sent a Transfer-Encoding");
    vf_assert(countName(*h, "Server") == 1, "guard: other fields are relayed");
    reachIf(passThrough, "peer-auth-passed", "from-origin");
    WITNESS_POINT();
}

// ---- families: Connection value template(s) (\x01 = symbolic value byte) and extension field name (\x02 = symbolic tchar)
#define B1 "\x01"
#define B2 "\x01\x01"
#define B3 "\x01\x01\x01"
#define B4 "\x01\x01\x01\x01"
struct Family { const char *conn1, *conn2, *xname; };
static const Family Families[] = {
    // 0 any: short fully symbolic Connection value
    {T(B3, B4), nullptr, T("E", "xE")},
    // 1 two: two Connection header fields, the second fully symbolic
    {"close", T(B3, B4), T("Xe", "X-e")},
    // 2 tail: a standard option first, then a symbolic tail: separator, OWS, empty elements, the extension name in either case
    {T("close" B3, "close" B4), nullptr, T("Xe", "X-e")},
    // 3 head: symbolic head before a standard option
    {T(B3 "keep-alive", B4 "keep-alive"), nullptr, T("Xe", "X-e")},
    // 4 mid: symbolic separators/OWS between two concrete elements that name fields, then a symbolic element
    {T("xe" B2 "x-keep" B1, "xe" B3 "x-keep" B1), nullptr, "xE"},
    // 5 reg: a registered end-to-end name (Accept) listed with symbolic case/neighbours
    {T(B1 "ccep" B2, B1 "cce" B3), nullptr, "Xe"},
    // 6 name: symbolic extension name against a partly symbolic list
    {T("close,xE" B1, "close,xE" B1 ",k" B1), nullptr, "\x02\x02"},
    // 7 flags: concrete header 'Connection: xE , close', extension field 'Xe' (request(): every flag and login mode symbolic)
    {" xE , close", nullptr, "Xe"},
};
static const Family &family(const unsigned first, const unsigned count)
{
    return Families[first + (unsigned)vf_concretize(vf_range(0, count - 1, "family"))];
}
extern "C" void c04_req_short(void) { const Family &f = family(0, 2); request(f.conn1, f.conn2, f.xname, false); }
extern "C" void c04_req_edges(void) { const Family &f = family(2, 2); request(f.conn1, f.conn2, f.xname, false); }
extern "C" void c04_req_named(void) { const Family &f = family(4, 3); request(f.conn1, f.conn2, f.xname, false); }
extern "C" void c04_req_flags(void) { const Family &f = Families[7]; request(f.conn1, f.conn2, f.xname, true); }
extern "C" void c04_rep_build(void) { const Family &f = family(T(2, 0), T(1, 3)); replyBuild(f.conn1, f.conn2, f.xname); }
// origin blocks whose field names are followed by whitespace before the colon ("Keep-Alive : timeout=5"): accepted in replies with the
// whitespace removed, so every filter must still recognise the field; both reply-side kernels, the 'tail' and 'two' families
extern "C" void c04_rep_ws_colon(void)
{
    static const char *const Ws[] = {" ", "\t", " \t"};
    colonWs = Ws[vf_concretize(vf_range(0, 2, "colonWs"))];
    const Family &f = family(1, 2);
    if (vf_concretize(vf_range(0, 1, "kernel"))) replyBuild(f.conn1, f.conn2, f.xname); else reply(f.conn1, f.conn2, f.xname);
}
extern "C" void c04_rep_lists(void) { const Family &f = family(0, 7); reply(f.conn1, f.conn2, f.xname); }
