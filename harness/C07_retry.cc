// C07 (kernel): a non-idempotent request is not sent again once Squid began sending it.
// Decided kernel: the retry gate FwdState::checkRetry() / checkRetriable() (real src/FwdState.cc) with the real
// HttpRequestMethod::isIdempotent()/isHttpSafe() tables (src/http/RequestMethod.cc), HttpRequest::bodyNibbled()
// (src/HttpRequest.cc), StoreEntry::isEmpty() over a real mem_hdr, FwdState::EnoughTimeToReForward().
// Every failure path of FwdState (serverClosed, handleUnregisteredServerEnd, noteConnection/tunnelEstablishmentDone/
// connectedToPeer errors, advanceDestination exceptions) re-sends only through retryOrBail() -> checkRetry().
//
// Symbolic: every input checkRetry() reads (shutting_down, self, store_status, bytes already stored, n_tries,
//   forward_max_tries, request->flags.pinned, start_t, squid_curtime, forward_timeout, flags.dont_retry,
//   flags.connected_okay, the method, body pipe presence and its produced/consumed counters).
// Oracle (independent of RequestMethod.cc): the IANA HTTP method registry's "idempotent" column. "Squid began sending the
//   request" = FwdState::dispatch() ran (it sets flags.connected_okay, never reset) or a server-side job took body bytes
//   out of the request body pipe (consumedSize() > 0).
//   A1: checkRetry() && began  =>  the method is registered as idempotent (safe methods are idempotent).
//   A2: checkRetry()           =>  no request body byte has been consumed (a nibbled request cannot be sent again whole).
//   A3: the same for checkRetriable() alone (connectStart() uses it to keep non-retriable requests off reused pconns).
// The harness does NOT demand that idempotent requests are retried (the property says "may").
#include "squid.h"
#include <sstream>
#include <functional>
#include <chrono>
#include <atomic>
#include <iostream>
#include <string>
#include <vector>
#include <list>
#include <map>
#include <unordered_map>
#include <memory>
#include <algorithm>
#include "debug/Stream.h"
#include "SquidString.h"
#include "sbuf/SBuf.h"
#include "base/RefCount.h"
#include "base/TextException.h"
#define private public
#define protected public
#include "FwdState.h"
#include "HttpRequest.h"
#include "BodyPipe.h"
#include "Store.h"
#include "MemObject.h"
#undef private
#undef protected
#include "SquidConfig.h"
#include "globals.h"
#include "pconn.h"
#include "http1.h"
#include <new>

int shutting_down = 0; // globals.cc is not linked
// FwdState.cc's static initialiser builds the global fwdPconnPool; pconn.cc is not linked and the kernel never uses the pool
PconnPool::PconnPool(const char *, const CbcPointer<PeerPoolMgr> &) {}

// ---- oracle: IANA "Hypertext Transfer Protocol (HTTP) Method Registry", column "Idempotent" (every safe method is idempotent).
// Squid-only tokens (NONE, PURGE, OTHER = any extension method, e.g. PATCH in this build) are not registered: not idempotent.
static bool registeredIdempotent(const int m)
{
    switch (m) {
    case Http::METHOD_GET: case Http::METHOD_HEAD: case Http::METHOD_OPTIONS: case Http::METHOD_TRACE:        // RFC 9110, safe
    case Http::METHOD_PUT: case Http::METHOD_DELETE:                                                          // RFC 9110
    case Http::METHOD_LINK: case Http::METHOD_UNLINK:                                                         // RFC 2068
    case Http::METHOD_CHECKOUT: case Http::METHOD_CHECKIN: case Http::METHOD_UNCHECKOUT: case Http::METHOD_MKWORKSPACE:
    case Http::METHOD_VERSION_CONTROL: case Http::METHOD_REPORT: case Http::METHOD_UPDATE: case Http::METHOD_LABEL:
    case Http::METHOD_MERGE: case Http::METHOD_BASELINE_CONTROL: case Http::METHOD_MKACTIVITY:                // RFC 3253
    case Http::METHOD_PROPFIND: case Http::METHOD_PROPPATCH: case Http::METHOD_MKCOL: case Http::METHOD_COPY:
    case Http::METHOD_MOVE: case Http::METHOD_UNLOCK:                                                         // RFC 4918 (LOCK is not)
    case Http::METHOD_SEARCH:                                                                                 // RFC 5323
    case Http::METHOD_PRI:                                                                                    // RFC 9113
        return true;
    default: // NONE, POST, CONNECT, LOCK, PURGE, OTHER
        return false;
    }
}
// the same registry by name, for methods that arrive as bytes
static const char *const IdempotentNames[] = {"GET", "HEAD", "OPTIONS", "TRACE", "PUT", "DELETE", "LINK", "UNLINK", "CHECKOUT", "CHECKIN",
    "UNCHECKOUT", "MKWORKSPACE", "VERSION-CONTROL", "REPORT", "UPDATE", "LABEL", "MERGE", "BASELINE-CONTROL", "MKACTIVITY", "PROPFIND",
    "PROPPATCH", "MKCOL", "COPY", "MOVE", "UNLOCK", "SEARCH", "PRI", "ACL", "BIND", "REBIND", "UNBIND", "MKCALENDAR", "MKREDIRECTREF",
    "UPDATEREDIRECTREF", "ORDERPATCH", "QUERY", nullptr};
static bool nameIdempotent(const uint8_t *s, const unsigned n, const bool anyCase)
{
    for (unsigned k = 0; IdempotentNames[k]; ++k) {
        const char *w = IdempotentNames[k];
        if (strlen(w) != n) continue;
        bool eq = true;
        for (unsigned i = 0; i < n; ++i) {
            uint8_t c = s[i];
            if (anyCase && c >= 'a' && c <= 'z') c -= 32;
            if (c != (uint8_t)w[i]) { eq = false; break; }
        }
        if (eq) return true;
    }
    return false;
}

// ---- the world checkRetry() looks at. FwdState, HttpRequest, StoreEntry and MemObject are NOT constructed (their constructor
// chains need the whole proxy): zeroed raw memory of the real size, with exactly the members the kernel reads set here.
struct World {
    FwdState *fwd;
    HttpRequest *req;
    StoreEntry *entry;
    MemObject *mem;
    BodyPipe *pipe = nullptr; // a really constructed BodyPipe (no producer), counters set directly
    World()
    {
        fwd = static_cast<FwdState *>(xcalloc(1, sizeof(FwdState)));
        req = static_cast<HttpRequest *>(xcalloc(1, sizeof(HttpRequest)));
        entry = static_cast<StoreEntry *>(xcalloc(1, sizeof(StoreEntry)));
        mem = static_cast<MemObject *>(xcalloc(1, sizeof(MemObject)));
        new (&mem->data_hdr) mem_hdr;
        new (&req->method) HttpRequestMethod;
        entry->mem_obj = mem;
        fwd->entry = entry;
        fwd->request = req;
    }
    void setSelf(const bool on)
    {
        // RefCount<FwdState> has exactly one member (the raw pointer); written directly because locking a never-constructed
        // object (virtual base Lock, no vptr) is not possible; the object is never destroyed
        FwdState *p = on ? fwd : nullptr;
        memcpy(&fwd->self, &p, sizeof(p));
    }
    void storeBytes(const unsigned k) // k bytes of reply already written to the entry (real mem_hdr::write)
    {
        static char buf[4] = {'H', 'T', 'T', 'P'};
        if (k)
            vf_assert(mem->data_hdr.write(StoreIOBuffer(k, 0, buf)), "harness: mem_hdr accepts the write");
    }
    void bodyPipe(const uint64_t produced, const uint64_t consumed)
    {
        pipe = new BodyPipe(nullptr);
        pipe->thePutSize = produced;
        pipe->theGetSize = consumed;
        req->body_pipe = pipe;
    }
};

static void openGates(World &w)
{
    shutting_down = 0;
    w.setSelf(true);
    w.entry->store_status = STORE_PENDING;
    w.fwd->n_tries = 1;
    Config.forward_max_tries = 25;
    Config.Timeout.forward = 240;
    w.fwd->start_t = 1000;
    squid_curtime = 1001;
}

// all inputs of the gate symbolic; method by registered id
extern "C" void c07_retry_gate(void)
{
    vf_quiet();
    World w;
    shutting_down = (int)vf_nondet_u32("shutting_down");
    w.setSelf(vf_bool("self"));
    w.entry->store_status = vf_bool("store_pending") ? STORE_PENDING : STORE_OK;
    w.storeBytes((unsigned)vf_concretize(vf_range(0, 2, "stored_bytes")));
    w.fwd->n_tries = (int)vf_nondet_u32("n_tries");
    Config.forward_max_tries = (int)vf_nondet_u32("forward_max_tries");
    w.req->flags.pinned = vf_bool("pinned");
    w.fwd->start_t = (time_t)vf_nondet_u64("start_t");
    squid_curtime = (time_t)vf_nondet_u64("squid_curtime");
    Config.Timeout.forward = (time_t)vf_nondet_u64("forward_timeout");
    w.fwd->flags.dont_retry = vf_bool("dont_retry");
    const bool connected = vf_bool("connected_okay");
    w.fwd->flags.connected_okay = connected;
    const unsigned m = vf_range(0, Http::METHOD_ENUM_END - 1, "method");
    w.req->method = HttpRequestMethod(static_cast<Http::MethodType>(m));
    bool nibbled = false;
    if (vf_concretize(vf_bool("has_body_pipe"))) {
        const uint64_t produced = vf_nondet_u64("produced"), consumed = vf_nondet_u64("consumed");
        vf_assume(consumed <= produced); // BodyPipe invariant
        w.bodyPipe(produced, consumed);
        nibbled = consumed > 0;
    }

    const bool retriable = w.fwd->checkRetriable();
    const bool retry = w.fwd->checkRetry();
    vf_observe("retry", retry); vf_observe("retriable", retriable);

    const bool began = connected || nibbled;
    if (retry) {
        vf_assert(!began || registeredIdempotent((int)m), "a request that Squid began sending is retried only if its method is idempotent");
        vf_assert(!nibbled, "a request whose body was partly consumed is not sent again");
        vf_reach(began ? (w.pipe ? "retry-after-send-with-body-pipe" : "retry-after-send") : "retry-before-send");
    } else
        vf_reach("no-retry");
    if (retriable)
        vf_assert(registeredIdempotent((int)m), "checkRetriable() only for idempotent methods");
    vf_reach(retriable ? "retriable" : "not-retriable");
    // POST (the property's own example) with every other gate open
    if (m == Http::METHOD_POST && began)
        vf_assert(!retry, "POST is never retried after it was sent");
    WITNESS_POINT();
}

// method arrives as bytes (what the request parser hands to HttpRequestMethod(SBuf)); every other gate open
static void methodBytes(const uint8_t *s, const unsigned n)
{
    World w;
    openGates(w);
    const bool relaxed = vf_concretize(vf_bool("relaxed"));
    Config.onoff.relaxed_header_parser = relaxed;
    const bool connected = vf_bool("connected_okay");
    w.fwd->flags.connected_okay = connected;
    w.req->method = HttpRequestMethod(SBuf(reinterpret_cast<const char *>(s), n));
    const bool retry = w.fwd->checkRetry();
    vf_observe("retry", retry); vf_observe("id", w.req->method.id());
    if (!connected)
        vf_assert(retry, "harness: all gates open and nothing sent yet"); // sanity of the construction, not the property
    else if (retry) {
        vf_assert(nameIdempotent(s, n, relaxed), "retried after sending: the method name is a registered idempotent method");
        vf_reach("retry-after-send");
    } else
        vf_reach(w.req->method.id() == Http::METHOD_OTHER ? "extension-not-retried" : "known-not-retried");
    WITNESS_POINT();
}

#define NAMEFAM(fn, lit) extern "C" void fn(void) { vf_quiet(); uint8_t in[sizeof(lit)]; const unsigned n = VF_FILL(in, lit, "b"); methodBytes(in, n); }
NAMEFAM(c07_name_p, "P\x01\x01\x01")          // POST / PUT? / extension
NAMEFAM(c07_name_patch, "PA\x01\x01\x01")     // PATCH and neighbours
NAMEFAM(c07_name_tail, "\x01\x01T")           // GET, PUT, ...
#ifdef VF_THOROUGH
#define NANY 5
#else
#define NANY 3
#endif
extern "C" void c07_name_any(void)
{
    vf_quiet();
    const unsigned n = (unsigned)vf_concretize(vf_range(1, NANY, "len"));
    uint8_t in[NANY + 1];
    for (unsigned i = 0; i < n; ++i) in[i] = vf_nondet_u8("b");
    methodBytes(in, n);
}
#ifdef VF_THOROUGH
NAMEFAM(c07_name_lock, "\x01\x01LOCK")        // UNLOCK (idempotent)
NAMEFAM(c07_name_k, "\x01\x01\x01K")         // LOCK (not idempotent), LINK (idempotent)
NAMEFAM(c07_name_long, "P\x01\x01\x01\x01\x01\x01\x01\x01")  // PROPFIND / PROPPATCH
#endif
