// C10 (kernel): a cache hit is validated against the swap metadata stored with the object.
//
// What runs: the real store/SwapMetaIn.cc (Store::UnpackHitSwapMeta -- what store_client::readHeader() calls on the
// first bytes read from a cache_dir --, Store::UnpackIndexSwapMeta -- what the index rebuild calls --, and
// Store::UnpackSwapMetaSize), store/SwapMetaView.cc, store/SwapMeta.cc, the real StoreEntry (store.cc) and MemObject
// accessors (MemObject.cc).
//
// Symbolic: the swap header bytes. Each family is a well-formed serialized header (prefix = magic + total size, then TLV
// fields) held in an exact-size heap block, with fully symbolic bytes at the decision points (magic, size bytes, field
// type, field length bytes, bytes of the stored key / URL / Vary value), plus one family whose every byte is symbolic.
// The entry's KEY_PRIVATE flag and swap_file_sz are symbolic too; its key and URL are fixed ("the requested object").
//
// Oracle: memory safety (engine), no assertion, nothing but exceptions as the rejection channel; and with an independent
// reference walk over the same bytes: accepted (no exception) => the prefix is intact, the fields tile the header
// exactly, every stored key field equals the entry's key (public entries), every stored URL is terminated and equals the
// entry's URL (case-insensitively, as documented), a stored Vary equals the entry's known Vary; swap_hdr_sz/object_sz
// are what the header says.
#include "squid.h"
#include <sstream>
#include <functional>
#include <chrono>
#include <atomic>
#include <iostream>
#include <string>
#include <vector>
#include <list>
#include <map>
#include <unordered_map>
#include <memory>
#include <algorithm>
#include <new>
#include "debug/Stream.h"
#include "SquidString.h"
#include "sbuf/SBuf.h"
#include "base/RefCount.h"
#include "base/TextException.h"
#include "MemBuf.h"
#include "MemObject.h"
#include "Store.h"
#include "StatCounters.h"
#include "store/SwapMeta.h"
#include "store/SwapMetaIn.h"
#include "common.h"

StatCounters statCounter;
std::ostream &Debug::Extra(std::ostream &os) { return os; } // debug.cc is not linked; message text is outside the claim
Debug::Context *Debug::Current = nullptr;                   // "outside debugs()": Raw::print() consults it for its verbosity

// ---------------------------------------------------------------- the entry being hit
static const unsigned char KEY[16] = {0x10, 0x21, 0x32, 0x43, 0x54, 0x65, 0x76, 0x87, 0x98, 0xa9, 0xba, 0xcb, 0xdc, 0xed, 0xfe, 0x0f};
static const char URL[] = "h:/aB";
static StoreEntry *theEntry;
static MemObject *theMem;
static bool keyPrivate;

// StoreEntry is built by its real constructor; MemObject lives in zeroed raw memory (its constructor needs HttpReply
// and the whole header machinery) with the members the unpackers read set directly: storeId_, vary_headers,
// swap_hdr_sz, object_sz.
static void makeEntry(const bool withUris, const char *knownVary)
{
    static char place[sizeof(StoreEntry)];
    theEntry = ::new (place) StoreEntry;
    theMem = static_cast<MemObject *>(xcalloc(1, sizeof(MemObject)));
    ::new (&theMem->storeId_) SBuf();
    ::new (&theMem->logUri_) SBuf();
    ::new (&theMem->vary_headers) SBuf();
    theMem->object_sz = -1;
    if (withUris) theMem->storeId_ = SBuf(URL);
    if (knownVary) theMem->vary_headers = SBuf(knownVary);
    theEntry->mem_obj = theMem;
    theEntry->key = const_cast<unsigned char *>(KEY);
    keyPrivate = vf_bool("key_private");
    theEntry->flags = keyPrivate ? (1 << KEY_PRIVATE) : 0;
    theEntry->swap_file_sz = vf_range(0, 80, "swap_file_sz");
}

// ---------------------------------------------------------------- serialized header construction
static unsigned char *buf; static size_t blen;
static void putInt(unsigned char *p, const int v) { memcpy(p, &v, sizeof(v)); }
// a serialized field; returns the offset after it
static size_t putField(size_t pos, const char type, const void *value, const int len)
{
    buf[pos] = type; putInt(buf + pos + 1, len); memcpy(buf + pos + 5, value, len);
    return pos + 5 + len;
}
static void startHeader(const size_t total)
{
    blen = total;
    buf = static_cast<unsigned char *>(xmalloc(total ? total : 1)); // exact size: any overread is an engine-detected violation
    if (total >= 5) { buf[0] = Store::SwapMetaMagic; putInt(buf + 1, (int)total); }
}
static void sym(const size_t pos, const char *name) { buf[pos] = vf_nondet_u8(name); }

// ---------------------------------------------------------------- reference walk (the oracle)
static int refInt(const unsigned char *p) { int v; memcpy(&v, p, sizeof(v)); return v; }
struct RefResult { int hdr = 0; unsigned keys = 0, urls = 0, varys = 0; };
// demands what the property demands of an *accepted* header; n = number of bytes handed to the unpacker
static RefResult refCheckAccepted(const unsigned char *b, const size_t n, const bool hit)
{
    RefResult r;
    vf_assert(n >= 5, "accepted header has a complete prefix");
    vf_assert(b[0] == 0x03, "accepted header starts with the swap meta magic");
    const int hs = (int)vf_concretize((uint32_t)refInt(b + 1));
    vf_assert(hs >= 5 && (size_t)hs <= n, "accepted header size lies within the bytes read");
    r.hdr = hs;
    size_t pos = 5;
    while (pos < (size_t)hs) {
        vf_assert(pos + 5 <= (size_t)hs, "accepted header: every field has a complete type+length part");
        const signed char type = (signed char)b[pos];
        const int len = (int)vf_concretize((uint32_t)refInt(b + pos + 1));
        vf_assert(len >= 0 && pos + 5 + (size_t)len <= (size_t)hs, "accepted header: every field value lies inside the header");
        const unsigned char *v = b + pos + 5;
        if (type == 3) { // STORE_META_KEY_MD5
            ++r.keys;
            vf_assert(len == 16, "accepted stored key has the MD5 length");
            if (hit && !keyPrivate) vf_assert(memcmp(v, KEY, 16) == 0, "accepted hit: stored key equals the entry's key");
        } else if (type == 4 && hit) { // STORE_META_URL
            ++r.urls;
            bool terminated = false;
            for (int i = 0; i < len; ++i) terminated = terminated || v[i] == 0;
            vf_assert(terminated, "accepted hit: stored URL is terminated inside its field");
            if (theMem->hasUris()) {
                bool same = true; // case-insensitive comparison of the terminated prefix with the entry's URL
                for (size_t i = 0; ; ++i) {
                    const unsigned char x = v[i], y = (unsigned char)URL[i];
                    const unsigned char lx = (x >= 'A' && x <= 'Z') ? x + 32 : x, ly = (y >= 'A' && y <= 'Z') ? y + 32 : y;
                    if (lx != ly) { same = false; break; }
                    if (!x) break;
                }
                vf_assert(same, "accepted hit: stored URL equals the entry's URL");
            }
        } else if (type == 8 && hit) { // STORE_META_VARY_HEADERS
            ++r.varys;
        }
        pos += 5 + (size_t)len;
    }
    vf_assert(pos == (size_t)hs, "accepted header: fields tile the header exactly");
    return r;
}

// runs UnpackHitSwapMeta like store_client::readHeader() and applies the oracle
static void hit()
{
    bool accepted = false;
    const uint64_t fileSz = theEntry->swap_file_sz;
    try {
        Store::UnpackHitSwapMeta(reinterpret_cast<const char *>(buf), blen, *theEntry);
        accepted = true;
    } catch (const std::exception &) {
        // readHeader(): fail() -- the hit is refused
    }
    vf_observe("accepted", accepted);
    if (accepted) {
        const RefResult r = refCheckAccepted(buf, blen, true);
        vf_assert(theMem->swap_hdr_sz == (size_t)r.hdr, "swap_hdr_sz is the stored header size");
        if (fileSz > 0) vf_assert(fileSz >= (uint64_t)r.hdr && theMem->object_sz == (int64_t)(fileSz - r.hdr), "object size = entry size - header size");
        else vf_assert(theMem->object_sz == -1, "unknown entry size leaves the object size unknown");
        vf_observe("keys", r.keys); vf_observe("urls", r.urls);
        vf_reach(r.keys ? "accepted-key" : r.urls ? "accepted-url" : "accepted-other");
    } else {
        vf_reach("refused");
    }
    WITNESS_POINT();
}

// ---- family 1: prefix + key field (26 bytes); symbolic: magic, size byte 0 and 3, field type, length byte 0 and 3, key bytes 0 and 15
extern "C" void c10_hit_key(void)
{
    vf_quiet(); makeEntry(true, nullptr);
    startHeader(26);
    putField(5, Store::STORE_META_KEY_MD5, KEY, 16);
    sym(0, "magic"); sym(1, "size0"); sym(4, "size3");
    sym(5, "type"); sym(6, "len0"); sym(9, "len3"); sym(10, "key0"); sym(25, "key15");
    hit();
}
// ---- family 2: prefix + URL field ("h:/aB\0") + key field (37 bytes); symbolic: URL type, length byte 0, last URL byte and the terminator, first key byte (thorough: + first URL byte, key field type, size byte 0)
extern "C" void c10_hit_url(void)
{
    vf_quiet(); makeEntry(vf_bool("has_uris"), nullptr);
    startHeader(37);
    size_t p = putField(5, Store::STORE_META_URL, URL, 6);
    putField(p, Store::STORE_META_KEY_MD5, KEY, 16);
    sym(5, "type"); sym(6, "len0"); sym(14, "url4"); sym(15, "url5"); sym(21, "key0");
#ifdef VF_THOROUGH
    sym(10, "url0"); sym(16, "type2"); sym(1, "size0");
#endif
    hit();
}
// ---- family 3: prefix + Vary field ("x\0") + object-size field; entry knows Vary "x"; symbolic: type, length byte 0, both value bytes (thorough: + next field's type and length byte 0)
extern "C" void c10_hit_vary(void)
{
    vf_quiet(); makeEntry(true, "x");
    startHeader(5 + 7 + 13);
    const int64_t objsz = 7;
    size_t p = putField(5, Store::STORE_META_VARY_HEADERS, "x", 2);
    putField(p, Store::STORE_META_OBJSIZE, &objsz, 8);
    sym(5, "type"); sym(6, "len0"); sym(10, "vary0"); sym(11, "vary1");
#ifdef VF_THOROUGH
    sym(12, "type2"); sym(13, "len2_0");
#endif
    // oracle for Vary: an accepted Vary field's value without trailing NULs must equal "x"
    const uint64_t fileSzV = theEntry->swap_file_sz;
    bool accepted = false;
    try { Store::UnpackHitSwapMeta(reinterpret_cast<const char *>(buf), blen, *theEntry); accepted = true; } catch (const std::exception &) {}
    vf_observe("accepted", accepted);
    if (accepted) {
        refCheckAccepted(buf, blen, true);
        // walk again for Vary fields (lengths already case-split by the reference walk)
        const int hs = refInt(buf + 1);
        for (size_t pos = 5; pos < (size_t)hs; ) {
            const int len = (int)vf_concretize((uint32_t)refInt(buf + pos + 1));
            if ((signed char)buf[pos] == 8) {
                int n = len; while (n > 0 && buf[pos + 5 + n - 1] == 0) --n;
                vf_assert(n == 1 && buf[pos + 5] == 'x', "accepted hit: stored Vary equals the entry's known Vary");
                vf_reach("accepted-vary");
            }
            pos += 5 + (size_t)len;
        }
        vf_assert(theMem->vary_headers.cmp("x") == 0, "accepted hit: known Vary is unchanged");
        // the stored object-size field (7 here) is informational: the size of the hit is what the entry's size says
        if (fileSzV > 0) vf_assert(theMem->object_sz == (int64_t)(fileSzV - (uint64_t)hs), "object size = entry size - header size");
        else vf_assert(theMem->object_sz == -1, "unknown entry size leaves the object size unknown");
        vf_reach("accepted");
    } else vf_reach("refused");
    WITNESS_POINT();
}
// ---- family 3b: prefix + key field + object-size field whose two low value bytes are symbolic (a stored size that agrees or disagrees
// with the entry's size, e.g. after a header update rewrote the metadata): the hit's size is entry size - header size in every case
extern "C" void c10_hit_objsize(void)
{
    vf_quiet(); makeEntry(true, nullptr);
    startHeader(5 + 21 + 13);
    const int64_t objsz = 0;
    size_t p = putField(5, Store::STORE_META_KEY_MD5, KEY, 16);
    putField(p, Store::STORE_META_OBJSIZE, &objsz, 8);
    sym(p + 5, "objsize0"); sym(p + 6, "objsize1");
    hit();
}
// ---- family 4: every buffer of 0..NANY fully symbolic bytes
extern "C" void c10_hit_any(void)
{
    vf_quiet(); makeEntry(true, nullptr);
#ifdef VF_THOROUGH
    const unsigned NANY = 12;
#else
    const unsigned NANY = 10;
#endif
    const size_t n = vf_concretize(vf_range(0, NANY, "len"));
    startHeader(0); blen = n; xfree(buf);
    buf = static_cast<unsigned char *>(xmalloc(n ? n : 1));
    for (size_t i = 0; i < n; ++i) buf[i] = vf_nondet_u8("byte");
    hit();
}
// ---- family 5: index rebuild: prefix + key field + STD_LFS field in a MemBuf whose content size is exactly the header
extern "C" void c10_index(void)
{
    vf_quiet();
    unsigned char basics[Store::STORE_HDR_METASIZE];
    for (unsigned i = 0; i < sizeof(basics); ++i) basics[i] = (unsigned char)(i + 1);
    startHeader(5 + 21 + 5 + sizeof(basics));
    size_t p = putField(5, Store::STORE_META_KEY_MD5, KEY, 16);
    putField(p, Store::STORE_META_STD_LFS, basics, sizeof(basics));
    sym(1, "size0"); sym(5, "type"); sym(6, "len0"); sym(10, "key0"); sym(26, "type2");
#ifdef VF_THOROUGH
    sym(0, "magic"); sym(27, "len2_0"); sym(31, "ts0");
#endif
    MemBuf mb; mb.init(blen, blen); // exact capacity
    mb.append(reinterpret_cast<const char *>(buf), blen);
    static char place[sizeof(StoreEntry)];
    StoreEntry *tmpe = ::new (place) StoreEntry;
    tmpe->key = nullptr;
    unsigned char keyOut[16]; memset(keyOut, 0xEE, sizeof(keyOut));
    bool accepted = false; size_t hdr = 0;
    try { hdr = Store::UnpackIndexSwapMeta(mb, *tmpe, keyOut); accepted = true; } catch (const std::exception &) {}
    vf_observe("accepted", accepted);
    if (accepted) {
        keyPrivate = true; // no entry to compare with: only the structure is demanded
        const RefResult r = refCheckAccepted(buf, blen, false);
        vf_assert(hdr == (size_t)r.hdr, "returned header size is the stored one");
        // reference: last key field / last basics field win
        bool haveKey = false, haveStd = false; const unsigned char *k = nullptr, *s = nullptr;
        for (size_t pos = 5; pos < (size_t)r.hdr; ) {
            const int len = (int)vf_concretize((uint32_t)refInt(buf + pos + 1));
            const signed char t = (signed char)buf[pos];
            if (t == 3) { haveKey = true; k = buf + pos + 5; }
            if (t == 9) { vf_assert(len == (int)Store::STORE_HDR_METASIZE, "accepted basics field has the basics size"); haveStd = true; s = buf + pos + 5; }
            if (t == 5) { vf_assert(len == (int)Store::STORE_HDR_METASIZE_OLD, "accepted old basics field has the old basics size"); }
            pos += 5 + (size_t)len;
        }
        if (haveKey) { vf_assert(tmpe->key == keyOut && memcmp(keyOut, k, 16) == 0, "indexed key is the stored key"); vf_reach("indexed-key"); }
        else { vf_assert(tmpe->key == nullptr, "no stored key: entry stays keyless (and is ignored by the rebuild)"); vf_reach("indexed-keyless"); }
        if (haveStd) { vf_assert(memcmp(&tmpe->timestamp, s, Store::STORE_HDR_METASIZE) == 0, "indexed basics are the stored basics"); }
    } else vf_reach("refused");
    WITNESS_POINT();
}
// ---- family 6: Store::UnpackSwapMetaSize() (Rock header updater) on 0..7 fully symbolic bytes
extern "C" void c10_prefix(void)
{
    vf_quiet();
    const size_t n = vf_concretize(vf_range(0, 7, "len"));
    unsigned char *b = static_cast<unsigned char *>(xmalloc(n ? n : 1));
    for (size_t i = 0; i < n; ++i) b[i] = vf_nondet_u8("byte");
    SBuf sb(reinterpret_cast<const char *>(b), n);
    bool accepted = false; size_t sz = 0;
    try { sz = Store::UnpackSwapMetaSize(sb); accepted = true; } catch (const std::exception &) {}
    vf_observe("accepted", accepted);
    if (accepted) {
        vf_assert(n >= 5 && b[0] == 0x03, "accepted prefix is complete and starts with the magic");
        vf_assert(refInt(b + 1) >= 5 && sz == (size_t)refInt(b + 1), "accepted size is the stored size and covers the prefix");
        vf_reach("accepted");
    } else vf_reach("refused");
    WITNESS_POINT();
}
