// C31: percent-encoding round trips (AnyP::Uri::Encode/Decode, rfc1738_do_escape/rfc1738_unescape).
#include "squid.h"
#include "anyp/Uri.h"
#include "base/CharacterSet.h"
#include "sbuf/SBuf.h"
#include "rfc1738.h"
#include "common.h"

#ifdef VF_THOROUGH
#define MAXN 4
#define MAXR 2
#define MAXU 5
#else
#define MAXN 3
#define MAXR 2
#define MAXU 4
#endif

static bool isHexUp(char c) { return (c >= '0' && c <= '9') || (c >= 'A' && c <= 'F'); }

extern "C" void c31_uri_roundtrip(void)
{
    vf_quiet();
    const unsigned n = (unsigned)vf_concretize(vf_range(0, MAXN, "len"));
    char in[MAXN + 1];
    for (unsigned i = 0; i < n; ++i) in[i] = (char)vf_nondet_u8("byte");
    const unsigned which = (unsigned)vf_concretize(vf_range(0, 2, "ignoreSet"));
    static const CharacterSet unreserved = CharacterSet("unreserved", "-._~") + CharacterSet::ALPHA + CharacterSet::DIGIT;
    static const CharacterSet none("none", "");
    static const CharacterSet allButPct = CharacterSet("percent", "%").complement("allButPercent");
    const CharacterSet &ignore = which == 0 ? unreserved : which == 1 ? none : allButPct;
    const SBuf x(in, n);
    const SBuf e = AnyP::Uri::Encode(x, ignore);
    // alphabet: ignored characters or well-formed %XX triplets
    for (SBuf::size_type i = 0; i < e.length();) {
        const char c = e[i];
        if (c == '%') {
            vf_assert(i + 2 < e.length() && isHexUp(e[i + 1]) && isHexUp(e[i + 2]), "well-formed %XX triplet");
            i += 3;
        } else {
            vf_assert(ignore[c], "only ignored characters appear raw");
            ++i;
        }
    }
    const auto d = AnyP::Uri::Decode(e);
    vf_assert(d.has_value(), "Decode accepts Encode's output");
    vf_assert(d->length() == n, "round trip length");
    for (unsigned i = 0; i < n; ++i) vf_assert((*d)[i] == in[i], "Decode(Encode(x)) == x");
    vf_observe("elen", e.length());
    vf_reach("done");
    WITNESS_POINT();
}

extern "C" void c31_uri_decode_arbitrary(void)
{
    // arbitrary input: Decode either rejects or yields what a reference decoder yields; never crashes
    vf_quiet();
    const unsigned n = (unsigned)vf_concretize(vf_range(0, MAXN + 1, "len"));
    char in[MAXN + 2];
    for (unsigned i = 0; i < n; ++i) in[i] = (char)vf_nondet_u8("byte");
    const auto d = AnyP::Uri::Decode(SBuf(in, n));
    // reference
    char ref[MAXN + 2]; unsigned rl = 0; bool rok = true;
    auto hv = [](char c) { return (c >= '0' && c <= '9') ? c - '0' : (c >= 'a' && c <= 'f') ? c - 'a' + 10 : (c >= 'A' && c <= 'F') ? c - 'A' + 10 : -1; };
    for (unsigned i = 0; i < n && rok;) {
        if (in[i] != '%') { ref[rl++] = in[i++]; continue; }
        if (i + 2 < n && hv(in[i + 1]) >= 0 && hv(in[i + 2]) >= 0) { ref[rl++] = (char)((hv(in[i + 1]) << 4) | hv(in[i + 2])); i += 3; }
        else rok = false;
    }
    vf_observe("ok", d.has_value());
    vf_assert(d.has_value() == rok, "Decode accepts exactly the well-formed encodings");
    if (d) { vf_assert(d->length() == rl, "decoded length"); for (unsigned i = 0; i < rl; ++i) vf_assert((*d)[i] == ref[i], "decoded bytes"); vf_reach("accepted"); }
    else vf_reach("rejected");
    WITNESS_POINT();
}

extern "C" void c31_rfc1738_roundtrip(void)
{
    vf_quiet();
    const unsigned n = (unsigned)vf_concretize(vf_range(0, MAXR, "len"));
    char *in = (char *)xmalloc(n + 1);
    for (unsigned i = 0; i < n; ++i) { in[i] = (char)vf_nondet_u8("byte"); vf_assume(in[i] != 0); }
    in[n] = 0;
    static const int flagSets[] = {RFC1738_ESCAPE_UNSAFE | RFC1738_ESCAPE_CTRLS, RFC1738_ESCAPE_ALL, RFC1738_ESCAPE_UNSAFE, RFC1738_ESCAPE_ALL | RFC1738_ESCAPE_NOSPACE};
    const int flags = flagSets[vf_concretize(vf_range(0, 3, "flags"))];
    // call twice so that the static buffer reuse path is covered as well
    // (previous string: "", one character that is copied, one that grows to %XX)
#ifdef VF_THOROUGH
    const unsigned m = (unsigned)vf_concretize(vf_range(0, 1, "prelen"));
    char pre[2] = {0, 0}; if (m) { pre[0] = (char)vf_nondet_u8("prebyte"); vf_assume(pre[0] != 0); }
#else
    const unsigned m = (unsigned)vf_concretize(vf_range(0, 2, "pre"));
    char pre[2] = {0, 0}; if (m) pre[0] = m == 1 ? 'a' : '%';
#endif
    (void)rfc1738_do_escape(pre, flags);
    char *e = rfc1738_do_escape(in, flags);
    const size_t el = strlen(e);
    vf_assert(el <= 3 * (size_t)n, "escaped form fits 3*len");
    for (size_t i = 0; i < el; ++i) {
        if (e[i] == '%') { vf_assert(i + 2 < el && isHexUp(e[i + 1]) && isHexUp(e[i + 2]), "well-formed %XX"); i += 2; }
    }
    char *copy = (char *)xmalloc(el + 1);   // exact size: unescape must not write past the input
    memcpy(copy, e, el + 1);
    rfc1738_unescape(copy);
    vf_assert(strlen(copy) == n, "round trip length");
    for (unsigned i = 0; i < n; ++i) vf_assert(copy[i] == in[i], "unescape(escape(x)) == x");
    vf_observe("el", el);
    vf_reach("done");
    WITNESS_POINT();
}

extern "C" void c31_rfc1738_unescape_arbitrary(void)
{
    vf_quiet();
    const unsigned n = (unsigned)vf_concretize(vf_range(0, MAXU, "len"));
    char *s = (char *)xmalloc(n + 1);        // exact size
    for (unsigned i = 0; i < n; ++i) { s[i] = (char)vf_nondet_u8("byte"); vf_assume(s[i] != 0); }
    s[n] = 0;
    rfc1738_unescape(s);
    vf_assert(strlen(s) <= n, "unescape never grows the string");
    vf_observe("len", strlen(s));
    vf_reach("done");
    WITNESS_POINT();
}
