// C40: FTP address strings (PORT/PASV "h1,h2,h3,h4,p1,p2" and EPRT/EPSV "<d>proto<d>ip<d>port<d>") yield an address only
// when every component is in range, incl. 1 <= port <= 65535; listing lines of any content are parsed without memory errors.
// Real code: src/ftp/Parsing.cc (Ftp::ParseIpPort, Ftp::ParseProtoIpPort), src/ip/Address.cc (text -> address, any-address and
// family tests, port), src/clients/FtpGateway.cc (ftpListParseParts; the real TU is #included, see the end of this file).
// Symbolic: the bytes marked \x01 in the string templates below (every byte value), ftp_sanitycheck, forceIp on/off.
// Oracle: an independent reference reader of the components (sign, digits -> value in 128-bit arithmetic) written below:
//   accepted  =>  every component exists and is in range, the port is 1..65535 (>= 1024 under ftp_sanitycheck), and the
//                 address handed back is exactly the one written;
//   for canonical strings (plain decimal numbers, nothing else) also the converse, so that "reject everything" is no solution.
// Strings live in exact-size heap blocks (strlen+1), so reading past the terminator is an out-of-bounds access.
#include "squid.h"
#include "common.h"
#include "SquidConfig.h"
#include "ftp/Parsing.h"
#include "ip/Address.h"
#include "ip/tools.h"
#include <cstring>
#include <cstdlib>

int Ip::EnableIpv6 = IPV6_ON;    // ip/tools.cc (socket probing) is not linked; only consulted for multi-result lookups

// ---------------------------------------------------------------- helpers
// A fully symbolic byte, case-split (exhaustively, no assumption) into "one of the ten digits, concrete" / "anything else,
// symbolic": the parsers do arithmetic (strtol, scanf %d, printf %d: multiply/divide chains) on digits only, and with
// concrete digits that arithmetic never reaches the solver.
static char symbolicByte(const char *name)
{
    char c = (char)vf_nondet_u8(name);
    if (c >= '0' && c <= '9') c = (char)vf_concretize((unsigned char)c);
    return c;
}
static unsigned fill(char *out, const char *tmpl, const char *name)
{
    unsigned i = 0;
    for (; tmpl[i]; ++i) {
        out[i] = tmpl[i] == '\x01' ? symbolicByte(name) : tmpl[i];
        if (tmpl[i] == '\x01') vf_assume(out[i] != 0);     // a NUL would merely shorten the string (shorter strings: c40_short)
    }
    out[i] = 0;
    return i;
}
static char *exactCopy(const char *s, const unsigned len)
{
    char *p = (char *)malloc(len + 1);
    memcpy(p, s, len + 1);
    return p;
}
static bool isWs(const char c) { return c == ' ' || (c >= 9 && c <= 13); }
static bool isDig(const char c) { return c >= '0' && c <= '9'; }

// one decimal component as scanf("%d")/strtol() read it: [whitespace] [+|-] digits; value without any wrap-around
struct Num { bool present; bool plain; __int128 value; const char *end; unsigned chars; };   // chars: sign + digits
static Num readNum(const char *p)
{
    Num r = {false, true, 0, p, 0};
    while (isWs(*p)) { ++p; r.plain = false; }
    const char *start = p;
    bool neg = false;
    if (*p == '-' || *p == '+') { neg = *p == '-'; ++p; r.plain = false; }
    if (!isDig(*p)) return r;
    if (*p == '0' && isDig(p[1])) r.plain = false;           // leading zero
    __int128 v = 0;
    for (; isDig(*p); ++p) if (v < ((__int128)1 << 100)) v = v * 10 + (*p - '0');
    r.present = true; r.value = neg ? -v : v; r.end = p; r.chars = (unsigned)(p - start);
    return r;
}

static uint32_t v4of(const Ip::Address &a)
{
    struct in_addr ia;
    a.getInAddr(ia);
    return ntohl(ia.s_addr);
}


// ---------------------------------------------------------------- PORT / PASV: "h1,h2,h3,h4,p1,p2"
static void checkIpPort(const char *text, const unsigned len, const bool force, const int sanity)
{
    Config.Ftp.sanitycheck = sanity;
    // reference reading of the six components
    Num c[6];
    bool six = true, canonical = true;
    const char *p = text;
    for (int i = 0; i < 6; ++i) {
        if (six) {
            c[i] = readNum(p);
            if (!c[i].present) six = false;
            else {
                canonical = canonical && c[i].plain;
                p = c[i].end;
                if (i < 5) { if (*p == ',') ++p; else six = false; }
            }
        }
    }
    canonical = canonical && six && *p == 0;
    bool inRange = six;
    for (int i = 0; i < 6 && inRange; ++i) inRange = c[i].value >= 0 && c[i].value <= 255;
    const __int128 port = six ? c[4].value * 256 + c[5].value : 0;
    const bool portOk = inRange && port >= 1 && port <= 65535 && (!sanity || port >= 1024);

    // (The three classes reported earlier - forceIp skipping the h1..h4 range check, scanf("%d") wrapping huge numbers, EPRT
    // ports 0 / missing / > 65535 - were repaired in Squid and are part of what is checked here.)
    // (A last component written with more than 4 characters used to be cut short by the %4d field width and accepted
    // ("10,0,0,1,4,02559" as p2 = 255); repaired in /repo by the follow-up 'fix: FTP address parsers: last PASV component cut
    // short ...' commit. The family c40_long_last_component keeps that class in the check.)

    char *s = exactCopy(text, len);
    Ip::Address addr;
    const bool ok = Ftp::ParseIpPort(s, force ? "127.0.0.1" : nullptr, addr);
    vf_observe("ok", ok);
    if (ok) {
        vf_assert(six, "accepted => six numeric components");
        vf_assert(inRange, "accepted => every component within 0..255");
        vf_assert(portOk, "accepted => port within 1..65535 (>= 1024 under ftp_sanitycheck)");
        vf_assert(addr.port() == (unsigned short)port, "accepted => the port handed back is p1*256+p2");
        vf_assert(addr.isIPv4() && !addr.isAnyAddr(), "accepted => a usable IPv4 address");
        const uint32_t want = force ? 0x7F000001u : ((uint32_t)c[0].value << 24 | (uint32_t)c[1].value << 16 | (uint32_t)c[2].value << 8 | (uint32_t)c[3].value);
        vf_assert(v4of(addr) == want, "accepted => the address handed back is h1.h2.h3.h4 (or the forced one)");
        vf_observe("port", addr.port());
        vf_reach("accepted");
    } else {
        if (canonical) {
            const bool anyAddr = !force && c[0].value == 0 && c[1].value == 0 && c[2].value == 0 && c[3].value == 0;
            vf_assert(!(portOk && !anyAddr), "canonical string with every component in range is accepted");
        }
        vf_reach("rejected");
    }
    free(s);
    WITNESS_POINT();
}

static void ipPortFamily(const char *const *tmpls, const unsigned count)
{
    vf_quiet();
#ifdef C40_ONLY
    const unsigned k = C40_ONLY;
#else
    const unsigned k = (unsigned)vf_concretize(vf_range(0, count - 1, "template"));
#endif
    char text[64];
    const unsigned len = fill(text, tmpls[k], "byte");
    const bool force = vf_concretize(vf_range(0, 1, "forceIp"));
    const int sanity = (int)vf_concretize(vf_range(0, 1, "sanitycheck"));
    checkIpPort(text, len, force, sanity);
}

// h components: boundary 255/256, sign, garbage, all-zero address
extern "C" void c40_pasv_host(void)
{
    static const char *const t[] = {
        "25\x01,0,0,1,4,1",             // h1 = 250..259 and anything else of that shape
        "10,0,0,\x01\x01,4,1",          // h4: any two bytes (sign, separators, garbage)
        "0,0,0,\x01,4,1",               // 0.0.0.0 and neighbours
#ifdef VF_THOROUGH
        "2\x01\x01,0,0,1,4,1",
        "0,0,\x01,\x01,4,1",
#endif
    };
    ipPortFamily(t, sizeof(t) / sizeof(*t));
}
// p components: boundary 255/256, port 0, ftp_sanitycheck boundary 1023/1024
extern "C" void c40_pasv_port(void)
{
    static const char *const t[] = {
        "10,0,0,1,25\x01,1",            // p1 = 250..259 and anything else of that shape
        "10,0,0,1,0,\x01\x01",          // p1 = 0: port 0.., p2 any two bytes
        "10,0,0,1,\x01,\x01",           // single digits: 3,9 / 4,0 (port 1024)
        "10,0,0,1,3,25\x01",            // 3,255 (port 1023)
        "10,0,0,1,4,1\x01",             // a trailing byte after the last number
#ifdef VF_THOROUGH
        "10,0,0,1,\x01,25\x01",
        "10,0,0,1,2\x01\x01,1",
        "10,0,0,1,\x01\x01,1",
        "10,0,0,1,4,1\x01\x01",
#endif
    };
    ipPortFamily(t, sizeof(t) / sizeof(*t));
}
// huge and negative components (beyond int and beyond long)
extern "C" void c40_pasv_huge(void)
{
    static const char *const t[] = {
        "10,0,0,1,4,429496729\x01",               // 2^32 + small
        "429496729\x01,0,0,1,4,1",
        "10,0,0,1,4,-\x01",                       // negative p2 with a positive port
        "10,0,0,1,4,1844674407370955161\x01",     // around 2^64
        "10,0,0,1,214748364\x01,1",               // around 2^31
#ifdef VF_THOROUGH
        "10,0,0,1,4,42949672\x01\x01",
        "42949672\x01\x01,0,0,1,4,1",
        "10,0,0,1,-\x01,1\x01",
        "10,0,0,1,\x01\x01,-\x01",
        "10,0,0,1,4,184467440737095516\x01\x01",
        "10,0,0,1,21474836\x01\x01,1",
        "10,0,0,1,4,92233720368547758\x01\x01",   // around 2^63
        "10,0,0,-21474836\x01\x01,4,1",
#endif
    };
    ipPortFamily(t, sizeof(t) / sizeof(*t));
}

// ---------------------------------------------------------------- EPRT / EPSV: "<d><proto><d><ip><d><port><d>"
// ipKind: what the harness knows about the <ip> text it wrote: 0 = arbitrary (no claim beyond family/any/port),
// 4 = "a.b.c.d" with plain decimal numbers (then every number must be <= 255 and the address must be that one)
static void checkProtoIpPort(const char *text, const unsigned len, const int sanity)
{
    Config.Ftp.sanitycheck = sanity;
    // reference reading: delimiter, proto, ip text, port
    const char d = text[0];
    const Num proto = readNum(text + 1);
    bool shape = proto.present && *proto.end == d;
    const char *ip = shape ? proto.end + 1 : nullptr;
    const char *ipEnd = ip ? strchr(ip, d) : nullptr;
    shape = shape && ipEnd;
    Num port = {false, true, 0, nullptr};
    if (shape) port = readNum(ipEnd + 1);
    shape = shape && port.present && *port.end == '|';       // (Squid insists on '|' here whatever the delimiter was)
    const bool protoOk = shape && (proto.value == 1 || proto.value == 2);
    const bool portOk = shape && port.value >= 1 && port.value <= 65535 && (!sanity || port.value >= 1024);
    // is the ip text a plain decimal dotted quad?
    Num q[4];
    bool quad = shape;
    if (quad) {
        const char *p = ip;
        for (int i = 0; i < 4 && quad; ++i) {
            q[i] = readNum(p);
            quad = q[i].present && q[i].plain;
            if (quad) { p = q[i].end; if (i < 3) { if (*p == '.') ++p; else quad = false; } }
        }
        quad = quad && p == ipEnd;
    }

    // (A protocol number that does not fit an int used to wrap to 1 or 2; repaired in /repo by the same follow-up commit.
    // The family c40_huge_protocol keeps that class in the check.)

    char *s = exactCopy(text, len);
    Ip::Address addr;
    const bool ok = Ftp::ParseProtoIpPort(s, addr);
    vf_observe("ok", ok);
    if (ok) {
        vf_assert(shape, "accepted => <d>proto<d>ip<d>port| with numeric proto and port");
        vf_assert(protoOk, "accepted => protocol 1 or 2");
        vf_assert(portOk, "accepted => port within 1..65535 (>= 1024 under ftp_sanitycheck)");
        vf_assert(addr.port() == (unsigned short)port.value, "accepted => the port handed back is the one written");
        vf_assert(!addr.isAnyAddr(), "accepted => not the unspecified address");
        vf_assert(addr.isIPv6() == (proto.value == 2), "accepted => address family matches the protocol number");
        if (quad) {
            vf_assert(q[0].value <= 255 && q[1].value <= 255 && q[2].value <= 255 && q[3].value <= 255, "accepted => every address component within 0..255");
            vf_assert(v4of(addr) == ((uint32_t)q[0].value << 24 | (uint32_t)q[1].value << 16 | (uint32_t)q[2].value << 8 | (uint32_t)q[3].value), "accepted => the address handed back is the one written");
        }
        vf_observe("port", addr.port());
        vf_reach("accepted");
    } else {
        if (quad && proto.plain && port.plain && port.end[1] == 0) {
            const bool inRange = q[0].value <= 255 && q[1].value <= 255 && q[2].value <= 255 && q[3].value <= 255;
            const bool anyAddr = q[0].value == 0 && q[1].value == 0 && q[2].value == 0 && q[3].value == 0;
            vf_assert(!(proto.value == 1 && inRange && !anyAddr && portOk), "canonical IPv4 string with every component in range is accepted");
        }
        vf_reach("rejected");
    }
    free(s);
    WITNESS_POINT();
}

static void eprtFamily(const char *const *tmpls, const unsigned count, const bool noPercent)
{
    vf_quiet();
#ifdef C40_ONLY
    const unsigned k = C40_ONLY;
#else
    const unsigned k = (unsigned)vf_concretize(vf_range(0, count - 1, "template"));
#endif
    char text[96];
    const unsigned len = fill(text, tmpls[k], "byte");
    // (IPv6 families: a '%' would start a scope id, which the harness's getaddrinfo model does not implement)
    if (noPercent) for (unsigned i = 0; i < len; ++i) vf_assume(text[i] != '%');
    const int sanity = (int)vf_concretize(vf_range(0, 1, "sanitycheck"));
    checkProtoIpPort(text, len, sanity);
}

// delimiters, protocol number, IPv4 text
extern "C" void c40_eprt_addr(void)
{
    static const char *const t[] = {
        "\x01" "1\x01" "10.0.0.1|8080|",        // both delimiters
        "|\x01|10.0.0.1|8080|",                 // protocol
        "|1|25\x01.0.0.1|8080|",                // 250..259
        "|1|0.0.0.\x01|8080|",                  // 0.0.0.0
        "|1|10.0.0.1\x01" "8080\x01",           // the delimiters around the port
#ifdef VF_THOROUGH
        "|\x01\x01" "10.0.0.1|8080|",
        "|1|10.0.0.\x01\x01|8080|",
        "|1|2\x01\x01.0.0.1|8080|",
#endif
    };
    if (vf_concretize(vf_range(0, 1, "family"))) {
        // <ip> text of 73..77 bytes around Squid's MAX_IPSTRLEN (75) copy buffer, one symbolic byte at its end
        vf_quiet();
        char text[120];
        unsigned len = 0;
        text[len++] = '|'; text[len++] = '1'; text[len++] = '|';
        const unsigned ipLen = (unsigned)vf_concretize(vf_range(73, 77, "iplen"));
        for (unsigned i = 0; i + 1 < ipLen; ++i) text[len++] = '1';
        text[len++] = symbolicByte("byte"); vf_assume(text[len - 1] != 0);
        for (const char *r = "|8080|"; *r; ++r) text[len++] = *r;
        text[len] = 0;
        checkProtoIpPort(text, len, 0);
        return;
    }
    eprtFamily(t, sizeof(t) / sizeof(*t), false);
}
// port: boundaries 0/1, 1023/1024, 65535/65536, 2^31, 2^32, 2^63, sign, missing
extern "C" void c40_eprt_port(void)
{
    static const char *const t[] = {
        "|1|10.0.0.1|\x01\x01|",
        "|1|10.0.0.1|102\x01|",
        "|1|10.0.0.1|6553\x01|",
        "|1|10.0.0.1|429496737\x01|",
        "|1|10.0.0.1|214748364\x01|",
        "|1|10.0.0.1|-\x01|",
        "|1|10.0.0.1|922337203685477580\x01|",
#ifdef VF_THOROUGH
        "|1|10.0.0.1|102\x01\x01",
        "|1|10.0.0.1|655\x01\x01|",
        "|1|10.0.0.1|42949673\x01\x01|",
        "|1|10.0.0.1|21474836\x01\x01|",
        "|1|10.0.0.1|92233720368547758\x01\x01|",
#endif
    };
    eprtFamily(t, sizeof(t) / sizeof(*t), false);
}
// IPv6 and family mismatch
extern "C" void c40_eprt_v6(void)
{
    static const char *const t[] = {
        "|\x01|::1|8080|",
        "|2|::\x01|8080|",
        "|\x01|1.2.3.4|8080|",
        "|2|\x01::1|8080|",
        "|2|::ffff:1.2.3.\x01|8080|",
#ifdef VF_THOROUGH
        "|\x01|::\x01|8080|",
        "|2|\x01:\x01:1|8080|",
        "|2|1::\x01\x01|8080|",
#endif
    };
    eprtFamily(t, sizeof(t) / sizeof(*t), true);
}
// every NUL-terminated string of 1..N bytes (EPRT: the callers never pass an empty string) / 0..N bytes (PORT/PASV)
extern "C" void c40_short(void)
{
    vf_quiet();
    enum { N = 2 };
    char text[N + 1];
    const bool eprt = vf_concretize(vf_range(0, 1, "parser"));
    const unsigned len = (unsigned)vf_concretize(vf_range(eprt ? 1 : 0, N, "len"));
    for (unsigned i = 0; i < len; ++i) { text[i] = symbolicByte("byte"); vf_assume(text[i] != 0); }
    text[len] = 0;
    if (eprt) {
        for (unsigned i = 0; i < len; ++i) vf_assume(text[i] != '%');
        checkProtoIpPort(text, len, 0);
    } else
        checkIpPort(text, len, vf_concretize(vf_range(0, 1, "forceIp")), 0);
}

// ---------------------------------------------------------------- directory listing lines: ftpListParseParts()
// Memory safety only. The line lives in an exact-size heap block; whatever comes back is read to the end (as
// htmlifyListEntry() does) and released with the real ftpListPartsFree(). flags.skip_whitespace / tried_nlst are case-split.
struct ListParts;                                   // = ftpListParts, defined by the real TU included below
static void listLine(const char *text, unsigned len, bool skipWs, bool nlst);

static void listFamily(const char *const *tmpls, const unsigned count)
{
    vf_quiet();
    const unsigned k = (unsigned)vf_concretize(vf_range(0, count - 1, "template"));
    char text[200];
    unsigned len = 0;
    for (const char *t = tmpls[k]; *t; ++t) {
        if (*t == '\x02') { for (int r = 0; r < 66; ++r) { text[len++] = 'a'; text[len++] = ' '; } continue; }   // 66 tokens (> MAX_TOKENS)
        text[len] = *t == '\x01' ? (char)vf_nondet_u8("byte") : *t;
        if (*t == '\x01') vf_assume(text[len] != 0);
        ++len;
    }
    text[len] = 0;
    const bool skipWs = vf_concretize(vf_range(0, 1, "skip_whitespace"));
    listLine(text, len, skipWs, false);
}
// Unix "ls -l" style
extern "C" void c40_list_unix(void)
{
    static const char *const t[] = {
        "-rw-r--r-- 1 u g 1\x01 Jan 0\x01 2020 name",             // size and day: digit or not
        "lrw-r--r-- 1 u g 12 Jan 01 20:1\x01\x01name -> t",         // end of the time field, start of the name
        "lrwxrwxrwx 1 u g 12 Jan  1  2020 a -\x01\x01",              // two-space date layout, link arrow at the very end
        "\x01rw 1 u g 12 Jan 01 2020 name -> \x01",                 // type letter, link target
        "d 1 u 12 Jan 01 12:\x01\x01",                              // the line ends with the time field / whitespace / a name follows
        "d 1 u g 12 Jan\x01\x01",                                   // the line ends at / shortly after the month
        "\x02 12 Jan 01 2020 n\x01",                                // more than MAX_TOKENS tokens
#ifdef VF_THOROUGH
        "-rw-r--r-- 1 u g 1\x01 Jan \x01" "1 2020 name",
        "lrwxrwxrwx 1 u g 12 Jan  1  2020 a \x01> \x01",
        "\x01rw 1 u g 12 J\x01n 01 2020 name",                      // type letter, month spelling
        "l 1 u g 12 Jan 01 2020 \x01\x01",
        "- 1 u g 12 Jan 01 2\x01\x01 name",
        "-rw-r--r-- 1 u g 12 jan 1\x01 1999\x01 x",                 // type B layout with a short day
#endif
    };
    listFamily(t, sizeof(t) / sizeof(*t));
}
// DOS style, EPLF, unknown
extern "C" void c40_list_other(void)
{
    static const char *const t[] = {
        "04-05-70 09:33\x01M <DIR\x01 name",
        "04-05-7\x01 09:33PM 12\x01 n",
        "04-05-70 09:33PM\x01" "12\x01",                            // token count around the "n_tokens > 3" test
        "+s1\x01,\x01,\tname",                                      // EPLF facts
        "+m\x01,/\x01\tn",                                          // EPLF modification time, directory flag
        "+i1.2,\x01\x01",                                           // EPLF without / with an empty name
#ifdef VF_THOROUGH
        "+\x01\x01",
        "0\x01-05-70 \x01" "9:33PM <dir> name",
        "+s1,m\x01,\t\x01",
#endif
    };
    listFamily(t, sizeof(t) / sizeof(*t));
}
// every line of 0..N bytes, in listing mode and in NLST (one name per line) mode
extern "C" void c40_list_short(void)
{
    vf_quiet();
#ifdef VF_THOROUGH
    enum { N = 4 };
#else
    enum { N = 3 };
#endif
    char text[N + 1];
    const unsigned len = (unsigned)vf_concretize(vf_range(0, N, "len"));
    for (unsigned i = 0; i < len; ++i) { text[i] = (char)vf_nondet_u8("byte"); vf_assume(text[i] != 0); }
    text[len] = 0;
    const bool nlst = vf_concretize(vf_range(0, 1, "tried_nlst"));
    listLine(text, len, vf_concretize(vf_range(0, 1, "skip_whitespace")), nlst);
}

// ---------------------------------------------------------------- classes that were findings and are repaired now: kept as ordinary families
extern "C" void c40_long_last_component(void)
{
    static const char *const t[] = {"10,0,0,1,4,025\x01\x01", "10,0,0,1,4,+02\x01\x01", "10,0,0,1,4,-00\x01\x01"};
    ipPortFamily(t, sizeof(t) / sizeof(*t));
}
extern "C" void c40_huge_protocol(void)
{
    static const char *const t[] = {"|429496729\x01|10.0.0.1|8080|", "|858993459\x01|::1|8080|", "|-429496729\x01|10.0.0.1|8080|"};
    eprtFamily(t, sizeof(t) / sizeof(*t), true);
}

// ---------------------------------------------------------------- the entries of the tiers: one per parser, case-split over the families above
extern "C" void c40_pasv(void)
{
    switch (vf_concretize(vf_range(0, 2, "family"))) {
    case 0: c40_pasv_host(); break;
    case 1: c40_pasv_port(); break;
    default: c40_pasv_huge(); break;
    }
}
extern "C" void c40_eprt(void)
{
    switch (vf_concretize(vf_range(0, 2, "family"))) {
    case 0: c40_eprt_addr(); break;
    case 1: c40_eprt_port(); break;
    default: c40_eprt_v6(); break;
    }
}
extern "C" void c40_list(void)
{
    switch (vf_concretize(vf_range(0, 2, "family"))) {
    case 0: c40_list_unix(); break;
    case 1: c40_list_other(); break;
    default: c40_list_short(); break;
    }
}

// ---------------------------------------------------------------- libc model (bitcode build only): numeric-host getaddrinfo
// glibc semantics for getaddrinfo(name, NULL, {AI_NUMERICHOST}, &res): IPv4 via inet_aton_exact (1-4 parts, each decimal,
// octal with a leading 0, or hex with 0x; the last part fills the remaining octets), else IPv6 via inet_pton (no scope id:
// the harness never writes '%' into an IPv6 text), else EAI_NONAME. The native replay uses the real glibc function.
#ifdef VF_BITCODE
#include <netdb.h>
#include <sys/socket.h>
#include <netinet/in.h>
static bool modelAton(const char *cp, uint32_t &out)
{
    uint32_t parts[4];
    unsigned n = 0;
    for (;;) {
        if (!isDig(*cp)) return false;
        unsigned base = 10;
        if (*cp == '0') { if (cp[1] == 'x' || cp[1] == 'X') { base = 16; cp += 2; } else base = 8; }
        // strtoul(cp, &end, 0) semantics ("0x" without a hex digit parses as "0" followed by 'x')
        uint64_t v = 0; unsigned nd = 0;
        if (base == 16) {
            const char *h = cp;
            for (;; ++h) {
                int dv = isDig(*h) ? *h - '0' : (*h >= 'a' && *h <= 'f') ? *h - 'a' + 10 : (*h >= 'A' && *h <= 'F') ? *h - 'A' + 10 : -1;
                if (dv < 0) break;
                if (v <= 0xFFFFFFFFull) v = v * 16 + dv;
                ++nd;
            }
            if (!nd) { v = 0; cp -= 1; } else cp = h;      // "0x": value 0, stops at the 'x'
        } else {
            for (; isDig(*cp) && (unsigned)(*cp - '0') < base; ++cp) { if (v <= 0xFFFFFFFFull) v = v * base + (*cp - '0'); ++nd; }
        }
        if (v > 0xFFFFFFFFull) return false;
        if (*cp == '.') {
            if (n >= 3 || v > 0xFF) return false;
            parts[n++] = (uint32_t)v;
            ++cp;
        } else {
            if (*cp != 0) return false;
            static const uint32_t maxLast[4] = {0xFFFFFFFFu, 0xFFFFFFu, 0xFFFFu, 0xFFu};
            if (v > maxLast[n]) return false;
            uint32_t r = (uint32_t)v;
            for (unsigned i = 0; i < n; ++i) r |= parts[i] << (24 - 8 * i);
            out = r;
            return true;
        }
    }
}
static bool modelPton4(const char *src, const char *end, unsigned char *dst)   // strict dotted quad (inet_pton AF_INET rules)
{
    unsigned octets = 0, val = 0; bool saw = false;
    for (; src < end; ++src) {
        if (isDig(*src)) {
            if (saw && val == 0) return false;      // leading zero
            val = val * 10 + (*src - '0');
            if (val > 255) return false;
            if (!saw) { if (++octets > 4) return false; saw = true; }
        } else if (*src == '.' && saw) {
            if (octets == 4) return false;
            dst[octets - 1] = (unsigned char)val; val = 0; saw = false;
        } else return false;
    }
    if (octets < 4 || !saw) return false;
    dst[3] = (unsigned char)val;
    return true;
}
static bool modelPton6(const char *src, unsigned char *dst)
{
    unsigned char tmp[16]; memset(tmp, 0, 16);
    unsigned char *tp = tmp, *endp = tmp + 16, *colonp = nullptr;
    const char *end = src + strlen(src);
    if (*src == ':') { ++src; if (*src != ':') return false; }
    const char *curtok = src; unsigned xdigits = 0, val = 0;
    while (src < end) {
        const char ch = *src++;
        const int dv = isDig(ch) ? ch - '0' : (ch >= 'a' && ch <= 'f') ? ch - 'a' + 10 : (ch >= 'A' && ch <= 'F') ? ch - 'A' + 10 : -1;
        if (dv >= 0) { if (xdigits == 4) return false; val = (val << 4) | dv; ++xdigits; continue; }
        if (ch == ':') {
            curtok = src;
            if (xdigits == 0) { if (colonp) return false; colonp = tp; continue; }
            if (src == end) return false;
            if (tp + 2 > endp) return false;
            *tp++ = (unsigned char)(val >> 8); *tp++ = (unsigned char)val; xdigits = 0; val = 0;
            continue;
        }
        if (ch == '.' && tp + 4 <= endp && modelPton4(curtok, end, tp)) { tp += 4; xdigits = 0; break; }
        return false;
    }
    if (xdigits > 0) { if (tp + 2 > endp) return false; *tp++ = (unsigned char)(val >> 8); *tp++ = (unsigned char)val; }
    if (colonp) {
        if (tp == endp) return false;
        const long n = tp - colonp;
        memmove(endp - n, colonp, n);
        memset(colonp, 0, endp - n - colonp);
        tp = endp;
    }
    if (tp != endp) return false;
    memcpy(dst, tmp, 16);
    return true;
}
struct ModelAi { struct addrinfo ai; union { struct sockaddr_in v4; struct sockaddr_in6 v6; } sa; };
extern "C" int getaddrinfo(const char *name, const char *, const struct addrinfo *, struct addrinfo **res)
{
    ModelAi *m = (ModelAi *)calloc(1, sizeof(ModelAi));
    uint32_t a4;
    if (modelAton(name, a4)) {
        m->sa.v4.sin_family = AF_INET; m->sa.v4.sin_addr.s_addr = htonl(a4);
        m->ai.ai_family = AF_INET; m->ai.ai_addrlen = sizeof(struct sockaddr_in);
    } else if (modelPton6(name, m->sa.v6.sin6_addr.s6_addr)) {
        m->sa.v6.sin6_family = AF_INET6;
        m->ai.ai_family = AF_INET6; m->ai.ai_addrlen = sizeof(struct sockaddr_in6);
    } else { free(m); return EAI_NONAME; }
    m->ai.ai_addr = (struct sockaddr *)&m->sa;
    *res = &m->ai;
    return 0;
}
extern "C" void freeaddrinfo(struct addrinfo *p) { free(p); }
extern "C" const char *gai_strerror(int) { return "error"; }
#endif

// ---------------------------------------------------------------- libc models (bitcode build only) for the listing parser
#ifdef VF_BITCODE
#include <regex.h>
#include <time.h>
// POSIX extended regular expressions, the subset ftpListParseParts() compiles: ^ $ literal characters, bracket lists of
// literal characters, the + repetition, REG_ICASE; REG_NOSUB matching only. The pattern is interpreted at regexec() time.
struct ModelRe { const char *pat; int icase; };
static bool reAtomMatches(const char *atom, const char *atomEnd, char c, const bool icase)
{
    if (!c) return false;
    const char lc = (c >= 'A' && c <= 'Z') ? c + 32 : c;
    if (*atom == '[') {
        for (const char *q = atom + 1; q < atomEnd - 1; ++q) {
            const char lq = (*q >= 'A' && *q <= 'Z') ? *q + 32 : *q;
            if (*q == c || (icase && lq == lc)) return true;
        }
        return false;
    }
    const char la = (*atom >= 'A' && *atom <= 'Z') ? *atom + 32 : *atom;
    return *atom == c || (icase && la == lc);
}
static bool reHere(const char *pat, const char *s, const bool icase)
{
    if (!*pat) return true;
    if (*pat == '$' && !pat[1]) return *s == 0;
    const char *atomEnd = pat + 1;
    if (*pat == '[') { while (*atomEnd && *atomEnd != ']') ++atomEnd; if (*atomEnd) ++atomEnd; }
    if (*atomEnd == '+') {
        unsigned n = 0;
        while (reAtomMatches(pat, atomEnd, s[n], icase)) ++n;
        for (; n >= 1; --n) if (reHere(atomEnd + 1, s + n, icase)) return true;     // greedy, with backtracking
        return false;
    }
    return reAtomMatches(pat, atomEnd, *s, icase) && reHere(atomEnd, s + 1, icase);
}
extern "C" int regcomp(regex_t *preg, const char *pattern, int cflags)
{
    ModelRe *m = (ModelRe *)malloc(sizeof(ModelRe));
    m->pat = pattern; m->icase = (cflags & REG_ICASE) != 0;
    memset(preg, 0, sizeof(*preg));
    *(ModelRe **)preg = m;
    return 0;
}
extern "C" int regexec(const regex_t *preg, const char *s, size_t, regmatch_t *, int)
{
    const ModelRe *m = *(ModelRe *const *)preg;
    if (m->pat[0] == '^') return reHere(m->pat + 1, s, m->icase) ? 0 : REG_NOMATCH;
    for (;; ++s) { if (reHere(m->pat, s, m->icase)) return 0; if (!*s) return REG_NOMATCH; }
}
// ctime(): only the shape matters to the caller (it searches for the '\n'); C locale, UTC
extern "C" char *ctime(const time_t *t)
{
    static char buf[32];
    static const char *const wd[] = {"Thu", "Fri", "Sat", "Sun", "Mon", "Tue", "Wed"};
    const long long v = *t, days = v / 86400, rem = v % 86400;
    if (v < 0 || days > 30) return nullptr;                  // (the harness never gets here: the caller only ever passes 0)
    snprintf(buf, sizeof(buf), "%s Jan %2d %02d:%02d:%02d 1970\n", wd[days % 7], (int)days + 1, (int)(rem / 3600), (int)(rem / 60 % 60), (int)(rem % 60));
    return buf;
}
#endif

// ---------------------------------------------------------------- the real translation units with the static functions
// compat/xstring.cc: xstrndup (its xstrdup would collide with the engine's model of the same name: renamed away)
#define xstrdup c40_unused_xstrdup
#include "compat/xstring.cc"
#undef xstrdup
#include "clients/FtpGateway.cc"

static void listLine(const char *text, const unsigned len, const bool skipWs, const bool nlst)
{
    char *line = exactCopy(text, len);
    Ftp::GatewayFlags flags;
    memset(&flags, 0, sizeof(flags));
    flags.skip_whitespace = skipWs;
    flags.tried_nlst = nlst;
    ftpListParts *parts = ftpListParseParts(line, flags);
    unsigned sum = 0;
    if (parts) {
        vf_assert(parts->name != nullptr, "a parsed entry has a name");
        sum += strlen(parts->name);
        if (parts->date) sum += strlen(parts->date);
        if (parts->link) sum += strlen(parts->link);
        if (parts->showname) sum += strlen(parts->showname);
        vf_observe("type", (unsigned char)parts->type);
        vf_observe("size", (uint64_t)parts->size);
        ftpListPartsFree(&parts);
        vf_reach("parsed");
    } else
        vf_reach("unparsed");
    vf_observe("sum", sum);
    free(line);
    WITNESS_POINT();
}
