// shared harness helpers
#pragma once
#include "vf.h"
#include "debug/Stream.h"
#ifdef WITNESS
#define WITNESS_POINT() vf_assert(0, "witness")
#else
#define WITNESS_POINT() ((void)0)
#endif
static inline void vf_quiet() { for (int i = 0; i < MAX_DEBUG_SECTIONS; ++i) Debug::Levels[i] = -1; }
