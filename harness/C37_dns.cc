// C37: DNS message decoding is memory-safe, terminating and faithful.
// Real code: src/dns/rfc1035.cc (rfc1035MessageUnpack -> HeaderUnpack/QueryUnpack/NameUnpack/RRUnpack, BuildAQuery/QuestionPack),
// src/dns/rfc3596.cc (BuildHostQuery family), src/dns/rfc2671.cc (EDNS OPT RR), compat/xstring.cc (xstrncpy).
//  (a) c37_any / c37_rr*: datagram bytes are symbolic and live in an exact-size heap block, so any over-read is an
//      out-of-bounds query; everything the decoder hands back is then read and released exactly as idnsGrokReply()/
//      ipcache/fqdncache do. Termination = the per-path instruction budget is never exhausted (pointer loops included).
//  (b) c37_faithful*: an independent reference ENCODER (below) builds a well-formed reply from symbolic fields
//      (header, 1 question, 1-2 RRs of type A/AAAA/PTR/CNAME, names with or without compression pointers);
//      oracle = the decoded message equals the fields that were encoded.
//  (c) c37_query*: rfc1035BuildAQuery / rfc3596Build*Query output decodes back to the query that was packed
//      (and is byte-identical to the reference encoder's output).
#include "squid.h"
#include "common.h"
#include "SquidConfig.h"
#include "dns/rfc1035.h"
#include "dns/rfc2671.h"
#include "dns/rfc3596.h"
#include <cstring>
#include <cstdlib>
#if HAVE_NETINET_IN_H
#include <netinet/in.h>
#endif

#ifdef NANY
#elif defined(VF_THOROUGH)
#define NANY 20                             // c37_any: largest datagram
#define RRMORE "\x01"                       // c37_rr: 4 symbolic RDATA octets
#define NAMEBYTES "\x01\x01\x01\x01\x01"    // c37_name: symbolic owner-name octets
#define PTRBYTES "\x01\x01\x01\x01\x01"     // c37_ptr: symbolic RDATA octets
#define LOOPMORE "\x01"
#else
#define NANY 18
#define RRMORE ""
#define NAMEBYTES "\x01\x01\x01"
#define PTRBYTES "\x01\x01\x01\x01"
#define LOOPMORE ""
#endif

// ---------------------------------------------------------------- consumer side (what Squid's callers do with the result)
static unsigned checkedStrlen(const char *s, const unsigned cap, const char *what)
{
    unsigned i = 0;
    while (i < cap && s[i]) ++i;
    vf_assert(i < cap, what);
    return i;
}

// reads everything the decoder returned, then releases it; returns a checksum so that the reads are not dead
static unsigned consume(const int n, rfc1035_message *msg)
{
    unsigned sum = 0;
    if (!msg)
        return 0;
    vf_assert(msg->qdcount == 1 && msg->query, "a returned message has exactly one decoded question");
    sum += checkedStrlen(msg->query[0].name, RFC1035_MAXHOSTNAMESZ, "question name is NUL-terminated inside its buffer");
    vf_assert(n <= (int)msg->ancount, "never more records reported than the header announced");
    if (n > 0)
        vf_assert(msg->answer != nullptr, "records reported => record array present");
    for (int k = 0; k < n; ++k) {
        const rfc1035_rr &rr = msg->answer[k];
        sum += checkedStrlen(rr.name, RFC1035_MAXHOSTNAMESZ, "record name is NUL-terminated inside its buffer");
        vf_assert(rr.rdata != nullptr, "a decoded record has rdata");
        if (rr.type == RFC1035_TYPE_PTR) {
            // fqdncache: strchr/xstrdup on rdata as a C string
            sum += checkedStrlen(rr.rdata, RFC1035_MAXHOSTNAMESZ, "PTR rdata is NUL-terminated inside its buffer");
            vf_assert(rr.rdlength <= RFC1035_MAXHOSTNAMESZ, "PTR rdlength stays within the name buffer");
        } else {
            // ipcache: memcpy(&addr, rdata, 4 or 16) after checking rdlength; read all rdlength bytes
            for (unsigned i = 0; i < rr.rdlength; ++i)
                sum += (unsigned char)rr.rdata[i];
        }
    }
    rfc1035MessageDestroy(&msg);
    vf_assert(msg == nullptr, "destroy clears the pointer");
    return sum;
}

// ---- case-split device (adds NO assumption: every split below is exhaustive, and the decoder runs on both sides of it).
// The engine reads a symbolic offset of a block of symbolic bytes through an if-then-else chain over the block, which
// makes each later query cost seconds. So before the decoder runs, the harness walks the datagram along the RFC 1035
// layout and forks over the values of exactly those octets that act as lengths or pointer targets (label length,
// pointer low octet, RDLENGTH low octet): on every resulting path such an octet is either a concrete value that keeps
// the decoder's offsets concrete, or it stays symbolic within the range for which the decoder gives up at once.
// If this walk disagreed with the decoder about the layout, the only effect would be a slower run.
// -O1 turns "if (symbolic) return -1; ... return off;" into a select, i.e. a symbolic offset: fork it back into concrete values
static int conc(const int v) { return (int)(int64_t)vf_concretize((uint64_t)(int64_t)v); }
static int splitName(unsigned char *b, const unsigned n, unsigned off, const unsigned depth)
{
    for (;;) {
        if (off >= n) return -1;
        if (b[off] < 64) {                         // label length
            if (b[off] >= n) return -1;            // stays symbolic in [n,63]: "message is too short"
            const unsigned len = b[off] = (unsigned char)vf_concretize(b[off]);
            ++off;
            if (!len) return (int)off;
            off += len;
        } else if (b[off] == 0xC0) {               // pointer with high bits 0: the only ones that can stay inside n <= 255 octets
            b[off] = 0xC0;                         // (a concrete octet instead of a term that the path condition pins to 0xC0)
            if (off + 1 >= n) return -1;
            if (b[off + 1] >= n) return -1;        // stays symbolic: pointer outside the message
            b[off + 1] = (unsigned char)vf_concretize(b[off + 1]);
            if (depth < 70 && conc(splitName(b, n, b[off + 1], depth + 1)) < 0) return -1;
            return (int)off + 2;
        } else
            return -1;                             // 64..191 reserved, 0xC1..0xFF point beyond 255: stays symbolic
    }
}
static void splitMessage(unsigned char *b, const unsigned n, const unsigned ancount)
{
    if (n < 12 || b[4] != 0 || b[5] != 1) return;
    b[4] = 0; b[5] = 1;                            // (concrete octets instead of terms pinned by the path condition; also below)
    int off = conc(splitName(b, n, 12, 0));
    if (off < 0 || off + 4 > (int)n) return;
    off += 4;
    if (b[3] & 0x0F) return;                       // rcode != 0: answers are not decoded
    for (unsigned k = 0; k < ancount; ++k) {
        if (off >= (int)n) return;
        off = conc(splitName(b, n, off, 0));
        if (off < 0 || off + 10 > (int)n) return;
        if (b[off + 8] != 0 || b[off + 9] >= n) return;       // RDLENGTH beyond the datagram: stays symbolic
        b[off + 8] = 0;
        const unsigned rdlength = b[off + 9] = (unsigned char)vf_concretize(b[off + 9]);
        if (off + 10 + rdlength > n) return;
        if (b[off] == 0 && b[off + 1] == RFC1035_TYPE_PTR && conc(splitName(b, n, off + 10, 0)) < 0) return;
        off += 10 + rdlength;
    }
}

static int decodeAndConsume(unsigned char *bytes, const unsigned n, const unsigned ancount)
{
    splitMessage(bytes, n, ancount);
    char *dgram = (char *)malloc(n);          // exact size: one byte past the datagram is out of bounds
    for (unsigned i = 0; i < n; ++i) dgram[i] = (char)bytes[i];
    rfc1035_message *msg = nullptr;
    const int r = rfc1035MessageUnpack(dgram, n, &msg);
    vf_observe("ret", (uint64_t)(int64_t)r);
    vf_assert(r >= -15, "return value is a record count or a negated 4-bit rcode / unpack error");
    if (r > 0) vf_assert(msg != nullptr, "records reported => message returned");
    const bool got = msg != nullptr;
    const unsigned sum = consume(r, msg);
    vf_observe("sum", sum);
    free(dgram);
    if (r > 0) vf_reach("records"); else if (r == 0) vf_reach("norecords"); else if (got) vf_reach("rcode"); else vf_reach("rejected");
    return r;
}

// Template expansion: every 0x01 of the template becomes a fresh fully symbolic octet; 0x02 stands for the concrete octet 0x01.
static unsigned fill(unsigned char *out, const char *tmpl, const unsigned len, const char *name)
{
    for (unsigned i = 0; i < len; ++i) out[i] = tmpl[i] == '\x01' ? vf_nondet_u8(name) : tmpl[i] == '\x02' ? 1 : (unsigned char)tmpl[i];
    return len;
}
#define FILL(out, lit, name) fill(out, lit, sizeof(lit) - 1, name)

// (a1) every datagram of 0..11 octets (fully symbolic), and datagrams of 12..NANY octets whose flags, QDCOUNT and whole
// body are fully symbolic; ID/NSCOUNT/ARCOUNT are the constants below (they are never interpreted unless a compression
// pointer lands on them) and ANCOUNT is 0..2 because it sizes an allocation
extern "C" void c37_any(void)
{
    vf_quiet();
    const unsigned n = (unsigned)vf_concretize(vf_range(0, NANY, "len"));
    unsigned char b[NANY + 1];
    unsigned ancount = 0;
    for (unsigned i = 0; i < n; ++i) b[i] = vf_nondet_u8("byte");
    if (n >= 12) {
        b[0] = 0x01; b[1] = 0x7F; b[2] = 0x81;    // as a name: a 1-octet label followed by whatever the symbolic octet 3 (RA, Z, RCODE) says
        b[6] = 0; b[7] = (unsigned char)(ancount = (unsigned)vf_concretize(vf_range(0, 2, "ancount")));
        b[8] = 0; b[9] = 0; b[10] = 0; b[11] = 0;
    }
    decodeAndConsume(b, n, ancount);
    WITNESS_POINT();
}

// The remaining families spend their symbolic octets on ONE cluster of decisions each (a compression pointer can land on
// any octet, and every symbolic octet it can land on multiplies the number of paths by ~n). Common skeleton:
// header 1234 8180 QD=1 AN=1..2 NS=0 AR=0, question "\1a\0 A IN" (offset 12..18), answer section from offset 19.
#define HEAD "\x12\x34\x81\x80\x00\x02\x00\x02\x00\x00\x00\x00" "\x02" "a\x00\x00\x02\x00\x02"
static void skeleton(const char *tmpl, const unsigned len, const unsigned minLen)
{
    vf_quiet();
    unsigned char b[80];
    fill(b, tmpl, len, "byte");
    const unsigned ancount = (unsigned)vf_concretize(vf_range(1, 2, "ancount"));
    b[7] = (unsigned char)ancount;
    const unsigned n = (unsigned)vf_concretize(vf_range(minLen, len, "len"));   // every truncation down to minLen
    decodeAndConsume(b, n, ancount);
    WITNESS_POINT();
}
#define SKELETON(fn, lit, minLen) extern "C" void fn(void) { skeleton(lit, sizeof(lit) - 1, minLen); }

// (a2) fixed part of a record: owner name C0 0C, then TYPE (2 symbolic octets, but not PTR: no name parsing in RDATA, hence no
// pointers onto the symbolic octets), CLASS, TTL, RDLENGTH (2 symbolic octets), 3-4 symbolic RDATA octets; every truncation
extern "C" void c37_rr(void)
{
    static const char tmpl[] = HEAD "\xC0\x0C" "\x01\x01" "\x00\x01" "\x00\x00\x01\x01" "\x01\x01" "\x01\x01\x01" RRMORE;
    vf_quiet();
    unsigned char b[80];
    const unsigned len = fill(b, tmpl, sizeof(tmpl) - 1, "byte");
    vf_assume(!(b[21] == 0 && b[22] == RFC1035_TYPE_PTR));    // PTR records: c37_ptr
    const unsigned ancount = (unsigned)vf_concretize(vf_range(1, 2, "ancount"));
    b[7] = (unsigned char)ancount;
    const unsigned n = (unsigned)vf_concretize(vf_range(19, len, "len"));
    decodeAndConsume(b, n, ancount);
    WITNESS_POINT();
}
// (a3) owner name: NNAME symbolic octets (labels, reserved bits, pointers anywhere incl. loops), then a complete A record
SKELETON(c37_name, HEAD NAMEBYTES "\x00\x02\x00\x02\x00\x00\x00\x3C\x00\x04\x7F\x00\x00\x02", 19)
// (a4) PTR record "C0 0C PTR IN ttl RDLENGTH=00 b" + symbolic RDATA (the name Squid decompresses into a 256-octet buffer)
#define PTRHEAD HEAD "\xC0\x0C\x00\x0C\x00\x02\x00\x00\x00\x3C\x00\x01"
static const char ptrAny[] = PTRHEAD PTRBYTES;
// (a5) PTR RDATA "\1 x <len> a b c d <b> <b>": labels followed by a pointer, in particular "\1x" + the loop "\4abcd" C0 <self>
// that keeps appending the label until it exactly fills the 256-octet name buffer (256 - 2 = 50 * 5 + 4: "label won't fit" boundary)
static const char ptrLoop[] = PTRHEAD "\x02" "x" "\x01" "abcd" "\x01\x01" LOOPMORE;
extern "C" void c37_ptr(void)
{
    if (vf_concretize(vf_range(0, 1, "family"))) skeleton(ptrLoop, sizeof(ptrLoop) - 1, 38);
    else skeleton(ptrAny, sizeof(ptrAny) - 1, 30);
}

// ---------------------------------------------------------------- (b) reference encoder and faithfulness oracle
struct RefName {                 // a domain name as a list of labels; label bytes are arbitrary octets
    unsigned nlabels;
    unsigned len[3];
    unsigned char lab[3][4];
};

static RefName symbolicName(const unsigned maxLabels, const unsigned maxLen, const char *tag)
{
    RefName nm;
    memset(&nm, 0, sizeof(nm));
    nm.nlabels = (unsigned)vf_concretize(vf_range(0, maxLabels, tag));
    for (unsigned i = 0; i < nm.nlabels; ++i) {
        nm.len[i] = (unsigned)vf_concretize(vf_range(1, maxLen, "labellen"));
        for (unsigned k = 0; k < nm.len[i]; ++k) nm.lab[i][k] = vf_nondet_u8("labelbyte");
    }
    return nm;
}

// wire form of labels [from, nlabels) followed by the root label, or by a pointer to `ptrTo` when ptrTo != 0
static unsigned encodeName(unsigned char *out, const RefName &nm, const unsigned upTo, const unsigned ptrTo)
{
    unsigned n = 0;
    for (unsigned i = 0; i < upTo; ++i) {
        out[n++] = (unsigned char)nm.len[i];
        for (unsigned k = 0; k < nm.len[i]; ++k) out[n++] = nm.lab[i][k];
    }
    if (ptrTo) { out[n++] = 0xC0 | (ptrTo >> 8); out[n++] = ptrTo & 0xFF; }
    else out[n++] = 0;
    return n;
}

// presentation form the decoder must produce: labels joined by '.', NUL-terminated ("" for the root)
static unsigned presentName(unsigned char *out, const RefName &nm)
{
    unsigned n = 0;
    for (unsigned i = 0; i < nm.nlabels; ++i) {
        if (i) out[n++] = '.';
        for (unsigned k = 0; k < nm.len[i]; ++k) out[n++] = nm.lab[i][k];
    }
    out[n] = 0;
    return n;
}

static void sameName(const char *got, const RefName &want, const char *what)
{
    unsigned char p[16];
    const unsigned l = presentName(p, want);
    bool same = true;
    for (unsigned i = 0; i <= l; ++i) same = same && ((unsigned char)got[i] == p[i]);
    vf_assert(same, what);
}

static void put16(unsigned char *b, unsigned &n, const unsigned v) { b[n++] = (v >> 8) & 0xFF; b[n++] = v & 0xFF; }
static void put32(unsigned char *b, unsigned &n, const uint32_t v) { put16(b, n, v >> 16); put16(b, n, v & 0xFFFF); }

struct RefRR {
    RefName owner; unsigned ownerMode;     // 0 = spelled out, 1 = pointer to the question name, 2 = first label + pointer to the question name's tail
    unsigned type, klass; uint32_t ttl;
    unsigned char addr[16];                // A/AAAA
    RefName target; unsigned targetMode;   // PTR/CNAME: 0 spelled out, 1 = pointer to question name, 2 = own first label + pointer to the question name
    unsigned char wire[24]; unsigned wireLen;   // rdata as put on the wire
};

static const unsigned kTypes[4] = {RFC1035_TYPE_A, RFC1035_TYPE_AAAA, RFC1035_TYPE_PTR, RFC1035_TYPE_CNAME};

static bool onlyRootPointer = false;     // set by c37_known_root_pointer only
static void faithful(const unsigned maxRR, const unsigned maxLabels, const unsigned maxQLen, const unsigned maxLabelLen, const unsigned maxExtra)
{
    vf_quiet();
    bool rootPointer = false;            // some name of this message is <label> + pointer to a root name
    unsigned char b[160];
    unsigned n = 0;
    // header
    const unsigned id = vf_nondet_u16("id");
    const unsigned flags = vf_nondet_u16("flags");
    const unsigned rcode = flags & 0xF;
    const unsigned nrr = (unsigned)vf_concretize(vf_range(0, maxRR, "ancount"));
    const unsigned nscount = vf_nondet_u16("nscount"), arcount = vf_nondet_u16("arcount");
    put16(b, n, id); put16(b, n, flags); put16(b, n, 1); put16(b, n, nrr); put16(b, n, nscount); put16(b, n, arcount);
    // question
    const RefName qname = symbolicName(maxLabels, maxQLen, "qlabels");
    const unsigned qnameAt = n;                                   // 12
    const unsigned qtailAt = qname.nlabels > 1 ? qnameAt + 1 + qname.len[0] : 0;   // second label of the question name
    n += encodeName(b + n, qname, qname.nlabels, 0);
    const unsigned qtype = vf_nondet_u16("qtype"), qclass = vf_nondet_u16("qclass");
    put16(b, n, qtype); put16(b, n, qclass);
    // answers
    RefRR rr[2];
    for (unsigned k = 0; k < nrr; ++k) {
        RefRR &r = rr[k];
        r.ownerMode = (unsigned)vf_concretize(vf_range(0, 2, "ownerMode"));
        if (r.ownerMode == 0) { r.owner = symbolicName(maxLabels, maxLabelLen, "olabels"); n += encodeName(b + n, r.owner, r.owner.nlabels, 0); }
        else if (r.ownerMode == 1) { r.owner = qname; n += encodeName(b + n, r.owner, 0, qnameAt); }
        else {
            // <own label> + pointer to the second label of the question name (or to the whole name if it has < 2 labels)
            // KNOWN FINDING C37-root-pointer-trailing-dot: <label(s)> followed by a compression pointer to a ROOT name decodes
            // as "label." (with a trailing dot; rfc1035NameUnpack leaves the '.' it appended when the pointed-at name adds
            // nothing), whereas the same name spelled out decodes as "label". The class is examined by its own entry
            // (c37_known_root_pointer, listed in known_findings.json); every other entry excludes exactly this class (below).
            if (qname.nlabels == 0) rootPointer = true;
            RefName first = symbolicName(1, maxLabelLen, "olabels");
            vf_assume(first.nlabels == 1);
            r.owner = first;
            const unsigned from = qtailAt ? 1 : 0;
            for (unsigned i = from; i < qname.nlabels; ++i) {
                r.owner.len[r.owner.nlabels] = qname.len[i];
                memcpy(r.owner.lab[r.owner.nlabels], qname.lab[i], 4);
                ++r.owner.nlabels;
            }
            n += encodeName(b + n, first, 1, qtailAt ? qtailAt : qnameAt);
        }
        r.type = kTypes[vf_concretize(vf_range(0, 3, "type"))];
        r.klass = vf_nondet_u16("class");
        r.ttl = vf_nondet_u32("ttl");
        put16(b, n, r.type); put16(b, n, r.klass); put32(b, n, r.ttl);
        r.wireLen = 0;
        if (r.type == RFC1035_TYPE_A || r.type == RFC1035_TYPE_AAAA) {
            const unsigned l = r.type == RFC1035_TYPE_A ? 4 : 16;
            for (unsigned i = 0; i < l; ++i) r.wire[r.wireLen++] = r.addr[i] = vf_nondet_u8("addr");
        } else {
            r.targetMode = (unsigned)vf_concretize(vf_range(0, 2, "targetMode"));
            if (r.targetMode == 0) { r.target = symbolicName(maxLabels, maxLabelLen, "tlabels"); r.wireLen = encodeName(r.wire, r.target, r.target.nlabels, 0); }
            else if (r.targetMode == 1) { r.target = qname; r.wireLen = encodeName(r.wire, r.target, 0, qnameAt); }
            else {
                if (qname.nlabels == 0) rootPointer = true;   // KNOWN FINDING C37-root-pointer-trailing-dot, see above
                RefName first = symbolicName(1, maxLabelLen, "tlabels");
                vf_assume(first.nlabels == 1);
                r.target = first;
                for (unsigned i = 0; i < qname.nlabels; ++i) {
                    r.target.len[r.target.nlabels] = qname.len[i];
                    memcpy(r.target.lab[r.target.nlabels], qname.lab[i], 4);
                    ++r.target.nlabels;
                }
                r.wireLen = encodeName(r.wire, first, 1, qnameAt);
            }
        }
        put16(b, n, r.wireLen);
        for (unsigned i = 0; i < r.wireLen; ++i) b[n++] = r.wire[i];
    }
    // optional trailing bytes (authority/additional sections are not decoded): must not disturb anything
    const unsigned extra = (unsigned)vf_concretize(vf_range(0, maxExtra, "extra"));
    for (unsigned i = 0; i < extra; ++i) b[n++] = vf_nondet_u8("extrabyte");

    vf_assume(rootPointer == onlyRootPointer);       // the known-finding class: only in c37_known_root_pointer, nowhere else

    char *dgram = (char *)malloc(n);
    memcpy(dgram, b, n);
    rfc1035_message *msg = nullptr;
    const int ret = rfc1035MessageUnpack(dgram, n, &msg);
    vf_observe("ret", (uint64_t)(int64_t)ret);

    vf_assert(msg != nullptr, "a well-formed message is decoded");
    vf_assert(ret == (rcode ? -(int)rcode : (int)nrr), "return value: -rcode, or the number of answer records");
    // header
    vf_assert(msg->id == id, "id");
    vf_assert(msg->qr == ((flags >> 15) & 1) && msg->opcode == ((flags >> 11) & 15) && msg->aa == ((flags >> 10) & 1) &&
              msg->tc == ((flags >> 9) & 1) && msg->rd == ((flags >> 8) & 1) && msg->ra == ((flags >> 7) & 1) && msg->rcode == rcode, "header flags");
    vf_assert(msg->qdcount == 1 && msg->ancount == nrr && msg->nscount == nscount && msg->arcount == arcount, "section counts");
    // question
    sameName(msg->query[0].name, qname, "question name");
    vf_assert(msg->query[0].qtype == qtype && msg->query[0].qclass == qclass, "question type and class");
    // records
    for (int k = 0; k < ret; ++k) {
        const rfc1035_rr &d = msg->answer[k];
        const RefRR &r = rr[k];
        sameName(d.name, r.owner, "record owner name");
        vf_assert(d.type == r.type && d._class == r.klass && d.ttl == r.ttl, "record type, class and ttl");
        if (r.type == RFC1035_TYPE_PTR) {
            sameName(d.rdata, r.target, "PTR target name");
            unsigned char p[16];
            const unsigned l = presentName(p, r.target);
            vf_assert(d.rdlength == (l ? l + 1 : 0), "PTR rdlength covers the decoded name");
        } else {
            // A/AAAA: the address octets; CNAME: Squid keeps the rdata octets as received
            vf_assert(d.rdlength == r.wireLen, "record rdlength");
            bool same = true;
            for (unsigned i = 0; i < r.wireLen; ++i) same = same && ((unsigned char)d.rdata[i] == r.wire[i]);
            vf_assert(same, "record rdata octets");
        }
    }
    switch (vf_concretize(rcode ? 0 : nrr ? 1 : 2)) {   // (concretized so that the label is not a symbolic select of strings)
    case 0: vf_reach("rcode"); break;
    case 1: vf_reach("records"); break;
    default: vf_reach("norecords"); break;
    }
    rfc1035MessageDestroy(&msg);
    free(dgram);
    WITNESS_POINT();
}
// (b2) compression pointers whose target lies beyond the first 127 / 255 octets of the message (both octets of the 14-bit
// offset matter, and the low octet is >= 0x80): a reference-encoded reply "question a; RR1 = <ptr to question> TXT with `pad`
// filler octets; RR2 = spelled-out owner <x> A; RR3 = <ptr to RR2's owner> PTR whose target is <y> + <ptr to RR2's owner>",
// where pad places RR2's owner at offsets 127..132 and 255..260
extern "C" void c37_far_pointer(void)
{
    vf_quiet();
    static unsigned char b[400];
    unsigned n = 0;
    const unsigned id = vf_nondet_u16("id");
    put16(b, n, id); put16(b, n, 0x8180); put16(b, n, 1); put16(b, n, 3); put16(b, n, 0); put16(b, n, 0);
    b[n++] = 1; b[n++] = 'a'; b[n++] = 0; put16(b, n, 1); put16(b, n, 1);
    const unsigned sel = (unsigned)vf_concretize(vf_range(0, 11, "pad"));
    const unsigned pad = sel < 6 ? 96 + sel : 224 + (sel - 6);
    // RR1: TXT-typed filler (a type Squid copies verbatim)
    b[n++] = 0xC0; b[n++] = 12; put16(b, n, 16); put16(b, n, 1); put32(b, n, 60); put16(b, n, pad);
    for (unsigned i = 0; i < pad; ++i) b[n++] = (unsigned char)('A' + i % 26);
    // RR2: owner <x>, A
    const unsigned at = n;
    RefName x; memset(&x, 0, sizeof(x)); x.nlabels = 1; x.len[0] = 1; x.lab[0][0] = vf_nondet_u8("labelbyte");
    n += encodeName(b + n, x, 1, 0);
    unsigned char addr[4];
    put16(b, n, RFC1035_TYPE_A); put16(b, n, 1); put32(b, n, 61); put16(b, n, 4);
    for (unsigned i = 0; i < 4; ++i) b[n++] = addr[i] = vf_nondet_u8("addr");
    // RR3: owner = pointer to RR2's owner; PTR target = <y> + pointer to RR2's owner
    n += encodeName(b + n, x, 0, at);
    RefName y; memset(&y, 0, sizeof(y)); y.nlabels = 2; y.len[0] = 1; y.lab[0][0] = vf_nondet_u8("labelbyte"); y.len[1] = 1; y.lab[1][0] = x.lab[0][0];
    put16(b, n, RFC1035_TYPE_PTR); put16(b, n, 1); put32(b, n, 62); put16(b, n, 4);
    n += encodeName(b + n, y, 1, at);

    char *dgram = (char *)malloc(n);
    memcpy(dgram, b, n);
    rfc1035_message *msg = nullptr;
    const int ret = rfc1035MessageUnpack(dgram, n, &msg);
    vf_observe("ret", (uint64_t)(int64_t)ret);
    vf_assert(msg != nullptr, "a well-formed message is decoded");
    vf_assert(ret == 3, "return value: -rcode, or the number of answer records");
    vf_assert(msg->id == id && msg->ancount == 3, "id");
    vf_assert(msg->answer[0].type == 16 && msg->answer[0].rdlength == pad, "record rdlength");
    sameName(msg->answer[1].name, x, "record owner name");
    bool same = msg->answer[1].rdlength == 4;
    for (unsigned i = 0; same && i < 4; ++i) same = (unsigned char)msg->answer[1].rdata[i] == addr[i];
    vf_assert(same, "record rdata octets");
    sameName(msg->answer[2].name, x, "record owner name");
    vf_assert(msg->answer[2].type == RFC1035_TYPE_PTR && msg->answer[2].ttl == 62, "record type, class and ttl");
    sameName(msg->answer[2].rdata, y, "PTR target name");
    vf_reach("records");
    rfc1035MessageDestroy(&msg);
    free(dgram);
    WITNESS_POINT();
}
// KNOWN FINDING (known_findings.json, C37-root-pointer-trailing-dot): same encoder and same strict assertions, restricted to
// messages in which an owner or PTR/CNAME target name is <label> + compression pointer to a root (empty) question name
extern "C" void c37_known_root_pointer(void) { onlyRootPointer = true; faithful(1, 2, 2, 1, 0); }
#ifdef VF_THOROUGH
extern "C" void c37_faithful(void) { faithful(1, 2, 2, 2, 1); }
extern "C" void c37_faithful2(void) { faithful(2, 2, 1, 1, 0); }
#else
extern "C" void c37_faithful(void) { faithful(1, 2, 2, 1, 0); }
#endif

// ---------------------------------------------------------------- (c) packed queries decode back to themselves
// hostname: well-formed (non-empty labels separated by single dots, optional trailing dot), label bytes any octet but NUL and '.'
static unsigned symbolicHostname(char *h, const unsigned maxLen)
{
    const unsigned n = (unsigned)vf_concretize(vf_range(1, maxLen, "hostlen"));
    for (unsigned i = 0; i < n; ++i) { h[i] = (char)vf_nondet_u8("hostbyte"); vf_assume(h[i] != 0); }
    h[n] = 0;
    vf_assume(h[0] != '.');
    for (unsigned i = 0; i + 1 < n; ++i) vf_assume(!(h[i] == '.' && h[i + 1] == '.'));
    return n;
}

static void checkQuery(const char *buf, const ssize_t sz, const unsigned qid, const unsigned qtype, const ssize_t edns, const char *host, const rfc1035_query &packed)
{
    vf_assert(sz >= 17 && sz <= 512, "packed size");
    char *dgram = (char *)malloc(sz);
    memcpy(dgram, buf, sz);
    rfc1035_message *msg = nullptr;
    const int ret = rfc1035MessageUnpack(dgram, sz, &msg);
    vf_assert(ret == 0 && msg, "a packed query decodes (no answers)");
    vf_assert(msg->id == qid && msg->qr == 0 && msg->opcode == 0 && msg->aa == 0 && msg->tc == 0 && msg->rd == 1 && msg->ra == 0 && msg->rcode == 0, "query header");
    vf_assert(msg->qdcount == 1 && msg->ancount == 0 && msg->nscount == 0 && msg->arcount == (edns > 0 ? 1 : 0), "query counts");
    vf_assert(msg->query[0].qtype == qtype && msg->query[0].qclass == RFC1035_CLASS_IN, "query type/class");
    vf_assert(packed.qtype == qtype && packed.qclass == RFC1035_CLASS_IN, "remembered query type/class");
    // the comparison idnsGrokReply() makes between the remembered query and the one in the reply
    vf_assert(rfc1035QueryCompare(&packed, &msg->query[0]) == 0, "decoded question matches the remembered query");
    // decoded name = hostname without its optional trailing dot, byte for byte
    unsigned hl = strlen(host);
    if (hl && host[hl - 1] == '.') --hl;
    bool same = true;
    for (unsigned i = 0; i < hl; ++i) same = same && msg->query[0].name[i] == host[i];
    vf_assert(same && msg->query[0].name[hl] == 0, "decoded question name is the hostname");
    // EDNS OPT pseudo-record: root name, type 41, class = advertised size, ttl 0, no rdata
    const unsigned qend = 12 + hl + 2 + 4;
    if (edns > 0) {
        const unsigned adv = edns < SQUID_UDP_SO_RCVBUF - 1 ? edns : SQUID_UDP_SO_RCVBUF - 1;
        const unsigned char *o = (const unsigned char *)dgram + qend;
        vf_assert(sz == (ssize_t)qend + 11, "OPT record is 11 octets");
        vf_assert(o[0] == 0 && o[1] == 0 && o[2] == RFC1035_TYPE_OPT && o[3] == ((adv >> 8) & 0xFF) && o[4] == (adv & 0xFF) &&
                  o[5] == 0 && o[6] == 0 && o[7] == 0 && o[8] == 0 && o[9] == 0 && o[10] == 0, "OPT record content");
        vf_reach("edns");
    } else {
        vf_assert(sz == (ssize_t)qend, "query size = header + name + type/class");
        vf_reach("plain");
    }
    rfc1035MessageDestroy(&msg);
    free(dgram);
}

static void queryFamily(const bool withEdns, const unsigned maxHost)
{
    vf_quiet();
    char host[8];
    symbolicHostname(host, maxHost);
    const unsigned qid = vf_nondet_u16("qid");
    char buf[512];
    rfc1035_query q;
    memset(&q, 0x5a, sizeof(q));
    const unsigned which = (unsigned)vf_concretize(vf_range(0, 3, "builder"));
    ssize_t edns = 0;
    if (withEdns) { edns = vf_nondet_u16("ednssz"); vf_assume(edns > 0); }
    Config.dns.packet_max = edns;
    ssize_t sz;
    unsigned qtype;
    switch (which) {
    case 0: sz = rfc1035BuildAQuery(host, buf, sizeof(buf), qid, &q, edns); qtype = RFC1035_TYPE_A; break;
    case 1: sz = rfc3596BuildAQuery(host, buf, sizeof(buf), qid, &q); qtype = RFC1035_TYPE_A; break;
    case 2: sz = rfc3596BuildAAAAQuery(host, buf, sizeof(buf), qid, &q); qtype = RFC1035_TYPE_AAAA; break;
    default: sz = rfc3596BuildHostQuery(host, buf, sizeof(buf), qid, &q, RFC1035_TYPE_PTR); qtype = RFC1035_TYPE_PTR; break;
    }
    vf_observe("sz", sz);
    checkQuery(buf, sz, qid, qtype, edns, host, q);
    WITNESS_POINT();
}
#ifdef VF_THOROUGH
#define HOSTLEN 6
#else
#define HOSTLEN 4
#endif
static void reverseFamily();
extern "C" void c37_query(void) { if (vf_concretize(vf_range(0, 1, "family"))) reverseFamily(); else queryFamily(false, HOSTLEN); }
// KNOWN-FINDING candidate (packing side, not a decoding error): with EDNS enabled (dns_packet_max > 0) rfc2671RROptPack()
// hands rfc1035RRPack() a record with rdata == nullptr and rdlength == 0, and RRPack executes memcpy(buf + off, nullptr, 0):
// undefined behaviour by the letter (UBSan nonnull-attribute, src/dns/rfc1035.cc:357), harmless with every known libc.
// The native UBSan build aborts there, so this entry is listed in the spec with max_samples=0 (no native differential
// replay); the symbolic exploration itself is complete.
extern "C" void c37_query_edns(void) { queryFamily(true, HOSTLEN - 1); }

// reverse-lookup queries: the name is produced by Squid (snprintf) from a symbolic address
static void reverseFamily()
{
    vf_quiet();
    const unsigned qid = vf_nondet_u16("qid");
    char buf[512];
    rfc1035_query q;
    memset(&q, 0x5a, sizeof(q));
    Config.dns.packet_max = 0;
    const unsigned which = (unsigned)vf_concretize(vf_range(0, 2, "builder"));
    ssize_t sz;
    char expect[80];
    if (which < 2) {
        struct in_addr a;
        unsigned char o[4] = {10, vf_nondet_u8("octet"), 0, vf_nondet_u8("octet")};
        memcpy(&a.s_addr, o, 4);
        sz = which ? rfc3596BuildPTRQuery4(a, buf, sizeof(buf), qid, &q) : rfc1035BuildPTRQuery(a, buf, sizeof(buf), qid, &q, 0);
        // reference: decimal octets in reverse order
        unsigned n = 0;
        for (int i = 3; i >= 0; --i) {
            const unsigned v = o[i];
            if (v >= 100) expect[n++] = '0' + v / 100;
            if (v >= 10) expect[n++] = '0' + (v / 10) % 10;
            expect[n++] = '0' + v % 10;
            expect[n++] = '.';
        }
        strcpy(expect + n, "in-addr.arpa.");
    } else {
        struct in6_addr a;
        memset(&a, 0, sizeof(a));
        a.s6_addr[0] = 0x20; a.s6_addr[1] = 0x01; a.s6_addr[15] = vf_nondet_u8("octet"); a.s6_addr[7] = vf_nondet_u8("octet");
        sz = rfc3596BuildPTRQuery6(a, buf, sizeof(buf), qid, &q);
        unsigned n = 0;
        for (int i = 15; i >= 0; --i) {
            const unsigned v = a.s6_addr[i];
            expect[n++] = "0123456789abcdef"[v & 15]; expect[n++] = '.';
            expect[n++] = "0123456789abcdef"[v >> 4]; expect[n++] = '.';
        }
        strcpy(expect + n, "ip6.arpa.");
    }
    vf_observe("sz", sz);
    checkQuery(buf, sz, qid, RFC1035_TYPE_PTR, 0, expect, q);
    WITNESS_POINT();
}

// ---------------------------------------------------------------- the real compat/xstring.cc (for xstrncpy, used by the query builders)
// Included rather than listed as a unit because its xstrdup() would collide with the engine's libc model of the same
// name at link time; the two colliding definitions are renamed away (nothing here calls them).
#define xstrdup c37_unused_xstrdup
#include "compat/xstring.cc"
#undef xstrdup
