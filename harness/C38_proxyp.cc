// C38: PROXY protocol headers (v1 text, v2 binary) are parsed faithfully and incrementally.
// The real ProxyProtocol::Parse() is called the way ConnStateData::parseProxyProtocolHeader() calls it: on the whole
// connection buffer, once per read; Parser::BinaryTokenizer::InsufficientInput = "wait for more bytes", any other
// exception = reject, otherwise header + consumed size.
// Oracle: an independent reference decoder in this file (reference()), written from the PROXY protocol specification
// (haproxy proxy-protocol.txt 2.1/2.2); three outcomes OK(header, size) / MORE / BAD.
//   * on the complete input: outcome, version, command, address use, addresses, ports, TLVs, consumed size equal the
//     reference's (c38_v2_* encoders additionally check the reference against the fields that were encoded);
//   * for EVERY prefix length L: Parse(prefix) is MORE, or BAD only if the complete input is BAD, or OK only with exactly
//     the header and size of the complete input (and then the complete input is OK too).
// Symbolic: see each entry. Everything else is a concrete skeleton.
#include "squid.h"
#include "common.h"
#include "base/RefCount.h"
#include "ip/Address.h"
#include "ip/tools.h"
#include "parser/BinaryTokenizer.h"
#include "proxyp/Elements.h"
#include "sbuf/SBuf.h"
#include <vector>
#define private public   // ProxyProtocol::Header::command_ has no accessor (all headers that Header.h includes are in already)
#include "proxyp/Header.h"
#undef private
#include "proxyp/Parser.h"
#include <cstring>
#include <netdb.h>
#include <netinet/in.h>
#include <sys/socket.h>

enum { OK = 0, MORE = 1, BAD = 2 };
#define MAXIN 300
static unsigned vf_fill(uint8_t *out, const char *tmpl, unsigned tlen, const char *name) { for (unsigned i = 0; i < tlen; ++i) out[i] = tmpl[i] == '\x01' ? vf_nondet_u8(name) : (uint8_t)tmpl[i]; return tlen; }
#define MAXTLV 3

// ---- text address forms (shared by the reference decoder and, in the interpreted build, by the getaddrinfo() model)
static inline bool isDigit(uint8_t c) { return c >= '0' && c <= '9'; }
static inline int hexVal(uint8_t c) { return isDigit(c) ? c - '0' : (c >= 'a' && c <= 'f') ? c - 'a' + 10 : (c >= 'A' && c <= 'F') ? c - 'A' + 10 : -1; }
enum AddrClass { acV4, acV6, acInvalid, acLenient };
// IPv4 text. Canonical form of the specification: exactly four decimal parts 0..255 without leading zeros -> acV4.
// Forms that inet_aton() additionally accepts (fewer parts, octal parts, a wide last part) -> acLenient (see reference()).
// Anything else (hex letters, empty parts, more than 4 parts, values out of range) is not a numeric address -> acInvalid.
static AddrClass classifyV4(const uint8_t *s, const unsigned n, uint8_t out[4])
{
    uint64_t part[4]; unsigned np = 0, i = 0; bool lenient = false;
    for (;;) {
        if (np == 4) return acInvalid;
        if (i >= n || !isDigit(s[i])) return acInvalid; // empty part or a hex letter (no "0x" can reach us: 'x' is not an address character)
        const bool octal = s[i] == '0' && i + 1 < n && isDigit(s[i + 1]);
        uint64_t v = 0; unsigned nd = 0;
        for (; i < n && isDigit(s[i]); ++i, ++nd) {
            if (octal && s[i] > '7') return acInvalid;
            if (v > 0xffffffffu) return acInvalid;
            v = v * (octal ? 8 : 10) + (s[i] - '0');
        }
        if (octal) lenient = true;
        part[np++] = v;
        if (i == n) break;
        if (s[i] != '.') return acInvalid;
        ++i;
    }
    // inet_aton: a.b.c.d, a.b.c (c 16 bit), a.b (b 24 bit), a (32 bit)
    for (unsigned k = 0; k + 1 < np; ++k) if (part[k] > 255) return acInvalid;
    static const uint64_t lastMax[4] = {0xffffffffu, 0xffffff, 0xffff, 0xff};
    if (part[np - 1] > lastMax[np - 1]) return acInvalid;
    if (np < 4) lenient = true;
    uint32_t val = (uint32_t)part[np - 1];
    for (unsigned k = 0; k + 1 < np; ++k) val |= (uint32_t)part[k] << (24 - 8 * k);
    out[0] = val >> 24; out[1] = val >> 16; out[2] = val >> 8; out[3] = val;
    return lenient ? acLenient : acV4;
}
// strict dotted quad as inet_pton(AF_INET): four parts, 1..3 digits, no leading zeros, 0..255
static bool strictV4(const uint8_t *s, const unsigned n, uint8_t out[4])
{
    unsigned i = 0;
    for (unsigned k = 0; k < 4; ++k) {
        if (i >= n || !isDigit(s[i])) return false;
        unsigned v = 0, nd = 0;
        for (; i < n && isDigit(s[i]); ++i, ++nd) { if (nd && v == 0) return false; v = v * 10 + (s[i] - '0'); if (v > 255) return false; }
        out[k] = (uint8_t)v;
        if (k < 3) { if (i >= n || s[i] != '.') return false; ++i; }
    }
    return i == n;
}
// IPv6 text as inet_pton(AF_INET6) / RFC 4291 2.2: 1..4 hex digits per group, one "::", optional trailing dotted quad
static bool parseV6(const uint8_t *s, const unsigned n, uint8_t out[16])
{
    uint8_t tmp[16]; memset(tmp, 0, 16);
    unsigned tp = 0, i = 0; int colonp = -1;
    if (n && s[0] == ':') { if (n < 2 || s[1] != ':') return false; i = 1; }
    unsigned curtok = i, val = 0, seen = 0;
    while (i < n) {
        const uint8_t ch = s[i++];
        const int h = hexVal(ch);
        if (h >= 0) { val = (val << 4) | (unsigned)h; if (++seen > 4) return false; continue; }
        if (ch == ':') {
            curtok = i;
            if (!seen) { if (colonp >= 0) return false; colonp = (int)tp; continue; }
            if (i == n) return false;
            if (tp + 2 > 16) return false;
            tmp[tp++] = val >> 8; tmp[tp++] = val & 255; seen = 0; val = 0;
            continue;
        }
        if (ch == '.' && tp + 4 <= 16 && strictV4(s + curtok, n - curtok, tmp + tp)) { tp += 4; seen = 0; i = n; break; }
        return false;
    }
    if (seen) { if (tp + 2 > 16) return false; tmp[tp++] = val >> 8; tmp[tp++] = val & 255; }
    if (colonp >= 0) {
        if (tp == 16) return false;
        const unsigned cnt = tp - (unsigned)colonp;
        for (unsigned k = 1; k <= cnt; ++k) { tmp[16 - k] = tmp[(unsigned)colonp + cnt - k]; tmp[(unsigned)colonp + cnt - k] = 0; }
        tp = 16;
    }
    if (tp != 16) return false;
    memcpy(out, tmp, 16);
    return true;
}
static AddrClass classifyAddr(const uint8_t *s, const unsigned n, uint8_t out[16])
{
    bool colon = false;
    for (unsigned i = 0; i < n; ++i) if (s[i] == ':') colon = true;
    if (colon) return parseV6(s, n, out) ? acV6 : acInvalid;
    return classifyV4(s, n, out);
}

#ifdef VF_BITCODE
// ---- numeric-host model of getaddrinfo()/freeaddrinfo() for the interpreted build (the native replay uses the real libc;
// sampled paths are compared). Ip::Address::GetHostByName() does NOT pass AI_NUMERICHOST, so libc would ask the resolver
// for text that is not a numeric address; the model answers EAI_NONAME (= no resolver reachable / name does not exist).
struct VfAi { struct addrinfo ai; union { struct sockaddr_in v4; struct sockaddr_in6 v6; } sa; };
extern "C" int getaddrinfo(const char *node, const char *, const struct addrinfo *, struct addrinfo **res)
{
    const unsigned n = (unsigned)strlen(node);
    uint8_t a[16];
    const AddrClass c = classifyAddr(reinterpret_cast<const uint8_t *>(node), n, a);
    if (c == acInvalid) return EAI_NONAME;
    VfAi *r = static_cast<VfAi *>(xcalloc(1, sizeof(VfAi)));
    if (c == acV6) {
        r->ai.ai_family = AF_INET6; r->ai.ai_addrlen = sizeof(r->sa.v6);
        r->sa.v6.sin6_family = AF_INET6; memcpy(&r->sa.v6.sin6_addr, a, 16);
    } else {
        r->ai.ai_family = AF_INET; r->ai.ai_addrlen = sizeof(r->sa.v4);
        r->sa.v4.sin_family = AF_INET; memcpy(&r->sa.v4.sin_addr, a, 4);
    }
    r->ai.ai_socktype = SOCK_STREAM;
    r->ai.ai_addr = reinterpret_cast<struct sockaddr *>(&r->sa);
    *res = &r->ai;
    return 0;
}
extern "C" void freeaddrinfo(struct addrinfo *p) { xfree(p); }
extern "C" const char *gai_strerror(int) { return "getaddrinfo model error"; }
#endif

// ---- outcome of one Parse() call / of the reference decoder
struct Tlv { uint8_t type; unsigned off, len; }; // value = input bytes [off, off+len)
struct Result {
    int st;
    unsigned size;
    bool v2, proxyCmd, hasAddr, isV6, addrValues; // addrValues: addresses and ports are specified (not AF_UNIX, not ignored)
    uint8_t src[16], dst[16];
    unsigned sport, dport, ntlv;
    Tlv tlv[MAXTLV];
    // v1 inputs that the specification calls malformed but the property text does not name; see reference()
    bool lenient;
};

// Ip::Address keeps every address as 16 bytes (IPv4 as ::ffff:a.b.c.d); that representation is what is compared.
// (An IPv6 address that happens to lie in ::ffff:0:0/96 is therefore indistinguishable from the IPv4 address, by design.)
static void addrIs(const Ip::Address &a, const bool v6, const uint8_t *want, const char *what)
{
    struct in6_addr x; a.getInAddr(x);
    uint8_t e[16];
    if (v6) memcpy(e, want, 16);
    else { memset(e, 0, 10); e[10] = e[11] = 0xff; memcpy(e + 12, want, 4); }
    for (unsigned i = 0; i < 16; ++i) vf_assert(x.s6_addr[i] == e[i], what);
    if (!v6) vf_assert(a.isIPv4(), what);
}

struct Got {
    int st;
    unsigned size;
    ProxyProtocol::HeaderPointer h;
};
static Got parse(const uint8_t *in, const unsigned n)
{
    Got g; g.st = BAD; g.size = 0;
    try {
        const auto parsed = ProxyProtocol::Parse(SBuf(reinterpret_cast<const char *>(in), n));
        g.st = OK; g.size = (unsigned)parsed.size; g.h = parsed.header;
    } catch (const Parser::BinaryTokenizer::InsufficientInput &) {
        g.st = MORE;
    } catch (const std::exception &) {
        g.st = BAD;
    }
    return g;
}

static bool sbufIs(const SBuf &s, const char *lit)
{
    const size_t n = strlen(lit);
    if (s.length() != n) return false;
    for (size_t i = 0; i < n; ++i) if (s[i] != lit[i]) return false;
    return true;
}

// header fields of an accepted parse == the reference's
static void sameHeader(const Got &g, const Result &want, const uint8_t *in)
{
    const ProxyProtocol::Header &h = *g.h;
    vf_assert(g.size == want.size, "consumed length is exactly the header length");
    vf_assert(sbufIs(h.version(), want.v2 ? "2.0" : "1.0"), "protocol version");
    vf_assert((h.command_ == ProxyProtocol::Two::cmdProxy) == want.proxyCmd, "command (PROXY / LOCAL)");
    vf_assert(h.hasAddresses() == want.hasAddr, "whether the header carries addresses");
    if (want.addrValues) {
        addrIs(h.sourceAddress, want.isV6, want.src, "source address");
        addrIs(h.destinationAddress, want.isV6, want.dst, "destination address");
        vf_assert(h.sourceAddress.port() == want.sport, "source port");
        vf_assert(h.destinationAddress.port() == want.dport, "destination port");
    }
    vf_assert(h.tlvs.size() == want.ntlv, "number of TLVs");
    for (unsigned k = 0; k < want.ntlv && k < h.tlvs.size(); ++k) {
        vf_assert(h.tlvs[k].type == want.tlv[k].type, "TLV type");
        vf_assert(h.tlvs[k].value.length() == want.tlv[k].len, "TLV length");
        for (unsigned i = 0; i < want.tlv[k].len; ++i) vf_assert((uint8_t)h.tlvs[k].value[i] == in[want.tlv[k].off + i], "TLV value");
    }
}

// =====================================================================================================================
// reference decoder
static const uint8_t magic2[12] = {0x0D, 0x0A, 0x0D, 0x0A, 0x00, 0x0D, 0x0A, 0x51, 0x55, 0x49, 0x54, 0x0A};
static bool startsWith(const uint8_t *x, unsigned n, const void *m, unsigned mn) { return n >= mn && !memcmp(x, m, mn); }

static void refV2(const uint8_t *x, const unsigned n, Result &r)
{
    r.v2 = true;
    if (n < 13) { r.st = MORE; return; }
    if ((x[12] >> 4) != 2 || (x[12] & 15) > 1) { r.st = BAD; return; } // version 2; command LOCAL(0) / PROXY(1)
    r.proxyCmd = (x[12] & 15) == 1;
    if (n < 14) { r.st = MORE; return; }
    const unsigned fam = x[13] >> 4, proto = x[13] & 15;
    if (fam > 3 || proto > 2) { r.st = BAD; return; }
    if (n < 16) { r.st = MORE; return; }
    const unsigned len = (unsigned)x[14] << 8 | x[15];
    if (n < 16 + len) { r.st = MORE; return; }
    r.size = 16 + len;
    r.st = OK;
    if (fam == 0 || proto == 0) { r.hasAddr = false; return; } // UNSPEC: "the receiver must ignore the address block"
    r.hasAddr = true;
    const unsigned need = fam == 1 ? 12 : fam == 2 ? 36 : 216;
    if (len < need) { r.st = BAD; return; }
    if (fam != 3) {
        const unsigned al = fam == 1 ? 4 : 16;
        r.addrValues = true; r.isV6 = fam == 2;
        memcpy(r.src, x + 16, al); memcpy(r.dst, x + 16 + al, al);
        r.sport = (unsigned)x[16 + 2 * al] << 8 | x[17 + 2 * al];
        r.dport = (unsigned)x[18 + 2 * al] << 8 | x[19 + 2 * al];
    }
    if (!r.proxyCmd) return; // LOCAL: "the receiver must ... discard the protocol block": TLVs are not looked at
    unsigned p = 16 + need; const unsigned end = 16 + len;
    while (p < end) {
        if (end - p < 3) { r.st = BAD; return; }
        const unsigned tl = (unsigned)x[p + 1] << 8 | x[p + 2];
        if (end - p - 3 < tl) { r.st = BAD; return; }
        vf_assert(r.ntlv < MAXTLV, "harness: TLV array large enough");
        r.tlv[r.ntlv].type = x[p]; r.tlv[r.ntlv].off = p + 3; r.tlv[r.ntlv].len = tl; ++r.ntlv;
        p += 3 + tl;
    }
}

// decimal port: 1*DIGIT, value 0..65535
static bool refPort(const uint8_t *s, const unsigned n, unsigned &i, unsigned &port, bool &leadingZero)
{
    if (i >= n || !isDigit(s[i])) return false;
    leadingZero = s[i] == '0' && i + 1 < n && isDigit(s[i + 1]);
    uint64_t v = 0;
    for (; i < n && isDigit(s[i]); ++i) if (v <= 65535) v = v * 10 + (s[i] - '0');
    if (v > 65535) return false;
    port = (unsigned)v;
    return true;
}
static bool isAddrChar(uint8_t c) { return hexVal(c) >= 0 || c == '.' || c == ':'; }

static void refV1(const uint8_t *x, const unsigned n, Result &r)
{
    r.v2 = false; r.proxyCmd = true;
    // the line: at most 107 bytes including "PROXY" and CRLF, i.e. 1..100 bytes between the magic and the CR
    unsigned e = 5;
    while (e < n && x[e] != '\r' && e - 5 < 100) ++e;
    if (e == n) { r.st = MORE; return; }
    if (x[e] != '\r' || e == 5) { r.st = BAD; return; }     // too long, or nothing after the magic
    if (e + 1 == n) { r.st = MORE; return; }
    if (x[e + 1] != '\n') { r.st = BAD; return; }
    r.size = e + 2;
    r.st = BAD;
    const uint8_t *s = x + 5; const unsigned m = e - 5; unsigned i = 0;
    if (s[i++] != ' ') return;
    if (m - i >= 7 && !memcmp(s + i, "UNKNOWN", 7)) { r.st = OK; r.hasAddr = false; return; } // rest of the line is ignored
    if (!(m - i >= 3 && !memcmp(s + i, "TCP", 3))) return;
    i += 3;
    if (i >= m || (s[i] != '4' && s[i] != '6')) return;
    const bool v6 = s[i++] == '6';
    if (i >= m || s[i++] != ' ') return;
    AddrClass cls[2]; uint8_t addr[2][16];
    for (unsigned k = 0; k < 2; ++k) {
        const unsigned b = i;
        while (i < m && isAddrChar(s[i])) ++i;
        if (i == b || i >= m || s[i] != ' ') return;
        memset(addr[k], 0, 16);
        cls[k] = classifyAddr(s + b, i - b, addr[k]);
        ++i;
    }
    if (cls[0] == acInvalid || cls[1] == acInvalid) return;
    // KNOWN FINDING C38-lenient-v1 (known_findings.json): IPv4 text that only inet_aton() accepts ("1.2.3" = 1.2.0.3,
    // "010.1.1.1" = 8.1.1.1, "16909060") is accepted by One::ExtractIp() (getaddrinfo(AI_NUMERICHOST) semantics); the
    // specification wants exactly four decimal parts. Such inputs are marked lenient: excluded from the ordinary entries
    // and examined by c38_known_lenient_v1. (Non-numeric text such as "a.b" used to go to the DNS resolver; repaired in
    // /repo by the 'fix: PROXY/1.0 address fields could trigger a blocking DNS lookup' commit.)
    if (cls[0] == acLenient || cls[1] == acLenient) r.lenient = true;
    const bool a6 = cls[0] == acV6, b6 = cls[1] == acV6;
    if (!r.lenient && (a6 != v6 || b6 != v6)) return;        // declared and actual address family differ
    unsigned sp = 0, dp = 0; bool z1 = false, z2 = false;
    if (!refPort(s, m, i, sp, z1)) return;
    if (i >= m || s[i++] != ' ') return;
    if (!refPort(s, m, i, dp, z2)) return;
    // (Bytes after the destination port, "... 1 2 junk" CRLF, used to be accepted; repaired in /repo by the 'fix: PROXY/1.0
    // header accepted arbitrary bytes after the destination port' commit.)
    if (i != m) return;
    // KNOWN FINDING C38-lenient-v1: ports with leading zeros ("080") are accepted (Tokenizer::int64); marked lenient.
    if (z1 || z2) r.lenient = true;
    r.st = OK; r.hasAddr = true; r.addrValues = true; r.isV6 = v6;
    memcpy(r.src, addr[0], 16); memcpy(r.dst, addr[1], 16);
    r.sport = sp; r.dport = dp;
}

static Result reference(const uint8_t *x, const unsigned n)
{
    Result r;
    memset(&r, 0, sizeof(r));
    if (startsWith(x, n, magic2, 12)) refV2(x, n, r);
    else if (startsWith(x, n, "PROXY", 5)) refV1(x, n, r);
    else r.st = n >= 12 ? BAD : MORE; // neither magic can be recognised/excluded before 12 bytes have arrived
    return r;
}

// =====================================================================================================================
// the check: complete input against the reference, and every prefix against the complete input
static bool onlyLenient = false; // set by c38_known_lenient_v1 only
static void check(const uint8_t *in, const unsigned n)
{
    vf_quiet();
    Ip::EnableIpv6 = IPV6_ON; // as after Ip::ProbeTransport() on a dual-stack host
    const Result want = reference(in, n);
    if (onlyLenient) { // known-finding entry: the specification calls these headers malformed
        vf_assume(want.lenient);
        const Got lenientWhole = parse(in, n);
        vf_assert(lenientWhole.st == BAD, "a malformed header is rejected");
        return;
    }
    vf_assume(!want.lenient); // known finding C38-lenient-v1, described in refV1()
    const Got whole = parse(in, n);
    vf_observe("ref", want.st); vf_observe("st", whole.st); vf_observe("size", whole.size);
    if (want.st == OK) vf_assert(whole.st == OK, "a well-formed header is accepted");
    if (want.st == MORE) vf_assert(whole.st == MORE, "an incomplete header only asks for more bytes");
    if (want.st == BAD) vf_assert(whole.st == BAD, "a malformed header is rejected");
    if (whole.st == OK) {
        sameHeader(whole, want, in);
        if (want.addrValues) { vf_observe("sport", whole.h->sourceAddress.port()); vf_observe("src3", want.src[want.isV6 ? 15 : 3]); }
    }
    for (unsigned len = 0; len < n; ++len) {
        const Got part = parse(in, len);
        if (part.st == BAD) vf_assert(whole.st == BAD, "a prefix is rejected only if the complete input is rejected");
        if (part.st == OK) {
            vf_assert(whole.st == OK, "a prefix yields a header only if the complete input does");
            sameHeader(part, want, in); // the same header and size as for the complete input
        }
    }
    vf_reach(want.st == OK ? "ok" : want.st == MORE ? "more" : "bad");
    WITNESS_POINT();
}

// templates: '\x01' = unconstrained symbolic byte, '\x02' = symbolic decimal digit, other bytes concrete
struct Tmpl { const char *s; unsigned n; };
#define T(lit) {lit, sizeof(lit) - 1}
static void families(const Tmpl *t, const unsigned count)
{
    const Tmpl &f = t[count > 1 ? vf_concretize(vf_range(0, count - 1, "family")) : 0];
    uint8_t in[MAXIN];
    for (unsigned i = 0; i < f.n; ++i) {
        if (f.s[i] == '\x01') in[i] = vf_nondet_u8("b");
        else if (f.s[i] == '\x02') { in[i] = vf_nondet_u8("digit"); vf_assume((in[i] >= '0') & (in[i] <= '9')); }
        else in[i] = (uint8_t)f.s[i];
    }
    check(in, f.n);
}
#define FAMILIES(fn, ...) extern "C" void fn(void) { static const Tmpl t[] = {__VA_ARGS__}; families(t, sizeof(t) / sizeof(*t)); }

// ---- v1
// well-formed TCP4 lines with symbolic digits in the last address octets and in the ports (255 / 65535 boundaries),
// followed by one unconstrained byte of the next protocol
FAMILIES(c38_v1_values,
         T("PROXY TCP4 1.2.3.\x02 5.6.7.25\x02 6553\x02 \x02\r\n\x01"),
         T("PROXY TCP4 \x02.2.3.4 5.6.7.8 \x02 6\x02" "535\r\n\x01"))
// structure: unconstrained bytes at separators, keyword, family digit, port positions, line end
FAMILIES(c38_v1_struct,
         T("PROXY\x01TCP4\x01" "1.2.3.4\x01" "5.6.7.8 1 2\r\n"),
         T("PROXY TCP\x01 1.2.3.4 5.6.7.8\x01" "1\x01" "2\r\n"),
         T("PROXY TCP4 1.2.3.4 5.6.7.8 \x01 \x01\x01\n"),
         T("PROXY TCP4 1.2.3.4 5.6.7.8 1 2\x01\x01\x01"),
         T("PROXY \x01NKNOWN\x01\x01\n"),
         T("PROX\x01 TCP4 1.2.3.4 5.6.7.8 1 2\x01\n"),
         T("\x01\x01\x01"), T("\x01ROXY TCP4 1"), T("\r\n\r\n\0\r\nQUI\x01\x01")
#ifdef VF_THOROUGH
         , T("PROXY\x01TCP\x01\x01" "1.2.3.4\x01" "5.6.7.8 1 2\r\n"), T("PROXY TCP4 1.2.3.4 5.6.7.8 \x01\x01 \x01\x01\r\n"), T("PROXY UNKNOWN\x01\x01\x01\x01"),
         T("PROXY TCP4 1.2.3.\x01\x01 5.6.7.8\x01\x01 2\r\n")
#endif
         )
// declared family x actual families of both addresses (family mismatch), IPv6 text forms
extern "C" void c38_v1_family(void)
{
    static const char *addrs[] = {"1.2.3.4", "255.0.0.255", "::1", "1:2:3:4:5:6:7:8", "2001:db8::5", "::"};
    static const uint8_t bytes[][16] = {
        {1, 2, 3, 4}, {255, 0, 0, 255}, {0, 0, 0, 0, 0, 0, 0, 0, 0, 0, 0, 0, 0, 0, 0, 1}, {0, 1, 0, 2, 0, 3, 0, 4, 0, 5, 0, 6, 0, 7, 0, 8},
        {0x20, 0x01, 0x0d, 0xb8, 0, 0, 0, 0, 0, 0, 0, 0, 0, 0, 0, 5}, {0}};
    const unsigned a = (unsigned)vf_concretize(vf_range(0, 5, "src")), b = (unsigned)vf_concretize(vf_range(0, 5, "dst"));
    const uint8_t fam = vf_nondet_u8("family"); // unconstrained
    uint8_t in[MAXIN]; unsigned n = 0;
    for (const char *p = "PROXY TCP"; *p; ++p) in[n++] = *p;
    in[n++] = fam; in[n++] = ' ';
    for (const char *p = addrs[a]; *p; ++p) in[n++] = *p;
    in[n++] = ' ';
    for (const char *p = addrs[b]; *p; ++p) in[n++] = *p;
    for (const char *p = " 65535 0\r\n"; *p; ++p) in[n++] = *p;
    // the reference's address values against the table above (checks the shared text-address code independently)
    const Result want = reference(in, n);
    if (want.st == OK) {
        vf_assert(want.isV6 == (a >= 2) && want.isV6 == (b >= 2), "harness: reference address family");
        for (unsigned i = 0; i < 16; ++i) vf_assert(want.src[i] == bytes[a][i] && want.dst[i] == bytes[b][i], "harness: reference address bytes");
    } else
        vf_assert((a >= 2) != (b >= 2) || fam != (a >= 2 ? '6' : '4'), "harness: reference rejects only mismatching families");
    check(in, n);
}
// line length limit: "PROXY UNKNOWN" + filler + CRLF of 106..109 bytes, two unconstrained filler bytes, and a TCP4 line padded
// with trailing spaces is NOT used (trailing bytes are a KNOWN-FINDING candidate class)
extern "C" void c38_v1_long(void)
{
    const unsigned total = (unsigned)vf_concretize(vf_range(106, 109, "lineLength"));
    uint8_t in[MAXIN]; unsigned n = 0;
    for (const char *p = "PROXY UNKNOWN"; *p; ++p) in[n++] = *p;
    while (n < total - 2) in[n++] = 'x';
    in[20] = vf_nondet_u8("b"); in[total - 3] = vf_nondet_u8("b");
    in[n++] = '\r'; in[n++] = '\n';
    in[n++] = vf_nondet_u8("next");
    check(in, n);
}

// ---- v2
// reference encoder: every field symbolic; family, TLV count and TLV lengths are case-split (they determine the layout)
#ifdef VF_THOROUGH
#define NTLV 2
#define TLVLEN 3
#else
#define NTLV 2
#define TLVLEN 2
#endif
extern "C" void c38_v2_encoded(void)
{
    uint8_t in[MAXIN]; unsigned n = 0;
    memcpy(in, magic2, 12); n = 12;
    const uint8_t cmd = vf_nondet_u8("cmd"); vf_assume(cmd <= 1);
    const unsigned fam = (unsigned)vf_concretize(vf_range(0, 3, "family"));
    const uint8_t proto = vf_nondet_u8("proto"); vf_assume(proto <= 2);
    in[n++] = 0x20 | cmd;
    in[n++] = (uint8_t)(fam << 4 | proto);
    const unsigned lenAt = n; n += 2;
    const unsigned alen = fam == 0 ? (unsigned)vf_concretize(vf_range(0, 3, "unspecLen")) : fam == 1 ? 12 : fam == 2 ? 36 : 216;
    const unsigned blockAt = n;
    for (unsigned i = 0; i < alen; ++i) in[n++] = (fam == 3 && i >= 4 && i < 212) ? (uint8_t)i : vf_nondet_u8("addr");
    const unsigned ntlv = fam == 0 ? 0 : (unsigned)vf_concretize(vf_range(0, NTLV, "ntlv"));
    Tlv tl[MAXTLV];
    for (unsigned k = 0; k < ntlv; ++k) {
        const unsigned l = (unsigned)vf_concretize(vf_range(0, TLVLEN, "tlvLen"));
        tl[k].type = in[n++] = vf_nondet_u8("tlvType");
        in[n++] = 0; in[n++] = (uint8_t)l;
        tl[k].off = n; tl[k].len = l;
        for (unsigned i = 0; i < l; ++i) in[n++] = vf_nondet_u8("tlvValue");
    }
    const unsigned len = n - 16;
    in[lenAt] = (uint8_t)(len >> 8); in[lenAt + 1] = (uint8_t)len;
    const unsigned hdr = n;
    in[n++] = vf_nondet_u8("next"); // first byte of the next protocol
    // the reference decoder against what was encoded
    const Result want = reference(in, n);
    vf_assert(want.st == OK && want.size == hdr && want.v2 && want.proxyCmd == (cmd == 1), "harness: reference decodes the encoder's header");
    vf_assert(want.hasAddr == (fam != 0 && proto != 0), "harness: reference address use");
    if (fam == 1 || fam == 2) {
        const unsigned al = fam == 1 ? 4 : 16;
        if (want.hasAddr) {
            vf_assert(want.addrValues && want.isV6 == (fam == 2), "harness: reference family");
            for (unsigned i = 0; i < al; ++i) vf_assert(want.src[i] == in[blockAt + i] && want.dst[i] == in[blockAt + al + i], "harness: reference addresses");
            vf_assert(want.sport == ((unsigned)in[blockAt + 2 * al] << 8 | in[blockAt + 2 * al + 1]) && want.dport == ((unsigned)in[blockAt + 2 * al + 2] << 8 | in[blockAt + 2 * al + 3]), "harness: reference ports");
        }
    }
    if (want.hasAddr && cmd == 1) {
        vf_assert(want.ntlv == ntlv, "harness: reference TLV count");
        for (unsigned k = 0; k < ntlv; ++k) vf_assert(want.tlv[k].type == tl[k].type && want.tlv[k].off == tl[k].off && want.tlv[k].len == tl[k].len, "harness: reference TLVs");
    } else
        vf_assert(want.ntlv == 0, "harness: no TLVs for LOCAL/UNSPEC");
    check(in, n);
}
// mutations of a valid header (PROXY command, TCP over IPv4, 127.0.0.1:65535 -> 10.0.0.5:80, one TLV of type 4 with value
// "xy", then one byte 'G' of the next protocol): unconstrained bytes at a group of positions chosen by case split
extern "C" void c38_v2_mutated(void)
{
    static const uint8_t base[] = {0x0D, 0x0A, 0x0D, 0x0A, 0x00, 0x0D, 0x0A, 0x51, 0x55, 0x49, 0x54, 0x0A, 0x21, 0x11, 0x00, 0x11,
                                   127, 0, 0, 1, 10, 0, 0, 5, 0xff, 0xff, 0, 80, 4, 0, 2, 'x', 'y', 'G'};
    // groups: version/command + family/protocol; the two length bytes; TLV type and length; a magic byte + version/command;
    // family/protocol + low length byte
    // (thorough) all four bytes after the magic; both length bytes + both TLV length bytes
    static const int groups[][4] = {{12, 13, -1, -1}, {14, 15, -1, -1}, {28, 29, 30, -1}, {10, 12, -1, -1}, {13, 15, -1, -1}, {12, 13, 14, 15}, {14, 15, 29, 30}};
    uint8_t in[sizeof(base)];
    memcpy(in, base, sizeof(base));
#ifdef VF_THOROUGH
    const unsigned g = (unsigned)vf_concretize(vf_range(0, 6, "group"));
#else
    const unsigned g = (unsigned)vf_concretize(vf_range(0, 4, "group"));
#endif
    for (unsigned k = 0; k < 4; ++k) if (groups[g][k] >= 0) in[groups[g][k]] = vf_nondet_u8("b");
    check(in, sizeof(base));
}

// KNOWN FINDING C38-lenient-v1 (known_findings.json): leading zeros in ports, inet_aton-only IPv4 forms
extern "C" void c38_known_lenient_v1(void)
{
    onlyLenient = true;
    static const char *const lits[2] = {"PROXY TCP4 1.2.3.4 5.6.7.8 \x01\x01 2\r\n", "PROXY TCP4 1.2.\x01 5.6.7.8 1 2\r\n"};
    const unsigned which = vf_choose(2, "skeleton");
    uint8_t in[MAXIN];
    const unsigned n = vf_fill(in, lits[which], strlen(lits[which]), "b");
    check(in, n);
}
