// C49: mem_hdr (in-memory object data) returns exactly what was written.
// Real mem_hdr/mem_node/Splay code. Reference = a sparse byte map (present[], val[]).
// c49_window / c49_page / c49_tree: offsets are base + d with a representative base (0, 1 or 2^40+7: the code looks only at
//   offset differences, offset > 0 and offset >= 0; a fully symbolic 64-bit base costs ~100x in solver time) and case-split
//   small d, so that the layout (adjacent / gap / order of arrival / node-full boundary / splay shape) is enumerated by the
//   solver; data bytes of small writes are symbolic. After every operation the store is probed byte by byte, at the end every
//   range of the window is queried (hasContigousContentRange) and read (copy).
// c49_sparse: every write offset, the release offset and the probe/read offset are independent symbolic values in [0, 3 pages + 16].
// Assumed (caller contract of stmem.cc): writes do not overlap data that is present; copy() is asked for a non-empty range whose
//   first byte is present (mem_hdr::copy() fatal_dump()s otherwise: "we shouldn't ever ask for absent offsets").
#include "squid.h"
#include "mem_node.h"
#include "stmem.h"
#include "common.h"

#define PAGE SM_PAGE_SIZE
#define NPOS_ (PAGE + 16) // reference positions, relative to base

static unsigned pick(unsigned n, const char *name) { return (unsigned)vf_concretize(vf_range(0, n - 1, name)); }

struct Model {
    bool present[NPOS_];
    uint8_t val[NPOS_];
    int hi = 0; // end of the highest byte ever written
    Model() { for (int i = 0; i < NPOS_; ++i) present[i] = false; }
    int lowest() const { for (int i = 0; i < NPOS_; ++i) if (present[i]) return i; return -1; }
    bool all(int a, int b) const { for (int i = a; i < b; ++i) if (!present[i]) return false; return true; }
    int run(int a, int max) const { int n = 0; while (n < max && a + n < NPOS_ && present[a + n]) ++n; return n; }
};

struct World {
    mem_hdr hdr;
    Model m;
    int64_t base;
    int w0, wn; // the window of positions the operations address
    bool big = false;

    void write(int d, int len, bool symbolicData)
    {
        vf_assume(d + len <= NPOS_);
        for (int i = 0; i < len; ++i) vf_assume(!m.present[d + i]); // non-overlapping writes (stmem.cc fatal_dump()s on overlap)
        static char buf[NPOS_];
        for (int i = 0; i < len; ++i) {
            m.val[d + i] = symbolicData ? vf_nondet_u8("data") : (uint8_t)('A' + (d + i) % 61 + (d + i) / 61 % 3);
            buf[i] = (char)m.val[d + i]; m.present[d + i] = true;
        }
        if (d + len > m.hi) m.hi = d + len;
        vf_assert(hdr.write(StoreIOBuffer(len, base + d, buf)), "write() of a non-overlapping range succeeds");
    }
    void release(int r)
    {
        const int lowBefore = m.lowest();
        const int64_t ret = hdr.freeDataUpto(base + r);
        if (lowBefore < 0) { vf_assert(ret == 0, "freeDataUpto() on an empty store"); return; }
        const int cut = (int)(int64_t)vf_concretize((uint64_t)(ret - base)); // the new lowest offset, relative
        vf_assert(cut >= lowBefore && cut < NPOS_ && m.present[cut], "freeDataUpto() returns the offset of a byte that is present");
        for (int p = r > 0 ? r : 0; p < cut; ++p) vf_assert(!m.present[p], "freeDataUpto(t) never removes a byte at or after t");
        for (int p = 0; p < cut; ++p) m.present[p] = false; // everything below the reported lowest offset is gone
        vf_reach(cut > lowBefore ? "released" : "kept");
    }
    bool has(int a, int b) const { return hdr.hasContigousContentRange(Range<int64_t>(base + a, base + b)); }
    void probe()
    {
        for (int p = w0; p < w0 + wn; ++p) vf_assert(has(p, p + 1) == m.present[p], "a byte is in memory iff it was written and not released");
        if (big) { vf_assert(has(0, 1) == m.present[0] && has(1, 2) == m.present[1] && has(PAGE - 4, PAGE - 3) == m.present[PAGE - 4], "bytes of the first page"); }
        const int low = m.lowest();
        vf_assert(hdr.lowestOffset() == (low < 0 ? 0 : base + low), "lowestOffset() is the lowest byte in memory");
        vf_assert(hdr.endOffset() == (low < 0 ? 0 : base + m.hi), "endOffset() is the end of the highest byte written");
        vf_observe("low", low); vf_observe("hi", m.hi); vf_observe("nodes", hdr.size());
    }
    void readRange(int a, int n)
    {
        static char out[NPOS_ + 2];
        out[0] = '#'; for (int i = 0; i <= n; ++i) out[1 + i] = '#';
        const ssize_t got = hdr.copy(StoreIOBuffer(n, base + a, out + 1));
        const int want = m.run(a, n);
        vf_assert(got == want, "copy() returns the bytes up to the first missing byte");
        unsigned diff = 0; for (int i = 0; i < want; ++i) diff |= (uint8_t)out[1 + i] ^ m.val[a + i];
        vf_assert(diff == 0, "copy() returns exactly the written bytes");
        vf_assert(out[0] == '#' && out[1 + (got >= 0 && got <= n ? got : 0)] == '#', "copy() writes nothing beyond what it returns");
        vf_reach(want < n ? "short-read" : "full-read");
    }
    void finalChecks()
    {
        const int e = w0 + wn;
        for (int a = w0; a <= e; ++a)
            for (int b = a; b <= e; ++b) vf_assert(has(a, b) == m.all(a, b), "hasContigousContentRange() iff every byte of the range is in memory");
        for (int a = w0; a < e; ++a) if (m.present[a]) readRange(a, e - a);
        if (big && m.present[PAGE - 6]) { readRange(PAGE - 6, 12); if (m.present[0]) vf_assert(has(0, e) == m.all(0, e), "contiguity across pages"); }
    }
    void step(int maxLen)
    {
        if (pick(3, "op") < 2) { const int d = w0 + (int)pick(wn, "pos"), len = 1 + (int)pick(maxLen, "len"); vf_assume(d + len <= w0 + wn); write(d, len, true); vf_reach("write"); }
        else { const unsigned r = pick(wn + 3, "upto"); release(r <= (unsigned)wn ? w0 + (int)r : r == (unsigned)wn + 1 ? 1 : NPOS_); }
        probe();
    }
};

#ifdef VF_THOROUGH
#define NBASES 2
#define PBASES 1
#define WINDOW 5
#define MAXLEN 2
#define STEPS 4
#define PSTEPS 3
#define SITES 5
#define TREE_WRITES 5
#define TREE_OPS 3
#else
#define NBASES 2
#define PBASES 1
#define WINDOW 5
#define MAXLEN 2
#define STEPS 3
#define PSTEPS 2
#define SITES 5
#define TREE_WRITES 4
#define TREE_OPS 2
#endif

// the base offset of the window: case-split over representatives (the code only looks at differences of offsets, at offset > 0 and >= 0)
static int64_t anyBase(unsigned n) { static const int64_t bases[] = {((int64_t)1 << 40) + 7, 0}; return bases[pick(n, "base")]; }

// small writes / releases inside a window of a few bytes
extern "C" void c49_window(void)
{
    vf_quiet();
    static World w;
    w.base = anyBase(NBASES); w.w0 = 0; w.wn = WINDOW;
    for (int i = 0; i < STEPS; ++i) w.step(MAXLEN);
    w.finalChecks();
    vf_reach("done");
    WITNESS_POINT();
}

// node capacity boundary: one write of 4094..4098 concrete bytes at base (fills the first node, may start a second one),
// then small writes / releases in a window around base+4096
extern "C" void c49_page(void)
{
    vf_quiet();
    static World w;
    w.base = anyBase(PBASES); w.big = true; w.w0 = PAGE - 3; w.wn = 8;
    w.write(0, PAGE - 2 + (int)pick(5, "biglen"), false);
    w.probe();
    for (int i = 0; i < PSTEPS; ++i) w.step(2);
    w.finalChecks();
    vf_reach("done");
    WITNESS_POINT();
}

// splay shapes: single-byte nodes at the even positions 0,2,..,2*(SITES-1); TREE_WRITES of them are written in any order, then
// TREE_OPS operations, each a one-byte presence query, a freeDataUpto() or another write; then every range is queried and read.
// (c49_window probes all positions in ascending order after every step, which always leaves the same left-leaning tree.)
extern "C" void c49_tree(void)
{
    vf_quiet();
    static World w;
    w.base = 1; w.w0 = 0; w.wn = 2 * SITES;
    for (int i = 0; i < TREE_WRITES + TREE_OPS; ++i) {
        const unsigned op = i < TREE_WRITES ? 0 : pick(3, "op");
        const int site = 2 * (int)pick(SITES, "site");
        if (op == 0) { w.write(site, 1, true); vf_reach("write"); }
        else if (op == 1) vf_assert(w.has(site, site + 1) == w.m.present[site], "a byte is in memory iff it was written and not released");
        else w.release(site + 1);
    }
    w.probe();
    w.finalChecks();
    vf_reach("done");
    WITNESS_POINT();
}

// ---------------------------------------------------------------- independent symbolic offsets
#define NW 2
#ifdef VF_THOROUGH
#define RD 5
#define WLEN 3
#else
#define RD 3
#define WLEN 2
#endif
// far == true: the offsets are F + d with F case-split over {0, 2^31, 3*2^30, 2^32, 2^32 + 2^31} and d symbolic in 0..5, so that the
// differences between node offsets do not fit into 31 bits (a multi-GiB object with sparse ranges in memory)
static int64_t farOffset(const char *what)
{
    static const int64_t F[5] = {0, int64_t(1) << 31, int64_t(3) << 30, int64_t(1) << 32, (int64_t(1) << 32) + (int64_t(1) << 31)};
    const int64_t d = (int64_t)vf_nondet_u8(what); vf_assume(d >= 0 && d <= 5);
    return F[pick(5, "far")] + d;
}
static void sparse(const bool far)
{
    vf_quiet();
    static mem_hdr hdr;
    const int64_t LIM = 3 * PAGE + 8;
    int64_t off[NW]; int len[NW]; uint8_t data[NW][WLEN];
    for (int i = 0; i < NW; ++i) {
        if (far) off[i] = farOffset("offset");
        else { off[i] = (int64_t)vf_nondet_u16("offset"); vf_assume(off[i] >= 0 && off[i] <= LIM); }
        len[i] = 1 + (int)pick(WLEN, "len");
        for (int j = 0; j < i; ++j) vf_assume(off[i] + len[i] <= off[j] || off[j] + len[j] <= off[i]); // non-overlapping
        for (int k = 0; k < len[i]; ++k) data[i][k] = vf_nondet_u8("data");
        vf_assert(hdr.write(StoreIOBuffer(len[i], off[i], (char *)data[i])), "write() of a non-overlapping range succeeds");
    }
    // reference: byte q is in memory iff some write covers it and it is not below the cut reported by freeDataUpto()
    int64_t cut = 0;
    if (vf_bool("release")) {
        int64_t t;
        if (far) t = farOffset("upto");
        else { t = (int64_t)vf_nondet_u16("upto"); vf_assume(t >= 0 && t <= LIM + 8); }
        cut = hdr.freeDataUpto(t);
        bool cutIsWritten = false;
        for (int i = 0; i < NW; ++i) {
            cutIsWritten = cutIsWritten || cut == off[i];
            for (int k = 0; k < len[i]; ++k) vf_assert(off[i] + k < t || off[i] + k >= cut, "freeDataUpto(t) never removes a byte at or after t");
        }
        vf_assert(cutIsWritten, "freeDataUpto() returns the offset of a written range");
        vf_reach("released-or-kept");
    }
    int64_t q;
    if (far) q = farOffset("probe");
    else { q = (int64_t)vf_nondet_u16("probe"); vf_assume(q >= 0 && q <= LIM + 8); }
    // run of present bytes starting at q (at most RD)
    int run = 0; bool open = true; uint8_t expect[RD];
    for (int j = 0; j < RD; ++j) {
        bool here = false;
        for (int i = 0; i < NW; ++i) for (int k = 0; k < len[i]; ++k) if (off[i] + k == q + j && q + j >= cut) { here = true; expect[j] = data[i][k]; }
        open = open && here;
        if (open) ++run;
    }
    for (int n = 0; n <= RD; n += n ? 2 : 1) // n = 0, 1, 3 (, 5)
        vf_assert(hdr.hasContigousContentRange(Range<int64_t>(q, q + n)) == (run >= n), "hasContigousContentRange() iff every byte of the range is in memory");
    if (run > 0) {
        char out[RD + 2]; for (int j = 0; j < RD + 2; ++j) out[j] = '#';
        const ssize_t got = hdr.copy(StoreIOBuffer(RD, q, out + 1));
        vf_assert(got == run, "copy() returns the bytes up to the first missing byte");
        for (int j = 0; j < run; ++j) vf_assert((uint8_t)out[1 + j] == expect[j], "copy() returns exactly the written bytes");
        vf_assert(out[0] == '#' && out[1 + run] == '#', "copy() writes nothing beyond what it returns");
        vf_reach(run < RD ? "short-read" : "full-read");
    } else
        vf_reach("absent");
    vf_observe("run", run);
    WITNESS_POINT();
}
extern "C" void c49_sparse(void) { sparse(false); }
extern "C" void c49_far(void) { sparse(true); }
